package diff

import (
	"strconv"
	"encoding/csv"
	"encoding/json"
	"fmt"
	"os"
	"path/filepath"
	"sort"
	"strings"

	"verifharness/internal/child"
	"verifharness/internal/cli"
	"verifharness/internal/tbl"
)

// ReplayCLI runs a DiffGen pair through the COMMAND LINE: both tables are committed on two branches of a
// real repository and `wrgl diff x y --no-gui` writes its DIFF_*.csv; the keys it lists as added / removed /
// modified must be the specification's (scaled) sets.  This is the path `wrgl diff` takes to the differ
// (its own lookup of tables and table indexes), which the library replay does not touch.
func ReplayCLI(i int, raw []byte) child.Result {
	var sc scn
	if err := json.Unmarshal(raw, &sc); err != nil {
		return child.Inconclusive(err)
	}
	if sc.B <= 0 || 255%sc.B != 0 {
		return child.Inconclusive(fmt.Errorf("B=%d does not divide 255", sc.B))
	}
	s := 255 / sc.B
	if m, err := strconv.Atoi(os.Getenv("CLIDIFF_MULT")); err == nil && m > 1 && s*m < 1000 {
		s *= m // larger tables (several blocks per abstract key): the worker pools of the command have work to share
	}
	if allZero(sc.T1) || allZero(sc.T2) {
		return child.Pass("-") // an empty CSV cannot be committed through the command line
	}
	work, err := os.MkdirTemp("", "clidiff")
	if err != nil {
		return child.Inconclusive(err)
	}
	defer os.RemoveAll(work)
	r, err := cli.NewRepoFast(work, "r", "")
	if err != nil {
		return child.Inconclusive(err)
	}
	// every other pair is given to `wrgl diff` as two CSV FILES (ingested by the command into its in-memory
	// store, with the worker count of the command line), the others as two committed branches
	// ... a file against a branch (the command's in-memory store on one side, the repository on the other) and,
	// where no row is modified (without a key a modified row is a removed and an added one), two branches whose
	// tables have no primary key
	form := i % 4
	if os.Getenv("CLIDIFF_FILES") != "" {
		form = 1
	}
	files := form == 1
	nopk := form == 3
	for _, e := range sc.Events {
		if k, _ := e[0].(string); k == "mod" {
			nopk = false
		}
	}
	args := []string{"diff", "b1", "b2", "--no-gui"}
	for bi, t := range [][]int{sc.T1, sc.T2} {
		rows := append([][]string{header2}, scaledRows(t, s)...)
		fp, _ := r.WriteFile(fmt.Sprintf("t%d.csv", bi+1), tbl.CSV(rows, 0))
		if files || (form == 2 && bi == 0) {
			args[bi+1] = fp
			continue
		}
		cargs := []string{"commit", fmt.Sprintf("b%d", bi+1), fp, "t", "-n", "1"}
		if !nopk {
			cargs = append(cargs, "-p", header2[0])
		}
		if out, err := r.Run(nil, cargs...); err != nil {
			return child.Inconclusive(fmt.Errorf("commit: %v %s", err, out))
		}
	}
	if files {
		args = append(args, "-p", header2[0], "-n", "8")
	} else if form == 2 {
		args = append(args, "-p", header2[0])
	}
	old, _ := os.Getwd()
	if err := os.Chdir(work); err != nil {
		return child.Inconclusive(err)
	}
	out, runErr := r.Run(nil, args...)
	os.Chdir(old)
	if runErr != nil {
		return child.Fail("diff/cli/error", map[string]interface{}{"error": runErr.Error(), "output": out})
	}
	exp := map[string][]string{"ADDED": {}, "REMOVED": {}, "MODIFIED": {}}
	for _, e := range sc.Events {
		kind, _ := e[0].(string)
		kf, _ := e[1].(float64)
		name := map[string]string{"add": "ADDED", "rem": "REMOVED", "mod": "MODIFIED"}[kind]
		for j := 0; j < s; j++ {
			exp[name] = append(exp[name], realKey(int(kf), j))
		}
	}
	got := map[string][]string{"ADDED": {}, "REMOVED": {}, "MODIFIED": {}}
	names, _ := filepath.Glob(filepath.Join(work, "DIFF_*.csv"))
	if len(names) == 1 {
		f, err := os.Open(names[0])
		if err != nil {
			return child.Inconclusive(err)
		}
		rd := csv.NewReader(f)
		rd.FieldsPerRecord = -1
		recs, err := rd.ReadAll()
		f.Close()
		if err != nil {
			return child.Fail("diff/cli/unparsable", map[string]interface{}{"error": err.Error()})
		}
		for _, rec := range recs {
			if len(rec) < 2 {
				continue
			}
			// the label of a row starts with the kind of change (the rest of the wording is not relied upon)
			for k := range got {
				if strings.HasPrefix(strings.ToUpper(strings.TrimSpace(rec[0])), k) {
					got[k] = append(got[k], rec[1])
				}
			}
		}
	} else if len(names) > 1 {
		return child.Inconclusive(fmt.Errorf("%d DIFF files", len(names)))
	}
	for k := range exp {
		sort.Strings(exp[k])
		sort.Strings(got[k])
		if strings.Join(exp[k], "|") != strings.Join(got[k], "|") {
			return child.Fail("diff/cli/"+strings.ToLower(k), map[string]interface{}{
				"expected": len(exp[k]), "observed": len(got[k]), "output": out,
				"first_expected": first(exp[k]), "first_observed": first(got[k])})
		}
	}
	if files {
		return child.Pass("cli-files")
	}
	if form == 2 {
		return child.Pass("cli-file-branch")
	}
	if nopk {
		return child.Pass("cli-nopk")
	}
	return child.Pass("cli")
}

func first(s []string) string {
	if len(s) == 0 {
		return ""
	}
	return s[0]
}
