package diff

import (
	"bufio"
	"encoding/json"
	"flag"
	"fmt"
	"math/rand"
	"os"
	"sort"
)

// Record (use C) writes N seeded real-scale table pairs, one JSON scenario per
// line.  The pairs are executed by replay children (replayRec: real ingest, real
// diff; a panic in the library goroutine kills only the child and is attributed
// to the pair), which append one trace event per pair to $DIFF_TRACE_DIR; the
// trace is validated by TraceDiff.tla against the set-theoretic diff only.
//
// Unlike the cluster-scaled pairs of use (B) nothing here is aligned with the
// 255-row blocks: random keys of varying length, 0..3 blocks a side, block
// boundaries anywhere in the key space, disjoint / interleaved / nested /
// identical / shifted arrangements, changes placed at the first and last rows
// of blocks, composite keys with ties on the first column, and no-PK tables.
func Record(args []string) error {
	fs := flag.NewFlagSet("record diff", flag.ContinueOnError)
	seed := fs.Int64("seed", 1, "seed")
	n := fs.Int("n", 100, "number of pairs")
	out := fs.String("out", "", "output scenario file")
	huge := fs.Int("huge", 0, "the last pair is a generated pair of tables of more than this many blocks (0: none)")
	if err := fs.Parse(args); err != nil {
		return err
	}
	if *out == "" {
		return fmt.Errorf("--out required")
	}
	f, err := os.Create(*out)
	if err != nil {
		return err
	}
	defer f.Close()
	w := bufio.NewWriterSize(f, 1<<20)
	defer w.Flush()
	for i := 0; i < *n; i++ {
		rng := rand.New(rand.NewSource(*seed*1000003 + int64(i)))
		sc := genPair(rng, i)
		if *huge > 0 && i == *n-1 {
			sc = &RecScenario{Rec: 1, ID: i, Shape: "huge", KC: 1, Cols: 2, T1: [][]string{}, T2: [][]string{}, Huge: *huge}
		}
		b, err := json.Marshal(sc)
		if err != nil {
			return err
		}
		w.Write(b)
		w.WriteByte('\n')
	}
	return nil
}

var shapes = []string{"interleaved", "interleaved", "disjoint", "nested", "identical", "near-identical", "edges", "shifted", "empty"}

var edgeCounts = []int{0, 1, 2, 3, 253, 254, 255, 256, 257, 300, 509, 510, 511, 512, 600, 764, 765}

const maxRows = 765 // three blocks

func pickN(rng *rand.Rand) int {
	if rng.Intn(2) == 0 {
		return edgeCounts[rng.Intn(len(edgeCounts))]
	}
	return rng.Intn(maxRows + 1)
}

const alphabet = "0123456789abcdefXYZ_-"

func randCell(rng *rand.Rand, minLen, maxLen int) string {
	n := minLen + rng.Intn(maxLen-minLen+1)
	b := make([]byte, n)
	for i := range b {
		b[i] = alphabet[rng.Intn(len(alphabet))]
	}
	return string(b)
}

// heads: first cells of composite keys; prefixes of one another on purpose
var heads = []string{"a", "ab", "a-", "b", "B", "0", "00", "zz"}

// pool returns m distinct keys of kcells cells in key order.
func pool(rng *rand.Rand, m, kcells int) [][]string {
	seen := map[string]bool{}
	keys := make([][]string, 0, m)
	nheads := 1 + rng.Intn(len(heads))
	for len(keys) < m {
		var k []string
		if kcells == 1 {
			k = []string{randCell(rng, 1, 6)}
		} else {
			k = []string{heads[rng.Intn(nheads)], randCell(rng, 1, 4)}
		}
		if s := keyString(k); !seen[s] {
			seen[s] = true
			keys = append(keys, k)
		}
	}
	sort.Slice(keys, func(i, j int) bool { return CompareCells(keys[i], keys[j]) < 0 })
	return keys
}

// membership of pool key j: bit 0 = in t1, bit 1 = in t2
func genPair(rng *rand.Rand, id int) *RecScenario {
	shape := shapes[rng.Intn(len(shapes))]
	mode := rng.Intn(4) // 0,1: one key column; 2: two key columns; 3: no primary key
	kc, kcells, cols := 1, 1, 2
	switch mode {
	case 2:
		kc, kcells, cols = 2, 2, 3
	case 3:
		kc, kcells, cols = 0, 2, 2
	}
	var member []int
	// positions worth touching: first / last rows of 255-row blocks
	edgePos := func(n int) []int {
		var ps []int
		for _, p := range []int{0, 1, 253, 254, 255, 256, 508, 509, 510, 511, n - 2, n - 1} {
			if p >= 0 && p < n {
				ps = append(ps, p)
			}
		}
		return ps
	}
	switch shape {
	case "interleaved":
		n1, n2 := pickN(rng), pickN(rng)
		lo := n1
		if n2 < lo {
			lo = n2
		}
		common := 0
		if lo > 0 {
			common = rng.Intn(lo + 1)
		}
		m := n1 + n2 - common
		member = make([]int, m)
		perm := rng.Perm(m)
		for j, p := range perm {
			switch {
			case j < common:
				member[p] = 3
			case j < n1:
				member[p] = 1
			default:
				member[p] = 2
			}
		}
	case "disjoint":
		n1, n2 := pickN(rng), pickN(rng)
		member = make([]int, n1+n2)
		for j := range member {
			if j < n1 {
				member[j] = 1
			} else {
				member[j] = 2
			}
		}
		// a small overlap at the junction
		for o := rng.Intn(3); o > 0; o-- {
			if j := n1 - o; j >= 0 && j < len(member) {
				member[j] = 3
			}
		}
	case "nested":
		n1, n2 := pickN(rng), pickN(rng)
		m := n1 + n2
		member = make([]int, m)
		p := 0
		if n1 > 0 {
			if rng.Intn(2) == 0 {
				ps := edgePos(n1)
				p = ps[rng.Intn(len(ps))]
			} else {
				p = rng.Intn(n1 + 1)
			}
		}
		for j := range member {
			if j >= p && j < p+n2 {
				member[j] = 2
			} else {
				member[j] = 1
			}
		}
		for o := rng.Intn(4); o > 0 && m > 0; o-- {
			member[rng.Intn(m)] = 3
		}
	case "identical":
		n := pickN(rng)
		member = make([]int, n)
		for j := range member {
			member[j] = 3
		}
	case "near-identical", "edges":
		n := 200 + rng.Intn(maxRows-200+1)
		if shape == "edges" {
			n = []int{255, 256, 510, 511, 512, 700, 765}[rng.Intn(7)]
		}
		member = make([]int, n)
		for j := range member {
			member[j] = 3
		}
		ps := edgePos(n)
		changes := 1 + rng.Intn(5)
		if shape == "edges" {
			changes = len(ps)
		}
		for c := 0; c < changes; c++ {
			p := ps[rng.Intn(len(ps))]
			if shape == "edges" {
				p = ps[c]
			}
			member[p] = []int{1, 2, 3, 4}[rng.Intn(4)] // 4 = in both, content differs
		}
	case "shifted":
		n := 256 + rng.Intn(maxRows-256)
		d := 1 + rng.Intn(3)
		member = make([]int, n)
		for j := range member {
			member[j] = 3
		}
		// d keys present on one side only, at the very start or just before a boundary
		at := []int{0, 255 - d, 254}[rng.Intn(3)]
		for j := at; j < at+d && j < n; j++ {
			member[j] = 1
		}
	case "empty":
		n := pickN(rng)
		if rng.Intn(8) == 0 {
			n = 0
		}
		member = make([]int, n)
		for j := range member {
			member[j] = 1
		}
	}
	// which side is which
	if rng.Intn(2) == 0 {
		for j, v := range member {
			if v == 1 {
				member[j] = 2
			} else if v == 2 {
				member[j] = 1
			}
		}
	}
	keys := pool(rng, len(member), kcells)
	pEq := []float64{0, 0.5, 0.9, 1, 1}[rng.Intn(5)]
	vals := []string{"x", "y", "z", ""}
	sc := &RecScenario{Rec: 1, ID: id, Shape: shape, KC: kc, Cols: cols, T1: [][]string{}, T2: [][]string{}}
	for j, mbr := range member {
		k := keys[j]
		if kc == 0 {
			// no-PK: the key cells are the whole row
			if mbr&1 != 0 || mbr == 4 {
				sc.T1 = append(sc.T1, append([]string{}, k...))
			}
			if mbr&2 != 0 || mbr == 4 {
				sc.T2 = append(sc.T2, append([]string{}, k...))
			}
			continue
		}
		v1 := vals[rng.Intn(len(vals))]
		v2 := v1
		if mbr == 4 || (mbr == 3 && (shape == "interleaved" || shape == "disjoint" || shape == "nested") && rng.Float64() >= pEq) {
			for v2 == v1 {
				v2 = vals[rng.Intn(len(vals))]
			}
		}
		if mbr&1 != 0 || mbr == 4 {
			sc.T1 = append(sc.T1, append(append([]string{}, k...), v1))
		}
		if mbr&2 != 0 || mbr == 4 {
			sc.T2 = append(sc.T2, append(append([]string{}, k...), v2))
		}
	}
	rng.Shuffle(len(sc.T1), func(a, b int) { sc.T1[a], sc.T1[b] = sc.T1[b], sc.T1[a] })
	rng.Shuffle(len(sc.T2), func(a, b int) { sc.T2[a], sc.T2[b] = sc.T2[b], sc.T2[a] })
	return sc
}
