package diff

import (
	"encoding/json"
	"fmt"
	"os"
	"reflect"
	"strconv"

	"verifharness/internal/child"
	"verifharness/internal/tbl"
)

// ReplayFault: the diff of a DiffGen pair repeated with a read error injected at the k-th store
// read (see mergex.ReplayFault for the rule): every run must end, and a fault that fired is either
// reported through the error channel or did not matter (same events as without fault).
func ReplayFault(i int, raw []byte) child.Result {
	var sc scn
	if err := json.Unmarshal(raw, &sc); err != nil {
		return child.Inconclusive(err)
	}
	if sc.B <= 0 || 255%sc.B != 0 {
		return child.Inconclusive(fmt.Errorf("B=%d does not divide 255", sc.B))
	}
	s := 255 / sc.B
	t1, err := scaledTable(sc.T1, s, 1)
	if err != nil {
		return child.Inconclusive(err)
	}
	t2, err := scaledTable(sc.T2, s, 1)
	if err != nil {
		return child.Inconclusive(err)
	}
	seed, _ := strconv.Atoi(os.Getenv("VERIF_SEED"))
	count := &tbl.FaultGets{Store: cacheDB}
	base, err := RunDiff(count, t1, t2)
	if err != nil {
		return child.Inconclusive(fmt.Errorf("diff without fault failed: %v", err))
	}
	n := count.Gets()
	fired, reported := 0, 0
	for _, sticky := range []bool{false, true} {
		for _, k := range tbl.FaultPoints(n, 8, seed+i) {
			fs := &tbl.FaultGets{Store: cacheDB, At: k, Sticky: sticky}
			evs, derr := RunDiff(fs, t1, t2)
			if !fs.Fired() {
				continue
			}
			fired++
			if derr != nil {
				reported++
				continue
			}
			if !reflect.DeepEqual(evs, base) {
				return child.Fail("diff/fault/error-swallowed", map[string]interface{}{
					"fault_at_read": k, "sticky": sticky, "reads_without_fault": n,
					"what": "a store read failed during the diff, no error reached the caller and the events differ from the diff without fault",
					"events": len(evs), "events_without_fault": len(base)})
			}
		}
	}
	return child.Pass(fmt.Sprintf("fired=%v reported=%v", fired > 0, reported > 0))
}
