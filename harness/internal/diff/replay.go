package diff

import (
	"errors"
	"encoding/json"
	"fmt"
	"sort"

	objmock "github.com/wrgl/wrgl/pkg/objects/mock"

	"verifharness/internal/child"
)

// ---------------------------------------------------------------- use (B)
//
// A scenario line printed by DiffGen.tla is the JSON tuple
//
//	[B, t1, t2, [[kind,key]...], nopk]
//
// t1/t2: content id (0 absent, 1, 2) of the abstract keys 1..N.  Abstract key
// k stands for the S = 255/B real keys (k,0)..(k,S-1), so that the real
// 255-row blocks are the model's B-row blocks, and an abstract event on k is
// S real events, one per (k,i).

type scn struct {
	B      int
	T1, T2 []int
	Events [][2]interface{}
	NoPK   int
}

func (s *scn) UnmarshalJSON(b []byte) error {
	var raw []json.RawMessage
	if err := json.Unmarshal(b, &raw); err != nil {
		return err
	}
	if len(raw) != 5 {
		return fmt.Errorf("scenario: want 5 fields, got %d", len(raw))
	}
	for i, dst := range []interface{}{&s.B, &s.T1, &s.T2, &s.Events, &s.NoPK} {
		if err := json.Unmarshal(raw[i], dst); err != nil {
			return err
		}
	}
	return nil
}

func realKey(k, i int) string { return fmt.Sprintf("k%02d-%03d", k, i) }

var header2 = []string{"a", "b"}

// scaled tables are cached by content: there are only 3^N of them
type cacheKey struct {
	s    int
	kc   int
	cont string
}

var (
	cacheDB    = objmock.NewStore()
	tableCache = map[cacheKey]*Built{}
	uniCache   = map[[2]int]*Universe{}
)

func scaledRows(t []int, s int) [][]string {
	var rows [][]string
	// descending input order: the stored order is ingest's business
	for k := len(t); k >= 1; k-- {
		if t[k-1] == 0 {
			continue
		}
		for i := s - 1; i >= 0; i-- {
			rows = append(rows, []string{realKey(k, i), fmt.Sprintf("v%d", t[k-1])})
		}
	}
	return rows
}

func scaledTable(t []int, s, kc int) (*Built, error) {
	ck := cacheKey{s, kc, fmt.Sprint(t)}
	if b, ok := tableCache[ck]; ok {
		return b, nil
	}
	rows := scaledRows(t, s)
	b, err := Build(cacheDB, header2, kc, rows)
	if err != nil {
		return nil, err
	}
	if !b.StoredAsGiven(rows) {
		return nil, fmt.Errorf("ingest did not store the %d rows it was given (stored %d): not a diff matter", len(rows), len(b.Rows))
	}
	tableCache[ck] = b
	return b, nil
}

// universe of all N*S potential keys (kc=1: the key cell; kc=0: the whole row,
// whose second cell is always v1)
func scaledUniverse(n, s, kc int) *Universe {
	id := [2]int{n*1000 + s, kc}
	if u, ok := uniCache[id]; ok {
		return u
	}
	var keys [][]string
	for k := 1; k <= n; k++ {
		for i := 0; i < s; i++ {
			if kc == 0 {
				keys = append(keys, []string{realKey(k, i), "v1"})
			} else {
				keys = append(keys, []string{realKey(k, i)})
			}
		}
	}
	u := NewUniverse(keys)
	uniCache[id] = u
	return u
}

func allZero(t []int) bool {
	for _, v := range t {
		if v != 0 {
			return false
		}
	}
	return true
}

func sortProj(p []Proj) {
	sort.Slice(p, func(i, j int) bool {
		a, b := p[i], p[j]
		if a.Key != b.Key {
			return a.Key < b.Key
		}
		if a.Kind != b.Kind {
			return a.Kind < b.Kind
		}
		if a.AtOff != b.AtOff {
			return a.AtOff < b.AtOff
		}
		return a.AtOld < b.AtOld
	})
}

type kk struct {
	kind string
	key  int
}

// compare returns "" when observed is exactly expected (as multisets), else the
// kind of mismatch and a few witnesses.
func compare(exp, obs []Proj) (string, map[string]interface{}) {
	ec, oc := map[kk]int{}, map[kk]int{}
	for _, e := range exp {
		ec[kk{e.Kind, e.Key}]++
	}
	var dup, spurious, missing, offs []Proj
	for _, o := range obs {
		id := kk{o.Kind, o.Key}
		oc[id]++
		if oc[id] == 2 {
			dup = append(dup, o)
		}
		if ec[id] == 0 && oc[id] == 1 {
			spurious = append(spurious, o)
		}
	}
	for _, e := range exp {
		if oc[kk{e.Kind, e.Key}] == 0 {
			missing = append(missing, e)
		}
	}
	em := map[kk]Proj{}
	for _, e := range exp {
		em[kk{e.Kind, e.Key}] = e
	}
	for _, o := range obs {
		if e, ok := em[kk{o.Kind, o.Key}]; ok && (e.AtOff != o.AtOff || e.AtOld != o.AtOld) {
			offs = append(offs, o)
		}
	}
	cut := func(p []Proj) []Proj {
		if len(p) > 6 {
			return p[:6]
		}
		return p
	}
	kind := ""
	switch {
	case len(dup) > 0:
		kind = "key-twice"
	case len(missing) > 0 && len(spurious) > 0:
		kind = "wrong-events"
	case len(missing) > 0:
		kind = "missing"
	case len(spurious) > 0:
		kind = "spurious"
	case len(offs) > 0:
		kind = "offset"
	}
	if kind == "" {
		return "", nil
	}
	return kind, map[string]interface{}{
		"expected_count": len(exp), "observed_count": len(obs),
		"n_missing": len(missing), "n_spurious": len(spurious), "n_twice": len(dup), "n_wrong_offset": len(offs),
		"missing": cut(missing), "spurious": cut(spurious), "twice": cut(dup), "wrong_offset": cut(offs),
		"legend": "Key/AtOff/AtOld are 1-based ranks; for scaled scenarios rank r is real key ((r-1)/S+1, (r-1)%S)",
	}
}

func featureClass(nb1, nb2 int, empty bool) string {
	switch {
	case empty:
		return "empty-side"
	case nb1 <= 1 && nb2 <= 1:
		return "single-block"
	}
	return "multi-block"
}

func replayScaled(sc *scn, kc int) (res child.Result, nb1, nb2 int) {
	if sc.B <= 0 || 255%sc.B != 0 {
		return child.Inconclusive(fmt.Errorf("B=%d does not divide 255", sc.B)), 0, 0
	}
	s := 255 / sc.B
	n := len(sc.T1)
	t1, err := scaledTable(sc.T1, s, kc)
	var t2 *Built
	if err == nil {
		t2, err = scaledTable(sc.T2, s, kc)
	}
	if errors.Is(err, ErrUnreadable) {
		// no diff of this pair can be had: the repository's readers refuse an operand its ingest stored
		return child.Fail("diff/operand-unreadable", map[string]interface{}{"error": err.Error()}), 0, 0
	}
	if err != nil {
		return child.Inconclusive(err), 0, 0
	}
	nb1, nb2 = len(t1.Tbl.Blocks), len(t2.Tbl.Blocks)
	u := scaledUniverse(n, s, kc)
	feat := featureClass(nb1, nb2, allZero(sc.T1) != allZero(sc.T2))
	variant := "pk"
	if kc == 0 {
		variant = "nopk"
	}
	evs, derr := RunDiff(cacheDB, t1, t2)
	if derr != nil {
		return child.Fail("diff/error/"+feat, map[string]interface{}{"error": derr.Error(), "variant": variant}), nb1, nb2
	}
	obs := Project(u, t1, t2, evs)
	var exp []Proj
	for _, e := range sc.Events {
		kind, _ := e[0].(string)
		kf, _ := e[1].(float64)
		k := int(kf)
		for i := 0; i < s; i++ {
			r := (k-1)*s + i + 1
			p := Proj{Kind: kind, Key: r}
			if kind == "add" || kind == "mod" {
				p.AtOff = r
			}
			if kind == "mod" || kind == "rem" {
				p.AtOld = r
			}
			exp = append(exp, p)
		}
	}
	sortProj(exp)
	sortProj(obs)
	if kind, detail := compare(exp, obs); kind != "" {
		detail["variant"] = variant
		detail["S"] = s
		detail["blocks"] = [2]int{nb1, nb2}
		return child.Fail("diff/events/"+kind+"/"+feat, detail), nb1, nb2
	}
	if kind, detail := ReadBackModified(cacheDB, t1, t2, evs); kind != "" {
		detail["variant"] = variant
		return child.Fail("diff/modified-row-pair/"+kind+"/"+feat, detail), nb1, nb2
	}
	return child.Pass(""), nb1, nb2
}

// Replay handles one scenario line: a DiffGen tuple (use B) or a recorded
// real-scale pair (use C, see record.go).
func Replay(i int, raw []byte) child.Result {
	if len(raw) > 0 && raw[0] == '{' {
		return replayRec(i, raw)
	}
	var sc scn
	if err := json.Unmarshal(raw, &sc); err != nil {
		return child.Inconclusive(fmt.Errorf("scenario %d: %v", i, err))
	}
	res, nb1, nb2 := replayScaled(&sc, 1)
	if !res.OK {
		return res
	}
	if sc.NoPK == 1 {
		r2, _, _ := replayScaled(&sc, 0)
		if !r2.OK {
			return r2
		}
	}
	// non-trivial: one side spans at least two blocks and the key sets differ
	keysDiffer := false
	for _, e := range sc.Events {
		if k, _ := e[0].(string); k == "add" || k == "rem" {
			keysDiffer = true
		}
	}
	if (nb1 >= 2 || nb2 >= 2) && keysDiffer {
		return child.Pass(fmt.Sprintf("S%d:%dx%d", 255/sc.B, nb1, nb2))
	}
	return child.Pass("-")
}

// ---------------------------------------------------------------- use (C)

// RecScenario is one seeded real-scale pair written by Record.
type RecScenario struct {
	Rec   int        `json:"rec"`
	ID    int        `json:"id"`
	Shape string     `json:"shape"`
	KC    int        `json:"kc"`   // leading key columns, 0 = no-PK tables
	Cols  int        `json:"cols"` // number of columns
	T1    [][]string `json:"t1"`
	T2    [][]string `json:"t2"`
	// Huge > 0: the rows are not listed but generated (hugePair): a pair of tables of more than Huge full blocks,
	// i.e. with a table index of more than Huge entries (the table index is a block object of its own)
	Huge int `json:"huge"`
}

// hugePair: t1 = n = huge*255 + 77 rows with sequential keys; t2 = t1 with keys removed, added and modified at the
// first and last rows of blocks near the start, around block 255 / 1024 (where counters and capacities of one byte /
// 1024 entries end), in the middle and at the end.  Rows are handed over in descending order.
func hugePair(huge int) (t1, t2 [][]string) {
	n := huge*255 + 77
	key := func(j int) string { return fmt.Sprintf("h%07d", j) }
	val := func(j int) string { return fmt.Sprintf("v%d", j%5) }
	edit := map[int]int{} // 1 = removed in t2, 2 = modified in t2, 3 = a key added after it in t2
	for _, b := range []int{0, 1, 254, 255, 256, 1023, 1024, 1025, huge / 2, huge - 1, huge} {
		if b > huge {
			continue
		}
		base := b * 255
		for off, e := range map[int]int{0: 1, 1: 2, 2: 3, 252: 3, 253: 2, 254: 1} {
			if j := base + off; j < n {
				edit[j] = e
			}
		}
	}
	edit[n-1] = 2
	for j := n - 1; j >= 0; j-- {
		t1 = append(t1, []string{key(j), val(j)})
		switch edit[j] {
		case 1:
		case 2:
			t2 = append(t2, []string{key(j), val(j) + "'"})
		case 3:
			t2 = append(t2, []string{key(j) + "+", "new"}, []string{key(j), val(j)})
		default:
			t2 = append(t2, []string{key(j), val(j)})
		}
	}
	return
}

// compressSame projects a huge pair further: a run of consecutive keys that both tables hold with the same content
// (for which the definition of a diff, which is key by key, wants no event) becomes ONE abstract key of that kind.
// An event for any key of the run lands on that key and is rejected as an event for an unchanged row; two of them
// as a key reported twice.  (TLC takes minutes over sequences of 66,000 entries.)
func compressSame(ev *TraceEvent) {
	nr := make([]int, len(ev.T1)+1)
	var t1, t2 []int
	prevSame := false
	for r := 1; r <= len(ev.T1); r++ {
		same := ev.T1[r-1] != 0 && ev.T1[r-1] == ev.T2[r-1]
		if !(same && prevSame) {
			t1, t2 = append(t1, ev.T1[r-1]), append(t2, ev.T2[r-1])
		}
		nr[r] = len(t1)
		prevSame = same
	}
	for _, e := range ev.Ev {
		for f := 1; f <= 3; f++ { // the key, and the keys of the rows the two offsets address
			if k, ok := e[f].(int); ok && k >= 1 && k < len(nr) {
				e[f] = nr[k]
			}
		}
	}
	ev.T1, ev.T2 = t1, t2
}

// TraceEvent is one NDJSON line for TraceDiff.tla; every field is always present.
type TraceEvent struct {
	Op  string          `json:"op"`
	ID  int             `json:"id"`
	T1  []int           `json:"t1"` // content id per key rank 1..M, 0 = absent
	T2  []int           `json:"t2"`
	Ev  [][]interface{} `json:"ev"` // [kind, keyRank, keyRankAtOffset, keyRankAtOldOffset]
	Err string          `json:"err"`
}

func recHeader(cols int) []string {
	return []string{"a", "b", "c", "d"}[:cols]
}

// abstractTable projects a stored table on the universe: content id per rank.
func abstractTable(u *Universe, t *Built, contents map[string]int) []int {
	out := make([]int, len(u.Keys))
	for _, r := range t.Rows {
		rk := u.Rank(KeyOf(r, t.KC))
		if rk == 0 {
			continue
		}
		if t.KC == 0 {
			out[rk-1] = 1
		} else {
			out[rk-1] = contents[keyString(r[t.KC:])]
		}
	}
	return out
}

func replayRec(i int, raw []byte) child.Result {
	var sc RecScenario
	if err := json.Unmarshal(raw, &sc); err != nil {
		return child.Inconclusive(fmt.Errorf("scenario %d: %v", i, err))
	}
	if sc.Huge > 0 {
		sc.T1, sc.T2 = hugePair(sc.Huge)
	}
	db := objmock.NewStore()
	hdr := recHeader(sc.Cols)
	var t2 *Built
	t1, err := Build(db, hdr, sc.KC, sc.T1)
	if err == nil {
		t2, err = Build(db, hdr, sc.KC, sc.T2)
	}
	if errors.Is(err, ErrUnreadable) {
		// no diff of this pair can be had: its operands cannot be fetched
		return child.Fail("diff/operand-unreadable/recorded", map[string]interface{}{"error": err.Error(), "shape": sc.Shape, "rows1": len(sc.T1), "rows2": len(sc.T2)})
	}
	if err != nil {
		return child.Inconclusive(err)
	}
	// the diff is judged on the tables as stored
	seen := map[string]bool{}
	var keys [][]string
	contSet := map[string]bool{}
	for _, t := range []*Built{t1, t2} {
		for _, r := range t.Rows {
			k := KeyOf(r, t.KC)
			if !seen[keyString(k)] {
				seen[keyString(k)] = true
				keys = append(keys, k)
			}
			if t.KC > 0 {
				contSet[keyString(r[t.KC:])] = true
			}
		}
	}
	u := NewUniverse(keys)
	var conts []string
	for c := range contSet {
		conts = append(conts, c)
	}
	sort.Strings(conts)
	contents := map[string]int{}
	for j, c := range conts {
		contents[c] = j + 1
	}
	ev := TraceEvent{Op: "diff", ID: sc.ID, T1: abstractTable(u, t1, contents), T2: abstractTable(u, t2, contents), Ev: [][]interface{}{}}
	evs, derr := RunDiff(db, t1, t2)
	if derr != nil {
		ev.Err = derr.Error()
	}
	for _, p := range Project(u, t1, t2, evs) {
		ev.Ev = append(ev.Ev, []interface{}{p.Kind, p.Key, p.AtOff, p.AtOld})
	}
	if sc.Huge > 0 {
		compressSame(&ev)
	}
	// side channel to the driver, which assembles the trace file (one reset line
	// before every pair) for TraceDiff.tla
	child.Emit(ev)
	if derr == nil {
		if kind, detail := ReadBackModified(db, t1, t2, evs); kind != "" {
			return child.Fail("diff/modified-row-pair/"+kind+"/recorded", detail)
		}
	}
	nb1, nb2 := len(t1.Tbl.Blocks), len(t2.Tbl.Blocks)
	keysDiffer := false
	for j := range ev.T1 {
		if (ev.T1[j] == 0) != (ev.T2[j] == 0) {
			keysDiffer = true
			break
		}
	}
	class := "-"
	if (nb1 >= 2 || nb2 >= 2) && keysDiffer {
		class = "rec:" + sc.Shape
	}
	if !t1.StoredAsGiven(sc.T1) || !t2.StoredAsGiven(sc.T2) {
		class = "rec:stored-differs-from-input"
	}
	return child.Pass(class)
}
