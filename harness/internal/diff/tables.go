// Package diff binds spec/Diff.tla (property C04) to the real row-level diff
// of wrgl: tables are built through the real ingest into an in-memory object
// store, compared by the real diff.DiffTables, and the emitted events are
// projected to (kind, key rank, key of the row found at Offset, key of the row
// found at OldOffset).  The oracle (which events are expected) is never
// computed here: it comes from TLC, either inside the scenario line
// (replay.go, use B) or by validating the recorded trace (TraceDiff.tla, use C).
package diff

import (
	"errors"
	"bytes"
	"encoding/csv"
	"fmt"
	"io"
	"runtime"
	"sort"
	"strings"
	"time"

	"github.com/go-logr/logr"
	"github.com/pckhoi/meow"
	wdiff "github.com/wrgl/wrgl/pkg/diff"
	"github.com/wrgl/wrgl/pkg/ingest"
	"github.com/wrgl/wrgl/pkg/objects"
	"github.com/wrgl/wrgl/pkg/sorter"
)

// Built is a table stored by the real ingest, read back from the store.
type Built struct {
	Sum  []byte
	Tbl  *objects.Table
	Idx  [][]string // table index as stored
	Rows [][]string // rows as stored, in offset order (block by block)
	KC   int        // number of leading key columns; 0 = no-PK table (the whole row is the key)
}

// KeyOf returns the key cells of a row of a table with kc key columns.
func KeyOf(row []string, kc int) []string {
	if kc == 0 {
		return row
	}
	return row[:kc]
}

func keyString(cells []string) string { return strings.Join(cells, "\x00") }

// CompareCells orders keys the way the abstract key rank is defined: cell by
// cell, bytes.Compare on each cell.
func CompareCells(a, b []string) int {
	for i := 0; i < len(a) && i < len(b); i++ {
		if c := bytes.Compare([]byte(a[i]), []byte(b[i])); c != 0 {
			return c
		}
	}
	return len(a) - len(b)
}

// ErrUnreadable: the ingest reported success and the repository's own readers (objects.GetTable, GetTableIndex,
// GetBlock - what `wrgl diff` and the merger fetch their operands with) refuse what it stored.
var ErrUnreadable = errors.New("a table the ingest stored cannot be read back")

// Build ingests header+rows (kc leading key columns, 0 = no primary key)
// through ingest.IngestTable and reads the stored table back.
func Build(db objects.Store, header []string, kc int, rows [][]string) (*Built, error) {
	buf := bytes.NewBuffer(nil)
	w := csv.NewWriter(buf)
	if err := w.Write(header); err != nil {
		return nil, err
	}
	if err := w.WriteAll(rows); err != nil {
		return nil, err
	}
	w.Flush()
	s, err := sorter.NewSorter(sorter.WithRunSize(1 << 28))
	if err != nil {
		return nil, err
	}
	var pk []string
	if kc > 0 {
		pk = header[:kc]
	}
	sum, err := ingest.IngestTable(db, s, io.NopCloser(bytes.NewReader(buf.Bytes())), pk, logr.Discard())
	if err != nil {
		return nil, fmt.Errorf("ingest: %v", err)
	}
	tbl, err := objects.GetTable(db, sum)
	if err != nil {
		return nil, fmt.Errorf("%w: get table: %v", ErrUnreadable, err)
	}
	idx, err := objects.GetTableIndex(db, sum)
	if err != nil {
		return nil, fmt.Errorf("%w: get table index: %v", ErrUnreadable, err)
	}
	b := &Built{Sum: sum, Tbl: tbl, Idx: idx, KC: kc}
	var bb []byte
	for _, bs := range tbl.Blocks {
		var blk [][]string
		blk, bb, err = objects.GetBlock(db, bb, bs)
		if err != nil {
			return nil, fmt.Errorf("%w: get block: %v", ErrUnreadable, err)
		}
		for _, r := range blk {
			b.Rows = append(b.Rows, append([]string{}, r...))
		}
	}
	return b, nil
}

// StoredAsGiven tells whether the stored rows are exactly the given rows
// (as a set; keys are unique).  When they are not, ingest lost or altered rows,
// which is the business of C01, not of the diff.
func (b *Built) StoredAsGiven(rows [][]string) bool {
	if len(rows) != len(b.Rows) {
		return false
	}
	m := map[string]bool{}
	for _, r := range rows {
		m[keyString(r)] = true
	}
	for _, r := range b.Rows {
		if !m[keyString(r)] {
			return false
		}
	}
	return true
}

// RealEvent is one *objects.Diff as emitted.
type RealEvent struct {
	PK        []byte
	HasSum    bool
	HasOldSum bool
	Off       uint32
	OldOff    uint32
}

// RunDiff runs the real diff.DiffTables on (t1, t2), drains the event channel
// and the error channel.  NOTE: with an empty table on one side the pinned tree
// panics inside the goroutine started by DiffTables; nothing here can recover
// from that, the process dies and the parent attributes it to the scenario.
func RunDiff(db objects.Store, t1, t2 *Built) ([]RealEvent, error) {
	errCh := make(chan error, 4)
	ch, _ := wdiff.DiffTables(db, db, t1.Tbl, t2.Tbl, t1.Idx, t2.Idx, errCh, logr.Discard())
	var evs []RealEvent
	for d := range ch {
		evs = append(evs, RealEvent{
			PK:        append([]byte{}, d.PK...),
			HasSum:    d.Sum != nil,
			HasOldSum: d.OldSum != nil,
			Off:       d.Offset,
			OldOff:    d.OldOffset,
		})
	}
	waitDiffGoroutine()
	select {
	case err := <-errCh:
		return evs, err
	default:
	}
	return evs, nil
}

// ReadBackModified resolves every "modified" event the way the interactive diff table does (RowChangeReader.ReadAt,
// random access) and requires the pair (new row, old row) that the event's offsets address: "each event's
// offsets address the right rows" for the reader of the events as well.
func ReadBackModified(db objects.Store, t1, t2 *Built, evs []RealEvent) (string, map[string]interface{}) {
	cd := wdiff.CompareColumns([2][]string{t2.Tbl.Columns, t2.Tbl.PrimaryKey()}, [2][]string{t1.Tbl.Columns, t1.Tbl.PrimaryKey()})
	rd, err := wdiff.NewRowChangeReader(db, db, t1.Tbl, t2.Tbl, cd)
	if err != nil {
		return "reader-error", map[string]interface{}{"error": err.Error()}
	}
	var mods []RealEvent
	for _, e := range evs {
		if e.HasSum && e.HasOldSum {
			mods = append(mods, e)
			rd.AddRowDiff(&objects.Diff{PK: e.PK, Sum: e.PK, OldSum: e.PK, Offset: e.Off, OldOffset: e.OldOff})
		}
	}
	// last to first: ReadAt is random access
	for i := len(mods) - 1; i >= 0; i-- {
		e := mods[i]
		if int(e.Off) >= len(t1.Rows) || int(e.OldOff) >= len(t2.Rows) {
			continue // judged by the comparison of the events
		}
		got, err := rd.ReadAt(i)
		if err != nil {
			return "read-error", map[string]interface{}{"error": err.Error(), "offset": e.Off, "old_offset": e.OldOff}
		}
		want := cd.CombineRows(0, t1.Rows[e.Off], t2.Rows[e.OldOff])
		if fmt.Sprint(got) != fmt.Sprint(want) {
			return "wrong-rows", map[string]interface{}{"offset": e.Off, "old_offset": e.OldOff, "observed": got, "expected": want}
		}
	}
	return "", nil
}

// waitDiffGoroutine returns once no goroutine of wrgl's pkg/diff is left.  The
// goroutine started by DiffTables closes the event channel in a deferred call,
// i.e. ALSO while it is unwinding a panic: the channel is closed first and the
// runtime kills the process a moment later.  Without this wait the harness
// would meanwhile report the scenario as completed (with a truncated event
// list) and the death would be attributed to the NEXT scenario.  A goroutine
// that ended normally is gone within microseconds; a panicking one never goes
// away, the process dies while we wait here, with the right scenario in flight.
var leaky bool // pkg/diff keeps a goroutine around: do not wait long for it again

func waitDiffGoroutine() {
	buf := make([]byte, 1<<16)
	patience := 3 * time.Second
	if leaky {
		patience = 20 * time.Millisecond
	}
	deadline := time.Now().Add(patience)
	for n := 0; ; n++ {
		st := buf[:runtime.Stack(buf, true)]
		if !bytes.Contains(st, []byte("github.com/wrgl/wrgl/pkg/diff.")) {
			return
		}
		if time.Now().After(deadline) {
			leaky = true // a goroutine that stays (blocked or a worker), not a dying one
			return
		}
		if n < 10 {
			runtime.Gosched()
		} else {
			time.Sleep(50 * time.Microsecond)
		}
	}
}

// Universe numbers keys by their rank (1-based) in cell-wise byte order.
type Universe struct {
	rank   map[string]int // keyString -> rank
	byHash map[string]int // 16-byte key hash as used in block indices -> rank
	Keys   [][]string     // Keys[rank-1]
}

// NewUniverse ranks the given distinct keys.
func NewUniverse(keys [][]string) *Universe {
	ks := append([][]string{}, keys...)
	sort.Slice(ks, func(i, j int) bool { return CompareCells(ks[i], ks[j]) < 0 })
	u := &Universe{rank: map[string]int{}, byHash: map[string]int{}, Keys: ks}
	enc := objects.NewStrListEncoder(true)
	h := meow.New(0)
	for i, k := range ks {
		u.rank[keyString(k)] = i + 1
		h.Reset()
		h.Write(enc.Encode(k))
		u.byHash[string(h.Sum(nil))] = i + 1
	}
	return u
}

func (u *Universe) Rank(key []string) int { return u.rank[keyString(key)] }

// Proj is the projection of one real event: kind, rank of the key the event is
// about (from its PK hash; 0 = a hash that belongs to no key of the scenario),
// rank of the key of the row actually stored at Offset in table 1 and at
// OldOffset in table 2 (0 = the offset addresses no row, or not applicable).
type Proj struct {
	Kind  string
	Key   int
	AtOff int
	AtOld int
}

func keyAt(u *Universe, t *Built, off uint32) int {
	if int(off) >= len(t.Rows) {
		return 0
	}
	return u.Rank(KeyOf(t.Rows[off], t.KC))
}

// Project maps real events to the abstract ones.
func Project(u *Universe, t1, t2 *Built, evs []RealEvent) []Proj {
	out := make([]Proj, 0, len(evs))
	for _, e := range evs {
		p := Proj{Key: u.byHash[string(e.PK)]}
		switch {
		case e.HasSum && e.HasOldSum:
			p.Kind = "mod"
			p.AtOff = keyAt(u, t1, e.Off)
			p.AtOld = keyAt(u, t2, e.OldOff)
		case e.HasSum:
			p.Kind = "add"
			p.AtOff = keyAt(u, t1, e.Off)
		case e.HasOldSum:
			p.Kind = "rem"
			p.AtOld = keyAt(u, t2, e.OldOff)
		default:
			p.Kind = "none"
		}
		out = append(out, p)
	}
	return out
}
