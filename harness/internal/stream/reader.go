// Package stream binds spec/Stream.tla (the io.Reader contract and the theorem "decoding
// does not depend on the chunking", property C18) to the real wrgl stream decoders.
//
// A scenario is a delivery schedule printed by TLC from spec/StreamGen.tla:
//
//	["sch", stream id, cuts, ewd, hard]
//
// for one of the streams defined by the ["def", ...] lines of the same TLC run (bytes,
// field boundaries, the items and the end-of-stream condition of the whole-buffer decode).
// The scripted reader below delivers exactly that schedule into the real decoder; the
// result must equal the whole-buffer decode of the same bytes and the specification's.
package stream

import (
	"io"
	"path/filepath"
	"regexp"
	"runtime"
	"sort"
	"strings"
)

// Call is one answered Read: the scripted reader's own log (validated against the
// io.Reader contract by spec/TraceStream.tla).
type Call struct {
	Req  int
	N    int
	EOF  bool
	Site string // wrgl function that issued the call (recorded for short / data+EOF answers only)
}

// Reader delivers data according to a schedule: a Read never crosses a cut, what is left of
// a chunk is delivered by the following calls; EOF is reported together with the last bytes
// (ewd) or on the call after them, and from then on always.
type Reader struct {
	data  []byte
	cuts  []int // sorted, strictly inside the stream
	ewd   bool
	pos   int
	Calls []Call
	closed bool
}

func NewReader(data []byte, cuts []int, ewd bool) *Reader {
	cs := make([]int, 0, len(cuts))
	for _, c := range cuts {
		if c >= 1 && c < len(data) {
			cs = append(cs, c)
		}
	}
	sort.Ints(cs)
	return &Reader{data: data, cuts: cs, ewd: ewd}
}

func (r *Reader) nextCut() int {
	i := sort.SearchInts(r.cuts, r.pos+1)
	if i < len(r.cuts) {
		return r.cuts[i]
	}
	return len(r.data)
}

func (r *Reader) Read(p []byte) (int, error) {
	req := len(p)
	if req == 0 {
		r.Calls = append(r.Calls, Call{})
		return 0, nil
	}
	if r.pos == len(r.data) {
		r.Calls = append(r.Calls, Call{Req: req, EOF: true})
		return 0, io.EOF
	}
	n := r.nextCut() - r.pos
	if req < n {
		n = req
	}
	copy(p, r.data[r.pos:r.pos+n])
	// io.Reader: "Even if Read returns n < len(p), it may use all of p as scratch space during
	// the call."  Zeroing the rest makes a decoder that takes one Read for the whole field fail
	// the same way on every run instead of depending on what its buffer held before.
	for i := n; i < req; i++ {
		p[i] = 0
	}
	r.pos += n
	eof := r.ewd && r.pos == len(r.data)
	c := Call{Req: req, N: n, EOF: eof}
	if n < req || eof {
		c.Site = callSite()
	}
	r.Calls = append(r.Calls, c)
	if eof {
		return n, io.EOF
	}
	return n, nil
}

func (r *Reader) Close() error { r.closed = true; return nil }

// Pos is the number of bytes delivered.
func (r *Reader) Pos() int { return r.pos }

// FirstPartial returns the first call that was answered short (fewer bytes than requested,
// no EOF) or with data and EOF together: under a schedule of ONE such element this is the
// call whose issuer did not cope.
func (r *Reader) FirstPartial() (Call, string, bool) {
	for _, c := range r.Calls {
		if c.EOF && c.N > 0 {
			return c, "eof-with-data", true
		}
		if !c.EOF && c.N > 0 && c.N < c.Req {
			return c, "short-read", true
		}
	}
	return Call{}, "", false
}

// callSite names the innermost wrgl function that called Read, looking through the standard
// library (io.ReadFull ...) and through pure pass-through wrappers (encoding.Parser.Read).
// It is used for the violation signature only.
func callSite() string {
	var pcs [24]uintptr
	n := runtime.Callers(3, pcs[:]) // skip Callers, callSite, Reader.Read
	frames := runtime.CallersFrames(pcs[:n])
	for {
		f, more := frames.Next()
		name := f.Function
		switch {
		case name == "":
		case !strings.Contains(name, "/") && !strings.HasPrefix(name, "verifharness"): // io., bufio., bytes. ...
		case strings.HasSuffix(name, "pkg/encoding.(*Parser).Read"):
		case strings.HasPrefix(name, "verifharness/"):
			return "harness"
		default:
			return siteName(name, f.File)
		}
		if !more {
			return "unknown"
		}
	}
}

var closureSuffix = regexp.MustCompile(`(\.func\d+|\.\d+|\.gowrap\d+)+$`)

// siteName: github.com/wrgl/wrgl/pkg/objects.(*Table).readBlock -> objects.Table.readBlock.
// A closure is named after the function that creates it (objline.ReadBytes.func1 ->
// objline.ReadBytes); when the compiler inlined that function into a caller of another package
// (objects.(*Commit).ReadFrom.ReadBytes.func5, source file .../objline/field.go) the package of
// the source file is used, so that the name does not depend on inlining decisions.
func siteName(fn, file string) string {
	if i := strings.LastIndex(fn, "/"); i >= 0 {
		fn = fn[i+1:]
	}
	fn = strings.ReplaceAll(fn, "(*", "")
	fn = strings.ReplaceAll(fn, ")", "")
	stripped := closureSuffix.ReplaceAllString(fn, "")
	if stripped != fn {
		fn = stripped
		pkg := fn
		if i := strings.Index(fn, "."); i >= 0 {
			pkg = fn[:i]
		}
		if fp := filepath.Base(filepath.Dir(file)); fp != pkg && fp != "" && fp != "." {
			last := fn
			if i := strings.LastIndex(fn, "."); i >= 0 {
				last = fn[i+1:]
			}
			fn = fp + "." + last
		}
	}
	return fn
}
