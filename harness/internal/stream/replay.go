package stream

import (
	"bufio"
	"bytes"
	"encoding/json"
	"fmt"
	"hash/fnv"
	"os"
	"sort"
	"strconv"
	"sync"

	"verifharness/internal/child"
	"verifharness/internal/wire"
)

// def is one stream of spec/StreamGen.tla (a ["def", ...] line).
type def struct {
	ID    int
	Kind  string
	End   string // the specification's end-of-stream condition of the whole-buffer decode: "EOF" | "Done"
	Data  []byte
	Segs  []seg
	Items []Item
	Total int
	Cand  []int
	ref    []*Outcome // whole-buffer decode by every real decoder of the kind (computed once)
	refBad []string
}

type seg struct {
	Tag string
	Len int
}

var (
	defsOnce sync.Once
	defs     map[int]*def
	defsErr  error
)

func runsBytes(raw json.RawMessage) ([]byte, error) {
	var r wire.Runs
	if err := json.Unmarshal(raw, &r); err != nil {
		return nil, fmt.Errorf("runs: %v in %.60s", err, raw)
	}
	for _, x := range r {
		if x[0] < 0 || x[0] > 255 || x[1] < 1 || x[1] > 1<<24 {
			return nil, fmt.Errorf("bad run %v", x)
		}
	}
	return r.Bytes(), nil
}

func parseDef(line []byte) (*def, error) {
	var t []json.RawMessage
	if err := json.Unmarshal(line, &t); err != nil || len(t) != 9 {
		return nil, fmt.Errorf("def line: %v (%d fields)", err, len(t))
	}
	d := &def{}
	var tag string
	for i, dst := range []interface{}{&tag, &d.ID, &d.Kind, &d.End} {
		if err := json.Unmarshal(t[i], dst); err != nil {
			return nil, fmt.Errorf("def field %d: %v", i, err)
		}
	}
	if tag != "def" {
		return nil, fmt.Errorf("not a def line: %q", tag)
	}
	var err error
	if d.Data, err = runsBytes(t[4]); err != nil {
		return nil, err
	}
	var segs [][2]json.RawMessage
	if err = json.Unmarshal(t[5], &segs); err != nil {
		return nil, fmt.Errorf("segs: %v", err)
	}
	sum := 0
	for _, s := range segs {
		var sg seg
		if err = json.Unmarshal(s[0], &sg.Tag); err != nil {
			return nil, err
		}
		if err = json.Unmarshal(s[1], &sg.Len); err != nil {
			return nil, err
		}
		sum += sg.Len
		d.Segs = append(d.Segs, sg)
	}
	var items []json.RawMessage
	if err = json.Unmarshal(t[6], &items); err != nil {
		return nil, fmt.Errorf("items: %v", err)
	}
	for _, it := range items {
		switch d.Kind {
		case "packfile":
			var p [2]json.RawMessage
			if err = json.Unmarshal(it, &p); err != nil {
				return nil, fmt.Errorf("packfile item: %v", err)
			}
			var x Item
			if err = json.Unmarshal(p[0], &x.Type); err != nil {
				return nil, err
			}
			if x.Body, err = runsBytes(p[1]); err != nil {
				return nil, err
			}
			d.Items = append(d.Items, x)
		case "pktline":
			b, err := runsBytes(it)
			if err != nil {
				return nil, err
			}
			d.Items = append(d.Items, Item{0, b})
		default:
			return nil, fmt.Errorf("items on a %s stream", d.Kind)
		}
	}
	if err = json.Unmarshal(t[7], &d.Total); err != nil {
		return nil, err
	}
	if err = json.Unmarshal(t[8], &d.Cand); err != nil {
		return nil, err
	}
	if d.Total != len(d.Data) || sum != d.Total {
		return nil, fmt.Errorf("stream %d: total %d, %d bytes, fields sum to %d", d.ID, d.Total, len(d.Data), sum)
	}
	if _, ok := decoders[d.Kind]; !ok {
		return nil, fmt.Errorf("stream %d: no decoder for kind %q", d.ID, d.Kind)
	}
	return d, nil
}

// loadDefs reads the stream definitions named by VERIF_STREAM_DEFS (written by the driver from
// the same TLC run as the scenarios).
func loadDefs() (map[int]*def, error) {
	defsOnce.Do(func() {
		path := os.Getenv("VERIF_STREAM_DEFS")
		if path == "" {
			defsErr = fmt.Errorf("VERIF_STREAM_DEFS is not set")
			return
		}
		f, err := os.Open(path)
		if err != nil {
			defsErr = err
			return
		}
		defer f.Close()
		defs = map[int]*def{}
		sc := bufio.NewScanner(f)
		sc.Buffer(make([]byte, 1<<20), 1<<26)
		for sc.Scan() {
			if len(bytes.TrimSpace(sc.Bytes())) == 0 {
				continue
			}
			d, err := parseDef(sc.Bytes())
			if err != nil {
				defsErr = err
				return
			}
			defs[d.ID] = d
		}
		defsErr = sc.Err()
	})
	return defs, defsErr
}

// expectedEnd maps the specification's end-of-stream condition to the projection of the real
// decoders: an item sequence ends with the decoder REPORTING the clean end (io.EOF from
// ReadObject / ReadPktLine); ReadCommitFrom meets the end itself (looking for a further
// "parent") and returns the commit; a count-delimited decoder returns with the stream exhausted.
func expectedEnd(kind, specEnd string) (string, error) {
	switch {
	case (kind == "packfile" || kind == "pktline") && specEnd == "EOF":
		return "EOF", nil
	case kind == "commit" && specEnd == "EOF":
		return "OK", nil
	case kind != "packfile" && kind != "pktline" && kind != "commit" && specEnd == "Done":
		return "OK", nil
	}
	return "", fmt.Errorf("kind %s with specification end %q", kind, specEnd)
}

// matchesSpec: the outcome is the one the specification gives for the stream.
func (d *def) matchesSpec(o *Outcome) string {
	want, err := expectedEnd(d.Kind, d.End)
	if err != nil {
		return err.Error()
	}
	if o.End != want || o.Err != "" {
		return fmt.Sprintf("end-of-stream condition %q (error %q), specification: %q", o.End, o.Err, want)
	}
	if d.Kind == "packfile" || d.Kind == "pktline" {
		if len(o.Items) != len(d.Items) {
			return fmt.Sprintf("%d items, specification: %d", len(o.Items), len(d.Items))
		}
		for i := range d.Items {
			if o.Items[i].Type != d.Items[i].Type || !bytes.Equal(o.Items[i].Body, d.Items[i].Body) {
				return fmt.Sprintf("item %d differs from the specification's", i)
			}
		}
		return ""
	}
	if !bytes.Equal(o.Reenc, d.Data) {
		return "the decoded object is not the one the stream encodes (re-encoding differs from the stream bytes)"
	}
	return ""
}

// reference: the whole-buffer decode (a plain in-memory reader that fills every request) by each
// real decoder of the kind; refBad[k] says in what it is NOT the specification's result (then the
// real decoder does not read the format even from a buffer, and every schedule of the stream is
// reported under one signature without looking for a culprit call).
func (d *def) reference() {
	if d.ref != nil {
		return
	}
	for _, dec := range decoders[d.Kind] {
		o := protect(dec, whole{bytes.NewReader(d.Data)}, len(d.Items)+2)
		d.ref = append(d.ref, o)
		d.refBad = append(d.refBad, d.matchesSpec(o))
	}
}

type schedule struct {
	ID   int
	Cuts []int
	EWD  bool
	Hard bool
}

func parseSchedule(raw []byte) (*schedule, error) {
	var t []json.RawMessage
	if err := json.Unmarshal(raw, &t); err != nil || len(t) != 5 {
		return nil, fmt.Errorf("schedule line: %v (%d fields)", err, len(t))
	}
	var tag string
	var ewd, hard int
	s := &schedule{}
	for i, dst := range []interface{}{&tag, &s.ID, &s.Cuts, &ewd, &hard} {
		if err := json.Unmarshal(t[i], dst); err != nil {
			return nil, fmt.Errorf("schedule field %d: %v", i, err)
		}
	}
	if tag != "sch" {
		return nil, fmt.Errorf("not a schedule line: %q", tag)
	}
	sort.Ints(s.Cuts)
	s.EWD, s.Hard = ewd == 1, hard == 1
	return s, nil
}

// run decodes the stream under a schedule with decoder k; returns the outcome and the reader.
func (d *def) run(k int, cuts []int, ewd bool) (*Outcome, *Reader) {
	rd := NewReader(d.Data, cuts, ewd)
	o := protect(decoders[d.Kind][k], scripted{rd}, len(d.Items)+2)
	return o, rd
}

type witness struct {
	Cuts    []int  `json:"cuts"`
	EWD     bool   `json:"eof_with_data"`
	Site    string `json:"site"`
	Mode    string `json:"mode"`
	Call    string `json:"call"`
	Field   string `json:"field"`
	Outcome interface{} `json:"outcome"`
}

// fieldAt names the field (segment of the format) that holds byte offset off.
func (d *def) fieldAt(off int) string {
	p := 0
	for i, s := range d.Segs {
		if off < p+s.Len {
			return fmt.Sprintf("%s#%d[%d..%d)", s.Tag, i+1, p, p+s.Len)
		}
		p += s.Len
	}
	return "end"
}

// attribute explains a failing schedule by its elements: every cut alone and "EOF with the last
// bytes" alone is tried on the real decoder; each element that fails by itself names a culprit -
// the function whose Read was answered short / with data+EOF (there is exactly one such call in
// a one-element schedule).  If no element fails alone the schedule is reduced greedily to a
// 1-minimal one and the issuer of its first partial call is named.
func (d *def) attribute(k int, ref *Outcome, s *schedule) (sigs []string, wits []witness) {
	seen := map[string]bool{}
	add := func(cuts []int, ewd bool, o *Outcome, rd *Reader, combo bool) {
		c, mode, ok := rd.FirstPartial()
		site := "none"
		if ok {
			site = c.Site
		}
		if combo {
			mode = "combination"
		}
		if mode == "" {
			mode = "no-partial-read"
		}
		sig := "stream/" + site + "/" + mode
		if seen[sig] {
			return
		}
		seen[sig] = true
		sigs = append(sigs, sig)
		off := 0
		for _, x := range rd.Calls {
			if x == c {
				break
			}
			off += x.N
		}
		wits = append(wits, witness{Cuts: cuts, EWD: ewd, Site: site, Mode: mode,
			Call: fmt.Sprintf("Read(%d bytes) at offset %d -> n=%d eof=%v", c.Req, off, c.N, c.EOF),
			Field: d.fieldAt(off), Outcome: o.summary()})
	}
	for _, c := range s.Cuts {
		if o, rd := d.run(k, []int{c}, false); !o.equal(ref) {
			add([]int{c}, false, o, rd, false)
		}
	}
	if s.EWD {
		if o, rd := d.run(k, nil, true); !o.equal(ref) {
			add([]int{}, true, o, rd, false)
		}
	}
	if len(sigs) > 0 {
		return
	}
	cuts, ewd := append([]int{}, s.Cuts...), s.EWD
	for i := 0; i < len(cuts); {
		try := append(append([]int{}, cuts[:i]...), cuts[i+1:]...)
		if o, _ := d.run(k, try, ewd); !o.equal(ref) {
			cuts = try
		} else {
			i++
		}
	}
	if ewd {
		if o, _ := d.run(k, cuts, false); !o.equal(ref) {
			ewd = false
		}
	}
	o, rd := d.run(k, cuts, ewd)
	add(cuts, ewd, o, rd, true)
	return
}

func class(d *def, s *schedule) string {
	if !s.Hard {
		return "-" // every Read of a decoder following the field boundaries is filled: nothing is exercised
	}
	n := "1"
	switch {
	case len(s.Cuts) == 0:
		n = "0"
	case len(s.Cuts) >= d.Total-1:
		n = "every-byte"
	case len(s.Cuts) >= 9:
		n = "9+"
	case len(s.Cuts) >= 5:
		n = "5-8"
	case len(s.Cuts) >= 2:
		n = "2-4"
	}
	e := "later"
	if s.EWD {
		e = "with-data"
	}
	return d.Kind + ":cuts=" + n + ":eof=" + e
}

// traced: is the reader's call log of scenario i handed to the driver for validation by
// spec/TraceStream.tla?  A seeded sample (VERIF_STREAM_TRACE_MOD; 0 = none).
func traced(i int) bool {
	mod, _ := strconv.Atoi(os.Getenv("VERIF_STREAM_TRACE_MOD"))
	if mod <= 0 {
		return false
	}
	h := fnv.New32a()
	fmt.Fprintf(h, "%d/%d", child.SeedV, i)
	return h.Sum32()%uint32(mod) == 0
}

type event struct {
	Op    string `json:"op"`
	Total int    `json:"total"`
	Cuts  []int  `json:"cuts"`
	EWD   bool   `json:"ewd"`
	Req   int    `json:"req"`
	N     int    `json:"n"`
	EOF   bool   `json:"eof"`
	Scn   int    `json:"scn"`
}

func emitTrace(i int, d *def, s *schedule, rd *Reader) {
	cuts := s.Cuts
	if cuts == nil {
		cuts = []int{}
	}
	if os.Getenv("VERIF_STREAM_TRACE_LIE") == strconv.Itoa(i) && len(rd.Calls) > 0 {
		// development aid (binding demonstration): misreport one answer of the reader
		rd.Calls[len(rd.Calls)/2].N++
	}
	docs := []interface{}{event{Op: "reset", Total: d.Total, Cuts: cuts, EWD: s.EWD, Scn: i}}
	for _, c := range rd.Calls {
		docs = append(docs, event{Op: "read", Total: d.Total, Cuts: []int{}, EWD: s.EWD, Req: c.Req, N: c.N, EOF: c.EOF, Scn: i})
	}
	docs = append(docs, event{Op: "end", Total: d.Total, Cuts: []int{}, EWD: s.EWD, N: rd.Pos(), Scn: i})
	child.EmitBatch("trace", docs)
}

// Replay is the child handler of engine "stream".
func Replay(i int, raw []byte) child.Result {
	ds, err := loadDefs()
	if err != nil {
		return child.Inconclusive(fmt.Errorf("stream definitions: %v", err))
	}
	s, err := parseSchedule(raw)
	if err != nil {
		return child.Inconclusive(fmt.Errorf("scenario %d: %v", i, err))
	}
	d, ok := ds[s.ID]
	if !ok {
		return child.Inconclusive(fmt.Errorf("scenario %d: unknown stream %d", i, s.ID))
	}
	for _, c := range s.Cuts {
		if c < 1 || c >= d.Total {
			return child.Inconclusive(fmt.Errorf("scenario %d: cut %d outside the stream", i, c))
		}
	}
	d.reference()
	var sigs []string
	var wits []witness
	var detail map[string]interface{}
	for k, dec := range decoders[d.Kind] {
		o, rd := d.run(k, s.Cuts, s.EWD)
		if k == 0 && traced(i) {
			emitTrace(i, d, s, rd)
		}
		if d.refBad[k] != "" {
			sigs = append(sigs, "stream/"+dec.name+"/whole-buffer")
			if detail == nil {
				detail = map[string]interface{}{"stream": d.ID, "kind": d.Kind, "decoder": dec.name,
					"whole_buffer_decode": d.ref[k].summary(), "differs_from_specification_in": d.refBad[k]}
			}
			continue
		}
		if o.equal(d.ref[k]) && d.matchesSpec(o) == "" {
			// the whole-buffer decode, which is the specification's
			continue
		}
		sg, w := d.attribute(k, d.ref[k], s)
		sigs, wits = append(sigs, sg...), append(wits, w...)
		if detail == nil {
			detail = map[string]interface{}{
				"stream": d.ID, "kind": d.Kind, "decoder": dec.name,
				"whole_buffer_decode": d.ref[k].summary(), "under_this_schedule": o.summary(),
				"differs_from_specification_in": d.matchesSpec(o),
			}
		}
	}
	if len(sigs) == 0 {
		return child.Pass(class(d, s))
	}
	// a broken tree fails most schedules for the same few reasons: only the first failures of a
	// signature carry the full explanation
	full := false
	for _, sg := range sigs {
		if told[sg] < 3 {
			full = true
		}
		told[sg]++
	}
	if !full {
		return child.Fail(sigs[0], map[string]interface{}{"sigs": sigs})
	}
	detail["sigs"] = sigs
	if wits != nil {
		detail["minimal_schedules"] = wits
	}
	return child.Fail(sigs[0], detail)
}

var told = map[string]int{}
