package stream

import (
	"bytes"
	"errors"
	"fmt"
	"io"
	"runtime/debug"

	"github.com/wrgl/wrgl/pkg/encoding"
	"github.com/wrgl/wrgl/pkg/encoding/packfile"
	"github.com/wrgl/wrgl/pkg/encoding/pktline"
	"github.com/wrgl/wrgl/pkg/objects"
)

// Item is one element of a decoded item sequence: a packfile object (type, body) or a
// pkt-line (type 0, payload; the flush-pkt has an empty payload).
type Item struct {
	Type int
	Body []byte
}

// Outcome is the projection of one real decode to what the property talks about: the decoded
// objects, whether decoding failed, and the end-of-stream condition.
type Outcome struct {
	Decoder string
	Items   []Item // packfile / pktline
	Reenc   []byte // object kinds: the decoded object written back by the real encoder
	End     string // "EOF" item sequence ended by a clean end of stream | "OK" object decoded, stream exhausted
	//          | "Unread" object decoded, bytes left | "UnexpectedEOF" | "Error" | "Overrun" | "Panic"
	Err string
}

func (o *Outcome) equal(p *Outcome) bool {
	if o.End != p.End || (o.Err == "") != (p.Err == "") || len(o.Items) != len(p.Items) || !bytes.Equal(o.Reenc, p.Reenc) {
		return false
	}
	for i := range o.Items {
		if o.Items[i].Type != p.Items[i].Type || !bytes.Equal(o.Items[i].Body, p.Items[i].Body) {
			return false
		}
	}
	return true
}

func (o *Outcome) summary() map[string]interface{} {
	m := map[string]interface{}{"end": o.End}
	if o.Err != "" {
		m["err"] = o.Err
	}
	if o.Items != nil {
		its := []string{}
		for _, it := range o.Items {
			its = append(its, fmt.Sprintf("%d:%s", it.Type, brief(it.Body)))
		}
		m["items"] = its
	}
	if o.Reenc != nil {
		m["object_reencoded"] = brief(o.Reenc)
	}
	return m
}

func brief(b []byte) string {
	if len(b) <= 20 {
		return fmt.Sprintf("%q", b)
	}
	return fmt.Sprintf("%q...(%d bytes)", b[:12], len(b))
}

func errClass(err error) string {
	switch {
	case errors.Is(err, io.ErrUnexpectedEOF):
		return "UnexpectedEOF"
	case errors.Is(err, io.EOF):
		return "EOF"
	}
	return "Error"
}

// source is what a decoder reads from: the scripted reader, or a plain in-memory reader for
// the whole-buffer reference.
type source interface {
	io.ReadCloser
	// exhausted: every byte of the stream has been pulled
	exhausted() bool
}

type scripted struct{ *Reader }

func (s scripted) exhausted() bool { return s.Pos() == len(s.data) }

type whole struct{ *bytes.Reader }

func (w whole) Close() error    { return nil }
func (w whole) exhausted() bool { return w.Len() == 0 }

// decoder runs one real decoder over src.  maxItems bounds item sequences (a decoder that
// keeps producing items from a finite stream is reported as "Overrun", not waited for).
type decoder struct {
	name string
	run  func(src source, maxItems int) *Outcome
}

// objDecoder adapts a "read one object, write it back" pair.
func objDecoder(name string, f func(r io.Reader) ([]byte, error)) decoder {
	return decoder{name, func(src source, _ int) *Outcome {
		o := &Outcome{Decoder: name}
		re, err := f(src)
		switch {
		case err != nil:
			o.End, o.Err = errClass(err), err.Error()
			if o.End == "EOF" {
				o.End = "Error" // an object decoder has no clean end of stream to report
			}
		case !src.exhausted():
			o.End, o.Reenc = "Unread", re
		default:
			o.End, o.Reenc = "OK", re
		}
		return o
	}}
}

func written(f func(w io.Writer) error) ([]byte, error) {
	var buf bytes.Buffer
	if err := f(&buf); err != nil {
		return nil, fmt.Errorf("re-encoding the decoded object: %v", err)
	}
	if buf.Bytes() == nil {
		return []byte{}, nil
	}
	return buf.Bytes(), nil
}

var decoders = map[string][]decoder{
	// the loop of apiutils.ObjectReceiver.Receive: objects until ReadObject reports io.EOF
	"packfile": {{"packfile.NewPackfileReader+ReadObject", func(src source, maxItems int) *Outcome {
		o := &Outcome{Decoder: "packfile.NewPackfileReader+ReadObject", Items: []Item{}}
		pr, err := packfile.NewPackfileReader(src)
		if err != nil {
			o.End, o.Err = errClass(err), err.Error()
			if o.End == "EOF" {
				o.End = "Error"
			}
			return o
		}
		for {
			ot, b, err := pr.ReadObject()
			if err != nil && err != io.EOF {
				o.End, o.Err = errClass(err), err.Error()
				if o.End == "EOF" {
					o.End = "Error"
				}
				return o
			}
			if ot != 0 || len(b) != 0 {
				o.Items = append(o.Items, Item{ot, append([]byte{}, b...)})
			}
			if err == io.EOF {
				o.End = "EOF"
				return o
			}
			if len(o.Items) > maxItems || (ot == 0 && len(b) == 0) {
				// more objects than the stream holds, or an "empty object" without end of stream (the
				// receiver would spin): not a result a valid stream can give
				o.End = "Overrun"
				return o
			}
		}
	}}},
	// pkt-lines until the parser reports the end of the stream
	"pktline": {{"pktline.ReadPktLine", func(src source, maxItems int) *Outcome {
		o := &Outcome{Decoder: "pktline.ReadPktLine", Items: []Item{}}
		p := encoding.NewParser(src)
		for {
			s, err := pktline.ReadPktLine(p)
			if err != nil {
				o.End = errClass(err)
				if o.End != "EOF" {
					o.Err = err.Error()
				}
				return o
			}
			o.Items = append(o.Items, Item{0, []byte(s)})
			if len(o.Items) > maxItems {
				o.End = "Overrun"
				return o
			}
		}
	}}},
	"commit": {objDecoder("objects.ReadCommitFrom", func(r io.Reader) ([]byte, error) {
		_, c, err := objects.ReadCommitFrom(r)
		if err != nil {
			return nil, err
		}
		return written(func(w io.Writer) error { _, err := c.WriteTo(w); return err })
	})},
	"table": {objDecoder("objects.ReadTableFrom", func(r io.Reader) ([]byte, error) {
		_, t, err := objects.ReadTableFrom(r)
		if err != nil {
			return nil, err
		}
		return written(func(w io.Writer) error { _, err := t.WriteTo(w); return err })
	})},
	"block": {objDecoder("objects.ReadBlockFrom", func(r io.Reader) ([]byte, error) {
		_, blk, err := objects.ReadBlockFrom(r)
		if err != nil {
			return nil, err
		}
		return written(func(w io.Writer) error {
			_, err := objects.WriteBlockTo(objects.NewStrListEncoder(true), w, blk)
			return err
		})
	})},
	"blkidx": {objDecoder("objects.ReadBlockIndex", func(r io.Reader) ([]byte, error) {
		_, idx, err := objects.ReadBlockIndex(r)
		if err != nil {
			return nil, err
		}
		return written(func(w io.Writer) error { _, err := idx.WriteTo(w); return err })
	})},
	"uintlist": {objDecoder("objects.UintListDecoder.Read", func(r io.Reader) ([]byte, error) {
		_, ul, err := objects.NewUintListDecoder(false).Read(r)
		if err != nil {
			return nil, err
		}
		return written(func(w io.Writer) error { _, err := w.Write(objects.NewUintListEncoder().Encode(ul)); return err })
	})},
	"strlist": {
		objDecoder("objects.StrListDecoder.Read", func(r io.Reader) ([]byte, error) {
			_, sl, err := objects.NewStrListDecoder(false).Read(r)
			if err != nil {
				return nil, err
			}
			return written(func(w io.Writer) error { _, err := w.Write(objects.NewStrListEncoder(false).Encode(sl)); return err })
		}),
		objDecoder("objects.StrListDecoder.ReadBytes", func(r io.Reader) ([]byte, error) {
			_, b, err := objects.NewStrListDecoder(false).ReadBytes(r)
			if err != nil {
				return nil, err
			}
			return append([]byte{}, b...), nil
		}),
	},
	"profile": {objDecoder("objects.TableProfile.ReadFrom", func(r io.Reader) ([]byte, error) {
		p := &objects.TableProfile{}
		if _, err := p.ReadFrom(r); err != nil {
			return nil, err
		}
		return written(func(w io.Writer) error { _, err := p.WriteTo(w); return err })
	})},
}

// protect runs a decoder and turns a panic (garbage lengths after a misread field) into an
// outcome instead of the death of the child.
func protect(dec decoder, src source, maxItems int) (o *Outcome) {
	defer func() {
		if r := recover(); r != nil {
			st := string(debug.Stack())
			if len(st) > 1200 {
				st = st[:1200]
			}
			o = &Outcome{Decoder: dec.name, End: "Panic", Err: fmt.Sprintf("%.200v\n%s", r, st)}
		}
	}()
	return dec.run(src, maxItems)
}
