// Package ingestx binds spec/Ingest.tla (C01, C02, C19 row level) and
// spec/Objects.tla (C03) to the real pkg/sorter + pkg/ingest.
package ingestx

import (
	"encoding/json"
	"fmt"
	"os"
	"strings"

	"verifharness/internal/child"
	"verifharness/internal/tbl"
)

// Scenario is one SCN line of spec/IngestGen.tla.
type Scenario struct {
	In    [][3]int   `json:"in"`
	Sh    string     `json:"sh"`
	Run   int        `json:"run"`
	Pad   int        `json:"pad"`
	Exp   [][][3]int `json:"exp"`
	PadAt int        `json:"padAt"`
	// optional configuration dimensions chosen by the driver
	Workers int `json:"workers,omitempty"`
}

var header = []string{"ka", "kb", "t", "v"}

func pkOf(shape string) []string {
	switch shape {
	case "a":
		return []string{"ka"}
	case "b":
		return []string{"kb"}
	case "ab":
		return []string{"ka", "kb"}
	case "ba":
		return []string{"kb", "ka"}
	}
	return nil
}

// cell values: key component 0 is the EMPTY string, 2 is "m"; payload 0/1 is ""/"q" in the last column
func keyCell(v int) string {
	if v == 0 {
		return ""
	}
	return "m"
}

// payloads are long so that the sorter's byte budget is dominated by scenario
// rows: with runSize 2000 exactly two scenario rows fill a run, while some 85
// padding rows do (padding must not create hundreds of spill files)
var longTail = strings.Repeat("x", 1000)

// the payload is the LAST cell and is EMPTY for payload 0: rows that differ only in "last cell empty or not"
// (without a key the whole row is compared) are part of the universe; the long constant cell keeps the sizes
func payCell(v int) string {
	if v == 0 {
		return ""
	}
	return "q"
}
func concrete(r [3]int) []string { return []string{keyCell(r[0]), keyCell(r[1]), longTail, payCell(r[2])} }

// padding rows sort strictly between key cells "" and "m"
func padRow(i int) []string {
	k := fmt.Sprintf("a%04d", i)
	return []string{k, k, "pad", ""}
}

// abstract maps a real row back to its abstract triple; ok=false if it is no
// scenario row (altered, truncated, foreign)
func abstract(row []string) (r [3]int, ok bool) {
	if len(row) != 4 || row[2] != longTail {
		return r, false
	}
	for i := 0; i < 2; i++ {
		switch row[i] {
		case "":
			r[i] = 0
		case "m":
			r[i] = 2
		default:
			return r, false
		}
	}
	switch row[3] {
	case "":
		r[2] = 0
	case "q":
		r[2] = 1
	default:
		return r, false
	}
	return r, true
}

func runSize(run int) uint64 {
	switch run {
	case 0:
		return 0 // never spill
	case 1:
		return 1 // every row spills
	}
	// scenario rows measure 1011..1013 bytes in the sorter's accounting
	// (4 + sum(len(cell)+2)), so 2000 spills exactly every 2 scenario rows
	return 2000
}

func featureClass(sc *Scenario) string {
	emptyKey, dup := false, false
	seen := map[string]bool{}
	for _, r := range sc.In {
		k := keyString(r, sc.Sh)
		if seen[k] {
			dup = true
		}
		seen[k] = true
		if allEmptyKey(r, sc.Sh) {
			emptyKey = true
		}
	}
	f := ""
	if emptyKey {
		f += "emptykey"
	}
	if dup {
		f += "dup"
	}
	if sc.Pad > 0 {
		f += "pad"
	}
	if f == "" {
		f = "plain"
	}
	return f
}

func keyIdx(shape string) []int {
	switch shape {
	case "a":
		return []int{0}
	case "b":
		return []int{1}
	case "ab":
		return []int{0, 1}
	case "ba":
		return []int{1, 0}
	}
	return []int{0, 1, 2}
}
func keyString(r [3]int, shape string) string {
	s := ""
	for _, i := range keyIdx(shape) {
		s += fmt.Sprint(r[i]) + ","
	}
	return s
}
func allEmptyKey(r [3]int, shape string) bool {
	if shape == "n" {
		return false
	}
	for _, i := range keyIdx(shape) {
		if r[i] != 0 {
			return false
		}
	}
	return true
}

// Build renders the CSV of a scenario: scenario rows in the given order; padding
// rows are spread before, between and after them (their position in the file must
// not matter).
func Build(sc *Scenario) [][]string {
	rows := [][]string{header}
	np := sc.Pad
	front := np / 3
	for i := 0; i < front; i++ {
		rows = append(rows, padRow(np-1-i)) // descending: unsorted input
	}
	for _, r := range sc.In {
		rows = append(rows, concrete(r))
	}
	for i := front; i < np; i++ {
		rows = append(rows, padRow(np-1-i))
	}
	return rows
}

// Compare checks the real rows against the specification's expectation.
func Compare(sc *Scenario, rows [][]string, rowsCount int) (kind string, detail interface{}) {
	want := len(sc.Exp) + sc.Pad
	if len(rows) != want {
		return "rowcount", map[string]interface{}{"expected_rows": want, "observed_rows": len(rows), "observed": rows2(rows)}
	}
	if rowsCount != len(rows) {
		return "recorded-count", map[string]interface{}{"recorded": rowsCount, "present": len(rows)}
	}
	for i, row := range rows {
		switch {
		case i < sc.PadAt || i >= sc.PadAt+sc.Pad:
			ei := i
			if i >= sc.PadAt+sc.Pad {
				ei = i - sc.Pad
			}
			a, ok := abstract(row)
			allowed := false
			if ok {
				for _, e := range sc.Exp[ei] {
					if e == a {
						allowed = true
					}
				}
			}
			if !allowed {
				return "row", map[string]interface{}{"position": i, "observed_row": rows2([][]string{row}), "allowed": sc.Exp[ei]}
			}
		default:
			p := padRow(i - sc.PadAt)
			if len(row) != 4 || row[0] != p[0] || row[1] != p[1] || row[2] != p[2] || row[3] != p[3] {
				return "padrow", map[string]interface{}{"position": i, "observed_row": row, "expected_row": p}
			}
		}
	}
	return "", nil
}

func rows2(rows [][]string) [][]string {
	if len(rows) > 12 {
		rows = rows[:12]
	}
	out := make([][]string, len(rows))
	for i, r := range rows {
		out[i] = make([]string, len(r))
		for j, c := range r {
			if len(c) > 40 {
				c = c[:20] + fmt.Sprintf("...(%d bytes)", len(c))
			}
			out[i][j] = c
		}
	}
	return out
}

// Replay ingests one scenario with the real code and compares the stored table.
func Replay(i int, raw []byte) child.Result {
	var sc Scenario
	if err := json.Unmarshal(raw, &sc); err != nil {
		return child.Inconclusive(err)
	}
	db := tbl.NewSafeStore()
	csv := tbl.CSV(Build(&sc), 0)
	sum, err := tbl.Ingest(db, csv, pkOf(sc.Sh), tbl.IngestOpts{RunSize: runSize(sc.Run), Workers: sc.Workers})
	fc := featureClass(&sc)
	if err != nil {
		return child.Fail("ingest/error/"+fc, map[string]interface{}{"error": err.Error()})
	}
	t, blocks, err := tbl.Read(db, sum)
	if err != nil {
		return child.Fail("ingest/unreadable/"+fc, map[string]interface{}{"error": err.Error()})
	}
	if kind, detail := Compare(&sc, tbl.Flatten(blocks), int(t.RowsCount)); kind != "" {
		return child.Fail("ingest/"+kind+"/"+fc, detail)
	}
	// structural observation for C03 (TraceTable.tla decides), on a deterministic subset
	if (i*7+3)%13 == 0 || os.Getenv("VERIF_FORCE_OBS") != "" {
		o := tbl.Observe(db, sum, "ingest")
		o.Src = string(raw)
		child.Emit(o)
	}
	if len(sc.In) == 0 && sc.Pad == 0 {
		return child.Pass("-")
	}
	return child.Pass(sc.Sh + "/" + fc)
}
