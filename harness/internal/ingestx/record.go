package ingestx

import (
	"time"
	"bytes"
	"crypto/sha1"
	"encoding/csv"
	"encoding/hex"
	"encoding/json"
	"fmt"
	"math/rand"
	"os"
	"sort"
	"strings"

	"github.com/dgraph-io/badger/v3"
	"github.com/wrgl/wrgl/pkg/objects"
	objbadger "github.com/wrgl/wrgl/pkg/objects/badger"
	"github.com/wrgl/wrgl/pkg/ref"

	"verifharness/internal/child"
	"verifharness/internal/cli"
	"verifharness/internal/tbl"
)

// Event is one line of an ingest trace (spec/TraceIngest.tla).
type Event struct {
	Op       string `json:"op"`
	Cfg      Cfg    `json:"cfg"`
	InKeys   []int  `json:"inkeys"` // per input row: rank of its key in byte order among the input's keys
	InIDs    []int  `json:"inids"`  // per input row: index of the first input row identical to it
	Out      []int  `json:"out"`    // stored rows in table order: id of the identical input row, -1 if none
	Rows     int    `json:"rows"`   // recorded row count
	Cid      string `json:"cid"`    // identity of the logical content (columns, key, row set)
	Sum      string `json:"sum"`    // table identifier returned by ingest ("" on error)
	Err      string `json:"err"`
	Oversize bool   `json:"oversize"` // some cell exceeds 65535 bytes
	Unique   bool   `json:"unique"`   // input keys are unique
}

type Cfg struct {
	Cols    []string  `json:"cols"`
	PK      []string  `json:"pk"`
	NRows   int       `json:"nrows"`
	RunSize uint64    `json:"runsize"`
	Workers int       `json:"workers"`
	Delim   string    `json:"delim"`
	Seed    int64     `json:"seed"`
	Variant int       `json:"variant"`
	Kind    string    `json:"kind"`
	Case    *CaseSpec `json:"case,omitempty"` // the generating case (first event of a trace), for replay
}

var awkward = []string{
	"", " ", "\"", "\"\"", ",", "a,b", "x\ny", "line1\nline2\n", "\xff\xfe", "caf\xc3\xa9", "\xc3", "'", "\t", "|", ";",
	"0", "00", "-1", "1e9", "NULL", "null", "é", "日本語", " lead", "trail ", "a\"b", "\\", "\\n",
}

func randCell(rng *rand.Rand) string {
	switch rng.Intn(10) {
	case 0, 1, 2:
		return awkward[rng.Intn(len(awkward))]
	case 3:
		b := make([]byte, 1+rng.Intn(12))
		for i := range b {
			b[i] = byte(rng.Intn(256))
			if b[i] == '\r' {
				b[i] = 'r'
			}
		}
		return string(b)
	default:
		return fmt.Sprintf("v%d", rng.Intn(1000))
	}
}

var sizes = []int{0, 1, 2, 3, 254, 255, 256, 257, 509, 510, 511, 512, 764, 765, 766}

// Table is a generated logical table.
type Table struct {
	Cols []string
	PK   []string
	Rows [][]string
}

func genTable(rng *rand.Rand, kind string) *Table {
	ncols := 1 + rng.Intn(5)
	// (a column name may begin or end with white space: " id" and "id" are two columns)
	names := []string{"id", "k2", "name", "val", "x_y", "Z", " id", "val "}
	rng.Shuffle(len(names), func(i, j int) { names[i], names[j] = names[j], names[i] })
	t := &Table{Cols: append([]string{}, names[:ncols]...)}
	// primary key: none, or a random non-empty subset in random order
	if rng.Intn(5) > 0 {
		perm := rng.Perm(ncols)
		nk := 1 + rng.Intn(min(ncols, 3))
		for _, i := range perm[:nk] {
			t.PK = append(t.PK, t.Cols[i])
		}
	}
	n := sizes[rng.Intn(len(sizes))]
	if rng.Intn(4) == 0 {
		n = rng.Intn(800)
	}
	pkIdx := map[int]bool{}
	for _, p := range t.PK {
		for i, c := range t.Cols {
			if c == p {
				pkIdx[i] = true
			}
		}
	}
	dupRate := 0
	if kind == "dups" {
		dupRate = 1 + rng.Intn(30)
	}
	for i := 0; i < n; i++ {
		row := make([]string, ncols)
		for j := range row {
			if pkIdx[j] || len(t.PK) == 0 {
				// key material: mostly unique, sometimes empty or awkward
				switch {
				case i == 0 && rng.Intn(3) == 0:
					row[j] = ""
				case rng.Intn(20) == 0:
					row[j] = awkward[rng.Intn(len(awkward))] + fmt.Sprint(i)
				default:
					row[j] = fmt.Sprintf("%05d", (i*7919+j)%100003)
				}
			} else {
				row[j] = randCell(rng)
			}
		}
		if dupRate > 0 && i > 0 && rng.Intn(100) < dupRate {
			// duplicate the key of an earlier row (another payload)
			src := t.Rows[rng.Intn(len(t.Rows))]
			for j := range row {
				if pkIdx[j] || len(t.PK) == 0 {
					row[j] = src[j]
				}
			}
		}
		t.Rows = append(t.Rows, row)
	}
	if kind == "dups" && n >= 300 {
		// duplicates of the keys sitting right at block boundaries, placed far apart in the file
		sorted := append([][]string{}, t.Rows...)
		keyOf := func(r []string) []string { return keyCells(t, r) }
		sort.SliceStable(sorted, func(i, j int) bool { return cmpCells(keyOf(sorted[i]), keyOf(sorted[j])) < 0 })
		for _, pos := range []int{254, 255, 509, 510} {
			if pos < len(sorted) {
				d := append([]string{}, sorted[pos]...)
				for j := range d {
					if !(pkIdx[j] || len(t.PK) == 0) {
						d[j] = "dup" + randCell(rng)
					}
				}
				at := rng.Intn(len(t.Rows) + 1)
				t.Rows = append(t.Rows[:at], append([][]string{d}, t.Rows[at:]...)...)
			}
		}
	}
	if nkey := len(pkIdx); (nkey >= 2 || (len(t.PK) == 0 && ncols >= 2)) && n > 0 && rng.Intn(2) == 0 {
		// two rows whose key cells, written one after the other without their boundaries, are the same bytes:
		// ("q", "rs", ...) and ("qr", "s", ...); nothing else sorts between them
		var kc []int
		for j := 0; j < ncols; j++ {
			if pkIdx[j] || len(t.PK) == 0 {
				kc = append(kc, j)
			}
		}
		// in KEY order (the order the key was declared in), not column order
		if len(t.PK) > 0 {
			kc = kc[:0]
			for _, p := range t.PK {
				for j, c := range t.Cols {
					if c == p {
						kc = append(kc, j)
					}
				}
			}
		}
		for _, cells := range [][2]string{{"q", "rs"}, {"qr", "s"}} {
			row := make([]string, ncols)
			for j := range row {
				row[j] = randCell(rng)
			}
			for x, j := range kc {
				switch x {
				case 0:
					row[j] = cells[0]
				case 1:
					row[j] = cells[1]
				default:
					row[j] = "t"
				}
			}
			at := rng.Intn(len(t.Rows) + 1)
			t.Rows = append(t.Rows[:at], append([][]string{row}, t.Rows[at:]...)...)
		}
	}
	if kind == "big" && n > 0 {
		// big cells: at the limit, and rows whose encoding crosses 64 KiB with cells after the crossing
		r := rng.Intn(len(t.Rows))
		c := rng.Intn(ncols)
		switch rng.Intn(4) {
		case 0:
			t.Rows[r][c] = strings.Repeat("L", 65535)
		case 1:
			for j := range t.Rows[r] {
				if !(pkIdx[j] || len(t.PK) == 0) || ncols == 1 {
					t.Rows[r][j] = strings.Repeat(string(rune('A'+j)), 30000+rng.Intn(5000))
				}
			}
		case 2:
			t.Rows[r][c] = strings.Repeat("M", 65534)
		case 3:
			for j := range t.Rows[r] {
				t.Rows[r][j] += strings.Repeat("z", 20000)
			}
		}
	}
	if kind == "oversize" && n > 0 {
		r := rng.Intn(len(t.Rows))
		c := rng.Intn(ncols)
		t.Rows[r][c] = strings.Repeat("O", []int{65536, 65537, 70000, 131072}[rng.Intn(4)])
	}
	return t
}

func min(a, b int) int {
	if a < b {
		return a
	}
	return b
}

func keyCells(t *Table, row []string) []string {
	if len(t.PK) == 0 {
		return row
	}
	k := make([]string, 0, len(t.PK))
	for _, p := range t.PK {
		for i, c := range t.Cols {
			if c == p && i < len(row) {
				k = append(k, row[i])
			}
		}
	}
	return k
}

func cmpCells(a, b []string) int {
	for i := 0; i < len(a) && i < len(b); i++ {
		if c := strings.Compare(a[i], b[i]); c != 0 {
			return c
		}
	}
	return len(a) - len(b)
}

func rowID(r []string) string { return strings.Join(r, "\x00\x01") + fmt.Sprintf("\x00%d", len(r)) }

// contentID identifies the logical content: columns in order, key columns in order, set of rows.
func contentID(t *Table, rows [][]string) string {
	ids := make([]string, 0, len(rows))
	seen := map[string]bool{}
	for _, r := range rows {
		id := rowID(r)
		if !seen[id] {
			seen[id] = true
			ids = append(ids, id)
		}
	}
	sort.Strings(ids)
	h := sha1.New()
	fmt.Fprintf(h, "%q|%q|", t.Cols, t.PK)
	for _, id := range ids {
		fmt.Fprintf(h, "%d:%s|", len(id), id)
	}
	return hex.EncodeToString(h.Sum(nil))[:20]
}

// Project builds the trace event from the parsed input rows and the stored table.
func Project(t *Table, input [][]string, db objects.Store, sum []byte, ingErr error, cfg Cfg) *Event {
	e := &Event{Op: "ingest", Cfg: cfg, InKeys: []int{}, InIDs: []int{}, Out: []int{}}
	// ranks of keys in byte order
	keys := make([][]string, len(input))
	for i, r := range input {
		keys[i] = keyCells(t, r)
	}
	sorted := append([][]string{}, keys...)
	sort.SliceStable(sorted, func(i, j int) bool { return cmpCells(sorted[i], sorted[j]) < 0 })
	first := map[string]int{}
	e.Unique = true
	seenKey := map[string]bool{}
	for i, r := range input {
		k := keys[i]
		e.InKeys = append(e.InKeys, sort.Search(len(sorted), func(j int) bool { return cmpCells(sorted[j], k) >= 0 }))
		id := rowID(r)
		if _, ok := first[id]; !ok {
			first[id] = i
		}
		e.InIDs = append(e.InIDs, first[id])
		ks := rowID(k)
		if seenKey[ks] {
			e.Unique = false
		}
		seenKey[ks] = true
		for _, c := range r {
			if len(c) > 65535 {
				e.Oversize = true
			}
		}
	}
	e.Cid = contentID(t, input)
	if ingErr != nil {
		e.Err = ingErr.Error()
		return e
	}
	e.Sum = hex.EncodeToString(sum)
	tb, blocks, err := tbl.Read(db, sum)
	if err != nil {
		e.Err = "unreadable: " + err.Error()
		e.Sum = ""
		return e
	}
	e.Rows = int(tb.RowsCount)
	for _, r := range tbl.Flatten(blocks) {
		if i, ok := first[rowID(r)]; ok {
			e.Out = append(e.Out, i)
		} else {
			e.Out = append(e.Out, -1)
		}
	}
	// the stored header and key must be the CSV's
	if strings.Join(tb.Columns, "\x00") != strings.Join(t.Cols, "\x00") || strings.Join(tb.PrimaryKey(), "\x00") != strings.Join(t.PK, "\x00") {
		e.Err = fmt.Sprintf("header/key differ: stored %q key %q", tb.Columns, tb.PrimaryKey())
	}
	return e
}

func parseCSV(b []byte, delim rune) ([][]string, error) {
	r := csv.NewReader(bytes.NewReader(b))
	if delim != 0 {
		r.Comma = delim
	}
	return r.ReadAll()
}

var delims = []rune{0, '|', ';', '\t', '§'}

func delimName(d rune) string {
	if d == 0 {
		return ","
	}
	return string(d)
}

// IngestVariant ingests t with one configuration and returns the event (+ table observation).
func IngestVariant(t *Table, rows [][]string, cfg Cfg, delim rune, db objects.Store) (*Event, *tbl.Obs) {
	all := append([][]string{t.Cols}, rows...)
	b := tbl.CSV(all, delim)
	parsed, err := parseCSV(b, delim)
	if err != nil || len(parsed) == 0 {
		return nil, nil
	}
	sum, ierr := tbl.Ingest(db, b, t.PK, tbl.IngestOpts{RunSize: cfg.RunSize, Workers: cfg.Workers, Delim: delim})
	cfg.Cols, cfg.PK, cfg.NRows, cfg.Delim = t.Cols, t.PK, len(rows), delimName(delim)
	if cfg.PK == nil {
		cfg.PK = []string{} // no JSON null: TLC's deserializer rejects it
	}
	ev := Project(t, parsed[1:], db, sum, ierr, cfg)
	var obs *tbl.Obs
	if ierr == nil {
		obs = tbl.Observe(db, sum, "ingest")
		src, _ := json.Marshal(cfg)
		obs.Src = string(src)
	}
	return ev, obs
}

func totalBytes(rows [][]string) uint64 {
	var n uint64
	for _, r := range rows {
		n += 4
		for _, c := range r {
			n += uint64(len(c)) + 2
		}
	}
	return n
}

// GenCase regenerates the table and configuration of (seed, case index, variant) deterministically.
func GenCase(seed int64, idx int) (*Table, string, *rand.Rand) {
	rng := rand.New(rand.NewSource(seed*1000003 + int64(idx)))
	kinds := []string{"plain", "plain", "dups", "dups", "big", "oversize", "neighbours"}
	kind := kinds[idx%len(kinds)]
	return genTable(rng, kind), kind, rng
}

// CaseSpec is one line of the real-scale driver's scenario file.
type CaseSpec struct {
	Seed       int64 `json:"seed"`
	Idx        int   `json:"idx"`
	Variants   int   `json:"variants"`
	MaxWorkers int   `json:"maxworkers"`
	Badger     bool  `json:"badger"` // one more variant ingested into a real badger store
	CLI        bool  `json:"cli"`    // commit / re-commit through the real command line
	// Huge > 0: not a drawn table but one of more than Huge full blocks (sequential keys handed over in descending
	// order), ingested twice (one worker in memory; many workers with spilled runs); events projected by compressPlaced
	Huge int `json:"huge,omitempty"`
	// Fat > 0: a table of Fat rows each holding one cell of 40,000 bytes (fewer than 255 consecutive rows make up
	// several MiB: a block that is cut by anything but the row count no longer has 255 rows)
	Fat int `json:"fat,omitempty"`
}

func fatTable(rows int) *Table {
	t := &Table{Cols: []string{"id", "doc"}, PK: []string{"id"}}
	for j := rows - 1; j >= 0; j-- {
		t.Rows = append(t.Rows, []string{fmt.Sprintf("f%05d", j), strings.Repeat(string(rune('a'+j%26)), 39999) + fmt.Sprint(j%10)})
	}
	return t
}

// compressPlaced projects the event of a huge table further (TLC takes minutes over sequences of 10^5 entries):
// a run of consecutive stored rows each of which IS the input row of that key rank - the right row in the right
// place - becomes ONE abstract row (with one abstract input row); every other input row and every other stored row
// stays individual.  A stored row that repeats a row of a run lands on the run's abstract row (a key twice: rejected),
// an input row that never comes out stays an input key without a stored row (rejected), the recorded row count is
// reduced by what the runs swallowed.
func compressPlaced(e *Event) {
	n := len(e.InKeys)
	if !e.Unique || e.Err != "" || n == 0 {
		return
	}
	byRank := make([]int, n)
	for i, k := range e.InKeys {
		if k < 0 || k >= n {
			return
		}
		byRank[k] = i
	}
	placed := func(p int) bool { return p >= 0 && p < len(e.Out) && p < n && e.Out[p] == byRank[p] }
	newID := make([]int, n) // input row -> abstract input row
	na := 0
	for p := 0; p < n; p++ {
		if !(placed(p) && placed(p-1)) {
			na++
		}
		newID[byRank[p]] = na - 1
	}
	var out []int
	for p, o := range e.Out {
		switch {
		case placed(p) && placed(p-1):
		case o < 0 || o >= n:
			out = append(out, -1)
		default:
			out = append(out, newID[o])
		}
	}
	e.Rows -= len(e.Out) - len(out)
	e.Out = out
	e.InKeys, e.InIDs = make([]int, na), make([]int, na)
	for a := 0; a < na; a++ {
		e.InKeys[a], e.InIDs[a] = a, a
	}
}

func hugeTable(blocks int) *Table {
	t := &Table{Cols: []string{"v", "id"}, PK: []string{"id"}}
	for j := blocks*255 + 76; j >= 0; j-- {
		t.Rows = append(t.Rows, []string{fmt.Sprintf("v%d", j%7), fmt.Sprintf("h%07d", j)})
	}
	return t
}

const resetLine = `{"op":"reset","cfg":{},"inkeys":[],"inids":[],"out":[],"rows":0,"cid":"","sum":"","err":"","oversize":false,"unique":true}`

// RunCase generates one table, ingests it under several configurations with the real
// code and returns the trace events and table observations.
func RunCase(cs CaseSpec) (events []interface{}, obs []interface{}) {
	if cs.Huge > 0 || cs.Fat > 0 {
		events = append(events, json.RawMessage(resetLine))
		t, kind := hugeTable(cs.Huge), "huge"
		if cs.Fat > 0 {
			t, kind = fatTable(cs.Fat), "fat"
		}
		db := tbl.NewSafeStore()
		for v, cfg := range []Cfg{{Seed: cs.Seed, Variant: 0, Kind: kind, Workers: 1},
			{Seed: cs.Seed, Variant: 1, Kind: kind, Workers: cs.MaxWorkers, RunSize: totalBytes(t.Rows)/7 + 1}} {
			ev, _ := IngestVariant(t, t.Rows, cfg, 0, db)
			if ev == nil {
				continue
			}
			compressPlaced(ev)
			if v == 0 {
				c := cs
				ev.Cfg.Case = &c
			}
			events = append(events, ev)
		}
		return
	}
	t, kind, rng := GenCase(cs.Seed, cs.Idx)
	events = append(events, json.RawMessage(resetLine))
	db := tbl.NewSafeStore()
	total := totalBytes(t.Rows)
	first := true
	add := func(ev *Event, o *tbl.Obs) {
		if ev != nil {
			if first {
				c := cs
				ev.Cfg.Case = &c
				first = false
			}
			events = append(events, ev)
		}
		if o != nil {
			obs = append(obs, o)
		}
	}
	for v := 0; v < cs.Variants; v++ {
		rows := append([][]string{}, t.Rows...)
		cfg := Cfg{Seed: cs.Seed, Variant: v, Kind: kind, Workers: 1}
		delim := rune(0)
		if v > 0 {
			rng.Shuffle(len(rows), func(i, j int) { rows[i], rows[j] = rows[j], rows[i] })
			delim = delims[rng.Intn(len(delims))]
			if k := rng.Intn(5); k > 0 && total > 0 {
				cfg.RunSize = total/uint64(k) + 1
				if rng.Intn(4) == 0 {
					cfg.RunSize = total/uint64(10+rng.Intn(30)) + 1
				}
			}
			if cs.MaxWorkers > 1 {
				// the value given to --num-workers: 1, 2 (fewer than the two helper goroutines the code subtracts), 3 ...
				cfg.Workers = 1 + rng.Intn(cs.MaxWorkers+2)
			}
		}
		add(IngestVariant(t, rows, cfg, delim, db))
	}
	if cs.Badger && kind != "oversize" {
		if dir, err := os.MkdirTemp("", "badger"); err == nil {
			if bdb, err := badger.Open(badger.DefaultOptions(dir).WithLoggingLevel(badger.ERROR)); err == nil {
				st := objbadger.NewStore(bdb)
				rows := append([][]string{}, t.Rows...)
				rng.Shuffle(len(rows), func(i, j int) { rows[i], rows[j] = rows[j], rows[i] })
				add(IngestVariant(t, rows, Cfg{Seed: cs.Seed, Variant: 50, Kind: kind, Workers: 3 + rng.Intn(6), RunSize: total/3 + 1}, ';', st))
				st.Close()
			}
			os.RemoveAll(dir)
		}
	}
	if cs.CLI && kind != "oversize" && kind != "big" {
		for _, e := range cliCase(t, cs, rng) {
			events = append(events, e)
		}
	}
	if kind == "neighbours" && len(t.Rows) > 0 && len(t.Cols) > 0 {
		// tables differing in exactly one cell / column name / column order / key choice
		nb := func(mod func(nt *Table)) {
			nt := &Table{Cols: append([]string{}, t.Cols...), PK: append([]string{}, t.PK...)}
			for _, r := range t.Rows {
				nt.Rows = append(nt.Rows, append([]string{}, r...))
			}
			mod(nt)
			add(IngestVariant(nt, nt.Rows, Cfg{Seed: cs.Seed, Variant: 100, Kind: kind, Workers: 1}, 0, db))
		}
		r, c := rng.Intn(len(t.Rows)), rng.Intn(len(t.Cols))
		nb(func(nt *Table) { nt.Rows[r][c] = nt.Rows[r][c] + "~" })
		nb(func(nt *Table) {
			old := nt.Cols[c]
			nt.Cols[c] = old + "_renamed"
			for i, p := range nt.PK {
				if p == old {
					nt.PK[i] = nt.Cols[c]
				}
			}
		})
		if len(t.Cols) > 1 {
			nb(func(nt *Table) {
				nt.Cols[0], nt.Cols[1] = nt.Cols[1], nt.Cols[0]
				for _, row := range nt.Rows {
					row[0], row[1] = row[1], row[0]
				}
			})
		}
		if len(t.PK) > 0 {
			nb(func(nt *Table) { nt.PK = nil })
		}
	}
	return
}

// RecCase is the child handler of engine "ingestrec": one generated case per scenario
// line; the events go to the driver through the side channel, which assembles the
// traces that TraceIngest.tla / TraceTable.tla validate.
func RecCase(i int, raw []byte) child.Result {
	var cs CaseSpec
	if err := json.Unmarshal(raw, &cs); err != nil {
		return child.Inconclusive(err)
	}
	if cs.Variants == 0 {
		cs.Variants = 4
	}
	events, obs := RunCase(cs)
	child.EmitBatch("ingest", events)
	child.EmitBatch("tableobs", obs)
	if cs.Huge > 0 {
		return child.Pass("huge")
	}
	if cs.Fat > 0 {
		return child.Pass("fat")
	}
	_, kind, _ := GenCase(cs.Seed, cs.Idx)
	return child.Pass(kind)
}

// cliCase commits the table through the real command line, re-commits the same
// content in another row order (must be detected as "no change": no new commit), then
// commits a changed content (must create a commit).
func cliCase(t *Table, cs CaseSpec, rng *rand.Rand) (events []interface{}) {
	fail := func(step string, err error, out string) []interface{} {
		return append(events, map[string]interface{}{"op": "recommit", "step": step, "samecontent": true, "newcommit": true,
			"err": fmt.Sprintf("%v: %s", err, out)})
	}
	dir, err := os.MkdirTemp("", "clirepo")
	if err != nil {
		return nil
	}
	defer os.RemoveAll(dir)
	r, err := cli.NewRepo(dir, "r")
	if err != nil {
		return fail("init", err, "")
	}
	all := append([][]string{t.Cols}, t.Rows...)
	fp, _ := r.WriteFile("data.csv", tbl.CSV(all, 0))
	args := []string{"commit", "main", fp, "first", "-n", "1", "--set-file"}
	if len(t.PK) > 0 {
		args = append(args, "-p", strings.Join(t.PK, ","), "--set-primary-key")
	}
	if out, err := r.Run(nil, args...); err != nil {
		return fail("commit", err, out)
	}
	head := func() (commit string, ev *Event) {
		db, rs, closeFn, err := r.Open()
		if err != nil {
			return "", nil
		}
		defer closeFn()
		sum, err := ref.GetHead(rs, "main")
		if err != nil {
			return "", nil
		}
		com, err := objects.GetCommit(db, sum)
		if err != nil {
			return "", nil
		}
		parsed, _ := parseCSV(tbl.CSV(all, 0), 0)
		cfg := Cfg{Seed: cs.Seed, Variant: 200, Kind: "cli", Workers: 1, Cols: t.Cols, PK: t.PK, NRows: len(t.Rows), Delim: ","}
		if cfg.PK == nil {
			cfg.PK = []string{}
		}
		return string(sum), Project(t, parsed[1:], db, com.Table, nil, cfg)
	}
	c1, ev := head()
	if ev == nil {
		return fail("head", fmt.Errorf("no head after commit"), "")
	}
	events = append(events, ev)
	// the same content through another delimiter (given on the command line) on another branch
	{
		ds := []rune{'\t', '|', ';', ' ', '§'} // (a delimiter may be any character, also one of several bytes)
		d := ds[rng.Intn(len(ds))]
		fp2, _ := r.WriteFile("data.alt", tbl.CSV(all, d))
		args := []string{"commit", "alt", fp2, "alt", "-n", []string{"2", "3"}[rng.Intn(2)], "--delimiter", string(d)}
		if len(t.PK) > 0 {
			args = append(args, "-p", strings.Join(t.PK, ","))
		}
		if out, err := r.Run(nil, args...); err != nil {
			return fail("commit-delimiter-"+delimName(d), err, out)
		}
		db, rs, closeFn, err := r.Open()
		if err == nil {
			if sum, err := ref.GetHead(rs, "alt"); err == nil {
				if com, err := objects.GetCommit(db, sum); err == nil {
					parsed, _ := parseCSV(tbl.CSV(all, 0), 0)
					cfg := Cfg{Seed: cs.Seed, Variant: 201, Kind: "cli", Workers: 1, Cols: t.Cols, PK: t.PK, NRows: len(t.Rows), Delim: delimName(d)}
					if cfg.PK == nil {
						cfg.PK = []string{}
					}
					events = append(events, Project(t, parsed[1:], db, com.Table, nil, cfg))
				}
			}
			closeFn()
		}
	}
	// the delimiter kept in the branch configuration: the file of branch alt is declared with its delimiter
	// (--set-file), then re-written comma separated and declared again with an explicit comma, and then committed
	// from the configuration alone - the same rows, so no new commit (the stored delimiter must be the comma's)
	if ev.Unique && len(t.Rows) > 0 {
		headAlt := func() string {
			db, rs, closeFn, err := r.Open()
			if err != nil {
				return ""
			}
			defer closeFn()
			_ = db
			sum, err := ref.GetHead(rs, "alt")
			if err != nil {
				return ""
			}
			return string(sum)
		}
		d := []rune{';', '|', '\t'}[rng.Intn(3)]
		fp3, _ := r.WriteFile("data.alt2", tbl.CSV(all, d))
		pkArgs := []string{}
		if len(t.PK) > 0 {
			pkArgs = []string{"-p", strings.Join(t.PK, ","), "--set-primary-key"}
		}
		if out, err := r.Run(nil, append([]string{"commit", "alt", fp3, "declared", "-n", "1", "--delimiter", string(d), "--set-file"}, pkArgs...)...); err != nil {
			return fail("commit-set-file-"+delimName(d), err, out)
		}
		r.WriteFile("data.alt2", tbl.CSV(all, 0))
		if out, err := r.Run(nil, append([]string{"commit", "alt", fp3, "declared again", "-n", "1", "--delimiter", ",", "--set-file"}, pkArgs...)...); err != nil {
			return fail("commit-set-file-comma", err, out)
		}
		h2 := headAlt()
		out, err := r.Run(nil, "commit", "alt", "from the configuration", "-n", "1")
		es := ""
		if err != nil {
			es = err.Error() + " " + out
		}
		events = append(events, map[string]interface{}{"op": "recommit", "step": "config-delimiter", "samecontent": true, "newcommit": headAlt() != h2, "err": es})
	}
	// same content, other row order, other memory limit / workers
	rows := append([][]string{}, t.Rows...)
	rng.Shuffle(len(rows), func(i, j int) { rows[i], rows[j] = rows[j], rows[i] })
	r.WriteFile("data.csv", tbl.CSV(append([][]string{t.Cols}, rows...), 0))
	if out, err := r.Run(nil, "commit", "main", "second", "--no-cache", "-n", "8", "--mem-limit", fmt.Sprint(totalBytes(t.Rows)/3+1)); err != nil {
		return fail("recommit", err, out)
	}
	c2, _ := head()
	unique := ev.Unique
	if unique {
		events = append(events, map[string]interface{}{"op": "recommit", "step": "same", "samecontent": true, "newcommit": c2 != c1, "err": ""})
	}
	// changed content
	if len(t.Rows) > 0 {
		rows[0] = append([]string{}, rows[0]...)
		rows[0][len(rows[0])-1] += "~changed"
		r.WriteFile("data.csv", tbl.CSV(append([][]string{t.Cols}, rows...), 0))
		if out, err := r.Run(nil, "commit", "main", "third", "--no-cache", "-n", "1"); err != nil {
			return fail("commit-changed", err, out)
		}
		c3, _ := head()
		if unique {
			events = append(events, map[string]interface{}{"op": "recommit", "step": "changed", "samecontent": false, "newcommit": c3 != c2, "err": ""})
		}
	}
	// the commit cache again: (a) the file changes, `wrgl diff BRANCH --branch-file` ingests it into the cache
	// WITHOUT moving the branch, and the commit that follows must still commit the change; (b) the file is
	// rewritten within the same second as the cached ingest (timestamps of commits have one-second resolution)
	if unique && len(t.Rows) > 0 {
		projectHead := func(variant int, cur [][]string) {
			db, rs, closeFn, err := r.Open()
			if err != nil {
				return
			}
			defer closeFn()
			if sum, err := ref.GetHead(rs, "main"); err == nil {
				if com, err := objects.GetCommit(db, sum); err == nil {
					parsed, _ := parseCSV(tbl.CSV(append([][]string{t.Cols}, cur...), 0), 0)
					cfg := Cfg{Seed: cs.Seed, Variant: variant, Kind: "cli", Workers: 1, Cols: t.Cols, PK: t.PK, NRows: len(cur), Delim: ","}
					if cfg.PK == nil {
						cfg.PK = []string{}
					}
					events = append(events, Project(t, parsed[1:], db, com.Table, nil, cfg))
				}
			}
		}
		edit := func(tag string) [][]string {
			cur := append([][]string{}, rows...)
			cur[0] = append([]string{}, cur[0]...)
			cur[0][len(cur[0])-1] += tag
			return cur
		}
		// (a) the file is edited "now"; a second later the diff ingests it into the cache; the commit finds the
		// cache valid (the file is older than the cached ingest) and has to compare TABLES, not cache entries
		curA := edit("~a")
		r.WriteFile("data.csv", tbl.CSV(append([][]string{t.Cols}, curA...), 0))
		edited := time.Now().Add(-time.Millisecond)
		os.Chtimes(fp, edited, edited)
		time.Sleep(1100 * time.Millisecond)
		oldwd, _ := os.Getwd()
		os.Chdir(dir)
		r.Run(nil, "diff", "main", "--branch-file", "--no-gui")
		os.Chdir(oldwd)
		if out, err := r.Run(nil, "commit", "main", "after diff", "-n", "1"); err != nil {
			return fail("commit-after-diff", err, out)
		}
		rows = curA
		projectHead(203, curA)
		// (b)
		var cached time.Time
		if db, rs, closeFn, err := r.Open(); err == nil {
			if sum, err := ref.GetHead(rs, "main-tmp"); err == nil {
				if com, err := objects.GetCommit(db, sum); err == nil {
					cached = com.Time
				}
			}
			closeFn()
		}
		if !cached.IsZero() {
			curB := edit("~b")
			r.WriteFile("data.csv", tbl.CSV(append([][]string{t.Cols}, curB...), 0))
			same := cached.Truncate(time.Second).Add(500 * time.Millisecond)
			os.Chtimes(fp, same, same)
			if out, err := r.Run(nil, "commit", "main", "same second", "-n", "1"); err != nil {
				return fail("commit-same-second", err, out)
			}
			rows = curB
			projectHead(204, curB)
		}
	}
	// file and key declared with `wrgl branch config` (the other way of setting them), the key columns listed in
	// the OTHER order: the table is the table of the declared key - the order of the key columns is part of it
	if len(t.PK) >= 2 && unique {
		declared := *t
		declared.PK = nil
		for i := len(t.PK) - 1; i >= 0; i-- {
			declared.PK = append(declared.PK, t.PK[i])
		}
		if out, err := r.Run(nil, "branch", "config", "viacfg", "--set-file", fp, "--set-primary-key", strings.Join(declared.PK, ",")); err != nil {
			return fail("branch-config", err, out)
		}
		if out, err := r.Run(nil, "commit", "viacfg", "declared with branch config", "-n", "1"); err != nil {
			return fail("commit-branch-config", err, out)
		}
		if db, rs, closeFn, err := r.Open(); err == nil {
			if sum, err := ref.GetHead(rs, "viacfg"); err == nil {
				if com, err := objects.GetCommit(db, sum); err == nil {
					cur, _ := parseCSV(tbl.CSV(append([][]string{t.Cols}, rows...), 0), 0)
					cfg := Cfg{Seed: cs.Seed, Variant: 205, Kind: "cli", Workers: 1, Cols: t.Cols, PK: declared.PK, NRows: len(rows), Delim: ","}
					events = append(events, Project(&declared, cur[1:], db, com.Table, nil, cfg))
				}
			} else {
				closeFn()
				return fail("commit-branch-config", fmt.Errorf("no head after the commit"), "")
			}
			closeFn()
		}
	}
	// the commit cache: commits driven by the branch configuration reuse a cached temporary commit when the
	// file is older than it.  After the configured key is narrowed to its first column, the same unchanged
	// file must be committed as a table with THAT key (other key => other table, other identifier).
	if len(t.PK) >= 2 && unique {
		old := time.Now().Add(-time.Hour)
		os.Chtimes(fp, old, old)
		if out, err := r.Run(nil, "commit", "main", "cached", "-n", "1"); err != nil {
			return fail("commit-from-config", err, out)
		}
		os.Chtimes(fp, old, old)
		if out, err := r.Run(nil, "commit", "main", "cached again", "-n", "1"); err != nil {
			return fail("commit-from-config", err, out)
		}
		if out, err := r.Run(nil, "config", "set", "branch.main.primaryKey", t.PK[0]); err != nil {
			return fail("config-set-primary-key", err, out)
		}
		if out, err := r.Run(nil, "commit", "main", "narrowed key", "-n", "1"); err != nil {
			return fail("commit-narrowed-key", err, out)
		}
		// the narrowed key may hold duplicates: the table is judged as the table of the narrowed key
		narrowed := *t
		narrowed.PK = []string{t.PK[0]}
		db, rs, closeFn, err := r.Open()
		if err == nil {
			if sum, err := ref.GetHead(rs, "main"); err == nil {
				if com, err := objects.GetCommit(db, sum); err == nil {
					cur, _ := parseCSV(tbl.CSV(append([][]string{t.Cols}, rows...), 0), 0)
					cfg := Cfg{Seed: cs.Seed, Variant: 202, Kind: "cli", Workers: 1, Cols: t.Cols, PK: narrowed.PK, NRows: len(rows), Delim: ","}
					events = append(events, Project(&narrowed, cur[1:], db, com.Table, nil, cfg))
				}
			}
			closeFn()
		}
	}
	return events
}
