package ingestx

import (
	"bytes"
	"context"
	"encoding/json"
	"fmt"
	"os"
	"strings"

	"github.com/wrgl/wrgl/pkg/objects"
	"github.com/wrgl/wrgl/pkg/slice"
	"github.com/wrgl/wrgl/pkg/sorter"

	"verifharness/internal/child"
)

// SorterScenario is an IngestGen scenario with a set of removed columns (C19).
// Real columns are [f0, ka, f1, kb, v]: f0/f1 are filler columns before / between the
// key columns, v is the payload after them.
type SorterScenario struct {
	Scenario
	Rem []string `json:"rem"`
}

var sorterHeader = []string{"f0", "ka", "f1", "kb", "t", "v"}

func sorterRow(r [3]int) []string {
	c := concrete(r)
	return []string{"F", c[0], "G", c[1], c[2], c[3]}
}
func sorterPad(i int) []string {
	p := padRow(i)
	return []string{"F", p[0], "G", p[1], p[2], p[3]}
}

func dropCols(row []string, removed map[int]struct{}) []string {
	out := make([]string, 0, len(row))
	for i, c := range row {
		if _, ok := removed[i]; !ok {
			out = append(out, c)
		}
	}
	return out
}

func feed(sc *SorterScenario) (*sorter.Sorter, error) {
	rs := runSize(sc.Run)
	if rs == 0 {
		rs = 1 << 40
	}
	s, err := sorter.NewSorter(sorter.WithRunSize(rs))
	if err != nil {
		return nil, err
	}
	if (len(sc.In)+sc.Pad+len(sc.Rem))%2 == 1 {
		// a sorter is REUSED (re-ingest, the doctor): before this scenario it sorts another table - without a
		// key and of another width -, is closed and reset; nothing of that may survive into the scenario
		prior := [][]string{{"2", "x"}, {"1", "y"}, {"1", "x"}, {"2", "x"}}
		cols := []string{"p", "q"}
		if (len(sc.In)+sc.Pad)%4 == 1 {
			// ... or a WIDER and longer one (at a small run size it spills runs and leaves a remainder in memory)
			cols = []string{"p", "q", "r", "s", "t", "u", "v"}
			prior = nil
			for j := 0; j < 37; j++ {
				prior = append(prior, []string{fmt.Sprint(j % 9), "wide", fmt.Sprint(j), "c3", "c4", "c5-" + fmt.Sprint(j*7919), "last"})
			}
		}
		if len(sc.Rem) == 0 {
			// (a sorter is reused the way it is driven: ingest sets the columns of every table it sorts; the merge
			// collector's way never sets columns, so its earlier table did not either - no caller mixes the two)
			s.SetColumns(cols)
		}
		s.PK = nil
		for _, r := range prior {
			if err := s.AddRow(r); err != nil {
				return nil, err
			}
		}
		ec := make(chan error, 4)
		for range s.SortedRows(context.Background(), nil, ec) {
		}
		if err := s.Close(); err != nil {
			return nil, err
		}
		s.Reset()
	}
	// the two ways the repository drives the sorter: ingest sets the columns (and with
	// them the profiler) and never removes columns; the merge collector sets only the
	// key indices and may remove columns
	pk := pkOf(sc.Sh)
	if len(sc.Rem) == 0 {
		s.SetColumns(sorterHeader)
	}
	s.PK, err = slice.KeyIndices(sorterHeader, pk)
	if err != nil {
		return nil, err
	}
	np := sc.Pad
	front := np / 3
	for i := 0; i < front; i++ {
		if err := s.AddRow(sorterPad(np - 1 - i)); err != nil {
			return nil, err
		}
	}
	for _, r := range sc.In {
		if err := s.AddRow(sorterRow(r)); err != nil {
			return nil, err
		}
	}
	for i := front; i < np; i++ {
		if err := s.AddRow(sorterPad(np - 1 - i)); err != nil {
			return nil, err
		}
	}
	return s, nil
}

func spillFilesLeft() []string {
	dir := os.TempDir()
	ents, _ := os.ReadDir(dir)
	var left []string
	for _, e := range ents {
		if strings.HasPrefix(e.Name(), "sorted_chunk_") {
			left = append(left, e.Name())
		}
	}
	return left
}

// compareSorted checks one output (rows in order) against the specification's expectation,
// on the columns that were not removed.
func compareSorted(sc *SorterScenario, removed map[int]struct{}, rows [][]string) (string, interface{}) {
	want := len(sc.Exp) + sc.Pad
	if len(rows) != want {
		return "rowcount", map[string]interface{}{"expected_rows": want, "observed_rows": len(rows), "observed": rows2(rows)}
	}
	eq := func(a, b []string) bool {
		return strings.Join(a, "\x00") == strings.Join(b, "\x00") && len(a) == len(b)
	}
	for i, row := range rows {
		if i >= sc.PadAt && i < sc.PadAt+sc.Pad {
			if !eq(row, dropCols(sorterPad(i-sc.PadAt), removed)) {
				return "padrow", map[string]interface{}{"position": i, "observed_row": rows2([][]string{row})}
			}
			continue
		}
		ei := i
		if i >= sc.PadAt+sc.Pad {
			ei = i - sc.Pad
		}
		ok := false
		for _, e := range sc.Exp[ei] {
			if eq(row, dropCols(sorterRow(e), removed)) {
				ok = true
			}
		}
		if !ok {
			return "row", map[string]interface{}{"position": i, "observed_row": rows2([][]string{row}), "allowed": sc.Exp[ei]}
		}
	}
	return "", nil
}

// ReplaySorter runs both sorted outputs of the real sorter on one scenario.
func ReplaySorter(i int, raw []byte) child.Result {
	var sc SorterScenario
	if err := json.Unmarshal(raw, &sc); err != nil {
		return child.Inconclusive(err)
	}
	removed := map[int]struct{}{}
	for _, r := range sc.Rem {
		for j, c := range sorterHeader {
			if c == r {
				removed[j] = struct{}{}
			}
		}
	}
	var remArg map[int]struct{}
	if len(removed) > 0 {
		remArg = removed
	}
	fc := featureClass(&sc.Scenario)
	if len(removed) > 0 {
		fc += "+rem"
	}
	if before := spillFilesLeft(); len(before) > 0 {
		for _, f := range before {
			os.Remove(os.TempDir() + "/" + f)
		}
	}
	// output 1: binary blocks
	s1, err := feed(&sc)
	if err != nil {
		return child.Fail("sorter/addrow-error/"+fc, map[string]interface{}{"error": err.Error()})
	}
	errCh := make(chan error, 4)
	var rows1 [][]string
	nblk := 0
	// drain the channel completely before judging anything: the producer goroutine must
	// have finished (or died, taking this scenario with it) before the scenario ends
	var blks []*sorter.Block
	for blk := range s1.SortedBlocks(context.Background(), remArg, errCh) {
		blks = append(blks, blk)
	}
	for _, blk := range blks {
		if blk.Offset != nblk {
			return child.Fail("sorter/blocks/offset/"+fc, map[string]interface{}{"offset": blk.Offset, "expected": nblk})
		}
		nblk++
		_, rows, err := objects.ReadBlockFrom(bytes.NewReader(blk.Block))
		if err != nil {
			return child.Fail("sorter/blocks/undecodable/"+fc, map[string]interface{}{"error": err.Error()})
		}
		if len(rows) != blk.RowsCount {
			return child.Fail("sorter/blocks/rowscount/"+fc, map[string]interface{}{"rows": len(rows), "recorded": blk.RowsCount})
		}
		for _, r := range rows {
			rows1 = append(rows1, append([]string{}, r...))
		}
	}
	select {
	case err := <-errCh:
		return child.Fail("sorter/blocks/error/"+fc, map[string]interface{}{"error": err.Error()})
	default:
	}
	if err := s1.Close(); err != nil {
		return child.Fail("sorter/close-error/"+fc, map[string]interface{}{"error": err.Error()})
	}
	if left := spillFilesLeft(); len(left) > 0 {
		return child.Fail("sorter/close/spill-files-left/"+fc, map[string]interface{}{"files": left})
	}
	if kind, detail := compareSorted(&sc, removed, rows1); kind != "" {
		return child.Fail("sorter/blocks/"+kind+"/"+fc, detail)
	}
	// output 2: plain rows
	s2, err := feed(&sc)
	if err != nil {
		return child.Fail("sorter/addrow-error/"+fc, map[string]interface{}{"error": err.Error()})
	}
	var rows2v [][]string
	noff := 0
	var rss []*sorter.Rows
	for rs := range s2.SortedRows(context.Background(), remArg, errCh) {
		rss = append(rss, rs)
	}
	for _, rs := range rss {
		if rs.Offset != noff {
			return child.Fail("sorter/rows/offset/"+fc, map[string]interface{}{"offset": rs.Offset, "expected": noff})
		}
		noff++
		for _, r := range rs.Rows {
			rows2v = append(rows2v, append([]string{}, r...))
		}
	}
	select {
	case err := <-errCh:
		return child.Fail("sorter/rows/error/"+fc, map[string]interface{}{"error": err.Error()})
	default:
	}
	if err := s2.Close(); err != nil {
		return child.Fail("sorter/close-error/"+fc, map[string]interface{}{"error": err.Error()})
	}
	if left := spillFilesLeft(); len(left) > 0 {
		return child.Fail("sorter/close/spill-files-left/"+fc, map[string]interface{}{"files": left})
	}
	if kind, detail := compareSorted(&sc, removed, rows2v); kind != "" {
		return child.Fail("sorter/rows/"+kind+"/"+fc, detail)
	}
	// "the two outputs contain the same rows": the same sequence, also where a key occurs several times
	// (which of the duplicates survives is free, but it is the same one in both outputs)
	for j := range rows1 {
		if j >= len(rows2v) || strings.Join(rows1[j], "\x00") != strings.Join(rows2v[j], "\x00") {
			return child.Fail("sorter/outputs-differ/"+fc, map[string]interface{}{"position": j, "blocks": rows2([][]string{rows1[j]})})
		}
	}
	// an abandoned sort (what the ingest does when saving a block fails: its deferred cancel): the consumer takes
	// the first item, cancels, and closes the sorter - "temporary spill files are deleted when the sorter is closed"
	s3, err := feed(&sc)
	if err != nil {
		return child.Fail("sorter/addrow-error/"+fc, map[string]interface{}{"error": err.Error()})
	}
	ctx, cancel := context.WithCancel(context.Background())
	errCh3 := make(chan error, 8)
	if i%2 == 0 {
		ch := s3.SortedBlocks(ctx, remArg, errCh3)
		<-ch
		cancel()
		for range ch {
		}
	} else {
		ch := s3.SortedRows(ctx, remArg, errCh3)
		<-ch
		cancel()
		for range ch {
		}
	}
	s3.Close()
	if left := spillFilesLeft(); len(left) > 0 {
		return child.Fail("sorter/close/spill-files-left-after-cancel/"+fc, map[string]interface{}{"files": left})
	}
	if len(sc.In) == 0 && sc.Pad == 0 {
		return child.Pass("-")
	}
	return child.Pass(fmt.Sprintf("%s/%s/rem%d", sc.Sh, fc, len(removed)))
}
