package remotecfg

import (
	"encoding/json"
	"fmt"
	"os"
	"sort"
	"strings"

	"github.com/wrgl/wrgl/pkg/conf"

	"verifharness/internal/child"
)

// prepared repositories, one per distinct prefix of operations (per child process)
var templates = map[string]*Repo{}

func prepared(pre []Op) (*Repo, error) {
	b, _ := json.Marshal(pre)
	k := string(b)
	if t, ok := templates[k]; ok {
		return t, nil
	}
	dir, err := os.MkdirTemp("", "rcfg-tmpl")
	if err != nil {
		return nil, err
	}
	r, err := NewRepo(dir)
	if err != nil {
		return nil, err
	}
	for _, o := range pre {
		// the steps of a prefix are compared one by one in the prefix's own scenario
		if _, _, err := r.Exec(o); err != nil {
			return nil, err
		}
	}
	r.Close()
	templates[k] = r
	return r, nil
}

// names whose logs are looked at even when no ref of that name exists
func probeNames(sc *Scenario) []string {
	rem := map[string]bool{"origin": true, "origin2": true, "or_gin": true, "Origin": true, "o%": true}
	br := map[string]bool{"main": true, "a/b": true}
	names := []string{"heads/main"}
	all := append(append([]Op{}, sc.Pre...), opsOf(sc.Steps)...)
	for _, o := range all {
		switch o[0] {
		case "rename":
			rem[o[1]], rem[o[2]] = true, true
		case "rm", "add":
			rem[o[1]] = true
		case "mkref":
			names = append(names, o[1])
			if p := strings.SplitN(o[1], "/", 3); len(p) == 3 && p[0] == "remotes" {
				rem[p[1]], br[p[2]] = true, true
			}
		}
	}
	for n := range rem {
		for b := range br {
			names = append(names, "remotes/"+n+"/"+b)
		}
	}
	return names
}

func opsOf(steps []Step) []Op {
	out := make([]Op, len(steps))
	for i := range steps {
		out[i] = steps[i].Op
	}
	return out
}

type stepReport struct {
	Step     int         `json:"step"`
	Op       Op          `json:"op"`
	Command  []string    `json:"command"`
	Class    string      `json:"class"`
	Sigs     []string    `json:"sigs"`
	Result   *Result     `json:"result"`
	Observed interface{} `json:"observed"`
	Out      Out         `json:"out"`
	Expected interface{} `json:"expected_first_alternative"`
}

func exportState(s *State) map[string]interface{} {
	return map[string]interface{}{"remotes": s.Remotes, "branches": s.Branches, "refs": s.Refs, "logs": s.Logs,
		"fetchmap": fmReadable(s.Fm), "fetchmap_panics": keysReadable(s.FmPanic), "user": s.Other, "unreadable": s.Unread}
}

func fmReadable(m map[string][]string) map[string][]string {
	out := map[string][]string{}
	for k, v := range m {
		out[strings.Replace(k, "\x00", " <- ", 1)] = v
	}
	return out
}

func keysReadable(m map[string]bool) []string {
	out := []string{}
	for k := range m {
		out = append(out, strings.Replace(k, "\x00", " <- ", 1))
	}
	sort.Strings(out)
	return out
}

// Judge compares what one real step did with the allowed outcomes; it returns the
// signatures of the deviations and whether the state itself deviates (the behaviour cannot
// be continued then).
func Judge(st *Step, res *Result, obs *State, out *Out) (sigs []string, fatal bool) {
	base := "remotecfg/" + st.Op[0] + "/" + st.Class + "/"
	best, bestDev := -1, []string{}
	for i := range st.Alts {
		d := deviations(&st.Alts[i], res, obs, out)
		if best < 0 || len(d) < len(bestDev) {
			best, bestDev = i, d
		}
		if len(d) == 0 {
			break
		}
	}
	if best < 0 {
		return []string{base + "no-outcome"}, true
	}
	suffix := ""
	judged := &st.Alts[best]
	if len(bestDev) > 0 {
		for i := range st.Devs {
			if len(deviations(&st.Devs[i].Alt, res, obs, out)) == 0 {
				suffix = "/" + st.Devs[i].Name
				judged = &st.Devs[i].Alt
				break
			}
		}
	}
	for _, p := range bestDev {
		sigs = append(sigs, base+p+suffix)
		if isStatePart(p) {
			fatal = true
		}
	}
	if res.Crashed() {
		sigs = append(sigs, base+"crash")
	}
	// the derived fetch map is judged against the state the real code is in
	if !fatal || suffix != "" {
		for _, p := range fmPart(judged.St, obs) {
			sigs = append(sigs, "remotecfg/fetchmap/"+p)
		}
	}
	return sigs, fatal
}

// Replay runs one scenario line of RemoteCfgGen against the real command line.
func Replay(i int, raw []byte) child.Result {
	if len(raw) > 6 && string(raw[:6]) == `{"rs":` {
		return replayRefspec(raw)
	}
	var sc Scenario
	if err := json.Unmarshal(raw, &sc); err != nil {
		return child.Inconclusive(fmt.Errorf("scenario %d: %v", i, err))
	}
	if len(sc.Steps) == 0 {
		return child.Pass("-")
	}
	tmpl, err := prepared(sc.Pre)
	if err != nil {
		return child.Inconclusive(err)
	}
	work, err := os.MkdirTemp("", "rcfg")
	if err != nil {
		return child.Inconclusive(err)
	}
	defer os.RemoveAll(work)
	r, err := CloneRepo(tmpl, work)
	if err != nil {
		return child.Inconclusive(err)
	}
	defer r.Close()
	probe := probeNames(&sc)
	var reports []stepReport
	allSigs := []string{}
	for n := range sc.Steps {
		st := &sc.Steps[n]
		res, out, err := r.Exec(st.Op)
		if err != nil {
			return child.Inconclusive(err)
		}
		obs, err := r.Observe(probe)
		if err != nil {
			return child.Inconclusive(err)
		}
		sigs, fatal := Judge(st, res, obs, &out)
		if len(sigs) > 0 {
			rep := stepReport{Step: n, Op: st.Op, Command: Args(st.Op), Class: st.Class, Sigs: sigs, Result: res,
				Observed: exportState(obs), Out: out}
			if len(st.Alts) > 0 {
				rep.Expected = map[string]interface{}{"ok": st.Alts[0].Ok, "state": exportState(st.Alts[0].St), "out": st.Alts[0].Out}
			}
			reports = append(reports, rep)
			allSigs = append(allSigs, sigs...)
		}
		if fatal {
			break
		}
	}
	last := sc.Steps[len(sc.Steps)-1]
	if len(allSigs) > 0 {
		allSigs = uniq(allSigs)
		return child.Fail(allSigs[0], map[string]interface{}{"sigs": allSigs, "steps": reports, "prepared_by": sc.Pre})
	}
	return child.Pass(last.Op[0] + "/" + last.Class)
}

func uniq(l []string) []string {
	seen := map[string]bool{}
	out := []string{}
	for _, s := range l {
		if !seen[s] {
			seen[s] = true
			out = append(out, s)
		}
	}
	return out
}

// ---- refspec universe

type rsLine struct {
	Text  string      `json:"rs"`
	Kind  string      `json:"kind"`
	Ok    string      `json:"ok"`
	Rec   [5]string   `json:"rec"`
	Rows  [][4]string `json:"rows"`
	COk   string      `json:"cok"`
	CRec  [5]string   `json:"crec"`
	CRows [][4]string `json:"crows"`
}

func b2s(b bool) string {
	if b {
		return "T"
	}
	return "F"
}

type rsObserved struct {
	Ok     string      `json:"ok"`
	Err    string      `json:"err"`
	Rec    [5]string   `json:"rec"` // force, negate, (tag: not observable), Src(), Dst()
	String string      `json:"string"`
	Rows   [][4]string `json:"rows"`
}

func observeRefspec(text string, names []string) (o rsObserved) {
	var rs *conf.Refspec
	func() {
		defer func() {
			if p := recover(); p != nil {
				o.Ok, o.Err = "PANIC", fmt.Sprint(p)
			}
		}()
		r, err := conf.ParseRefspec(text)
		if err != nil {
			o.Ok, o.Err = "F", err.Error()
			return
		}
		o.Ok, rs = "T", r
	}()
	if rs == nil {
		return
	}
	o.Rec = [5]string{b2s(rs.Force), b2s(rs.Negate), "", rs.Src(), rs.Dst()}
	o.String = rs.String()
	for _, n := range names {
		row := [4]string{n, b2s(rs.SrcMatchRef(n)), b2s(rs.DstMatchRef(n)), ""}
		d, panicked := safeDst(rs, n)
		if panicked {
			d = "PANIC"
		}
		row[3] = d
		o.Rows = append(o.Rows, row)
	}
	return
}

func rowsEqual(want [][4]string, got [][4]string) bool {
	m := map[string][4]string{}
	for _, r := range want {
		m[r[0]] = r
	}
	if len(want) != len(got) {
		return false
	}
	for _, r := range got {
		if m[r[0]] != r {
			return false
		}
	}
	return true
}

func recEqual(want [5]string, got [5]string) bool {
	return want[0] == got[0] && want[1] == got[1] && want[3] == got[3] && want[4] == got[4]
}

// replayRefspec: the text is given to the real parser; flags, source, destination, the
// string form and the matching table must be the specification's.
func replayRefspec(raw []byte) child.Result {
	var ln rsLine
	if err := json.Unmarshal(raw, &ln); err != nil {
		return child.Inconclusive(err)
	}
	names := []string{}
	for _, r := range ln.Rows {
		names = append(names, r[0])
	}
	o := observeRefspec(ln.Text, names)
	what := ""
	switch {
	case o.Ok != ln.Ok:
		what = "parse-ok"
	case ln.Ok == "F":
	case !recEqual(ln.Rec, o.Rec):
		what = "record"
	case o.String != ln.Text:
		what = "string"
	case !rowsEqual(ln.Rows, o.Rows):
		what = "rows"
	}
	if what == "" {
		// a record built from its parts prints as the same text
		if ln.Ok == "T" && ln.Rec[2] == "" {
			src, dst := ln.Rec[3], ln.Rec[4]
			if rs, err := conf.NewRefspec(src, dst, ln.Rec[1] == "T", ln.Rec[0] == "T"); err != nil || rs.String() != ln.Text {
				what = "constructed-string"
			}
		}
	}
	if what == "" {
		return child.Pass("refspec/" + ln.Kind)
	}
	sig := "remotecfg/refspec/" + ln.Kind + "/" + what
	// exactly what the pinned code is known to do?
	if o.Ok == ln.COk && (ln.COk != "T" || (recEqual(ln.CRec, o.Rec) && rowsEqual(ln.CRows, o.Rows))) {
		sig = "remotecfg/refspec/" + ln.Kind + "/as-coded"
	}
	return child.Fail(sig, map[string]interface{}{"sigs": []string{sig}, "text": ln.Text, "what": what, "observed": o,
		"expected": map[string]interface{}{"ok": ln.Ok, "rec": ln.Rec, "rows": ln.Rows}})
}
