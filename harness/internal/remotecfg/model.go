package remotecfg

import (
	"encoding/json"
	"fmt"
	"reflect"
	"sort"
	"strings"
)

// Op is an operation of spec/RemoteCfg.tla: <<name, a, b, c, d, e>>.
type Op [6]string

// FetchSrcs is RemoteCfg!FetchSrcs: the remote refs for which "where would a fetch store
// it" is observed after every command.
var FetchSrcs = []string{"refs/heads/main", "refs/heads/a/b", "refs/tags/v1"}

const identity = "verif@example.invalid|Verif"

type Remote struct {
	URL    string
	Fetch  []string
	Push   []string
	Mirror bool
}

// State is the projection of a repository on what RemoteCfg.tla talks about.
type State struct {
	Remotes  map[string]Remote
	Branches map[string][2]string // branch -> remote, merge (sections with neither are no sections)
	Refs     map[string]int
	Logs     map[string][][2]int // oldest first
	Fm       map[string][]string // remote \x00 src -> sorted destinations (non-empty only)
	Fmd      map[string][]string // expectation only: what the pinned code computes, when different
	FmPanic  map[string]bool     // observed: computing the destination panicked; expected: the pinned code panics
	Other    string              // observed only: the user section of the file
	Unread   string              // observed only: the configuration could not be read back
}

type Out struct {
	A []string    `json:"a"` // ordered lines
	B []string    `json:"b"` // lines in any order
	C [][2]string `json:"c"` // remote branches of `remote show`: name, "tracked" | ""
}

type Alt struct {
	Ok  string // "T" | "F" | "*"
	St  *State
	Out Out
}

type Dev struct {
	Name string
	Alt  Alt
}

type Step struct {
	Op    Op
	Class string
	Alts  []Alt
	Devs  []Dev
}

type Scenario struct {
	Pre   []Op
	Steps []Step
}

// ---- decoding of what TLC exported

type stateJSON struct {
	R    [][5]json.RawMessage `json:"r"`
	B    [][3]string          `json:"b"`
	Refs [][2]json.RawMessage `json:"refs"`
	Logs [][2]json.RawMessage `json:"logs"`
	Fm   [][3]json.RawMessage `json:"fm"`
	Fmd  [][3]json.RawMessage `json:"fmd"`
	Fmp  [][2]string          `json:"fmp"`
}

func fmKey(n, src string) string { return n + "\x00" + src }

func decodeFm(rows [][3]json.RawMessage) (map[string][]string, error) {
	m := map[string][]string{}
	for _, t := range rows {
		var n, src string
		var ds []string
		if err := json.Unmarshal(t[0], &n); err != nil {
			return nil, err
		}
		if err := json.Unmarshal(t[1], &src); err != nil {
			return nil, err
		}
		if err := json.Unmarshal(t[2], &ds); err != nil {
			return nil, err
		}
		sort.Strings(ds)
		m[fmKey(n, src)] = ds
	}
	return m, nil
}

func (s *State) UnmarshalJSON(b []byte) error {
	var j stateJSON
	if err := json.Unmarshal(b, &j); err != nil {
		return err
	}
	s.Remotes = map[string]Remote{}
	s.Branches = map[string][2]string{}
	s.Refs = map[string]int{}
	s.Logs = map[string][][2]int{}
	s.FmPanic = map[string]bool{}
	for _, t := range j.R {
		var n, mir string
		var r Remote
		for i, dst := range []interface{}{&n, &r.URL, &r.Fetch, &r.Push, &mir} {
			if err := json.Unmarshal(t[i], dst); err != nil {
				return fmt.Errorf("remote tuple: %v", err)
			}
		}
		r.Mirror = mir == "true"
		s.Remotes[n] = r
	}
	for _, t := range j.B {
		s.Branches[t[0]] = [2]string{t[1], t[2]}
	}
	for _, t := range j.Refs {
		var n string
		var v int
		if err := json.Unmarshal(t[0], &n); err != nil {
			return err
		}
		if err := json.Unmarshal(t[1], &v); err != nil {
			return err
		}
		s.Refs[n] = v
	}
	for _, t := range j.Logs {
		var n string
		var l [][2]int
		if err := json.Unmarshal(t[0], &n); err != nil {
			return err
		}
		if err := json.Unmarshal(t[1], &l); err != nil {
			return err
		}
		s.Logs[n] = l
	}
	var err error
	if s.Fm, err = decodeFm(j.Fm); err != nil {
		return err
	}
	if len(j.Fmd) > 0 {
		if s.Fmd, err = decodeFm(j.Fmd); err != nil {
			return err
		}
	}
	for _, t := range j.Fmp {
		s.FmPanic[fmKey(t[0], t[1])] = true
	}
	return nil
}

func (a *Alt) UnmarshalJSON(b []byte) error {
	var t [3]json.RawMessage
	if err := json.Unmarshal(b, &t); err != nil {
		return err
	}
	if err := json.Unmarshal(t[0], &a.Ok); err != nil {
		return err
	}
	a.St = &State{}
	if err := json.Unmarshal(t[1], a.St); err != nil {
		return err
	}
	return json.Unmarshal(t[2], &a.Out)
}

func (d *Dev) UnmarshalJSON(b []byte) error {
	var t [2]json.RawMessage
	if err := json.Unmarshal(b, &t); err != nil {
		return err
	}
	if err := json.Unmarshal(t[0], &d.Name); err != nil {
		return err
	}
	return json.Unmarshal(t[1], &d.Alt)
}

func (s *Step) UnmarshalJSON(b []byte) error {
	// a step is JSON text inside the scenario line (see RemoteCfgGen!Step)
	var text string
	if err := json.Unmarshal(b, &text); err == nil {
		b = []byte(text)
	}
	var t [4]json.RawMessage
	if err := json.Unmarshal(b, &t); err != nil {
		return err
	}
	for i, dst := range []interface{}{&s.Op, &s.Class, &s.Alts, &s.Devs} {
		if err := json.Unmarshal(t[i], dst); err != nil {
			return fmt.Errorf("step field %d: %v", i, err)
		}
	}
	return nil
}

// ---- comparison

func sameBag(a, b []string) bool {
	if len(a) != len(b) {
		return false
	}
	x := append([]string{}, a...)
	y := append([]string{}, b...)
	sort.Strings(x)
	sort.Strings(y)
	for i := range x {
		if x[i] != y[i] {
			return false
		}
	}
	return true
}

func sameSeq(a, b []string) bool {
	if len(a) != len(b) {
		return false
	}
	for i := range a {
		if a[i] != b[i] {
			return false
		}
	}
	return true
}

func sameLogs(a, b map[string][][2]int) bool {
	if len(a) != len(b) {
		return false
	}
	for n, l := range a {
		if !reflect.DeepEqual(l, b[n]) {
			return false
		}
	}
	return true
}

// stateParts names the parts of the state in which obs differs from exp:
// "refs" (ref store and logs), "fetch" (the fetch refspecs of a remote, as a bag),
// "config" (everything else of the configuration).
func stateParts(exp, obs *State) []string {
	var parts []string
	if !reflect.DeepEqual(exp.Refs, obs.Refs) || !sameLogs(exp.Logs, obs.Logs) {
		parts = append(parts, "refs")
	}
	fetch, config := false, false
	if obs.Unread != "" || obs.Other != identity || len(exp.Remotes) != len(obs.Remotes) ||
		!reflect.DeepEqual(exp.Branches, obs.Branches) {
		config = true
	}
	for n, e := range exp.Remotes {
		o, ok := obs.Remotes[n]
		if !ok {
			config = true
			continue
		}
		if e.URL != o.URL || e.Mirror != o.Mirror || !sameSeq(e.Push, o.Push) {
			config = true
		}
		if !sameBag(e.Fetch, o.Fetch) {
			fetch = true
		}
	}
	if fetch {
		parts = append(parts, "fetch")
	}
	if config {
		parts = append(parts, "config")
	}
	return parts
}

// fmPart compares the observed fetch map with the expected one: "" (equal), or the
// deviation: "wrong" (different), "tagspec-matches-all" and "glob-short-name-panic"
// (exactly what the pinned code is known to compute), "panic" (another panic).
func fmPart(exp, obs *State) []string {
	var out []string
	known := true
	for k := range obs.FmPanic {
		if !exp.FmPanic[k] {
			known = false
		}
	}
	if len(obs.FmPanic) > 0 {
		if known {
			out = append(out, "glob-short-name-panic")
		} else {
			out = append(out, "panic")
		}
	}
	eq := func(want map[string][]string) bool {
		keys := map[string]bool{}
		for k := range want {
			keys[k] = true
		}
		for k := range obs.Fm {
			keys[k] = true
		}
		for k := range keys {
			if obs.FmPanic[k] {
				continue
			}
			if !sameSeq(want[k], obs.Fm[k]) {
				return false
			}
		}
		return true
	}
	if !eq(exp.Fm) {
		if exp.Fmd != nil && eq(exp.Fmd) {
			out = append(out, "tagspec-matches-all")
		} else {
			out = append(out, "wrong")
		}
	}
	return out
}

func sameOut(e, o *Out) bool {
	if !sameSeq(e.A, o.A) || !sameBag(e.B, o.B) || len(e.C) != len(o.C) {
		return false
	}
	m := map[string]string{}
	for _, p := range e.C {
		m[p[0]] = p[1]
	}
	for _, p := range o.C {
		if v, ok := m[p[0]]; !ok || v != p[1] {
			return false
		}
	}
	return true
}

// deviations lists the parts in which (res, obs, out) differs from the allowed outcome a
// (the derived fetch map is judged separately).
func deviations(a *Alt, res *Result, obs *State, out *Out) []string {
	parts := stateParts(a.St, obs)
	switch a.Ok {
	case "T":
		if res.Refused() {
			parts = append(parts, "ok")
		}
	case "F":
		if !res.Refused() {
			parts = append(parts, "ok")
		}
	}
	if a.Ok != "F" && !res.Refused() && !sameOut(&a.Out, out) {
		parts = append(parts, "out")
	}
	return parts
}

func isStatePart(p string) bool { return p == "refs" || p == "fetch" || p == "config" }

// ---- operations -> command lines

func key(o Op) string { return o[1] + "." + o[2] + "." + o[3] }

func patArgs(p string) []string {
	if p == "" {
		return nil
	}
	kind, text := p[:3], p[4:]
	switch kind {
	case "fix":
		return []string{text, "--fixed-value"}
	case "pre":
		return []string{"^" + text}
	}
	return []string{text}
}

// Args is the command line of an operation (nil: not a command line, see Exec).
func Args(o Op) []string {
	switch o[0] {
	case "add":
		a := []string{"remote", "add", o[1], o[2]}
		if o[3] != "" {
			for _, b := range strings.Split(o[3], ",") {
				a = append(a, "-t", b)
			}
		}
		switch o[4] {
		case "tags":
			a = append(a, "--tags")
		case "mfetch":
			a = append(a, "--mirror=fetch")
		case "mpush":
			a = append(a, "--mirror=push")
		}
		return a
	case "rm":
		return []string{"remote", "remove", o[1]}
	case "rename":
		return []string{"remote", "rename", o[1], o[2]}
	case "setbr":
		a := []string{"remote", "set-branches", o[1], o[2]}
		if o[3] == "add" {
			a = append(a, "--add")
		}
		return a
	case "seturl":
		return []string{"remote", "set-url", o[1], o[2]}
	case "geturl":
		return []string{"remote", "get-url", o[1]}
	case "show":
		return []string{"remote", "show", o[1]}
	case "cset":
		return []string{"config", "set", key(o), o[4]}
	case "cadd":
		return []string{"config", "add", key(o), o[4]}
	case "cunset":
		a := append([]string{"config", "unset", key(o)}, patArgs(o[4])...)
		if o[5] == "all" {
			a = append(a, "--all")
		}
		return a
	case "creplace":
		return append([]string{"config", "replace-all", key(o), o[4]}, patArgs(o[5])...)
	case "crensec":
		return []string{"config", "rename-section", o[1] + "." + o[2], o[1] + "." + o[3]}
	case "cget":
		return append(append([]string{"config", "get", key(o)}, patArgs(o[4])...), "--local")
	}
	return nil
}

func lines(s string) []string {
	s = strings.TrimSuffix(s, "\n")
	if s == "" {
		return []string{}
	}
	return strings.Split(s, "\n")
}

// ParseOut projects what a reading command printed.
func ParseOut(o Op, text string) Out {
	out := Out{A: []string{}, B: []string{}, C: [][2]string{}}
	switch o[0] {
	case "geturl":
		out.A = []string{strings.TrimSuffix(text, "\n")} // one line, empty for a remote without URL
	case "cget":
		if o[3] == "fetch" {
			out.B = lines(text)
		} else {
			out.A = lines(text)
		}
	case "show":
		sect := ""
		for _, ln := range lines(text) {
			t := strings.TrimSpace(ln)
			switch {
			case strings.HasPrefix(ln, "* "):
			case strings.HasPrefix(t, "URL: "):
				out.A = append(out.A, strings.TrimPrefix(t, "URL: "))
			case t == "URL:":
				out.A = append(out.A, "")
			case t == "Fetch:" || t == "Push:" || t == "Remote branches:":
				sect = t
			case sect == "Fetch:":
				out.B = append(out.B, t)
			case sect == "Push:":
				out.A = append(out.A, t)
			case sect == "Remote branches:":
				f := strings.Fields(t)
				if len(f) == 1 {
					out.C = append(out.C, [2]string{f[0], ""})
				} else if len(f) >= 2 {
					out.C = append(out.C, [2]string{f[0], f[1]})
				}
			}
		}
	}
	return out
}
