package remotecfg

import (
	"bufio"
	"encoding/json"
	"flag"
	"fmt"
	"math/rand"
	"os"
	"sort"
	"strings"
)

// Event is one NDJSON line of a remotecfg trace (every field always present).
type Event struct {
	Op    Op       `json:"op"`
	Ok    string   `json:"ok"`    // "T": the command line succeeded, "F": it refused
	Crash string   `json:"crash"` // "T": panic / death other than exit status 1
	Out   Out      `json:"out"`
	Obs   obsJSON  `json:"obs"`
	Cmd   []string `json:"cmd"`
	Err   string   `json:"err"`
}

type obsJSON struct {
	R     [][5]interface{} `json:"r"`
	B     [][3]string      `json:"b"`
	Refs  [][2]interface{} `json:"refs"`
	Logs  [][2]interface{} `json:"logs"`
	Fm    [][3]interface{} `json:"fm"`
	Fmp   [][2]string      `json:"fmp"`
	Other string           `json:"other"`
}

func sortedKeys(m interface{}) []string {
	var ks []string
	switch x := m.(type) {
	case map[string]Remote:
		for k := range x {
			ks = append(ks, k)
		}
	case map[string][2]string:
		for k := range x {
			ks = append(ks, k)
		}
	case map[string]int:
		for k := range x {
			ks = append(ks, k)
		}
	case map[string][][2]int:
		for k := range x {
			ks = append(ks, k)
		}
	case map[string][]string:
		for k := range x {
			ks = append(ks, k)
		}
	case map[string]bool:
		for k := range x {
			ks = append(ks, k)
		}
	}
	sort.Strings(ks)
	return ks
}

func nn(l []string) []string {
	if l == nil {
		return []string{}
	}
	return l
}

func toObsJSON(s *State) obsJSON {
	o := obsJSON{R: [][5]interface{}{}, B: [][3]string{}, Refs: [][2]interface{}{}, Logs: [][2]interface{}{}, Fm: [][3]interface{}{},
		Fmp: [][2]string{}, Other: s.Other}
	if s.Unread != "" {
		o.Other = "UNREADABLE: " + s.Unread
	}
	for _, n := range sortedKeys(s.Remotes) {
		r := s.Remotes[n]
		mir := "false"
		if r.Mirror {
			mir = "true"
		}
		o.R = append(o.R, [5]interface{}{n, r.URL, nn(r.Fetch), nn(r.Push), mir})
	}
	for _, b := range sortedKeys(s.Branches) {
		o.B = append(o.B, [3]string{b, s.Branches[b][0], s.Branches[b][1]})
	}
	for _, n := range sortedKeys(s.Refs) {
		o.Refs = append(o.Refs, [2]interface{}{n, s.Refs[n]})
	}
	for _, n := range sortedKeys(s.Logs) {
		o.Logs = append(o.Logs, [2]interface{}{n, s.Logs[n]})
	}
	for _, k := range sortedKeys(s.Fm) {
		p := strings.SplitN(k, "\x00", 2)
		o.Fm = append(o.Fm, [3]interface{}{p[0], p[1], s.Fm[k]})
	}
	for _, k := range sortedKeys(s.FmPanic) {
		p := strings.SplitN(k, "\x00", 2)
		o.Fmp = append(o.Fmp, [2]string{p[0], p[1]})
	}
	return o
}

func normOut(o Out) Out {
	if o.A == nil {
		o.A = []string{}
	}
	if o.B == nil {
		o.B = []string{}
	}
	if o.C == nil {
		o.C = [][2]string{}
	}
	return o
}

var (
	recRemotes  = []string{"origin", "origin2", "or_gin", "Origin", "o%", "new"}
	recBranches = []string{"main", "a/b", "dev"}
	recURLs     = []string{"https://h/a", "https://h/b/", "https://h/c"}
	recTracks   = []string{"", "", "main", "main,a/b", "a/b"}
	recModes    = []string{"", "", "", "tags", "mfetch", "mpush"}
	recValues   = []string{"refs/heads/main", "refs/heads/a/b:refs/heads/main", "refs/tags/v1", "tag v1", "refs/heads/dev",
		"+refs/heads/dev:refs/remotes/origin/dev", "+refs/heads/*:refs/remotes/origin2/*", "^refs/heads/dev", "refs/heads/*"}
	recPats = []string{"", "", "sub:refs/heads", "fix:refs/heads/main", "pre:refs/tags", "sub:remotes/origin/", "fix:tag v1"}
)

// Record drives the real command line with seeded random operation sequences and writes
// the trace: one line per operation with the real answer and the projection of the whole
// repository after it.
func Record(args []string) error {
	fs := flag.NewFlagSet("record remotecfg", flag.ExitOnError)
	seed := fs.Int64("seed", 1, "seed")
	n := fs.Int("n", 10, "number of traces")
	length := fs.Int("len", 40, "operations per trace")
	out := fs.String("out", "", "output trace file")
	fs.Parse(args)
	f, err := os.Create(*out)
	if err != nil {
		return err
	}
	defer f.Close()
	w := bufio.NewWriter(f)
	defer w.Flush()
	defer StopWorker()
	rng := rand.New(rand.NewSource(*seed))
	pick := func(l []string) string { return l[rng.Intn(len(l))] }
	for t := 0; t < *n; t++ {
		dir, err := os.MkdirTemp("", "rcfg-rec")
		if err != nil {
			return err
		}
		r, err := NewRepo(dir)
		if err != nil {
			return err
		}
		probe := []string{"heads/main"}
		for _, rn := range recRemotes {
			for _, b := range recBranches {
				probe = append(probe, "remotes/"+rn+"/"+b)
			}
		}
		emit := func(o Op, res *Result, out Out) error {
			obs, err := r.Observe(probe)
			if err != nil {
				return err
			}
			e := Event{Op: o, Ok: "T", Crash: "F", Out: normOut(out), Obs: toObsJSON(obs), Cmd: Args(o), Err: ""}
			if e.Cmd == nil {
				e.Cmd = []string{}
			}
			if res != nil {
				if res.Refused() {
					e.Ok = "F"
				}
				if res.Crashed() {
					e.Crash = "T"
				}
				e.Err = clip(res.Err+res.Death, 300)
			}
			b, err := json.Marshal(&e)
			if err != nil {
				return err
			}
			w.Write(b)
			return w.WriteByte('\n')
		}
		if err := emit(Op{"reset", "", "", "", "", ""}, nil, Out{}); err != nil {
			return err
		}
		for i := 0; i < *length; i++ {
			var o Op
			switch k := rng.Intn(100); {
			case k < 12:
				o = Op{"add", pick(recRemotes), pick(recURLs), pick(recTracks), pick(recModes), ""}
				if o[4] == "mfetch" {
					o[3] = ""
				}
			case k < 18:
				o = Op{"rm", pick(recRemotes), "", "", "", ""}
			case k < 32:
				o = Op{"rename", pick(recRemotes), pick(recRemotes), "", "", ""}
			case k < 40:
				o = Op{"setbr", pick(recRemotes), pick(recBranches), pick([]string{"", "add", "add"}), "", ""}
			case k < 43:
				o = Op{"seturl", pick(recRemotes), pick(recURLs), "", "", ""}
			case k < 45:
				o = Op{"geturl", pick(recRemotes), "", "", "", ""}
			case k < 50:
				o = Op{"show", pick(recRemotes), "", "", "", ""}
			case k < 64:
				name := "remotes/" + pick(recRemotes) + "/" + pick(recBranches)
				if rng.Intn(8) == 0 {
					name = "heads/main"
				}
				o = Op{"mkref", name, fmt.Sprint(1 + rng.Intn(3)), "", "", ""}
			case k < 70:
				switch rng.Intn(4) {
				case 0:
					o = Op{"cset", "remote", pick(recRemotes), "url", pick(recURLs[:1]), ""}
				case 1:
					o = Op{"cset", "remote", pick(recRemotes), "mirror", pick([]string{"true", "false", "yes"}), ""}
				case 2:
					o = Op{"cset", "branch", pick(recBranches), "remote", pick(recRemotes), ""}
				default:
					o = Op{"cset", "branch", pick(recBranches), "merge", "refs/heads/" + pick(recBranches), ""}
				}
			case k < 80:
				o = Op{"cadd", "remote", pick(recRemotes), pick([]string{"fetch", "push", "push"}), pick(recValues), ""}
			case k < 87:
				o = Op{"cunset", "remote", pick(recRemotes), pick([]string{"fetch", "push", "push", "mirror"}), pick(recPats), pick([]string{"", "all"})}
				if rng.Intn(5) == 0 {
					o = Op{"cunset", "branch", pick(recBranches), pick([]string{"remote", "merge"}), "", pick([]string{"", "all"})}
				}
			case k < 92:
				o = Op{"creplace", "remote", pick(recRemotes), pick([]string{"fetch", "push"}), pick(recValues), pick(recPats)}
			case k < 96:
				if rng.Intn(3) == 0 {
					o = Op{"crensec", "branch", pick(recBranches), pick(recBranches), "", ""}
				} else {
					o = Op{"crensec", "remote", pick(recRemotes), pick(recRemotes), "", ""}
				}
			default:
				o = Op{"cget", "remote", pick(recRemotes), pick([]string{"fetch", "push", "url", "mirror"}), pick(recPats), ""}
				if rng.Intn(4) == 0 {
					o = Op{"cget", "branch", pick(recBranches), pick([]string{"remote", "merge"}), "", ""}
				}
			}
			res, out, err := r.Exec(o)
			if err != nil {
				return err
			}
			if err := emit(o, res, out); err != nil {
				return err
			}
		}
		r.Close()
		os.RemoveAll(dir)
	}
	return nil
}
