// Package remotecfg binds spec/RemoteCfg.tla to the real `wrgl remote` and
// `wrgl config` commands.
//
// Several of these commands leave through os.Exit(1) when they refuse (e.g.
// utils.MustGetRemote: "fatal: No such remote"), which in-process would end the replay
// child.  The commands therefore run in a worker subprocess of the same binary
// (`wconf remotecfg-worker`, dispatched from cmd/wconf/reg_remotecfg.go): one JSON line per
// command in, one JSON line out; a worker that exits is the command's exit status and is
// restarted for the next command (all state lives in the repository directory).
package remotecfg

import (
	"bufio"
	"encoding/json"
	"fmt"
	"io"
	"os"
	"os/exec"
	"path/filepath"
	"strings"
	"sync"
	"time"

	"verifharness/internal/cli"
)

type request struct {
	Dir  string   `json:"dir"` // the .wrgl directory
	Args []string `json:"args"`
}

// Result is what one command line did.
type Result struct {
	Out   string `json:"out"`
	Err   string `json:"err"`   // error returned by the command ("" = success)
	Exit  int    `json:"exit"`  // exit status when the process left through os.Exit / died; -1 otherwise
	Panic bool   `json:"panic"` // the command panicked (recovered by cli.Run) or the process died of a panic
	Death string `json:"death,omitempty"`
}

// Refused tells whether the command line ended unsuccessfully the way a command line does
// (error returned, or exit status 1).
func (r *Result) Refused() bool { return r.Err != "" || r.Exit == 1 }

// Crashed: panic, or a death other than exit status 1.
func (r *Result) Crashed() bool { return r.Panic || (r.Exit >= 0 && r.Exit != 1) }

// WorkerMain is the body of `wconf remotecfg-worker`.
func WorkerMain() {
	in := bufio.NewReaderSize(os.Stdin, 1<<16)
	out := bufio.NewWriter(os.Stdout)
	for {
		line, err := in.ReadBytes('\n')
		if len(line) > 0 {
			var rq request
			if e := json.Unmarshal(line, &rq); e != nil {
				fmt.Fprintln(os.Stderr, "worker: bad request:", e)
				os.Exit(4)
			}
			r := &cli.Repo{Root: filepath.Dir(rq.Dir), WrglDir: rq.Dir}
			res := Result{Exit: -1}
			o, e := r.Run(nil, rq.Args...)
			res.Out = o
			if e != nil {
				res.Err = e.Error()
				res.Panic = strings.HasPrefix(res.Err, "PANIC in wrgl")
			}
			b, _ := json.Marshal(&res)
			out.Write(b)
			out.WriteByte('\n')
			out.Flush()
		}
		if err != nil {
			return
		}
	}
}

type worker struct {
	cmd    *exec.Cmd
	in     io.WriteCloser
	lines  chan []byte
	done   chan struct{}
	stderr *tail
}

type tail struct {
	mu sync.Mutex
	b  []byte
}

func (t *tail) Write(p []byte) (int, error) {
	t.mu.Lock()
	defer t.mu.Unlock()
	if len(t.b) < 1<<14 {
		t.b = append(t.b, p...)
	}
	return len(p), nil
}

func (t *tail) String() string {
	t.mu.Lock()
	defer t.mu.Unlock()
	return string(t.b)
}

var (
	cur     *worker
	confDir string
)

func startWorker() (*worker, error) {
	exe, err := os.Executable()
	if err != nil {
		return nil, err
	}
	if confDir == "" {
		// global and system configuration of the commands: private and empty
		confDir, err = os.MkdirTemp("", "rcfg-conf")
		if err != nil {
			return nil, err
		}
	}
	cmd := exec.Command(exe, "remotecfg-worker")
	cmd.Env = append(os.Environ(), "XDG_CONFIG_HOME="+filepath.Join(confDir, "xdg"),
		"WRGL_SYSTEM_CONFIG_DIR="+filepath.Join(confDir, "sys"), "GOTRACEBACK=single", "GOMAXPROCS=2")
	in, err := cmd.StdinPipe()
	if err != nil {
		return nil, err
	}
	outp, err := cmd.StdoutPipe()
	if err != nil {
		return nil, err
	}
	w := &worker{cmd: cmd, in: in, lines: make(chan []byte, 2), done: make(chan struct{}), stderr: &tail{}}
	cmd.Stderr = w.stderr
	if err = cmd.Start(); err != nil {
		return nil, err
	}
	go func() {
		rd := bufio.NewReaderSize(outp, 1<<16)
		for {
			line, err := rd.ReadBytes('\n')
			if len(line) > 0 && err == nil {
				w.lines <- line
			}
			if err != nil {
				break
			}
		}
		cmd.Wait()
		close(w.done)
	}()
	return w, nil
}

// StopWorker ends the current worker (used by the recorder at its end).
func StopWorker() {
	if cur != nil {
		cur.in.Close()
		select {
		case <-cur.done:
		case <-time.After(2 * time.Second):
			cur.cmd.Process.Kill()
		}
		cur = nil
	}
	if confDir != "" {
		os.RemoveAll(confDir)
		confDir = ""
	}
}

// RunCLI executes `wrgl <args>` on the repository at wrglDir in the worker.
func RunCLI(wrglDir string, args ...string) (*Result, error) {
	if cur == nil {
		w, err := startWorker()
		if err != nil {
			return nil, err
		}
		cur = w
	}
	w := cur
	b, _ := json.Marshal(&request{Dir: wrglDir, Args: args})
	b = append(b, '\n')
	go w.in.Write(b)
	timer := time.NewTimer(20 * time.Second)
	defer timer.Stop()
	select {
	case line := <-w.lines:
		var res Result
		if err := json.Unmarshal(line, &res); err != nil {
			w.cmd.Process.Kill()
			<-w.done
			cur = nil
			return nil, fmt.Errorf("worker answered %.200q: %v", line, err)
		}
		return &res, nil
	case <-w.done:
		cur = nil
		select {
		case line := <-w.lines:
			var res Result
			if json.Unmarshal(line, &res) == nil {
				return &res, nil
			}
		default:
		}
		st := w.cmd.ProcessState
		res := &Result{Exit: st.ExitCode(), Death: st.String()}
		errText := w.stderr.String()
		if res.Exit != 1 {
			res.Death += ": " + clip(errText, 1500)
		}
		if strings.Contains(errText, "panic: ") || strings.Contains(errText, "fatal error: ") {
			res.Panic = true
		}
		if res.Exit < 0 { // killed by a signal
			res.Exit = 128
		}
		return res, nil
	case <-timer.C:
		w.cmd.Process.Kill()
		<-w.done
		cur = nil
		return &Result{Exit: 124, Death: "command line hung for 20s (killed)"}, nil
	}
}

func clip(s string, n int) string {
	if len(s) > n {
		return s[:n]
	}
	return s
}
