package remotecfg

import (
	"database/sql"
	"fmt"
	"os"
	"path/filepath"
	"sort"

	_ "github.com/mattn/go-sqlite3"
	"github.com/wrgl/wrgl/pkg/conf"
	conffs "github.com/wrgl/wrgl/pkg/conf/fs"
	"github.com/wrgl/wrgl/pkg/ref"
	refsql "github.com/wrgl/wrgl/pkg/ref/sql"

	"verifharness/internal/cli"
	"verifharness/internal/refs"
)

// Repo is one real repository under test.
type Repo struct {
	Dir  string // working directory
	Wrgl string // Dir/.wrgl
	db   *sql.DB
	rs   ref.Store
}

func (r *Repo) open() error {
	if r.db != nil {
		return nil
	}
	db, err := sql.Open("sqlite3", filepath.Join(r.Wrgl, "sqlite.db"))
	if err != nil {
		return err
	}
	db.SetMaxOpenConns(1)
	r.db, r.rs = db, refsql.NewStore(db)
	return nil
}

func (r *Repo) Close() {
	if r.db != nil {
		r.db.Close()
		r.db, r.rs = nil, nil
	}
}

// NewRepo initialises an empty repository (user identity configured) under parent.
func NewRepo(parent string) (*Repo, error) {
	c, err := cli.NewRepoFast(parent, "repo", "")
	if err != nil {
		return nil, err
	}
	return &Repo{Dir: c.Root, Wrgl: c.WrglDir}, nil
}

func copyFile(src, dst string) error {
	b, err := os.ReadFile(src)
	if err != nil {
		return err
	}
	return os.WriteFile(dst, b, 0644)
}

// CloneRepo copies a prepared repository (no command has it open).
func CloneRepo(tmpl *Repo, parent string) (*Repo, error) {
	root := filepath.Join(parent, "repo")
	wd := filepath.Join(root, ".wrgl")
	if err := os.MkdirAll(filepath.Join(wd, "kv"), 0755); err != nil {
		return nil, err
	}
	ents, err := os.ReadDir(tmpl.Wrgl)
	if err != nil {
		return nil, err
	}
	for _, e := range ents {
		if e.IsDir() {
			continue
		}
		if err := copyFile(filepath.Join(tmpl.Wrgl, e.Name()), filepath.Join(wd, e.Name())); err != nil {
			return nil, err
		}
	}
	return &Repo{Dir: root, Wrgl: wd}, nil
}

// Exec performs one operation: a command line of the real CLI (in the worker), or for
// "mkref" a logged write to the ref store the way a fetch stores a remote-tracking ref.
func (r *Repo) Exec(o Op) (*Result, Out, error) {
	if o[0] == "mkref" {
		if err := r.open(); err != nil {
			return nil, Out{}, err
		}
		v := 0
		fmt.Sscanf(o[2], "%d", &v)
		res := &Result{Exit: -1}
		if err := ref.SaveRef(r.rs, o[1], refs.Sum(v), "verif", "verif@example.invalid", "fetch", "m", nil); err != nil {
			res.Err = err.Error()
		}
		return res, ParseOut(o, ""), nil
	}
	args := Args(o)
	if args == nil {
		return nil, Out{}, fmt.Errorf("unknown operation %v", o)
	}
	// the command opens the database itself
	r.Close()
	res, err := RunCLI(r.Wrgl, args...)
	if err != nil {
		return nil, Out{}, err
	}
	return res, ParseOut(o, res.Out), nil
}

func safeDst(rs *conf.Refspec, src string) (dst string, panicked bool) {
	defer func() {
		if p := recover(); p != nil {
			panicked = true
		}
	}()
	return rs.DstForRef(src), false
}

// Observe projects the repository: the local configuration file as pkg/conf reads it, the
// whole ref store with every log, and for every configured remote where a fetch would store
// each of FetchSrcs (every fetch refspec asked through the real DstForRef, as
// cmd/wrgl/fetch does).
func (r *Repo) Observe(extraNames []string) (*State, error) {
	s := &State{Remotes: map[string]Remote{}, Branches: map[string][2]string{}, Fm: map[string][]string{}, FmPanic: map[string]bool{}}
	c, err := conffs.NewStore(r.Wrgl, conffs.LocalSource, "").Open()
	if err != nil {
		s.Unread = err.Error()
		c = &conf.Config{}
	}
	if c.User != nil {
		s.Other = c.User.Email + "|" + c.User.Name
	}
	for n, rem := range c.Remote {
		if rem == nil {
			s.Remotes[n] = Remote{Fetch: []string{}, Push: []string{}}
			continue
		}
		x := Remote{URL: rem.URL, Mirror: rem.Mirror, Fetch: []string{}, Push: []string{}}
		for _, f := range rem.Fetch {
			x.Fetch = append(x.Fetch, f.String())
		}
		for _, p := range rem.Push {
			x.Push = append(x.Push, p.String())
		}
		s.Remotes[n] = x
		for _, src := range FetchSrcs {
			set := map[string]bool{}
			for _, f := range rem.Fetch {
				d, panicked := safeDst(f, src)
				if panicked {
					s.FmPanic[fmKey(n, src)] = true
				} else if d != "" {
					set[d] = true
				}
			}
			if len(set) > 0 {
				ds := make([]string, 0, len(set))
				for d := range set {
					ds = append(ds, d)
				}
				sort.Strings(ds)
				s.Fm[fmKey(n, src)] = ds
			}
		}
	}
	for b, br := range c.Branch {
		if br == nil || (br.Remote == "" && br.Merge == "") {
			continue
		}
		s.Branches[b] = [2]string{br.Remote, br.Merge}
	}
	if err := r.open(); err != nil {
		return nil, err
	}
	// names that have a log although they may have no ref
	names := append([]string{}, extraNames...)
	if rows, err := r.db.Query(`SELECT DISTINCT ref FROM reflogs`); err == nil {
		for rows.Next() {
			var n string
			if rows.Scan(&n) == nil {
				names = append(names, n)
			}
		}
		rows.Close()
	}
	a, err := refs.Observe(r.rs, names)
	if err != nil {
		return nil, err
	}
	s.Refs = a.Refs
	s.Logs = map[string][][2]int{}
	for n, l := range a.Logs {
		for _, e := range l {
			s.Logs[n] = append(s.Logs[n], [2]int{e[0], e[1]}) // (the kind of entry is the refs engine's business)
		}
	}
	return s, nil
}
