// Package syncx binds spec/Sync.tla (properties C09, C10) to the real fetch / push / pull
// command line talking to the reference server of internal/refserver.
package syncx

import (
	"bytes"
	"fmt"
	"sort"
	"sync"
	"time"

	"github.com/wrgl/wrgl/pkg/objects"
	"github.com/wrgl/wrgl/pkg/ref"

	"verifharness/internal/tbl"
)

// Universe holds one real commit (with its own real table) per abstract commit of a DAG.
type Universe struct {
	DB    *tbl.SafeStore
	Sum   map[int][]byte // abstract id -> commit sum
	ID    map[string]int // commit sum -> abstract id
	Par   map[int][]int
	Table map[int][]byte
}

var (
	uniMu    sync.Mutex
	uniCache = map[string]*Universe{}
)

// BuildUniverse creates the commits in id order (parents have smaller ids). rows > 255 gives
// multi-block tables; consecutive tables share their first block.
func BuildUniverse(par map[int][]int, rows int) (*Universe, error) {
	key := fmt.Sprint(par, rows)
	uniMu.Lock()
	defer uniMu.Unlock()
	if u, ok := uniCache[key]; ok {
		return u, nil
	}
	u := &Universe{DB: tbl.NewSafeStore(), Sum: map[int][]byte{}, ID: map[string]int{}, Par: par, Table: map[int][]byte{}}
	ids := []int{}
	for c := range par {
		ids = append(ids, c)
	}
	sort.Ints(ids)
	for _, c := range ids {
		data := [][]string{{"id", "v"}}
		for i := 0; i < rows; i++ {
			v := "same"
			if i >= 255 || rows <= 255 {
				v = fmt.Sprintf("c%d", c)
			}
			data = append(data, []string{fmt.Sprintf("%05d", i), v})
		}
		tsum, err := tbl.Ingest(u.DB, tbl.CSV(data, 0), []string{"id"}, tbl.IngestOpts{})
		if err != nil {
			return nil, err
		}
		var parents [][]byte
		for _, p := range par[c] {
			parents = append(parents, u.Sum[p])
		}
		csum, _, err := tbl.SaveCommit(u.DB, tsum, parents, fmt.Sprintf("commit %d", c), time.Unix(1600000000+int64(c)*60, 0))
		if err != nil {
			return nil, err
		}
		u.Sum[c], u.ID[string(csum)], u.Table[c] = csum, c, tsum
	}
	uniCache[key] = u
	return u, nil
}

func copyKey(src, dst objects.Store, key []byte) error {
	v, err := src.Get(key)
	if err != nil {
		return fmt.Errorf("%q: %v", key, err)
	}
	return dst.Set(append([]byte{}, key...), append([]byte{}, v...))
}

// Give copies commit c (and, withTable, its table with blocks and indices) into dst.
func (u *Universe) Give(dst objects.Store, c int, withTable bool) error {
	if err := copyKey(u.DB, dst, append([]byte("com/"), u.Sum[c]...)); err != nil {
		return err
	}
	if !withTable {
		return nil
	}
	t, err := objects.GetTable(u.DB, u.Table[c])
	if err != nil {
		return err
	}
	for i, b := range t.Blocks {
		if err := copyKey(u.DB, dst, append([]byte("blk/"), b...)); err != nil {
			return err
		}
		if err := copyKey(u.DB, dst, append([]byte("blkidx/"), t.BlockIndices[i]...)); err != nil {
			return err
		}
	}
	for _, pre := range []string{"tbl/", "tblidx/", "tblsum/"} {
		if err := copyKey(u.DB, dst, append([]byte(pre), u.Table[c]...)); err != nil {
			return err
		}
	}
	return nil
}

func (u *Universe) Closure(cs []int) []int {
	seen := map[int]bool{}
	var walk func(c int)
	walk = func(c int) {
		if c == 0 || seen[c] {
			return
		}
		seen[c] = true
		for _, p := range u.Par[c] {
			walk(p)
		}
	}
	for _, c := range cs {
		walk(c)
	}
	out := []int{}
	for c := range seen {
		out = append(out, c)
	}
	sort.Ints(out)
	return out
}

// Side is the projection of one repository.
type Side struct {
	Refs    [][]interface{} `json:"refs"`    // [name, commit id]
	Commits []int           `json:"commits"` // commit objects present
	Tables  []int           `json:"tables"`  // commits whose table and all its blocks are present
}

// Project scans a repository; sums that are not part of the universe get id 99.
func (u *Universe) Project(db objects.Store, rs ref.Store) (*Side, error) {
	s := &Side{Refs: [][]interface{}{}, Commits: []int{}, Tables: []int{}}
	m, err := ref.ListAllRefs(rs)
	if err != nil {
		return nil, err
	}
	names := []string{}
	for n := range m {
		names = append(names, n)
	}
	sort.Strings(names)
	idOf := func(sum []byte) int {
		if id, ok := u.ID[string(sum)]; ok {
			return id
		}
		return 99
	}
	for _, n := range names {
		s.Refs = append(s.Refs, []interface{}{n, idOf(m[n])})
	}
	keys, err := objects.GetAllCommitKeys(db)
	if err != nil {
		return nil, err
	}
	for _, k := range keys {
		id := idOf(k)
		s.Commits = append(s.Commits, id)
		if id == 99 {
			continue
		}
		t, err := objects.GetTable(db, u.Table[id])
		if err != nil {
			continue
		}
		full := objects.TableIndexExist(db, u.Table[id])
		for i, b := range t.Blocks {
			if !objects.BlockExist(db, b) || i >= len(t.BlockIndices) || !objects.BlockIndexExist(db, t.BlockIndices[i]) {
				full = false
			}
		}
		if full {
			s.Tables = append(s.Tables, id)
		}
	}
	sort.Ints(s.Commits)
	sort.Ints(s.Tables)
	return s, nil
}

// Differs counts objects of db whose bytes differ from the universe's (identical objects on both sides).
func (u *Universe) Differs(db objects.Store) int {
	n := 0
	for _, pre := range []string{"com/", "tbl/", "blk/"} {
		keys, _ := db.FilterKey([]byte(pre))
		for _, k := range keys {
			a, err1 := db.Get(k)
			b, err2 := u.DB.Get(k)
			if err1 != nil || err2 != nil || !bytes.Equal(a, b) {
				n++
			}
		}
	}
	return n
}
