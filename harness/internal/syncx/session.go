package syncx

import (
	"encoding/json"
	"fmt"
	"math/rand"
	"os"
	"sort"

	"github.com/go-logr/logr"
	apiclient "github.com/wrgl/wrgl/pkg/api/client"
	"github.com/wrgl/wrgl/pkg/api/payload"
	"github.com/wrgl/wrgl/pkg/pbar"
	"github.com/wrgl/wrgl/pkg/ref"

	"verifharness/internal/child"
	"verifharness/internal/refs"
	"verifharness/internal/refserver"
	"verifharness/internal/tbl"
)

// SessionCase drives the client's upload-pack / receive-pack SESSIONS directly (library
// level), where the number of haves per round trip can be chosen - the command line fixes it
// at 256 - on seeded random histories: both sides share a random prefix of the history and
// then diverge.
type SessionCase struct {
	Seed    int64  `json:"seed"`
	Idx     int    `json:"idx"`
	Dir     string `json:"dir"`     // fetch | push
	Commits int    `json:"commits"` // size of the random history
	HPR     int    `json:"hpr"`     // haves per round trip (fetch)
	MaxPack uint64 `json:"maxpack"`
	Depth   int    `json:"depth"`
}

func randomDAG(rng *rand.Rand, n int) map[int][]int {
	par := map[int][]int{}
	for c := 1; c <= n; c++ {
		ps := []int{}
		if c > 1 {
			switch k := rng.Intn(10); {
			case k == 0 && c > 3: // a new root
			case k <= 2 && c > 2: // a merge
				a, b := 1+rng.Intn(c-1), 1+rng.Intn(c-1)
				if a == b {
					ps = []int{a}
				} else {
					ps = []int{a, b}
				}
			default:
				// mostly extend a recent commit
				lo := c - 4
				if lo < 1 {
					lo = 1
				}
				ps = []int{lo + rng.Intn(c-lo)}
			}
		}
		par[c] = ps
	}
	return par
}

// RunSession executes one case and returns the trace event.
// runPushShallow: the local repository holds commits WITHOUT their tables (what a depth-limited fetch leaves
// behind) below own work: roots 1 (own, full) and 2 <- 3 (fetched shallow), 4 = merge(1, 3) (own, full; its
// parent list names the own side first, so a parents-first list of what is to be pushed starts with a full
// commit).  Pushing 4 to an empty remote may be refused; if the remote's ref is created, the remote must hold
// the whole history with its tables (TraceSync: HistoryComplete).
func runPushShallow(sc *SessionCase) (*Event, string, error) {
	par := map[int][]int{1: {}, 2: {}, 3: {2}, 4: {1, 3}}
	if sc.Idx%2 == 1 {
		par = map[int][]int{1: {}, 2: {}, 3: {2}, 4: {3}, 5: {1, 4}} // a longer shallow side
	}
	u, err := BuildUniverse(par, 3)
	if err != nil {
		return nil, "", err
	}
	tip := len(par)
	sdb, cdb := tbl.NewSafeStore(), tbl.NewSafeStore()
	srs, sq1, err := refs.NewMemStore()
	if err != nil {
		return nil, "", err
	}
	defer sq1.Close()
	crs, sq2, err := refs.NewMemStore()
	if err != nil {
		return nil, "", err
	}
	defer sq2.Close()
	for c := 1; c <= tip; c++ {
		if err := u.Give(cdb, c, c == 1 || c == tip); err != nil {
			return nil, "", err
		}
	}
	// refs as the commands leave them: with their logs (the branch by a commit, the tracking ref by a fetch)
	if err := ref.SaveRef(crs, "heads/mine", u.Sum[tip], "verif", "verif@example.invalid", "commit", "own work", nil); err != nil {
		return nil, "", err
	}
	if err := ref.SaveFetchRef(crs, "remotes/origin/up", u.Sum[tip-1], "verif", "verif@example.invalid", "origin", "storing head"); err != nil {
		return nil, "", err
	}
	srv := refserver.New(sdb, srs, sc.MaxPack)
	defer srv.Close()
	client, err := apiclient.NewClient(srv.URL(), logr.Discard())
	if err != nil {
		return nil, "", err
	}
	before, _ := u.Project(sdb, srs)
	sender, _ := u.Project(cdb, crs)
	remoteRefs, rerr := client.GetRefs(nil, nil)
	if rerr != nil {
		return nil, "", rerr
	}
	um := map[string]*payload.Update{"heads/mine": {Sum: payload.BytesToHex(u.Sum[tip])}}
	note := ""
	var runErr error
	ses, serr := apiclient.NewReceivePackSession(cdb, crs, client, um, remoteRefs, sc.MaxPack)
	if serr != nil {
		runErr = serr // refused before anything was sent
	} else {
		var res map[string]*payload.Update
		res, runErr = ses.Start(pbar.NewContainer(nil, true))
		for k, v := range res {
			if v.ErrMsg != "" {
				note += k + ": " + v.ErrMsg + "; "
			}
		}
	}
	if runErr != nil {
		note += "refused: " + runErr.Error()
	}
	after, _ := u.Project(sdb, srs)
	ev := &Event{Op: "sync", Kind: "push-shallow", Par: parList(par), Before: before, After: after, Sender: sender, Forced: []string{},
		Depth: 0, Logs: newestLogs(u, srs, sideRefs(before), sideRefs(after)), Differs: u.Differs(sdb), Ok: runErr == nil,
		Repeat: map[string]interface{}{"changed": false, "transferred": 0}, Note: note}
	return ev, "push-shallow", nil
}

func RunSession(sc *SessionCase) (*Event, string, error) {
	if sc.Dir == "pushshallow" {
		return runPushShallow(sc)
	}
	rng := rand.New(rand.NewSource(sc.Seed*7907 + int64(sc.Idx)))
	n := sc.Commits
	if n == 0 {
		n = 12 + rng.Intn(14)
	}
	par := randomDAG(rng, n)
	u, err := BuildUniverse(par, 3)
	if err != nil {
		return nil, "", err
	}
	// heads: the sender has 1..3 tips among the later commits, the receiver has tips among the earlier
	pick := func(lo, hi, k int) []int {
		out := map[int]bool{}
		for len(out) < k {
			out[lo+rng.Intn(hi-lo+1)] = true
		}
		l := []int{}
		for c := range out {
			l = append(l, c)
		}
		sort.Ints(l)
		return l
	}
	senderTips := pick(n/2, n, 1+rng.Intn(3))
	recvTips := pick(1, (2*n)/3, 1+rng.Intn(2))
	work, err := os.MkdirTemp("", "sess")
	if err != nil {
		return nil, "", err
	}
	defer os.RemoveAll(work)
	sdb, cdb := tbl.NewSafeStore(), tbl.NewSafeStore()
	srs, sq1, err := refs.NewMemStore()
	if err != nil {
		return nil, "", err
	}
	defer sq1.Close()
	crs, sq2, err := refs.NewMemStore()
	if err != nil {
		return nil, "", err
	}
	defer sq2.Close()
	fetch := sc.Dir != "push"
	senderRefs, recvRefs := map[string]int{}, map[string]int{}
	for i, c := range senderTips {
		senderRefs[fmt.Sprintf("heads/s%d", i)] = c
	}
	for i, c := range recvTips {
		recvRefs[fmt.Sprintf("heads/r%d", i)] = c
	}
	srv := refserver.New(sdb, srs, sc.MaxPack)
	defer srv.Close()
	if fetch {
		err = populate(u, sdb, srs, senderRefs)
		if err == nil {
			err = populate(u, cdb, crs, recvRefs)
		}
	} else {
		err = populate(u, cdb, crs, senderRefs)
		if err == nil {
			err = populate(u, sdb, srs, recvRefs)
		}
	}
	if err != nil {
		return nil, "", err
	}
	client, err := apiclient.NewClient(srv.URL(), logr.Discard())
	if err != nil {
		return nil, "", err
	}
	var before, after, sender *Side
	note := ""
	var runErr error
	if fetch {
		before, _ = u.Project(cdb, crs)
		sender, _ = u.Project(sdb, srs)
		adv := [][]byte{}
		for _, c := range senderTips {
			adv = append(adv, u.Sum[c])
		}
		ses, serr := apiclient.NewUploadPackSession(cdb, crs, client, adv,
			apiclient.WithUploadPackHavesPerRoundTrip(sc.HPR), apiclient.WithUploadPackDepth(sc.Depth))
		if serr != nil && serr.Error() != "nothing wanted" {
			return nil, "", serr
		}
		if serr == nil {
			_, runErr = ses.Start()
		}
		if runErr == nil {
			// what `wrgl fetch` does next: point remote-tracking refs at the fetched tips
			for i, c := range senderTips {
				if err := ref.SaveFetchRef(crs, fmt.Sprintf("remotes/origin/s%d", i), u.Sum[c], "v", "v@example.invalid", "origin", "storing head"); err != nil {
					return nil, "", err
				}
			}
		}
		after, _ = u.Project(cdb, crs)
	} else {
		before, _ = u.Project(sdb, srs)
		sender, _ = u.Project(cdb, crs)
		remoteRefs, rerr := client.GetRefs(nil, nil)
		if rerr != nil {
			return nil, "", rerr
		}
		um := map[string]*payload.Update{}
		for i, c := range senderTips {
			um[fmt.Sprintf("heads/s%d", i)] = &payload.Update{Sum: payload.BytesToHex(u.Sum[c])}
		}
		ses, serr := apiclient.NewReceivePackSession(cdb, crs, client, um, remoteRefs, sc.MaxPack)
		if serr != nil {
			return nil, "", serr
		}
		var res map[string]*payload.Update
		res, runErr = ses.Start(pbar.NewContainer(nil, true))
		for k, v := range res {
			if v.ErrMsg != "" {
				note += k + ": " + v.ErrMsg + "; "
				if runErr == nil {
					runErr = fmt.Errorf("remote rejected %s: %s", k, v.ErrMsg)
				}
			}
		}
		after, _ = u.Project(sdb, srs)
	}
	log := srv.TakeLog()
	rounds, packs := 0, 0
	for _, e := range log {
		if e.Kind == "negotiate" {
			rounds++
		}
		if e.Kind == "pack" || e.Kind == "rp-pack" {
			packs++
		}
	}
	differs := 0
	var rsAfter ref.Store = crs
	if fetch {
		differs = u.Differs(cdb)
	} else {
		differs = u.Differs(sdb)
		rsAfter = srs
	}
	ev := &Event{Op: "sync", Kind: sc.Dir, Par: parList(par), Before: before, After: after, Sender: sender, Forced: []string{},
		Depth: sc.Depth, Logs: newestLogs(u, rsAfter, sideRefs(before), sideRefs(after)), Differs: differs, Ok: runErr == nil,
		Repeat: map[string]interface{}{"changed": false, "transferred": 0},
		Note:   fmt.Sprintf("rounds=%d packs=%d hpr=%d maxpack=%d %s", rounds, packs, sc.HPR, sc.MaxPack, note)}
	cls := fmt.Sprintf("%s/rounds%d/packs%d", sc.Dir, min3(rounds), min3(packs))
	if runErr != nil {
		return ev, cls, fmt.Errorf("session failed: %v", runErr)
	}
	return ev, cls, nil
}

func min3(n int) int {
	if n > 3 {
		return 3
	}
	return n
}

// ReplaySession is the child handler of engine "syncsession".
func ReplaySession(i int, raw []byte) child.Result {
	var sc SessionCase
	if err := json.Unmarshal(raw, &sc); err != nil {
		return child.Inconclusive(err)
	}
	ev, cls, err := RunSession(&sc)
	if ev != nil {
		child.EmitBatch("sync", []interface{}{map[string]interface{}{"op": "reset"}, ev})
	}
	if err != nil {
		return child.Fail("sync/session-"+sc.Dir+"/failed", map[string]interface{}{"error": err.Error(), "note": ev.Note})
	}
	return child.Pass(cls)
}
