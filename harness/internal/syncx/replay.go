package syncx

import (
	"encoding/hex"
	"encoding/json"
	"fmt"
	"hash/fnv"
	"io"
	"os"
	"reflect"
	"sort"
	"strings"

	"github.com/wrgl/wrgl/pkg/objects"
	"github.com/wrgl/wrgl/pkg/ref"

	"verifharness/internal/child"
	"verifharness/internal/cli"
	"verifharness/internal/refs"
	"verifharness/internal/refserver"
	"verifharness/internal/tbl"
)

// Scenario is one SCN line of spec/SyncGen.tla (plus driver-chosen dimensions).
type Scenario struct {
	Op       string               `json:"op"`
	Par      [][2]json.RawMessage `json:"par"`
	Sender   [][2]json.RawMessage `json:"sender"`
	Receiver [][2]json.RawMessage `json:"receiver"`
	Specs    [][3]json.RawMessage `json:"specs"`
	Gforce   bool                 `json:"gforce"`
	Depth    int                  `json:"depth"`
	Refs     [][2]json.RawMessage `json:"refs"`
	Rejected []string             `json:"rejected"`
	Mode     string               `json:"mode"`
	Either   [][2]json.RawMessage `json:"either"` // (name, values): refs for which the specification admits several results
	MaxPack  uint64               `json:"maxpack,omitempty"`
	Rows     int                  `json:"rows,omitempty"`
}

func refPairs(p [][2]json.RawMessage) map[string]int {
	m := map[string]int{}
	for _, x := range p {
		var n string
		var c int
		json.Unmarshal(x[0], &n)
		json.Unmarshal(x[1], &c)
		m[n] = c
	}
	return m
}

func parOf(p [][2]json.RawMessage) map[int][]int {
	m := map[int][]int{}
	for _, x := range p {
		var c int
		var ps []int
		json.Unmarshal(x[0], &c)
		json.Unmarshal(x[1], &ps)
		m[c] = ps
	}
	return m
}

type spec struct {
	Src, Dst string
	Force    bool
}

func specsOf(p [][3]json.RawMessage) []spec {
	out := []spec{}
	for _, x := range p {
		var s spec
		json.Unmarshal(x[0], &s.Src)
		json.Unmarshal(x[1], &s.Dst)
		json.Unmarshal(x[2], &s.Force)
		out = append(out, s)
	}
	sort.Slice(out, func(i, j int) bool { return out[i].Dst < out[j].Dst })
	return out
}

// populate gives a repository the closure of its refs (with tables) and sets the refs.
func populate(u *Universe, db objects.Store, rs ref.Store, rf map[string]int) error {
	vals := []int{}
	for _, c := range rf {
		vals = append(vals, c)
	}
	for _, c := range u.Closure(vals) {
		if err := u.Give(db, c, true); err != nil {
			return err
		}
	}
	for n, c := range rf {
		if strings.HasPrefix(n, "tags/") {
			if err := rs.Set(n, u.Sum[c]); err != nil {
				return err
			}
		} else if err := ref.SaveRef(rs, n, u.Sum[c], "verif", "verif@example.invalid", "setup", "setup", nil); err != nil {
			return err
		}
	}
	return nil
}

// Event is the trace line TraceSync.tla judges.
type Event struct {
	Op      string                 `json:"op"`
	Kind    string                 `json:"kind"`
	Par     [][]interface{}        `json:"par"`
	Before  *Side                  `json:"before"`
	After   *Side                  `json:"after"`
	Sender  *Side                  `json:"sender"`
	Forced  []string               `json:"forced"`
	Depth   int                    `json:"depth"`
	Logs    [][]interface{}        `json:"logs"` // [ref, old, new] of the newest log entry of every ref that changed
	Differs int                    `json:"differs"`
	Ok      bool                   `json:"ok"`
	Repeat  map[string]interface{} `json:"repeat"`
	Note    string                 `json:"note"`
	Src     string                 `json:"src"` // the scenario that produced the event (for replays; opaque to the specification)
	probe   *Event                 // a second event of the same scenario (merge of a shallow commit), emitted after this one
}

func parList(par map[int][]int) [][]interface{} {
	ids := []int{}
	for c := range par {
		ids = append(ids, c)
	}
	sort.Ints(ids)
	out := [][]interface{}{}
	for _, c := range ids {
		ps := par[c]
		if ps == nil {
			ps = []int{}
		}
		out = append(out, []interface{}{c, ps})
	}
	return out
}

func sideRefs(s *Side) map[string]int {
	m := map[string]int{}
	for _, r := range s.Refs {
		m[r[0].(string)] = r[1].(int)
	}
	return m
}

func newestLogs(u *Universe, rs ref.Store, before, after map[string]int) [][]interface{} {
	out := [][]interface{}{}
	names := []string{}
	for n := range after {
		names = append(names, n)
	}
	sort.Strings(names)
	for _, n := range names {
		if before[n] == after[n] {
			continue
		}
		r, err := rs.LogReader(n)
		if err != nil {
			continue
		}
		rl, err := r.Read()
		r.Close()
		if err != nil && err != io.EOF {
			continue
		}
		if rl == nil {
			continue
		}
		old := 0
		if rl.OldOID != nil {
			old = u.ID[string(rl.OldOID)]
		}
		out = append(out, []interface{}{n, old, u.ID[string(rl.NewOID)]})
	}
	return out
}

const mergeCommitID = 98

// runMerge executes a `wrgl merge main other` scenario (fast-forward rules of C10).
func runMerge(sc *Scenario) (string, interface{}, *Event, error) {
	par := parOf(sc.Par)
	u, err := BuildUniverse(par, 3)
	if err != nil {
		return "", nil, nil, err
	}
	work, err := os.MkdirTemp("", "syncm")
	if err != nil {
		return "", nil, nil, err
	}
	defer os.RemoveAll(work)
	// the fast-forward mode comes from the command line, from merge.fastForward, or from both - the command line
	// then wins (getFastForward): the same scenario is run in one of these three ways
	hh := fnv.New32a()
	fmt.Fprint(hh, sc.Par, sc.Receiver, sc.Refs, sc.Mode)
	how := int(hh.Sum32() % 3)
	cfgFF, flag := "", ""
	switch sc.Mode {
	case "ffonly":
		cfgFF, flag = [3]string{"", "never", "only"}[how], [3]string{"--ff-only", "--ff-only", ""}[how]
	case "noff":
		cfgFF, flag = [3]string{"", "only", "never"}[how], [3]string{"--no-ff", "--no-ff", ""}[how]
	default:
		cfgFF, flag = [3]string{"", "never", "only"}[how], [3]string{"", "--ff", "--ff"}[how]
	}
	extra := ""
	if cfgFF != "" {
		extra = "merge:\n  fastForward: " + cfgFF + "\n"
	}
	r, err := cli.NewRepoFast(work, "client", extra)
	if err != nil {
		return "", nil, nil, err
	}
	cdb, crs, closeFn, err := r.Open()
	if err != nil {
		return "", nil, nil, err
	}
	recv := refPairs(sc.Receiver)
	if err = populate(u, cdb, crs, recv); err != nil {
		closeFn()
		return "", nil, nil, err
	}
	before, err := u.Project(cdb, crs)
	closeFn()
	if err != nil {
		return "", nil, nil, err
	}
	args := []string{"merge", "main", "other", "--no-gui"}
	if flag != "" {
		args = append(args, flag)
	}
	out, runErr := r.Run(nil, args...)
	cdb, crs, closeFn, err = r.Open()
	if err != nil {
		return "", nil, nil, err
	}
	defer closeFn()
	after, err := u.Project(cdb, crs)
	if err != nil {
		return "", nil, nil, err
	}
	want := refPairs(sc.Refs)
	got := sideRefs(after)
	detail := map[string]interface{}{"expected_refs": want, "observed_refs": got, "output": tail(out, 600), "error": fmt.Sprint(runErr), "mode": sc.Mode,
		"flag": flag, "merge.fastForward": cfgFF}
	ev := &Event{Op: "sync", Kind: "merge", Par: parList(par), Before: before, After: after, Sender: before, Forced: []string{},
		Logs: newestLogs(u, crs, sideRefs(before), got), Ok: runErr == nil, Repeat: map[string]interface{}{"changed": false, "transferred": 0}}
	for n, w := range want {
		g := got[n]
		if w == mergeCommitID {
			// a new commit whose parents are main and other and whose table is other's
			sum, gerr := ref.GetRef(crs, n)
			if gerr != nil {
				return "ref-not-updated", detail, nil, nil
			}
			com, gerr := objects.GetCommit(cdb, sum)
			// table of the descendant of the two
			desc := recv["heads/other"]
			for _, a := range u.Closure([]int{recv["heads/main"]}) {
				if a == recv["heads/other"] {
					desc = recv["heads/main"]
				}
			}
			if gerr != nil || g != 99 || len(com.Parents) != 2 || string(com.Parents[0]) != string(u.Sum[recv["heads/main"]]) ||
				string(com.Parents[1]) != string(u.Sum[recv["heads/other"]]) || string(com.Table) != string(u.Table[desc]) {
				return "merge-commit-wrong", detail, nil, nil
			}
			// the trace judges moves between known commits only
			ev = nil
			continue
		}
		if g != w {
			if g != sideRefs(before)[n] {
				return "ref-moved-against-rules", detail, ev, nil
			}
			return "ref-not-updated", detail, ev, nil
		}
	}
	if len(got) != len(want) {
		return "ref-moved-against-rules", detail, ev, nil
	}
	if (runErr != nil) != (len(sc.Rejected) > 0) {
		if runErr != nil {
			return "command-failed", detail, ev, nil
		}
		return "rejection-not-reported", detail, ev, nil
	}
	return "", nil, ev, nil
}

// Run executes one scenario and returns (mismatch kind, detail, event).
func Run(sc *Scenario) (string, interface{}, *Event, error) {
	if sc.Op == "merge" {
		return runMerge(sc)
	}
	par := parOf(sc.Par)
	rows := sc.Rows
	if rows == 0 {
		rows = 3
	}
	u, err := BuildUniverse(par, rows)
	if err != nil {
		return "", nil, nil, err
	}
	work, err := os.MkdirTemp("", "sync")
	if err != nil {
		return "", nil, nil, err
	}
	defer os.RemoveAll(work)
	// server side
	sdb := tbl.NewSafeStore()
	srs, sqldb, err := refs.NewMemStore()
	if err != nil {
		return "", nil, nil, err
	}
	defer sqldb.Close()
	srv := refserver.New(sdb, srs, sc.MaxPack)
	defer srv.Close()
	// client side
	extra := fmt.Sprintf("remote:\n  origin:\n    url: %s\n", srv.URL())
	if sc.MaxPack > 0 {
		extra += fmt.Sprintf("pack:\n  maxFileSize: %d\n", sc.MaxPack)
	}
	r, err := cli.NewRepoFast(work, "client", extra)
	if err != nil {
		return "", nil, nil, err
	}
	cdb, crs, closeFn, err := r.Open()
	if err != nil {
		return "", nil, nil, err
	}
	fetch := sc.Op == "fetch"
	senderRefs, recvRefs := refPairs(sc.Sender), refPairs(sc.Receiver)
	if fetch {
		err = populate(u, sdb, srs, senderRefs)
		if err == nil {
			err = populate(u, cdb, crs, recvRefs)
		}
	} else {
		err = populate(u, cdb, crs, senderRefs)
		if err == nil {
			err = populate(u, sdb, srs, recvRefs)
		}
	}
	var before, senderSide *Side
	if err == nil {
		if fetch {
			before, err = u.Project(cdb, crs)
			senderSide, _ = u.Project(sdb, srs)
		} else {
			before, err = u.Project(sdb, srs)
			senderSide, _ = u.Project(cdb, crs)
		}
	}
	closeFn()
	if err != nil {
		return "", nil, nil, err
	}
	// the command
	args := []string{sc.Op, "origin"}
	forced := []string{}
	for _, s := range specsOf(sc.Specs) {
		pre := ""
		if s.Force {
			pre = "+"
		}
		if s.Force || sc.Gforce {
			forced = append(forced, s.Dst)
		}
		args = append(args, fmt.Sprintf("%srefs/%s:refs/%s", pre, s.Src, s.Dst))
	}
	if sc.Gforce {
		args = append(args, "--force")
	}
	if fetch && sc.Depth > 0 {
		args = append(args, "--depth", fmt.Sprint(sc.Depth))
	}
	srv.TakeLog()
	out, runErr := r.Run(nil, args...)
	log1 := srv.TakeLog()
	// projections after
	cdb, crs, closeFn, err = r.Open()
	if err != nil {
		return "", nil, nil, err
	}
	var after *Side
	var logs [][]interface{}
	differs := 0
	if fetch {
		after, err = u.Project(cdb, crs)
		logs = newestLogs(u, crs, sideRefs(before), sideRefs(after))
		differs = u.Differs(cdb)
	} else {
		after, err = u.Project(sdb, srs)
		logs = newestLogs(u, srs, sideRefs(before), sideRefs(after))
		differs = u.Differs(sdb)
	}
	closeFn()
	if err != nil {
		return "", nil, nil, err
	}
	ev := &Event{Op: "sync", Kind: sc.Op, Par: parList(par), Before: before, After: after, Sender: senderSide, Forced: forced,
		Depth: sc.Depth, Logs: logs, Differs: differs, Ok: runErr == nil}
	if len(ev.Forced) == 0 {
		ev.Forced = []string{}
	}
	// an immediately repeated operation transfers nothing and changes nothing
	_, _ = r.Run(nil, args...)
	log2 := srv.TakeLog()
	transferred := 0
	for _, e := range log2 {
		transferred += len(e.Objects)
		if e.Kind == "rp-pack" {
			transferred++
		}
	}
	cdb, crs, closeFn, err = r.Open()
	if err != nil {
		return "", nil, nil, err
	}
	var again *Side
	if fetch {
		again, _ = u.Project(cdb, crs)
	} else {
		again, _ = u.Project(sdb, srs)
	}
	closeFn()
	ev.Repeat = map[string]interface{}{"changed": !reflect.DeepEqual(again, after), "transferred": transferred}
	if len(sc.Either) > 0 {
		// two sources for one destination: the repeated run may legitimately take the other one
		ev.Repeat = map[string]interface{}{"changed": false, "transferred": 0}
	}
	if fetch && sc.Depth > 0 && again != nil {
		ev.probe = probeShallowMerge(r, u, par, again, i0(sc))
	}
	// (B): the receiver's refs must be the specification's
	want := refPairs(sc.Refs)
	got := sideRefs(after)
	for _, e := range sc.Either {
		var name string
		var alts []int
		json.Unmarshal(e[0], &name)
		json.Unmarshal(e[1], &alts)
		for _, a := range alts {
			if g, ok := got[name]; ok && g == a {
				want[name] = a
			}
		}
	}
	detail := map[string]interface{}{"expected_refs": want, "observed_refs": got, "output": tail(out, 600), "error": fmt.Sprint(runErr), "requests": len(log1)}
	if !reflect.DeepEqual(want, got) {
		for n, c := range got {
			if w, ok := want[n]; !ok || w != c {
				if before := sideRefs(before); before[n] != c {
					return "ref-moved-against-rules", detail, ev, nil
				}
			}
		}
		return "ref-not-updated", detail, ev, nil
	}
	if fetch && (runErr != nil) != (len(sc.Rejected) > 0) {
		if runErr != nil {
			return "command-failed", detail, ev, nil
		}
		return "rejection-not-reported", detail, ev, nil
	}
	if len(sc.Rejected) > 0 && runErr == nil && !reportsRefusal(out) {
		return "rejection-not-reported", detail, ev, nil
	}
	if !fetch && runErr != nil {
		return "command-failed", detail, ev, nil
	}
	return "", nil, ev, nil
}

func i0(sc *Scenario) int { return len(sc.Specs) + sc.Depth }

// probeShallowMerge: a depth-limited fetch leaves commits without their tables.  If one of them descends from
// a local branch, `wrgl merge BRANCH <its hash>` (fast-forward, then --no-ff) is tried: whatever the command
// answers, the result is one more transition of the repository that TraceSync judges like a fetch of depth 1 -
// a ref that moved must point at a commit that has its table (Sync!HistoryComplete).
func probeShallowMerge(r *cli.Repo, u *Universe, par map[int][]int, st *Side, variant int) *Event {
	full := map[int]bool{}
	for _, c := range st.Tables {
		full[c] = true
	}
	var shallow []int
	for _, c := range st.Commits {
		if c != 99 && !full[c] {
			shallow = append(shallow, c)
		}
	}
	for _, rf := range st.Refs {
		name, _ := rf[0].(string)
		head, _ := rf[1].(int)
		if !strings.HasPrefix(name, "heads/") || !full[head] {
			continue
		}
		for _, s := range shallow {
			isAnc := false
			for _, a := range u.Closure([]int{s}) {
				if a == head && s != head {
					isAnc = true
				}
			}
			if !isAnc {
				continue
			}
			args := []string{"merge", strings.TrimPrefix(name, "heads/"), hex.EncodeToString(u.Sum[s])}
			if variant%2 == 1 {
				args = append(args, "--no-ff")
			}
			_, runErr := r.Run(nil, args...)
			cdb, crs, closeFn, err := r.Open()
			if err != nil {
				return nil
			}
			after, err := u.Project(cdb, crs)
			logs := newestLogs(u, crs, sideRefs(st), sideRefs(after))
			closeFn()
			if err != nil {
				return nil
			}
			return &Event{Op: "sync", Kind: "merge-shallow", Par: parList(par), Before: st, After: after, Sender: st, Forced: []string{},
				Depth: 1, Logs: logs, Differs: 0, Ok: runErr == nil,
				Repeat: map[string]interface{}{"changed": false, "transferred": 0}, Note: strings.Join(args, " ")}
		}
	}
	return nil
}

// reportsRefusal: "reported" is judged by the output saying so in ANY of the usual words (the exact
// wording is not part of the statement), or marking a line with '!'.
func reportsRefusal(out string) bool {
	l := strings.ToLower(out)
	for _, w := range []string{"reject", "refus", "denied", "declin", "non-fast", "not fast", "clobber", "fail", "error", " ! ", "cannot", "can't", "unable"} {
		if strings.Contains(l, w) {
			return true
		}
	}
	return false
}

func tail(s string, n int) string {
	if len(s) > n {
		return s[len(s)-n:]
	}
	return s
}

func classOf(sc *Scenario) string {
	if sc.Op == "merge" {
		return "merge/" + sc.Mode
	}
	rel := "moves"
	if len(sc.Rejected) > 0 {
		rel = "rejects"
	}
	f := ""
	if sc.Gforce {
		f = "+gforce"
	}
	return fmt.Sprintf("%s/%s%s/d%d", sc.Op, rel, f, sc.Depth)
}

// Replay is the child handler of engine "sync".
func Replay(i int, raw []byte) child.Result {
	var sc Scenario
	if err := json.Unmarshal(raw, &sc); err != nil {
		return child.Inconclusive(err)
	}
	kind, detail, ev, err := Run(&sc)
	if err != nil {
		return child.Inconclusive(err)
	}
	if ev != nil {
		ev.Src = string(raw)
		if ev.probe != nil {
			ev.probe.Src = string(raw)
		}
		child.EmitBatch("sync", []interface{}{map[string]interface{}{"op": "reset"}, ev})
		if ev.probe != nil {
			child.EmitBatch("sync", []interface{}{map[string]interface{}{"op": "reset"}, ev.probe})
		}
	}
	if kind != "" {
		return child.Fail("sync/"+sc.Op+"/"+kind, detail)
	}
	return child.Pass(classOf(&sc))
}
