package txn

import (
	"encoding/json"
	"fmt"
	"os"
	"strconv"
	"strings"

	"github.com/google/uuid"
	"github.com/wrgl/wrgl/pkg/objects"
	"github.com/wrgl/wrgl/pkg/ref"

	"verifharness/internal/child"
)

// Branch names of spec/TxnGen.tla (Brs).
// (real names: two of them share a first path segment - branch names may contain "/")
var Brs = []string{"team/a", "team/b", "c", "x/y/d"}

// Obs is one observation <<ok, status, staged, <<depth, nlog, nobj>>...>> as TxnGen
// exports it and as the harness projects the real repository.
type Obs struct {
	Ok     string   // "ok" | "err" | "crashed" (the call never returned)
	Status string   // "inprogress" | "committed" | "gone"
	Staged string   // real: "none" | "some"; expectation: "none" | "any"
	Br     [][3]int // per branch: depth, nlog, nobj
}

func (o *Obs) UnmarshalJSON(b []byte) error {
	var raw []json.RawMessage
	if err := json.Unmarshal(b, &raw); err != nil {
		return err
	}
	if len(raw) < 4 {
		return fmt.Errorf("observation: want >= 4 fields, got %d", len(raw))
	}
	for i, dst := range []*string{&o.Ok, &o.Status, &o.Staged} {
		if err := json.Unmarshal(raw[i], dst); err != nil {
			return err
		}
	}
	o.Br = make([][3]int, len(raw)-3)
	for i := range o.Br {
		if err := json.Unmarshal(raw[3+i], &o.Br[i]); err != nil {
			return err
		}
	}
	return nil
}

func (o Obs) MarshalJSON() ([]byte, error) {
	l := []interface{}{o.Ok, o.Status, o.Staged}
	for _, b := range o.Br {
		l = append(l, b)
	}
	return json.Marshal(l)
}

// matches: the expectation e admits the real observation r.
func (e *Obs) matches(r *Obs) bool {
	if e.Ok != r.Ok {
		return false
	}
	if e.Status != r.Status {
		return false
	}
	if e.Staged == "none" && r.Staged != "none" {
		return false
	}
	if len(e.Br) != len(r.Br) {
		return false
	}
	for i := range e.Br {
		if e.Br[i] != r.Br[i] {
			return false
		}
	}
	return true
}

type OpT struct {
	Kind string
	K    int
	How  string
}

func (o *OpT) UnmarshalJSON(b []byte) error {
	var raw []json.RawMessage
	if err := json.Unmarshal(b, &raw); err != nil {
		return err
	}
	if len(raw) != 3 {
		return fmt.Errorf("op: want 3 fields")
	}
	if err := json.Unmarshal(raw[0], &o.Kind); err != nil {
		return err
	}
	if err := json.Unmarshal(raw[1], &o.K); err != nil {
		return err
	}
	return json.Unmarshal(raw[2], &o.How)
}

func (o OpT) MarshalJSON() ([]byte, error) { return json.Marshal([]interface{}{o.Kind, o.K, o.How}) }

type Scenario struct {
	Ex      []bool  `json:"ex"`
	Ops     []OpT   `json:"ops"`
	Allowed [][]Obs `json:"allowed"`
	Tight   [][]Obs `json:"tight"`
	Dct     [][]Obs `json:"dct"`
	Drd     [][]Obs `json:"drd"`
	Dboth   [][]Obs `json:"dboth"`
	Mode    string  `json:"mode,omitempty"` // "cli" forces the CLI (replay files)
}

// prefixIn: some sequence of set admits real[0..n).
func prefixIn(set [][]Obs, real []Obs, n int) bool {
	for _, seq := range set {
		if len(seq) < n {
			continue
		}
		ok := true
		for i := 0; i < n && ok; i++ {
			ok = seq[i].matches(&real[i])
		}
		if ok {
			return true
		}
	}
	return false
}

type base struct {
	id     uuid.UUID
	old    [][]byte // head before the first operation (nil = the branch does not exist)
	staged [][]byte // staged commit
	table  [][]byte // staged table
}

func setup(w *World, ex []bool) (*base, error) {
	b := &base{}
	for i, e := range ex {
		var old []byte
		if e {
			sum, err := w.Plain(Brs[i], i+1, fmt.Sprintf("base %s", Brs[i]))
			if err != nil {
				return nil, err
			}
			old = sum
		}
		b.old = append(b.old, old)
	}
	id, err := w.RS.NewTransaction(nil)
	if err != nil {
		return nil, err
	}
	b.id = *id
	for i := range ex {
		sum, err := w.Stage(b.id, Brs[i], 11+i, fmt.Sprintf("staged %s", Brs[i]))
		if err != nil {
			return nil, err
		}
		b.staged = append(b.staged, sum)
		table := TableSum(11 + i)
		if c, err := objects.GetCommit(w.DB, sum); err == nil {
			table = c.Table // CLI mode: the table `wrgl commit --txid` ingested
		}
		b.table = append(b.table, table)
	}
	return b, nil
}

// observe projects the real repository on what the statement speaks of.
func observe(w *World, b *base, res string) (*Obs, error) {
	o := &Obs{Ok: res, Status: w.Status(b.id), Staged: "some"}
	m, err := ref.ListTransactionRefs(w.RS, b.id)
	if err != nil {
		return nil, err
	}
	if len(m) == 0 {
		o.Staged = "none"
	}
	coms, err := w.allCommits()
	if err != nil {
		return nil, err
	}
	for i := range b.old {
		head, _ := ref.GetHead(w.RS, Brs[i])
		// depth: new commits carrying the staged table stacked on the old head
		depth, cur := 0, head
		for {
			if sameSum(cur, b.old[i]) {
				break
			}
			var c *objects.Commit
			if len(cur) > 0 {
				c = coms[string(cur)]
			}
			if c == nil || !sameSum(c.Table, b.table[i]) || len(c.Parents) > 1 || sameSum(cur, b.staged[i]) || depth > 16 {
				depth = -1
				break
			}
			depth++
			cur = nil
			if len(c.Parents) == 1 {
				cur = c.Parents[0]
			}
		}
		log, err := w.readLog(ref.HeadRef(Brs[i]))
		if err != nil {
			return nil, err
		}
		nlog := 0
		for _, e := range log {
			if e.Tx != nil && *e.Tx == b.id {
				nlog++
				// the entry of a single move must say old -> new
				if depth == 1 && !(sameSum(e.New, head) && sameSum(e.Old, b.old[i])) {
					nlog = -100
				}
			}
		}
		nobj := 0
		for k, c := range coms {
			if sameSum(c.Table, b.table[i]) && k != string(b.staged[i]) {
				nobj++
			}
		}
		o.Br = append(o.Br, [3]int{depth, nlog, nobj})
	}
	return o, nil
}

func opClass(kind, statusBefore string, tried bool) string {
	switch {
	case kind == "commit" && statusBefore == "committed":
		return "commit-twice"
	case kind == "commit" && statusBefore == "gone":
		return "commit-discarded"
	case kind == "commit" && tried:
		return "rerun"
	case kind == "commit":
		return "commit"
	case statusBefore == "committed":
		return "discard-committed"
	case statusBefore == "gone":
		return "discard-again"
	}
	return "discard"
}

// mismatchKind: the fixed function from (operation class, observation before,
// observation after) to the third component of the violation signature.
func mismatchKind(class string, before, after *Obs) string {
	moved, wrote := false, false
	for i := range after.Br {
		if after.Br[i][0] != before.Br[i][0] || after.Br[i][1] != before.Br[i][1] {
			moved = true
		}
		if after.Br[i][2] != before.Br[i][2] {
			wrote = true
		}
	}
	switch class {
	case "commit-twice", "commit-discarded":
		// the operation had to be refused: it was carried out if it reports success or a branch moved
		if after.Ok == "ok" || moved || wrote {
			return "accepted"
		}
		if after.Status != before.Status {
			return "refused-but-changed"
		}
		return "outcome"
	case "discard-committed", "discard-again":
		if after.Ok == "ok" {
			return "accepted"
		}
		if moved {
			return "head-moved"
		}
		if after.Status != before.Status {
			return "refused-but-changed"
		}
		return "outcome"
	case "discard":
		if moved {
			return "head-moved"
		}
		if after.Ok == "ok" && after.Staged != "none" {
			return "staged-left"
		}
		if after.Ok == "ok" && after.Status != "gone" {
			return "not-discarded"
		}
		return "outcome"
	}
	// commit, rerun
	all, none := true, true
	for _, b := range after.Br {
		if b[0] < 0 {
			return "head-elsewhere"
		}
		if b[0] > 1 || b[1] > 1 || b[2] > 1 {
			return "duplicate-commit"
		}
		if b[0] != 1 || b[1] != 1 {
			all = false
		}
		if b[0] != 0 || b[1] != 0 {
			none = false
		}
	}
	switch {
	case after.Status == "committed" && !all:
		return "committed-but-partial"
	case after.Ok == "ok" && !(all && after.Status == "committed"):
		return "ok-but-incomplete"
	case after.Status == "gone" && !none:
		return "gone-but-moved"
	}
	return "outcome"
}

var cliEvery = func() int {
	n, _ := strconv.Atoi(os.Getenv("TXN_CLI_EVERY"))
	return n
}()

func cliable(sc *Scenario) bool {
	for _, o := range sc.Ops {
		if o.K > 0 && o.How != "crashed" {
			return false
		}
	}
	return true
}

// Replay runs one TxnGen scenario on the real code and tests membership of the real
// observation sequence in the specification's allowed set.
func Replay(i int, raw []byte) child.Result {
	var sc Scenario
	if err := json.Unmarshal(raw, &sc); err != nil {
		return child.Inconclusive(fmt.Errorf("scenario %d: %v", i, err))
	}
	useCLI := sc.Mode == "cli" || (cliEvery > 0 && i%cliEvery == 0)
	if useCLI && !cliable(&sc) {
		useCLI = false
	}
	var w *World
	var err error
	if useCLI {
		w, err = NewCLIWorld(os.TempDir())
	} else {
		w, err = NewLibWorld()
	}
	if err != nil {
		return child.Inconclusive(err)
	}
	defer w.Close()
	b, err := setup(w, sc.Ex)
	if err != nil {
		if d, ok := err.(*StageDefect); ok {
			return child.Fail("txn/stage/not-staged/cli", map[string]interface{}{"observed": d.What})
		}
		return child.Inconclusive(fmt.Errorf("setup: %v", err))
	}
	mode := "lib"
	if useCLI {
		mode = "cli"
	}
	before, err := observe(w, b, "ok")
	if err != nil {
		return child.Inconclusive(fmt.Errorf("observe: %v", err))
	}
	var real []Obs
	var fired []bool
	var errs []string
	var storeOps [][]string
	tried := false
	detail := func() map[string]interface{} {
		return map[string]interface{}{"mode": mode, "ops": sc.Ops, "observed": real, "fault_fired": fired,
			"errors": errs, "store_ops": storeOps, "allowed": sc.Allowed}
	}
	for p, op := range sc.Ops {
		class := opClass(op.Kind, before.Status, tried)
		res, f, etext, panicked := w.Do(op.Kind, b.id, op.K, op.How)
		if strings.HasPrefix(panicked, "harness:") {
			return child.Inconclusive(fmt.Errorf("%s", panicked))
		}
		fired = append(fired, f)
		errs = append(errs, etext)
		storeOps = append(storeOps, append([]string{}, w.F.Ops...))
		if panicked != "" {
			d := detail()
			d["panic"] = panicked
			return child.Fail("txn/"+class+"/panic", d)
		}
		after, err := observe(w, b, res)
		if err != nil {
			d := detail()
			d["observe_error"] = err.Error()
			return child.Fail("txn/"+class+"/unreadable", d)
		}
		real = append(real, *after)
		if !prefixIn(sc.Allowed, real, p+1) {
			sig := "txn/" + class + "/" + mismatchKind(class, before, after)
			// play the rest so that a named deviation can be recognised on the whole sequence
			for _, op2 := range sc.Ops[p+1:] {
				res2, f2, e2, pk2 := w.Do(op2.Kind, b.id, op2.K, op2.How)
				fired = append(fired, f2)
				errs = append(errs, e2)
				storeOps = append(storeOps, append([]string{}, w.F.Ops...))
				if pk2 != "" {
					break
				}
				o2, err := observe(w, b, res2)
				if err != nil {
					break
				}
				real = append(real, *o2)
			}
			named := len(real) == len(sc.Ops) &&
				(prefixIn(sc.Drd, real, len(real)) || prefixIn(sc.Dct, real, len(real)) || prefixIn(sc.Dboth, real, len(real)))
			if !named {
				sig += "/unmodelled"
			}
			d := detail()
			d["first_mismatch_op"] = p + 1
			d["named_deviation"] = named
			return child.Fail(sig, d)
		}
		if op.Kind == "commit" && before.Status == "inprogress" {
			tried = true
		}
		before = after
	}
	// class label
	anyFired := false
	parts := []string{}
	for p, op := range sc.Ops {
		s := op.Kind
		if fired[p] {
			s += "!" + op.How
			anyFired = true
		}
		parts = append(parts, s)
	}
	if !anyFired && len(sc.Ops) == 1 {
		return child.Pass("-")
	}
	tight := "loose"
	if prefixIn(sc.Tight, real, len(real)) {
		tight = "tight"
	}
	return child.Pass(fmt.Sprintf("n%d/%s/%s/%s", len(sc.Ex), strings.Join(parts, ","), tight, mode))
}
