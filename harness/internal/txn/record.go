package txn

import (
	"bufio"
	"encoding/json"
	"flag"
	"fmt"
	"math/rand"
	"os"
	"sort"
	"strings"

	"github.com/google/uuid"
	"github.com/wrgl/wrgl/pkg/objects"
	"github.com/wrgl/wrgl/pkg/ref"
)

// universe of spec/TraceTxn.tla (TNB, TNT)
const (
	traceNB = 4
	traceNT = 6
)

// Event is one NDJSON line of a txn trace; every field is always present.
type Event struct {
	Op       string          `json:"op"` // reset | plain | start | stage | txcommit | txdiscard
	Mode     string          `json:"mode"`
	Tx       int             `json:"tx"`
	B        int             `json:"b"`
	Tbl      int             `json:"tbl"`
	K        int             `json:"k"`
	How      string          `json:"how"`
	Fired    bool            `json:"fired"`
	Res      string          `json:"res"`
	Heads    [][][2]int      `json:"heads"`
	Logs     [][]interface{} `json:"logs"`
	Status   []string        `json:"status"`
	Staged   [][3]int        `json:"staged"`
	NCommits int             `json:"ncommits"`
	Objs     [][3]int        `json:"objs"`
	Err      string          `json:"err"`
	StoreOps []string        `json:"storeops"`
}

func newEvent(op, mode string) *Event {
	e := &Event{Op: op, Mode: mode, How: "-", Res: "-", Heads: make([][][2]int, traceNB), Logs: make([][]interface{}, traceNB),
		Status: make([]string, traceNT), Staged: [][3]int{}, Objs: [][3]int{}, StoreOps: []string{}}
	for i := range e.Heads {
		e.Heads[i] = [][2]int{}
		e.Logs[i] = []interface{}{}
	}
	for i := range e.Status {
		e.Status[i] = "absent"
	}
	return e
}

// txMark: the transaction named by the message of a commit made by transaction.Commit.
func txMark(msg string, txs []uuid.UUID) int {
	const p = "commit [tx/"
	if !strings.HasPrefix(msg, p) {
		return 0
	}
	rest := msg[len(p):]
	j := strings.IndexByte(rest, ']')
	if j < 0 {
		return -1
	}
	for i, id := range txs {
		if id.String() == rest[:j] {
			return i + 1
		}
	}
	return -1
}

// project fills the projection of the whole repository into e.
func (w *World) project(e *Event, txs []uuid.UUID) error {
	coms, err := w.allCommits()
	if err != nil {
		return err
	}
	chain := func(sum []byte) [][2]int {
		out := [][2]int{}
		for len(sum) > 0 && len(out) < 1000 {
			c := coms[string(sum)]
			if c == nil {
				out = append(out, [2]int{-1, -1}) // a commit that is not stored
				break
			}
			out = append(out, [2]int{TableNum(c.Table), txMark(c.Message, txs)})
			sum = nil
			if len(c.Parents) > 0 {
				sum = c.Parents[0]
			}
			if len(c.Parents) > 1 {
				out = append(out, [2]int{-2, -2})
			}
		}
		return out
	}
	name := func(sum []byte) [3]int {
		if len(sum) == 0 {
			return [3]int{0, 0, 0}
		}
		ch := chain(sum)
		return [3]int{ch[0][0], ch[0][1], len(ch)}
	}
	txIx := func(id *uuid.UUID) int {
		if id == nil {
			return 0
		}
		for i, t := range txs {
			if t == *id {
				return i + 1
			}
		}
		return -1
	}
	for i := 0; i < traceNB; i++ {
		head, _ := ref.GetHead(w.RS, Brs[i])
		e.Heads[i] = chain(head)
		log, err := w.readLog(ref.HeadRef(Brs[i]))
		if err != nil {
			return err
		}
		for _, le := range log {
			e.Logs[i] = append(e.Logs[i], []interface{}{name(le.Old), name(le.New), txIx(le.Tx)})
		}
	}
	for t, id := range txs {
		tx, err := w.RS.GetTransaction(id)
		switch {
		case err != nil:
			e.Status[t] = "absent"
		case tx.Status == ref.TSInProgress:
			e.Status[t] = "inprogress"
		case tx.Status == ref.TSCommitted:
			e.Status[t] = "committed"
		default:
			e.Status[t] = string(tx.Status)
		}
		m, err := ref.ListTransactionRefs(w.RS, id)
		if err != nil {
			return err
		}
		for _, b := range sortedKeys(m) {
			bi := -1
			for i, n := range Brs {
				if n == b {
					bi = i + 1
				}
			}
			tblN := -1
			if c, err := objects.GetCommit(w.DB, m[b]); err == nil {
				tblN = TableNum(c.Table)
			}
			e.Staged = append(e.Staged, [3]int{t + 1, bi, tblN})
		}
	}
	sort.Slice(e.Staged, func(i, j int) bool {
		a, b := e.Staged[i], e.Staged[j]
		if a[0] != b[0] {
			return a[0] < b[0]
		}
		return a[1] < b[1]
	})
	e.NCommits = len(coms)
	for k := range coms {
		e.Objs = append(e.Objs, name([]byte(k)))
	}
	sort.Slice(e.Objs, func(i, j int) bool {
		a, b := e.Objs[i], e.Objs[j]
		for x := 0; x < 3; x++ {
			if a[x] != b[x] {
				return a[x] < b[x]
			}
		}
		return false
	})
	return nil
}

// session executes abstract operations on one world and emits their events.
type session struct {
	w    *World
	mode string
	txs  []uuid.UUID
	emit func(*Event) error
	seq  int
}

func newSession(mode, dir string, emit func(*Event) error) (*session, error) {
	var w *World
	var err error
	if mode == "cli" {
		w, err = NewCLIWorld(dir)
	} else {
		w, err = NewLibWorld()
	}
	if err != nil {
		return nil, err
	}
	s := &session{w: w, mode: mode, emit: emit}
	return s, emit(newEvent("reset", mode))
}

func (s *session) txid(tx int) (uuid.UUID, bool) {
	if tx < 1 || tx > len(s.txs) {
		return uuid.UUID{}, false
	}
	return s.txs[tx-1], true
}

// do performs the operation described by the input fields of in.
func (s *session) do(in *Event) error {
	e := newEvent(in.Op, s.mode)
	e.Tx, e.B, e.Tbl, e.K, e.How = in.Tx, in.B, in.Tbl, in.K, in.How
	s.seq++
	switch in.Op {
	case "plain":
		if _, err := s.w.Plain(Brs[in.B-1], in.Tbl, fmt.Sprintf("plain %d", s.seq)); err != nil {
			return err
		}
	case "start":
		if in.Tx != len(s.txs)+1 {
			return fmt.Errorf("start of tx %d out of order", in.Tx)
		}
		id, err := s.w.RS.NewTransaction(nil)
		if err != nil {
			return err
		}
		s.txs = append(s.txs, *id)
	case "stage":
		id, ok := s.txid(in.Tx)
		if !ok {
			return fmt.Errorf("stage into unknown tx %d", in.Tx)
		}
		if _, err := s.w.Stage(id, Brs[in.B-1], in.Tbl, fmt.Sprintf("staged %d", s.seq)); err != nil {
			if _, defect := err.(*StageDefect); !defect {
				return err
			}
			// the projection below says what the command did instead; the specification's Stage does not explain it
		}
	case "reapply":
		id, ok := s.txid(in.Tx)
		if !ok {
			return fmt.Errorf("reapply of unknown tx %d", in.Tx)
		}
		res, etext := s.w.Reapply(id)
		if strings.HasPrefix(etext, "harness:") {
			return fmt.Errorf("%s", etext)
		}
		e.Res, e.Err = res, etext
	case "txcommit", "txdiscard":
		id, ok := s.txid(in.Tx)
		if !ok {
			return fmt.Errorf("run on unknown tx %d", in.Tx)
		}
		kind := "commit"
		if in.Op == "txdiscard" {
			kind = "discard"
		}
		res, fired, etext, panicked := s.w.Do(kind, id, in.K, in.How)
		if strings.HasPrefix(panicked, "harness:") {
			return fmt.Errorf("%s", panicked)
		}
		if panicked != "" {
			res, etext = "panic", panicked
		}
		e.Res, e.Fired, e.Err = res, fired, etext
		e.StoreOps = append(e.StoreOps, s.w.F.Ops...)
	default:
		return fmt.Errorf("unknown op %q", in.Op)
	}
	if err := s.w.project(e, s.txs); err != nil {
		e.Err = "projection: " + err.Error()
		e.NCommits = -1
	}
	return s.emit(e)
}

// Record drives the real transaction code with seeded random histories and writes
// the trace.
func Record(args []string) error {
	fs := flag.NewFlagSet("record txn", flag.ExitOnError)
	seed := fs.Int64("seed", 1, "seed")
	n := fs.Int("n", 20, "number of traces")
	length := fs.Int("len", 30, "operations per trace")
	out := fs.String("out", "", "output trace file")
	dir := fs.String("dir", "", "directory for CLI-mode repositories")
	cliEach := fs.Int("cli-every", 0, "every k-th trace goes through `wrgl transaction ...` on a real .wrgl directory")
	reexec := fs.String("reexec", "", "re-execute the operations of this recorded trace instead of generating")
	fs.Parse(args)
	f, err := os.Create(*out)
	if err != nil {
		return err
	}
	defer f.Close()
	bw := bufio.NewWriter(f)
	defer bw.Flush()
	emit := func(e *Event) error {
		b, err := json.Marshal(e)
		if err != nil {
			return err
		}
		bw.Write(b)
		return bw.WriteByte('\n')
	}
	if *dir == "" {
		*dir = os.TempDir()
	}
	if *reexec != "" {
		return reexecute(*reexec, *dir, emit)
	}
	rng := rand.New(rand.NewSource(*seed))
	for t := 0; t < *n; t++ {
		mode := "lib"
		if *cliEach > 0 && t%*cliEach == *cliEach-1 {
			mode = "cli"
		}
		s, err := newSession(mode, *dir, emit)
		if err != nil {
			return err
		}
		err = randomHistory(s, rng, *length)
		s.w.Close()
		if err != nil {
			return fmt.Errorf("trace %d: %v", t, err)
		}
	}
	return nil
}

func randomHistory(s *session, rng *rand.Rand, length int) error {
	tbl := 0
	nextTbl := func() int { tbl++; return tbl }
	nb := 2 + rng.Intn(traceNB-1) // branches in play
	staged := map[int]map[int]bool{}
	status := map[int]string{} // the driver's own idea, only to pick sensible operations
	noneOpen := func() bool {
		for _, st := range status {
			if st == "inprogress" {
				return false
			}
		}
		return true
	}
	for i := 0; i < length; i++ {
		in := &Event{How: "-"}
		r := rng.Intn(100)
		switch {
		case len(s.txs) < traceNT && (noneOpen() || r < 6):
			in.Op, in.Tx = "start", len(s.txs)+1
			status[in.Tx] = "inprogress"
			staged[in.Tx] = map[int]bool{}
		case r < 26:
			in.Op, in.B, in.Tbl = "plain", 1+rng.Intn(nb), nextTbl()
		case r < 33 && len(s.txs) > 0:
			// `wrgl reapply TX`: mostly a committed transaction, sometimes one that is not (refused)
			in.Op, in.Tx = "reapply", 1+rng.Intn(len(s.txs))
			for t := 1; t <= len(s.txs) && rng.Intn(100) < 75; t++ {
				if status[t] == "committed" {
					in.Tx = t
				}
			}
		case r < 55:
			var open []int
			for t := 1; t <= len(s.txs); t++ {
				if status[t] == "inprogress" && len(staged[t]) < 3 {
					open = append(open, t)
				}
			}
			if len(open) == 0 {
				continue
			}
			in.Op, in.Tx, in.B, in.Tbl = "stage", open[rng.Intn(len(open))], 1+rng.Intn(nb), nextTbl()
			staged[in.Tx][in.B] = true
		default:
			in.Tx = 1 + rng.Intn(len(s.txs))
			// mostly transactions still in progress; sometimes a committed / discarded one
			if status[in.Tx] != "inprogress" && rng.Intn(100) < 80 {
				for t := 1; t <= len(s.txs); t++ {
					if status[t] == "inprogress" {
						in.Tx = t
					}
				}
			}
			in.Op = "txcommit"
			if r >= 85 {
				in.Op = "txdiscard"
			}
			if rng.Intn(100) < 55 {
				max := 2*len(staged[in.Tx]) + 2
				in.K = 1 + rng.Intn(max)
				in.How = []string{"err", "crashed"}[rng.Intn(2)]
				if s.mode == "cli" && in.Op == "txdiscard" {
					in.How = "crashed" // (a failing discard cannot be had through the command line)
				}
			}
		}
		if err := s.do(in); err != nil {
			return err
		}
		// follow the real status only to keep the driver's choices sensible
		if in.Op == "txcommit" || in.Op == "txdiscard" {
			id, _ := s.txid(in.Tx)
			switch s.w.Status(id) {
			case "gone":
				status[in.Tx] = "absent"
			default:
				status[in.Tx] = s.w.Status(id)
			}
		}
	}
	return nil
}

// reexecute performs the operations of a recorded trace again on the current code.
func reexecute(path, dir string, emit func(*Event) error) error {
	f, err := os.Open(path)
	if err != nil {
		return err
	}
	defer f.Close()
	sc := bufio.NewScanner(f)
	sc.Buffer(make([]byte, 1<<20), 1<<26)
	var s *session
	defer func() {
		if s != nil {
			s.w.Close()
		}
	}()
	for sc.Scan() {
		if len(sc.Bytes()) == 0 {
			continue
		}
		var e Event
		if err := json.Unmarshal(sc.Bytes(), &e); err != nil {
			return err
		}
		if e.Op == "reset" || s == nil {
			if s != nil {
				s.w.Close()
			}
			mode := e.Mode
			if mode == "" {
				mode = "lib"
			}
			if s, err = newSession(mode, dir, emit); err != nil {
				return err
			}
			if e.Op == "reset" {
				continue
			}
		}
		if err := s.do(&e); err != nil {
			return err
		}
	}
	return sc.Err()
}
