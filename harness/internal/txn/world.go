// Package txn binds spec/Txn.tla to the real transaction code
// (pkg/transaction.Commit / Discard and `wrgl transaction commit|discard`)
// running on fault-injecting wrappers around BOTH stores.
package txn

import (
	"bytes"
	"database/sql"
	"fmt"
	"io"
	"os"
	"sort"
	"strings"
	"sync/atomic"
	"time"

	"github.com/google/uuid"
	_ "github.com/mattn/go-sqlite3"
	"github.com/wrgl/wrgl/pkg/objects"
	"github.com/wrgl/wrgl/pkg/ref"
	refsql "github.com/wrgl/wrgl/pkg/ref/sql"
	"github.com/wrgl/wrgl/pkg/sqlutil"
	"github.com/wrgl/wrgl/pkg/transaction"
	"github.com/wrgl/wrgl/pkg/vhook"

	"verifharness/internal/cli"
	"verifharness/internal/tbl"
)

// Faults counts the mutating store operations (ref store calls and object store
// writes, one shared counter) of the operation in flight and stops the FailAt-th.
type Faults struct {
	N      int    // mutating store operations seen since Arm
	FailAt int    // 0 = none
	How    string // "err": the operation returns an error; "crashed": the process "dies" (panic up to the harness)
	Fired  bool
	Ops    []string
}

type injectedCrash struct{}

func (injectedCrash) Error() string  { return crashText }
func (injectedCrash) String() string { return crashText }

const crashText = "verif-injected-crash"

var errInjected = fmt.Errorf("verif-injected-failure")

func (f *Faults) Arm(k int, how string) {
	f.N, f.FailAt, f.How, f.Fired, f.Ops = 0, k, how, false, nil
}
func (f *Faults) Disarm() { f.FailAt = 0 }

// hit is called BEFORE a mutating store operation is performed.
func (f *Faults) hit(name string) error {
	f.N++
	f.Ops = append(f.Ops, name)
	if f.FailAt > 0 && f.N == f.FailAt {
		f.Fired = true
		if f.How == "crashed" {
			panic(injectedCrash{})
		}
		return errInjected
	}
	return nil
}

// faultRef fails the k-th mutating call of a ref.Store; reads pass through.
type faultRef struct {
	ref.Store
	f  *Faults
	db *sql.DB // when set, an injected failure of a logged set happens INSIDE the store operation
}

func (s *faultRef) Set(key string, val []byte) error {
	if err := s.f.hit("ref.set"); err != nil {
		return err
	}
	return s.Store.Set(key, val)
}
func (s *faultRef) SetWithLog(key string, val []byte, rl *ref.Reflog) error {
	if err := s.f.hit("ref.setlog"); err != nil {
		if s.db != nil {
			// "the operation is not performed and returns an error" is not taken on trust: the store's own write
			// of the log record is made to fail (an SQL trigger aborts the insert) and the real operation runs;
			// whatever it leaves behind is what the scenario observes
			if _, terr := s.db.Exec(`CREATE TRIGGER verif_fail BEFORE INSERT ON reflogs BEGIN SELECT RAISE(ABORT, 'verif-injected-failure'); END`); terr != nil {
				return err
			}
			rerr := s.Store.SetWithLog(key, val, rl)
			s.db.Exec(`DROP TRIGGER verif_fail`)
			return rerr
		}
		return err
	}
	return s.Store.SetWithLog(key, val, rl)
}
func (s *faultRef) Delete(key string) error {
	if err := s.f.hit("ref.del"); err != nil {
		return err
	}
	return s.Store.Delete(key)
}
func (s *faultRef) Rename(a, b string) error {
	if err := s.f.hit("ref.rename"); err != nil {
		return err
	}
	return s.Store.Rename(a, b)
}
func (s *faultRef) Copy(a, b string) error {
	if err := s.f.hit("ref.copy"); err != nil {
		return err
	}
	return s.Store.Copy(a, b)
}
func (s *faultRef) NewTransaction(tx *ref.Transaction) (*uuid.UUID, error) {
	if err := s.f.hit("ref.tx.new"); err != nil {
		return nil, err
	}
	return s.Store.NewTransaction(tx)
}
func (s *faultRef) UpdateTransaction(tx *ref.Transaction) error {
	if err := s.f.hit("ref.tx.update"); err != nil {
		return err
	}
	return s.Store.UpdateTransaction(tx)
}
func (s *faultRef) DeleteTransaction(id uuid.UUID) error {
	if err := s.f.hit("ref.tx.delete"); err != nil {
		return err
	}
	return s.Store.DeleteTransaction(id)
}
func (s *faultRef) GCTransactions(ttl time.Duration) ([]uuid.UUID, error) {
	if err := s.f.hit("ref.tx.gc"); err != nil {
		return nil, err
	}
	return s.Store.GCTransactions(ttl)
}

// World is one real repository.  Library mode: in-memory sqlite ref store +
// tbl.SafeStore, operations called through the fault-injecting wrappers.  CLI mode:
// a .wrgl directory (badger + sqlite file), operations through the in-process
// `wrgl transaction ...` command, crashes injected through the store-write hooks.
type World struct {
	DB  objects.Store
	RS  ref.Store
	F   *Faults
	fdb objects.Store
	frs ref.Store

	repo    *cli.Repo
	dir     string
	closeFn func()
}

var dbCounter int64

// newMemRefStore opens a private in-memory sqlite ref store the way the repository's
// own refmock does: no limit on the connection pool (refs.NewMemStore allows one
// connection, with which ref/sql.GetTransactionLogs - a query inside a query - blocks).
func newMemRefStore() (ref.Store, *sql.DB, error) {
	n := atomic.AddInt64(&dbCounter, 1)
	db, err := sql.Open("sqlite3", fmt.Sprintf("file:veriftxn%d-%d.db?cache=shared&mode=memory", os.Getpid(), n))
	if err != nil {
		return nil, nil, err
	}
	if err := sqlutil.RunInTx(db, func(tx *sql.Tx) error {
		for _, stmt := range refsql.CreateTableStmts {
			if _, err := tx.Exec(stmt); err != nil {
				return err
			}
		}
		return nil
	}); err != nil {
		db.Close()
		return nil, nil, err
	}
	return refsql.NewStore(db), db, nil
}

func NewLibWorld() (*World, error) {
	rs, sqldb, err := newMemRefStore()
	if err != nil {
		return nil, err
	}
	f := &Faults{}
	db := tbl.NewSafeStore()
	db.Fail = func(key []byte) error { return f.hit("obj.set") }
	return &World{DB: db, RS: rs, F: f, fdb: db, frs: &faultRef{Store: rs, f: f, db: sqldb},
		closeFn: func() { sqldb.Close() }}, nil
}

func NewCLIWorld(parent string) (*World, error) {
	dir, err := os.MkdirTemp(parent, "txn-*")
	if err != nil {
		return nil, err
	}
	r, err := cli.NewRepo(dir, "r")
	if err != nil {
		return nil, err
	}
	w := &World{F: &Faults{}, repo: r, dir: dir}
	if err := w.open(); err != nil {
		return nil, err
	}
	return w, nil
}

func (w *World) CLI() bool { return w.repo != nil }

func (w *World) open() error {
	db, rs, closeFn, err := w.repo.Open()
	if err != nil {
		return err
	}
	w.DB, w.RS, w.closeFn = db, rs, closeFn
	return nil
}

func (w *World) Close() {
	if w.closeFn != nil {
		w.closeFn()
		w.closeFn = nil
	}
	if w.dir != "" {
		os.RemoveAll(w.dir)
	}
}

// Do runs CommitTx / Discard of the real code with the k-th mutating store operation
// stopped (k = 0: none).  res is "ok", "err" or "crashed"; a panic that is not the
// injected one is returned in panicked.
func (w *World) Do(kind string, id uuid.UUID, k int, how string) (res string, fired bool, errText string, panicked string) {
	if w.CLI() {
		return w.doCLI(kind, id, k, how)
	}
	w.F.Arm(k, how)
	defer w.F.Disarm()
	var err error
	func() {
		defer func() {
			if p := recover(); p != nil {
				if _, ok := p.(injectedCrash); ok {
					res = "crashed"
					return
				}
				panicked = fmt.Sprint(p)
			}
		}()
		if kind == "commit" {
			_, err = transaction.Commit(w.fdb, w.frs, id)
		} else {
			err = transaction.Discard(w.frs, id)
		}
	}()
	fired = w.F.Fired
	if res == "crashed" || panicked != "" {
		return
	}
	if err != nil {
		return "err", fired, err.Error(), ""
	}
	return "ok", fired, "", ""
}

// the hooks fire twice inside some ref-store methods; only the first one of a call
// is a store operation of the specification
var hookSecondary = map[string]bool{"setlog.log": true, "del.ref": true, "rename.del": true}

func (w *World) doCLI(kind string, id uuid.UUID, k int, how string) (res string, fired bool, errText string, panicked string) {
	if k > 0 && how != "crashed" {
		// no error can be injected into the stores the command opens for itself; what can be had is a commit
		// of a transaction that meets an unreadable object: the commit a staged ref names (the k-th, in name order)
		// is taken out of the object store for the duration of the command.  The specification's "a failure at any
		// point" (ExecAny with a fired fault) covers wherever the command stops
		if kind != "commit" {
			k = 0
		} else {
			staged, lerr := ref.ListTransactionRefs(w.RS, id)
			if lerr != nil || len(staged) == 0 {
				k = 0
			} else {
				names := make([]string, 0, len(staged))
				for n := range staged {
					names = append(names, n)
				}
				sort.Strings(names)
				sum := staged[names[(k-1)%len(names)]]
				key := append([]byte("com/"), sum...)
				raw, gerr := w.DB.Get(key)
				if gerr != nil {
					k = 0
				} else {
					if derr := w.DB.Delete(key); derr != nil {
						return "", false, "", "harness: hide commit: " + derr.Error()
					}
					defer func() {
						if w.DB != nil {
							if serr := w.DB.Set(key, raw); serr != nil && panicked == "" {
								panicked = "harness: restore commit: " + serr.Error()
							}
						}
					}()
				}
			}
		}
		w.closeFn()
		w.closeFn = nil
		out, err := w.repo.Run(nil, "transaction", kind, id.String())
		if oerr := w.open(); oerr != nil {
			return "", k > 0, "", "harness: reopen: " + oerr.Error()
		}
		switch {
		case err != nil && strings.HasPrefix(err.Error(), "PANIC"):
			return "", k > 0, "", err.Error()
		case err != nil:
			return "err", k > 0, err.Error() + " " + out, ""
		}
		return "ok", k > 0, "", ""
	}
	w.closeFn()
	w.closeFn = nil
	w.F.Arm(k, how)
	vhook.WriteFn = func(store, op string, key []byte) {
		if hookSecondary[op] {
			return
		}
		w.F.hit(store + "." + op)
	}
	out, err := w.repo.Run(nil, "transaction", kind, id.String())
	vhook.WriteFn = nil
	w.F.Disarm()
	fired = w.F.Fired
	if oerr := w.open(); oerr != nil {
		return "", fired, "", "harness: reopen: " + oerr.Error()
	}
	switch {
	case err != nil && strings.Contains(err.Error(), crashText):
		return "crashed", fired, "", ""
	case err != nil && strings.HasPrefix(err.Error(), "PANIC"):
		return "", fired, "", err.Error()
	case err != nil:
		return "err", fired, err.Error() + " " + out, ""
	}
	return "ok", fired, "", ""
}

// Reapply runs transaction.Reapply / `wrgl reapply ID`; res is "ok" or "err".
func (w *World) Reapply(id uuid.UUID) (res string, errText string) {
	if w.CLI() {
		w.closeFn()
		w.closeFn = nil
		out, err := w.repo.Run(nil, "reapply", id.String())
		if oerr := w.open(); oerr != nil {
			return "", "harness: reopen: " + oerr.Error()
		}
		if err != nil {
			if strings.HasPrefix(err.Error(), "PANIC") {
				return "panic", err.Error()
			}
			return "err", err.Error() + " " + out
		}
		return "ok", ""
	}
	var err error
	var panicked string
	func() {
		defer func() {
			if p := recover(); p != nil {
				panicked = fmt.Sprint(p)
			}
		}()
		// (the command checks the status itself; the library function is given committed transactions only)
		tx, gerr := w.RS.GetTransaction(id)
		switch {
		case gerr != nil:
			err = fmt.Errorf("transaction not found")
		case tx.Status != ref.TSCommitted:
			err = fmt.Errorf("transaction not committed")
		default:
			err = transaction.Reapply(w.DB, w.RS, id, func(string, []byte, string) {})
		}
	}()
	if panicked != "" {
		return "panic", panicked
	}
	if err != nil {
		return "err", err.Error()
	}
	return "ok", ""
}

// ---------------------------------------------------------------------------
// building blocks shared by replay and record

// TableSum is the fake 16-byte table sum of abstract table n (transactions never
// read the table).
func TableSum(n int) []byte {
	b := make([]byte, 16)
	b[0], b[1], b[2] = 0x7b, byte(n>>8), byte(n)
	b[15] = 0xA5
	return b
}

// realTables: the abstract number of a REAL table (one that `wrgl commit --txid` ingested from the CSV of
// abstract table n in a CLI-mode world)
var realTables = map[string]int{}

func TableNum(b []byte) int {
	if n, ok := realTables[string(b)]; ok {
		return n
	}
	if len(b) != 16 || b[0] != 0x7b || b[15] != 0xA5 {
		return -1
	}
	return int(b[1])<<8 | int(b[2])
}

var epoch = time.Unix(1600000000, 0)

// newCommit stores a commit object for abstract table n on top of parent (nil = root);
// msg makes it unique.
func (w *World) newCommit(n int, parent []byte, msg string) ([]byte, *objects.Commit, error) {
	var parents [][]byte
	if parent != nil {
		parents = [][]byte{parent}
	}
	return tbl.SaveCommit(w.DB, TableSum(n), parents, msg, epoch.Add(time.Duration(n)*time.Second))
}

// Plain commits abstract table n on branch (a plain `wrgl commit`).
func (w *World) Plain(branch string, n int, msg string) ([]byte, error) {
	old, _ := ref.GetHead(w.RS, branch)
	sum, com, err := w.newCommit(n, old, msg)
	if err != nil {
		return nil, err
	}
	return sum, ref.CommitHead(w.RS, branch, sum, com, nil)
}

// Stage is `wrgl commit --txid`: a commit object on top of the current head, named
// by the transaction ref only.
func (w *World) Stage(id uuid.UUID, branch string, n int, msg string) ([]byte, error) {
	if w.CLI() {
		return w.stageCLI(id, branch, n, msg)
	}
	old, _ := ref.GetHead(w.RS, branch)
	sum, _, err := w.newCommit(n, old, msg)
	if err != nil {
		return nil, err
	}
	return sum, ref.SaveTransactionRef(w.RS, id, branch, sum)
}

// StageDefect: the real `wrgl commit --txid` did something else than staging.
type StageDefect struct{ What string }

func (e *StageDefect) Error() string { return e.What }

// stageCLI stages abstract table n with the real command, in one of its two forms: with the CSV file and key
// given on the command line, or declared in the branch configuration (`wrgl commit BRANCH MESSAGE --txid`).
// The second form commits only when the file differs from the head's table, so it is used only then.
func (w *World) stageCLI(id uuid.UUID, branch string, n int, msg string) ([]byte, error) {
	old, _ := ref.GetHead(w.RS, branch)
	headTable := -1
	if old != nil {
		if c, err := objects.GetCommit(w.DB, old); err == nil {
			headTable = TableNum(c.Table)
		}
	}
	w.closeFn()
	w.closeFn = nil
	fp, err := w.repo.WriteFile(fmt.Sprintf("table-%d.csv", n), []byte(fmt.Sprintf("a,b\n1,%d\n", n)))
	if err != nil {
		return nil, err
	}
	var out string
	if (len(msg)+n+len(branch))%2 == 0 && headTable != n {
		if out, err = w.repo.Run(nil, "branch", "config", branch, "--set-file", fp, "--set-primary-key", "a"); err == nil {
			out, err = w.repo.Run(nil, "commit", branch, msg, "--txid", id.String(), "-n", "1")
		}
	} else {
		out, err = w.repo.Run(nil, "commit", branch, fp, msg, "-p", "a", "--txid", id.String(), "-n", "1")
	}
	if oerr := w.open(); oerr != nil {
		return nil, fmt.Errorf("reopen: %v", oerr)
	}
	if err != nil {
		return nil, fmt.Errorf("wrgl commit --txid: %v %s", err, out)
	}
	m, err := ref.ListTransactionRefs(w.RS, id)
	if err != nil {
		return nil, err
	}
	sum := m[branch]
	if sum != nil {
		if c, err := objects.GetCommit(w.DB, sum); err == nil {
			if _, ok := realTables[string(c.Table)]; !ok && TableNum(c.Table) < 0 {
				realTables[string(c.Table)] = n
			}
		}
	}
	now, _ := ref.GetHead(w.RS, branch)
	switch {
	case !sameSum(now, old):
		// (which table the moved head carries is left to the projection)
		if c, err := objects.GetCommit(w.DB, now); err == nil {
			if _, ok := realTables[string(c.Table)]; !ok && TableNum(c.Table) < 0 {
				realTables[string(c.Table)] = n
			}
		}
		return sum, &StageDefect{"`wrgl commit --txid` moved the branch itself"}
	case sum == nil:
		return nil, &StageDefect{"`wrgl commit --txid` staged nothing: " + out}
	}
	return sum, nil
}

// cacheCommit: the temporary commit the commit cache of `wrgl commit BRANCH MESSAGE` keeps under heads/BRANCH-tmp
// (its message is the name of the file); no part of what transactions are about
func cacheCommit(c *objects.Commit) bool {
	return len(c.Parents) == 0 && strings.HasPrefix(c.Message, "table-") && strings.HasSuffix(c.Message, ".csv")
}

func (w *World) Status(id uuid.UUID) string {
	tx, err := w.RS.GetTransaction(id)
	if err != nil {
		return "gone"
	}
	switch tx.Status {
	case ref.TSInProgress:
		return "inprogress"
	case ref.TSCommitted:
		return "committed"
	}
	return "gone"
}

type logEntry struct {
	Old, New []byte
	Tx       *uuid.UUID
}

// readLog returns the reflog of name oldest first.
func (w *World) readLog(name string) ([]logEntry, error) {
	r, err := w.RS.LogReader(name)
	if err != nil {
		return nil, nil
	}
	defer r.Close()
	var out []logEntry
	for {
		rl, err := r.Read()
		if err == io.EOF {
			break
		}
		if err != nil {
			return nil, err
		}
		out = append(out, logEntry{Old: rl.OldOID, New: rl.NewOID, Tx: rl.Txid})
	}
	for i, j := 0, len(out)-1; i < j; i, j = i+1, j-1 {
		out[i], out[j] = out[j], out[i]
	}
	return out, nil
}

// allCommits reads every commit object of the object store.
func (w *World) allCommits() (map[string]*objects.Commit, error) {
	keys, err := objects.GetAllCommitKeys(w.DB)
	if err != nil {
		return nil, err
	}
	m := map[string]*objects.Commit{}
	for _, k := range keys {
		c, err := objects.GetCommit(w.DB, k)
		if err != nil {
			return nil, fmt.Errorf("commit %x unreadable: %v", k, err)
		}
		if cacheCommit(c) {
			continue
		}
		m[string(k)] = c
	}
	return m, nil
}

func sameSum(a, b []byte) bool {
	if len(a) == 0 && len(b) == 0 {
		return true
	}
	return bytes.Equal(a, b)
}

func sortedKeys(m map[string][]byte) []string {
	ks := make([]string, 0, len(m))
	for k := range m {
		ks = append(ks, k)
	}
	sort.Strings(ks)
	return ks
}
