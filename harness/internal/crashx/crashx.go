// Package crashx binds spec/Crash.tla / spec/TraceCrash.tla (property C13) to the real
// command line: operations are run in-process with the verif hooks recording every store
// write (write traces), and the real wrgl binary is killed at its n-th write
// (VERIF_CRASH_AT) after which the reopened repository is scanned and the command re-run.
package crashx

import (
	"encoding/hex"
	"encoding/json"
	"fmt"
	"math/rand"
	"os"
	"os/exec"
	"path/filepath"
	"sort"
	"strings"
	"sync"

	"github.com/wrgl/wrgl/pkg/objects"
	"github.com/wrgl/wrgl/pkg/ref"
	"github.com/wrgl/wrgl/pkg/vhook"

	"verifharness/internal/child"
	"verifharness/internal/cli"
	"verifharness/internal/refs"
	"verifharness/internal/refserver"
	"verifharness/internal/syncx"
	"verifharness/internal/tbl"
)

type Scenario struct {
	Seed int64  `json:"seed"`
	Idx  int    `json:"idx"`
	Kind string `json:"kind"` // commit-new | commit-existing | merge | merge-ff | prune | gc
	Mode string `json:"mode"` // trace | kill
	Rows int    `json:"rows"`
}

// ids maps real sums to small integers, per kind, for the lifetime of one scenario.
type ids struct {
	m map[string]int
}

func (x *ids) of(kind string, sum []byte) int {
	k := kind + "/" + string(sum)
	if v, ok := x.m[k]; ok {
		return v
	}
	v := len(x.m) + 1
	x.m[k] = v
	return v
}

type state struct {
	Op      string           `json:"op"`
	Name    string           `json:"name"`
	Tables  [][]interface{}  `json:"tables"`
	Commits [][]interface{}  `json:"commits"`
	Present map[string][]int `json:"present"`
	Refs    [][]interface{}  `json:"refs"`
	Strict  []string         `json:"strict"`
	Note    string           `json:"note"`
}

func keysOf(db objects.Store, f func(objects.Store) ([][]byte, error)) [][]byte {
	k, _ := f(db)
	return k
}

// scan projects a repository: presence sets, refs, and the structure (meta) of every
// table and commit that can be read.  A table listed as present that cannot be read
// gets an impossible block id, so that the specification sees it as unusable.
func scan(db objects.Store, rs ref.Store, x *ids, st *state, strict []string) {
	st.Present = map[string][]int{"blocks": {}, "blkidx": {}, "tables": {}, "tblidx": {}, "profiles": {}, "commits": {}}
	if st.Strict = strict; st.Strict == nil {
		st.Strict = []string{}
	}
	for _, k := range keysOf(db, objects.GetAllBlockKeys) {
		st.Present["blocks"] = append(st.Present["blocks"], x.of("block", k))
	}
	for _, k := range keysOf(db, objects.GetAllBlockIndexKeys) {
		st.Present["blkidx"] = append(st.Present["blkidx"], x.of("blkidx", k))
	}
	for _, k := range keysOf(db, objects.GetAllTableIndexKeys) {
		st.Present["tblidx"] = append(st.Present["tblidx"], x.of("table", k))
	}
	for _, k := range keysOf(db, objects.GetAllTableProfileKeys) {
		st.Present["profiles"] = append(st.Present["profiles"], x.of("table", k))
	}
	seenT := map[int]bool{}
	addTable := func(sum []byte) {
		id := x.of("table", sum)
		if seenT[id] {
			return
		}
		seenT[id] = true
		blocks, idxs := []int{}, []int{}
		t, err := objects.GetTable(db, sum)
		if err != nil {
			if objects.TableExist(db, sum) {
				blocks = append(blocks, 0) // present but unreadable: unusable
			}
		} else {
			for _, b := range t.Blocks {
				blocks = append(blocks, x.of("block", b))
			}
			for _, b := range t.BlockIndices {
				idxs = append(idxs, x.of("blkidx", b))
			}
			if len(t.BlockIndices) != len(t.Blocks) {
				idxs = append(idxs, 0)
			}
		}
		st.Tables = append(st.Tables, []interface{}{id, blocks, idxs})
	}
	for _, k := range keysOf(db, objects.GetAllTableKeys) {
		st.Present["tables"] = append(st.Present["tables"], x.of("table", k))
		addTable(k)
	}
	seenC := map[int]bool{}
	var addCommit func(sum []byte)
	addCommit = func(sum []byte) {
		id := x.of("commit", sum)
		if seenC[id] {
			return
		}
		seenC[id] = true
		c, err := objects.GetCommit(db, sum)
		if err != nil {
			st.Commits = append(st.Commits, []interface{}{id, 0, []int{}})
			return
		}
		ps := []int{}
		for _, p := range c.Parents {
			ps = append(ps, x.of("commit", p))
		}
		st.Commits = append(st.Commits, []interface{}{id, x.of("table", c.Table), ps})
		addTable(c.Table)
		for _, p := range c.Parents {
			if objects.CommitExist(db, p) {
				addCommit(p)
			} else if !seenC[x.of("commit", p)] {
				seenC[x.of("commit", p)] = true
				st.Commits = append(st.Commits, []interface{}{x.of("commit", p), 0, []int{}})
			}
		}
	}
	for _, k := range keysOf(db, objects.GetAllCommitKeys) {
		st.Present["commits"] = append(st.Present["commits"], x.of("commit", k))
		addCommit(k)
	}
	m, _ := ref.ListAllRefs(rs)
	names := []string{}
	for n := range m {
		names = append(names, n)
	}
	sort.Strings(names)
	for _, n := range names {
		id := x.of("commit", m[n])
		st.Refs = append(st.Refs, []interface{}{n, id})
		if !seenC[id] {
			seenC[id] = true
			st.Commits = append(st.Commits, []interface{}{id, 0, []int{}})
		}
	}
	if st.Tables == nil {
		st.Tables = [][]interface{}{}
	}
	if st.Commits == nil {
		st.Commits = [][]interface{}{}
	}
	if st.Refs == nil {
		st.Refs = [][]interface{}{}
	}
	// tables referenced only by id 0 placeholders need a meta entry too
	known := map[int]bool{}
	for _, t := range st.Tables {
		known[t[0].(int)] = true
	}
	for _, c := range st.Commits {
		if tid := c[1].(int); !known[tid] {
			known[tid] = true
			st.Tables = append(st.Tables, []interface{}{tid, []int{}, []int{}})
		}
	}
}

// merged scans the repository before and after, so that objects deleted (prune) or
// created by the operation are all described by one meta.
func mergeMeta(a, b *state) {
	seenT := map[int]bool{}
	for _, t := range b.Tables {
		seenT[t[0].(int)] = true
	}
	for _, t := range a.Tables {
		if !seenT[t[0].(int)] {
			b.Tables = append(b.Tables, t)
		}
	}
	seenC := map[int]bool{}
	for _, c := range b.Commits {
		seenC[c[0].(int)] = true
	}
	for _, c := range a.Commits {
		if !seenC[c[0].(int)] {
			b.Commits = append(b.Commits, c)
		}
	}
}

func csvRows(rng *rand.Rand, n int, salt string) []byte {
	rows := [][]string{{"id", "a", "b"}}
	for _, i := range rng.Perm(n) {
		rows = append(rows, []string{fmt.Sprintf("%06d", i), "v" + salt, fmt.Sprintf("w%d", i%13)})
	}
	return tbl.CSV(rows, 0)
}

// prepare builds the repository an operation starts from and returns the command to run.
func prepare(r *cli.Repo, sc *Scenario) (args []string, strict []string, err error) {
	if sc.Kind == "fetch" || sc.Kind == "pull" {
		return prepareRemote(r, sc)
	}
	rng := rand.New(rand.NewSource(sc.Seed*131 + int64(sc.Idx)))
	n := sc.Rows
	if n == 0 {
		n = 300
	}
	run := func(a ...string) error {
		out, err := r.Run(nil, a...)
		if err != nil {
			return fmt.Errorf("wrgl %v: %v: %s", a, err, out)
		}
		return nil
	}
	f1, _ := r.WriteFile("one.csv", csvRows(rng, n, "1"))
	f2, _ := r.WriteFile("two.csv", csvRows(rng, n+7, "2"))
	f3, _ := r.WriteFile("three.csv", csvRows(rng, n+3, "3"))
	switch sc.Kind {
	case "commit-new":
		return []string{"commit", "main", f1, "first", "-p", "id", "-n", "1"}, []string{"heads/main"}, nil
	case "commit-existing":
		if err := run("commit", "main", f1, "first", "-p", "id", "-n", "1"); err != nil {
			return nil, nil, err
		}
		return []string{"commit", "main", f2, "second", "-p", "id", "-n", "1"}, []string{"heads/main"}, nil
	case "merge", "merge-ff":
		if err := run("commit", "main", f1, "first", "-p", "id", "-n", "1"); err != nil {
			return nil, nil, err
		}
		if err := run("branch", "create", "other", "main"); err != nil {
			return nil, nil, err
		}
		if err := run("commit", "other", f2, "other change", "-p", "id", "-n", "1"); err != nil {
			return nil, nil, err
		}
		if sc.Kind == "merge" {
			if err := run("commit", "main", f3, "main change", "-p", "id", "-n", "1"); err != nil {
				return nil, nil, err
			}
			return []string{"merge", "main", "other", "--no-gui", "--commit-csv", f2, "-m", "merged", "-n", "1"}, []string{"heads/main"}, nil
		}
		return []string{"merge", "main", "other"}, []string{"heads/main"}, nil
	case "prune", "gc":
		if err := run("commit", "main", f1, "first", "-p", "id", "-n", "1"); err != nil {
			return nil, nil, err
		}
		// dead history: a fork with arms of different lengths (p <- a ; p <- b <- c <- d), a dead
		// chain of its own, so that the deletion order of unreachable commits matters
		steps := [][]string{
			{"commit", "dead", f2, "p", "-p", "id", "-n", "1"},
			{"branch", "create", "deadb", "dead"},
			{"commit", "dead", f3, "a", "-p", "id", "-n", "1"},
			{"commit", "deadb", f1, "b", "-p", "id", "-n", "1"},
			{"commit", "deadb", f2, "c", "-p", "id", "-n", "1"},
			{"commit", "deadb", f3, "d", "-p", "id", "-n", "1"},
			{"commit", "dead2", f3, "e1", "-p", "id", "-n", "1"},
			{"commit", "dead2", f2, "e2", "-p", "id", "-n", "1"},
			{"branch", "delete", "dead"},
			{"branch", "delete", "deadb"},
			{"branch", "delete", "dead2"},
		}
		for _, st := range steps {
			if err := run(st...); err != nil {
				return nil, nil, err
			}
		}
		return []string{sc.Kind}, nil, nil
	}
	return nil, nil, fmt.Errorf("unknown kind %q", sc.Kind)
}

// servers started for fetch / pull scenarios; closed when the scenario ends
var openServers []*refserver.Server

// prepareRemote builds a reference server holding main = 1 <- 2 <- 3 (+ a tag) and a client that
// has commit 1 on its own main, then returns the fetch / pull command.
func prepareRemote(r *cli.Repo, sc *Scenario) (args []string, strict []string, err error) {
	par := map[int][]int{1: {}, 2: {1}, 3: {2}}
	rows := sc.Rows
	if rows == 0 {
		rows = 300
	}
	u, err := syncx.BuildUniverse(par, rows)
	if err != nil {
		return nil, nil, err
	}
	sdb := tbl.NewSafeStore()
	srs, _, err := refs.NewMemStore()
	if err != nil {
		return nil, nil, err
	}
	for c := 1; c <= 3; c++ {
		if err := u.Give(sdb, c, true); err != nil {
			return nil, nil, err
		}
	}
	if err := ref.SaveRef(srs, "heads/main", u.Sum[3], "s", "s@example.invalid", "setup", "setup", nil); err != nil {
		return nil, nil, err
	}
	if err := srs.Set("tags/v1", u.Sum[2]); err != nil {
		return nil, nil, err
	}
	srv := refserver.New(sdb, srs, 0)
	openServers = append(openServers, srv)
	cfg := fmt.Sprintf("user:\n  email: verif@example.invalid\n  name: Verif\nremote:\n  origin:\n    url: %s\n    fetch:\n      - +refs/heads/*:refs/remotes/origin/*\nbranch:\n  main:\n    remote: origin\n    merge: refs/heads/main\n", srv.URL())
	if err := os.WriteFile(filepath.Join(r.WrglDir, "config.yaml"), []byte(cfg), 0644); err != nil {
		return nil, nil, err
	}
	db, rs, closeFn, err := r.Open()
	if err != nil {
		return nil, nil, err
	}
	defer closeFn()
	if err := u.Give(db, 1, true); err != nil {
		return nil, nil, err
	}
	if err := ref.SaveRef(rs, "heads/main", u.Sum[1], "c", "c@example.invalid", "setup", "setup", nil); err != nil {
		return nil, nil, err
	}
	if sc.Kind == "fetch" {
		return []string{"fetch", "origin"}, nil, nil
	}
	return []string{"pull", "main"}, []string{"heads/main"}, nil
}

func kindOfKey(key []byte) (string, []byte) {
	s := string(key)
	for _, p := range []struct{ pre, kind string }{{"blkidx/", "blkidx"}, {"blk/", "block"}, {"tblidx/", "tblidx"}, {"tblsum/", "profile"}, {"tbl/", "table"}, {"com/", "commit"}} {
		if strings.HasPrefix(s, p.pre) {
			return p.kind, key[len(p.pre):]
		}
	}
	return "", nil
}

// traceRun records the write sequence of the operation through the hooks.
func traceRun(r *cli.Repo, sc *Scenario, args []string, strict []string) ([]interface{}, error) {
	x := &ids{m: map[string]int{}}
	before := &state{Op: "begin", Name: sc.Kind}
	db, rs, closeFn, err := r.Open()
	if err != nil {
		return nil, err
	}
	scan(db, rs, x, before, strict)
	closeFn()
	var mu sync.Mutex
	var events []interface{}
	pendingVal := map[string][]byte{}
	pendingTo := map[string]string{}
	refNow := map[string]int{}
	for _, rr := range before.Refs {
		refNow[rr[0].(string)] = rr[1].(int)
	}
	vhook.EventFn = func(name string, kv ...interface{}) {
		mu.Lock()
		defer mu.Unlock()
		switch name {
		case "ref.val":
			pendingVal[kv[1].(string)] = append([]byte{}, kv[3].([]byte)...)
		case "ref.to":
			pendingTo[kv[1].(string)] = kv[3].(string)
		}
	}
	vhook.WriteFn = func(store, op string, key []byte) {
		mu.Lock()
		defer mu.Unlock()
		switch store {
		case "obj":
			kind, sum := kindOfKey(key)
			if kind == "" {
				return
			}
			idk := kind
			if kind == "tblidx" || kind == "profile" {
				idk = "table"
			}
			events = append(events, map[string]interface{}{"op": "w", "kind": kind, "id": x.of(idk, sum), "del": op == "del"})
		case "ref":
			name := string(key)
			switch op {
			case "set", "setlog", "del", "rename", "copy":
				events = append(events, map[string]interface{}{"op": "refpending", "kind": op, "name": name})
			}
		}
	}
	out, runErr := r.Run(nil, args...)
	vhook.WriteFn, vhook.EventFn = nil, nil
	if runErr != nil {
		return nil, fmt.Errorf("wrgl %v: %v: %s", args, runErr, out)
	}
	// resolve ref writes (the value hooks fire right after the write hook of the same call)
	resolved := []interface{}{}
	for _, e := range events {
		m := e.(map[string]interface{})
		if m["op"] != "refpending" {
			resolved = append(resolved, e)
			continue
		}
		name := m["name"].(string)
		switch m["kind"] {
		case "set", "setlog":
			v := x.of("commit", pendingVal[name])
			refNow[name] = v
			resolved = append(resolved, map[string]interface{}{"op": "ref", "name": name, "val": v, "del": false})
		case "del":
			delete(refNow, name)
			resolved = append(resolved, map[string]interface{}{"op": "ref", "name": name, "val": 0, "del": true})
		case "rename":
			to := pendingTo[name]
			v := refNow[name]
			delete(refNow, name)
			refNow[to] = v
			resolved = append(resolved, map[string]interface{}{"op": "ref", "name": to, "val": v, "del": false})
			resolved = append(resolved, map[string]interface{}{"op": "ref", "name": name, "val": 0, "del": true})
		case "copy":
			// hook key is the destination, pendingTo is keyed by the source
			for src, dst := range pendingTo {
				if dst == name {
					refNow[name] = refNow[src]
				}
			}
			resolved = append(resolved, map[string]interface{}{"op": "ref", "name": name, "val": refNow[name], "del": false})
		}
	}
	after := &state{}
	db, rs, closeFn, err = r.Open()
	if err != nil {
		return nil, err
	}
	scan(db, rs, x, after, strict)
	closeFn()
	mergeMeta(after, before)
	// refs values must be commits known to meta
	knownC := map[int]bool{}
	for _, c := range before.Commits {
		knownC[c[0].(int)] = true
	}
	for _, e := range resolved {
		m := e.(map[string]interface{})
		if m["op"] == "ref" && !m["del"].(bool) {
			if v := m["val"].(int); !knownC[v] {
				knownC[v] = true
				before.Commits = append(before.Commits, []interface{}{v, 0, []int{}})
			}
		}
	}
	// table ids introduced by placeholder commits
	knownT := map[int]bool{}
	for _, t := range before.Tables {
		knownT[t[0].(int)] = true
	}
	for _, c := range before.Commits {
		if tid := c[1].(int); !knownT[tid] {
			knownT[tid] = true
			before.Tables = append(before.Tables, []interface{}{tid, []int{}, []int{}})
		}
	}
	all := []interface{}{before}
	all = append(all, resolved...)
	all = append(all, map[string]interface{}{"op": "end"})
	return all, nil
}

// projection of the end result compared between the uninterrupted run and a re-run:
// every ref -> the table sums along its first-parent history (commit times differ).
func endProjection(r *cli.Repo) (string, error) {
	return endProjectionOf(r, false)
}

// withObjects: also the number of stored objects of every kind - what prune / gc are about: the re-run of an
// interrupted prune must remove what the uninterrupted prune removes (C12 holds for the completed operation)
func endProjectionOf(r *cli.Repo, withObjects bool) (string, error) {
	db, rs, closeFn, err := r.Open()
	if err != nil {
		return "", err
	}
	defer closeFn()
	m, err := ref.ListAllRefs(rs)
	if err != nil {
		return "", err
	}
	names := []string{}
	for n := range m {
		if strings.HasSuffix(n, "-tmp") {
			continue
		}
		names = append(names, n)
	}
	sort.Strings(names)
	var sb strings.Builder
	for _, n := range names {
		sb.WriteString(n + ":")
		var walk func(sum []byte, depth int) string
		walk = func(sum []byte, depth int) string {
			c, err := objects.GetCommit(db, sum)
			if err != nil {
				return "?"
			}
			s := hex.EncodeToString(c.Table)[:8]
			ps := []string{}
			for _, p := range c.Parents {
				ps = append(ps, walk(p, depth+1))
			}
			if len(ps) > 0 {
				s += "(" + strings.Join(ps, ",") + ")"
			}
			return s
		}
		sb.WriteString(walk(m[n], 0) + ";")
	}
	if withObjects {
		for _, e := range []struct {
			name string
			list func(objects.Store) ([][]byte, error)
		}{{"commits", objects.GetAllCommitKeys}, {"tables", objects.GetAllTableKeys}, {"blocks", objects.GetAllBlockKeys}} {
			// (a table index or profile whose table went first is not among what C12 requires to be gone: prune killed
			// between DeleteTable and DeleteTableIndex leaves those two small objects behind for good - noted, not judged)
			keys, err := e.list(db)
			if err != nil {
				return "", err
			}
			sb.WriteString(fmt.Sprintf(" %s=%d", e.name, len(keys)))
		}
	}
	return sb.String(), nil
}

func copyDir(src, dst string) error {
	return exec.Command("cp", "-r", src, dst).Run()
}

// killRun kills the real binary at every write of the operation.
func killRun(r *cli.Repo, sc *Scenario, args []string, strict []string, work string) ([]interface{}, error) {
	bin := os.Getenv("VERIF_WRGL_BIN")
	if bin == "" {
		return nil, fmt.Errorf("VERIF_WRGL_BIN not set")
	}
	runBin := func(dir string, crashAt int) (int, string) {
		c := exec.Command(bin, append(args, "--wrgl-dir", filepath.Join(dir, ".wrgl"))...)
		c.Dir = dir
		c.Env = append(os.Environ(), fmt.Sprintf("VERIF_CRASH_AT=%d", crashAt))
		out, err := c.CombinedOutput()
		if err == nil {
			return 0, string(out)
		}
		if ee, ok := err.(*exec.ExitError); ok {
			return ee.ExitCode(), string(out)
		}
		return -1, err.Error()
	}
	// uninterrupted reference
	refDir := filepath.Join(work, "ref")
	if err := copyDir(r.Root, refDir); err != nil {
		return nil, err
	}
	if code, out := runBin(refDir, 0); code != 0 {
		return nil, fmt.Errorf("uninterrupted run failed (%d): %s", code, out)
	}
	sweeps := sc.Kind == "prune" || sc.Kind == "gc"
	want, err := endProjectionOf(&cli.Repo{Root: refDir, WrglDir: filepath.Join(refDir, ".wrgl")}, sweeps)
	if err != nil {
		return nil, err
	}
	var events []interface{}
	for n := 1; n < 400; n++ {
		dir := filepath.Join(work, fmt.Sprintf("k%d", n))
		if err := copyDir(r.Root, dir); err != nil {
			return nil, err
		}
		code, out := runBin(dir, n)
		if code == 0 {
			os.RemoveAll(dir)
			break // the operation has fewer than n writes
		}
		if code != 137 {
			return nil, fmt.Errorf("kill run n=%d ended with %d: %s", n, code, out)
		}
		rr := &cli.Repo{Root: dir, WrglDir: filepath.Join(dir, ".wrgl")}
		x := &ids{m: map[string]int{}}
		st := &state{Op: "state", Name: fmt.Sprintf("%s killed at write %d", sc.Kind, n)}
		db, rs, closeFn, err := rr.Open()
		if err != nil {
			events = append(events, map[string]interface{}{"op": "rerun", "ok": false, "same": false, "n": n, "note": "cannot reopen: " + err.Error()})
			os.RemoveAll(dir)
			continue
		}
		scan(db, rs, x, st, strict)
		closeFn()
		events = append(events, st)
		code, out = runBin(dir, 0)
		got := ""
		if code == 0 {
			got, _ = endProjectionOf(rr, sweeps)
		}
		note := ""
		if code != 0 {
			note = out
			if len(note) > 300 {
				note = note[len(note)-300:]
			}
		} else if got != want {
			note = "want " + want + " got " + got
		}
		events = append(events, map[string]interface{}{"op": "rerun", "ok": code == 0, "same": got == want, "n": n, "note": note})
		if code == 0 {
			// the repository the re-run leaves behind must be consistent too (e.g. nothing
			// half-written by the killed run may be trusted as complete)
			x2 := &ids{m: map[string]int{}}
			st2 := &state{Op: "state", Name: fmt.Sprintf("%s re-run after kill at write %d", sc.Kind, n)}
			if db2, rs2, close2, err := rr.Open(); err == nil {
				scan(db2, rs2, x2, st2, strict)
				close2()
				events = append(events, st2)
			}
		}
		os.RemoveAll(dir)
	}
	os.RemoveAll(refDir)
	return events, nil
}

// faultRun ingests a multi-block table once per store write k with that write failing: the
// call must report an error, and what is left in the store must be consistent.
func faultRun(sc *Scenario) []interface{} {
	rng := rand.New(rand.NewSource(sc.Seed*17 + int64(sc.Idx)))
	n := sc.Rows
	if n == 0 {
		n = 600
	}
	csvBytes := csvRows(rng, n, "f")
	var events []interface{}
	for k := 1; k < 200; k++ {
		db := tbl.NewSafeStore()
		cnt, hit := 0, false
		db.Fail = func(key []byte) error {
			cnt++
			if cnt == k {
				hit = true
				return fmt.Errorf("injected failure of write %d", k)
			}
			return nil
		}
		_, err := tbl.Ingest(db, csvBytes, []string{"id"}, tbl.IngestOpts{Workers: 1 + (k%2)*5})
		if !hit {
			break // the operation has fewer than k writes
		}
		rs, sqldb, rerr := refs.NewMemStore()
		if rerr != nil {
			continue
		}
		st := &state{Op: "state", Name: fmt.Sprintf("ingest-fault write %d failed", k)}
		scan(db, rs, &ids{m: map[string]int{}}, st, nil)
		sqldb.Close()
		events = append(events, st)
		events = append(events, map[string]interface{}{"op": "fault", "n": k, "reported": err != nil})
	}
	return events
}

// Replay is the child handler of engine "crash".
func Replay(i int, raw []byte) child.Result {
	var sc Scenario
	if err := json.Unmarshal(raw, &sc); err != nil {
		return child.Inconclusive(err)
	}
	if sc.Kind == "ingest-fault" {
		child.EmitBatch("crash", faultRun(&sc))
		return child.Pass(sc.Kind + "/fault")
	}
	work, err := os.MkdirTemp("", "crash")
	if err != nil {
		return child.Inconclusive(err)
	}
	defer os.RemoveAll(work)
	r, err := cli.NewRepo(work, "repo")
	if err != nil {
		return child.Inconclusive(err)
	}
	args, strict, err := prepare(r, &sc)
	defer func() {
		for _, s := range openServers {
			s.Close()
		}
		openServers = nil
	}()
	if err != nil {
		return child.Inconclusive(err)
	}
	var events []interface{}
	if sc.Mode == "kill" {
		events, err = killRun(r, &sc, args, strict, work)
	} else {
		events, err = traceRun(r, &sc, args, strict)
	}
	if err != nil {
		return child.Inconclusive(err)
	}
	child.EmitBatch("crash", events)
	return child.Pass(sc.Kind + "/" + sc.Mode)
}

// ScanState projects a repository directory as a "state" event for TraceCrash.tla
// (used by the system engine after every command).
func ScanState(r *cli.Repo, name string) (interface{}, error) {
	db, rs, closeFn, err := r.Open()
	if err != nil {
		return nil, err
	}
	defer closeFn()
	st := &state{Op: "state", Name: name}
	scan(db, rs, &ids{m: map[string]int{}}, st, nil)
	return st, nil
}
