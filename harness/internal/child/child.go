// Package child implements the scenario-replay child protocol between the
// python driver (bin/check) and the Go harness.
//
// The driver starts `wconf replay <engine> --in <file> --shard k/n [--after i]`.
// The child processes every line i of <file> (0-based) with i % n == k and
// i > after, and reports on stdout, one line each, flushed immediately:
//
//	B <i>                 scenario i started
//	K <i> <class>         scenario i behaved as the specification says; class is a
//	                      short label used to count distinct non-trivial scenarios
//	                      ("-" = trivial)
//	F <i> <json>          the real code deviated: {"sig":..., "detail":...}
//	T <i>                 watchdog: scenario i exceeded the per-scenario timeout
//	E <i> <text>          harness error (inconclusive, never a violation)
//
// A child that dies between B and K/F lets the driver attribute the crash to
// scenario i and restart after it.
package child

import (
	"bufio"
	"bytes"
	"encoding/json"
	"flag"
	"fmt"
	"os"
	"runtime"
	"strconv"
	"strings"
	"sync"
	"sync/atomic"
	"time"
)

type Result struct {
	OK     bool        // real code agreed with the specification
	Class  string      // label for distinct/non-trivial counting ("-" or "" = trivial)
	Sig    string      // violation signature engine/action/kind/feature
	Detail interface{} // expected/observed
	Err    error       // harness problem: inconclusive
}

func Fail(sig string, detail interface{}) Result { return Result{Sig: sig, Detail: detail} }
func Pass(class string) Result                   { return Result{OK: true, Class: class} }
func Inconclusive(err error) Result              { return Result{Err: err} }

type Handler func(i int, raw []byte) Result

var (
	outMu sync.Mutex
	outW  *bufio.Writer
	SeedV int64 = 1
)

// Emit sends a side-channel JSON document to the driver ("O <json>" line), e.g. a
// table observation that a trace specification validates later.
func Emit(doc interface{}) {
	b, err := json.Marshal(doc)
	if err != nil {
		return
	}
	outMu.Lock()
	defer outMu.Unlock()
	if outW != nil {
		fmt.Fprintf(outW, "O %s\n", b)
	}
}

// EmitBatch sends a group of documents of one kind that must stay contiguous in the
// trace the driver assembles ("O {kind, docs}").
func EmitBatch(kind string, docs []interface{}) {
	if len(docs) == 0 {
		return
	}
	Emit(map[string]interface{}{"kind": kind, "docs": docs})
}

var stackBuf = make([]byte, 1<<20)

func panicking() bool {
	n := runtime.Stack(stackBuf, true)
	return bytes.Contains(stackBuf[:n], []byte("runtime.gopanic")) || bytes.Contains(stackBuf[:n], []byte("\npanic("))
}

// Run parses the common flags from args and feeds scenarios to h.
func Run(args []string, h Handler) {
	fs := flag.NewFlagSet("replay", flag.ExitOnError)
	in := fs.String("in", "", "scenario file (NDJSON)")
	shard := fs.String("shard", "0/1", "k/n")
	after := fs.Int("after", -1, "skip scenarios with index <= after")
	only := fs.Int("only", -1, "run only this scenario index")
	timeout := fs.Duration("timeout", 30*time.Second, "per-scenario watchdog")
	seed := fs.Int64("seed", 1, "seed for any random choice of the engine")
	fs.Parse(args)
	SeedV = *seed
	k, n := 0, 1
	if p := strings.SplitN(*shard, "/", 2); len(p) == 2 {
		k, _ = strconv.Atoi(p[0])
		n, _ = strconv.Atoi(p[1])
	}
	f, err := os.Open(*in)
	if err != nil {
		fmt.Fprintln(os.Stderr, "cannot open scenarios:", err)
		os.Exit(2)
	}
	defer f.Close()
	out := bufio.NewWriterSize(os.Stdout, 1<<16)
	defer out.Flush()
	outW = out
	var cur int64 = -1
	var beat int64
	go func() {
		last, lastBeat, since := int64(-1), int64(-1), time.Now()
		for {
			time.Sleep(200 * time.Millisecond)
			c, b := atomic.LoadInt64(&cur), atomic.LoadInt64(&beat)
			if c != last || b != lastBeat {
				last, lastBeat, since = c, b, time.Now()
				continue
			}
			if c >= 0 && time.Since(since) > *timeout {
				fmt.Fprintf(os.Stdout, "\nT %d\n", c)
				os.Exit(3)
			}
		}
	}()
	sc := bufio.NewScanner(f)
	sc.Buffer(make([]byte, 1<<20), 1<<28)
	i := -1
	for sc.Scan() {
		i++
		if i%n != k || i <= *after || (*only >= 0 && i != *only) {
			continue
		}
		line := sc.Bytes()
		if len(line) == 0 {
			continue
		}
		outMu.Lock()
		fmt.Fprintf(out, "B %d\n", i)
		out.Flush()
		outMu.Unlock()
		atomic.StoreInt64(&cur, int64(i))
		atomic.AddInt64(&beat, 1)
		r := h(i, line)
		// A library goroutine that panics first runs its deferred close(channel), which
		// lets the handler finish normally a moment before the runtime kills the process.
		// If any goroutine is unwinding a panic, wait for the death here so that it is
		// attributed to THIS scenario (the watchdog is the fallback).
		if panicking() {
			time.Sleep(*timeout + time.Second)
		}
		atomic.StoreInt64(&cur, -1)
		outMu.Lock()
		switch {
		case r.Err != nil:
			fmt.Fprintf(out, "E %d %s\n", i, strings.ReplaceAll(r.Err.Error(), "\n", " "))
		case r.OK:
			c := r.Class
			if c == "" {
				c = "-"
			}
			fmt.Fprintf(out, "K %d %s\n", i, c)
		default:
			b, _ := json.Marshal(map[string]interface{}{"sig": r.Sig, "detail": r.Detail})
			fmt.Fprintf(out, "F %d %s\n", i, b)
		}
		out.Flush()
		outMu.Unlock()
	}
	if err := sc.Err(); err != nil {
		fmt.Fprintln(os.Stderr, "scan:", err)
		os.Exit(2)
	}
}
