package graph

import (
	"bufio"
	"encoding/json"
	"flag"
	"fmt"
	"math/rand"
	"os"
)

// Event is one NDJSON line of a graph trace.  Every field is always present so
// that TraceGraph.tla can refer to it unconditionally.
//
//	reset                      a new, empty history
//	commit  c, ps, t           commit number c created with parents ps (order kept) and time t
//	isanc   a, b, ok           real ref.IsAncestorOf(a, b) answered ok
//	walk    from, seq, err     real CommitsQueue walk from the commits `from` visited seq (-1 = unknown sum)
//	seek    tuple, res, err    real ref.SeekCommonAncestor(tuple...) answered commit res (0 = error, text in err)
type Event struct {
	Op    string `json:"op"`
	C     int    `json:"c"`
	Ps    []int  `json:"ps"`
	T     int    `json:"t"`
	A     int    `json:"a"`
	B     int    `json:"b"`
	Ok    bool   `json:"ok"`
	From  []int  `json:"from"`
	Seq   []int  `json:"seq"`
	Tuple []int  `json:"tuple"`
	Res   int    `json:"res"`
	Err   string `json:"err"`
}

func newEvent(op string) *Event {
	return &Event{Op: op, Ps: []int{}, From: []int{}, Seq: []int{}, Tuple: []int{}}
}

func evIsAnc(h *History, a, b int) (*Event, error) {
	ok, err := h.IsAnc(a, b)
	e := newEvent("isanc")
	e.A, e.B, e.Ok = a, b, ok
	if err != nil {
		e.Err = err.Error()
	}
	return e, nil
}

func evWalk(h *History, from []int) (*Event, error) {
	seq, exceeded, err := h.Walk(from, walkLimit(h.N()))
	e := newEvent("walk")
	e.From = append(e.From, from...)
	if seq != nil {
		e.Seq = seq
	}
	if err != nil {
		e.Err = err.Error()
	} else if exceeded {
		e.Err = "walk did not end within the pop limit"
	}
	return e, nil
}

func evSeek(h *History, tuple []int) (*Event, error) {
	res, errText, herr := h.Seek(tuple)
	if herr != nil {
		return nil, herr
	}
	e := newEvent("seek")
	e.Tuple = append(e.Tuple, tuple...)
	e.Res, e.Err = res, errText
	return e, nil
}

// Record builds seeded random histories (20-60 commits, merges, octopus merges,
// several roots; increasing, equal, reversed, random and skewed clocks), puts
// seeded queries to the real code and writes commits and answers as a trace.
func Record(args []string) error {
	fs := flag.NewFlagSet("record graph", flag.ExitOnError)
	seed := fs.Int64("seed", 1, "seed")
	n := fs.Int("n", 20, "number of traces (histories)")
	queries := fs.Int("len", 120, "queries per history")
	out := fs.String("out", "", "output trace file")
	reexec := fs.String("reexec", "", "re-execute the commits and queries of this recorded trace on the current code")
	fs.Parse(args)
	f, err := os.Create(*out)
	if err != nil {
		return err
	}
	defer f.Close()
	w := bufio.NewWriterSize(f, 1<<16)
	defer w.Flush()
	emit := func(e *Event) error {
		b, err := json.Marshal(e)
		if err != nil {
			return err
		}
		w.Write(b)
		return w.WriteByte('\n')
	}
	if *reexec != "" {
		return reexecute(*reexec, emit)
	}
	rng := rand.New(rand.NewSource(*seed))
	for tr := 0; tr < *n; tr++ {
		if err := emit(newEvent("reset")); err != nil {
			return err
		}
		h := NewHistory()
		N := 20 + rng.Intn(41)
		clock := tr % 6
		base := 1000
		times := make([]int, N+1)
		for c := 1; c <= N; c++ {
			// parents
			k := 0
			switch r := rng.Intn(100); {
			case c == 1 || r < 6:
				k = 0
			case r < 58:
				k = 1
			case r < 93:
				k = 2
			default:
				k = 3
			}
			ps := []int{}
			for len(ps) < k && len(ps) < c-1 {
				var p int
				if rng.Intn(100) < 70 {
					lo := c - 6
					if lo < 1 {
						lo = 1
					}
					p = lo + rng.Intn(c-lo)
				} else {
					p = 1 + rng.Intn(c-1)
				}
				if !contains(ps, p) {
					ps = append(ps, p)
				}
			}
			// time
			var t int
			switch clock {
			case 0: // strictly increasing with creation
				t = base + 2*c + rng.Intn(2)
			case 1: // all equal
				t = base
			case 2: // reversed: later commits are older
				t = base + 3*N - 2*c - rng.Intn(2)
			case 3: // random in a small range: many ties, many inversions
				t = base + rng.Intn(4)
			case 4: // random in a wide range
				t = base + rng.Intn(5*N)
			default: // mostly increasing, one commit in five far off
				t = base + 100 + 2*c
				if rng.Intn(5) == 0 {
					t += rng.Intn(201) - 100
				}
			}
			times[c] = t
			if _, err := h.Add(ps, t); err != nil {
				return err
			}
			e := newEvent("commit")
			e.C, e.Ps, e.T = c, ps, t
			if err := emit(e); err != nil {
				return err
			}
		}
		pick := func() int {
			if rng.Intn(100) < 55 {
				lo := N - 9
				if lo < 1 {
					lo = 1
				}
				return lo + rng.Intn(N-lo+1)
			}
			return 1 + rng.Intn(N)
		}
		for q := 0; q < *queries; q++ {
			var e *Event
			var err error
			switch r := rng.Intn(100); {
			case r < 35:
				a, b := 1+rng.Intn(N), pick()
				if rng.Intn(4) == 0 {
					a, b = b, a
				}
				e, err = evIsAnc(h, a, b)
			case r < 45:
				from := []int{pick()}
				for rng.Intn(3) == 0 && len(from) < 3 {
					from = append(from, pick())
				}
				e, err = evWalk(h, from)
			default:
				k := 2
				if r2 := rng.Intn(10); r2 >= 8 {
					k = 4
				} else if r2 >= 5 {
					k = 3
				}
				tuple := make([]int, k)
				for j := range tuple {
					tuple[j] = pick()
				}
				e, err = evSeek(h, tuple)
			}
			if err != nil {
				return err
			}
			if err := emit(e); err != nil {
				return err
			}
		}
	}
	return nil
}

// reexecute rebuilds the histories of a recorded trace and puts the same
// queries to the current code, writing the answers it gives now.
func reexecute(path string, emit func(*Event) error) error {
	f, err := os.Open(path)
	if err != nil {
		return err
	}
	defer f.Close()
	sc := bufio.NewScanner(f)
	sc.Buffer(make([]byte, 1<<20), 1<<26)
	h := NewHistory()
	for sc.Scan() {
		if len(sc.Bytes()) == 0 {
			continue
		}
		var e Event
		if err := json.Unmarshal(sc.Bytes(), &e); err != nil {
			return err
		}
		var o *Event
		switch e.Op {
		case "reset":
			h = NewHistory()
			o = newEvent("reset")
		case "commit":
			c, err := h.Add(e.Ps, e.T)
			if err != nil {
				return err
			}
			if c != e.C {
				return fmt.Errorf("commit event numbered %d is commit %d of its history", e.C, c)
			}
			o = newEvent("commit")
			o.C, o.T = c, e.T
			o.Ps = append(o.Ps, e.Ps...)
		case "isanc":
			o, err = evIsAnc(h, e.A, e.B)
		case "walk":
			o, err = evWalk(h, e.From)
		case "seek":
			o, err = evSeek(h, e.Tuple)
		default:
			return fmt.Errorf("unknown event %q", e.Op)
		}
		if err != nil {
			return err
		}
		if err := emit(o); err != nil {
			return err
		}
	}
	return sc.Err()
}
