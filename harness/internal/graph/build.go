// Package graph binds spec/Graph.tla to the real commit-graph code of wrgl:
// ref.IsAncestorOf, ref.CommitsQueue (PopInsertParents walks) and
// ref.SeekCommonAncestor, executed on real commit objects in an in-memory
// object store.  The package only builds histories, runs the real functions
// and projects their results to abstract commit numbers; what the results must
// be is computed by TLC (scenario lines of GraphGen.tla) or decided by TLC
// (TraceGraph.tla).
package graph

import (
	"bytes"
	"errors"
	"fmt"
	"io"
	"time"

	"github.com/wrgl/wrgl/pkg/objects"
	objmock "github.com/wrgl/wrgl/pkg/objects/mock"
	"github.com/wrgl/wrgl/pkg/ref"
)

// epoch is the second that abstract time 0 maps to; abstract time t is epoch+t
// seconds (commit times are stored with one-second resolution).
const epoch = 1600000000

var tableSum = bytes.Repeat([]byte{0x5a}, 16)

// History is a set of real commits numbered 1..N in creation order.
type History struct {
	DB   objects.Store
	Sums [][]byte       // Sums[c-1] is the sum of abstract commit c
	ids  map[string]int // sum -> abstract commit
	// InsertSeeded: walks start from an empty queue fed through Insert (every start twice) and are offered
	// visited commits again while they run; the statement is the same: every ancestor exactly once
	InsertSeeded bool
}

func NewHistory() *History {
	return &History{DB: objmock.NewStore(), ids: map[string]int{}}
}

func (h *History) N() int { return len(h.Sums) }

// Add creates the next commit (number N+1) with the given parents (abstract
// numbers, order kept) and abstract time, and returns its number.
func (h *History) Add(parents []int, t int) (int, error) {
	c := len(h.Sums) + 1
	com := &objects.Commit{
		Table:       tableSum,
		AuthorName:  "verif",
		AuthorEmail: "verif@example.invalid",
		Time:        time.Unix(epoch+int64(t), 0).UTC(),
		Message:     fmt.Sprintf("commit %d", c), // distinct message => distinct sum even at equal times
	}
	for _, p := range parents {
		if p < 1 || p >= c {
			return 0, fmt.Errorf("commit %d: parent %d does not exist yet", c, p)
		}
		com.Parents = append(com.Parents, h.Sums[p-1])
	}
	buf := bytes.NewBuffer(nil)
	if _, err := com.WriteTo(buf); err != nil {
		return 0, err
	}
	sum, err := objects.SaveCommit(h.DB, buf.Bytes())
	if err != nil {
		return 0, err
	}
	if _, dup := h.ids[string(sum)]; dup {
		return 0, fmt.Errorf("commit %d: sum collides with an earlier commit", c)
	}
	h.Sums = append(h.Sums, sum)
	h.ids[string(sum)] = c
	return c, nil
}

// ID projects a real sum to its abstract commit number; -1 = not a commit of
// this history, 0 = nil.
func (h *History) ID(sum []byte) int {
	if sum == nil {
		return 0
	}
	if c, ok := h.ids[string(sum)]; ok {
		return c
	}
	return -1
}

func (h *History) sum(c int) ([]byte, error) {
	if c < 1 || c > len(h.Sums) {
		return nil, fmt.Errorf("no commit %d", c)
	}
	return h.Sums[c-1], nil
}

// IsAnc runs the real ref.IsAncestorOf(a, b): "a is an ancestor of b".
func (h *History) IsAnc(a, b int) (bool, error) {
	sa, err := h.sum(a)
	if err != nil {
		return false, err
	}
	sb, err := h.sum(b)
	if err != nil {
		return false, err
	}
	return ref.IsAncestorOf(h.DB, sa, sb)
}

// Walk runs a real history walk: a CommitsQueue started at `from`, popped with
// PopInsertParents until io.EOF.  It returns the visited commits in order.
// limit bounds the number of pops (a walk that exceeds it is reported as such,
// it is not a time measurement).
func (h *History) Walk(from []int, limit int) (seq []int, exceeded bool, err error) {
	sums := make([][]byte, 0, len(from))
	for _, c := range from {
		s, err := h.sum(c)
		if err != nil {
			return nil, false, err
		}
		sums = append(sums, s)
	}
	var q *ref.CommitsQueue
	if h.InsertSeeded {
		// the way pkg/prune starts its walk: an empty queue and one Insert per ref - two refs may name one commit
		if q, err = ref.NewCommitsQueue(h.DB, nil); err != nil {
			return nil, false, err
		}
		for _, s := range append(append([][]byte{}, sums...), sums...) {
			if err = q.Insert(s); err != nil {
				return nil, false, err
			}
		}
	} else if q, err = ref.NewCommitsQueue(h.DB, sums); err != nil {
		return nil, false, err
	}
	seq = []int{}
	for {
		sum, _, err := q.PopInsertParents()
		if errors.Is(err, io.EOF) {
			return seq, false, nil
		}
		if err != nil {
			return seq, false, err
		}
		if h.InsertSeeded && len(seq)%3 == 0 {
			// a commit the walk has visited is offered again (another ref is found to name it)
			if err = q.Insert(sum); err != nil {
				return seq, false, err
			}
		}
		seq = append(seq, h.ID(sum))
		if len(seq) > limit {
			return seq, true, nil
		}
	}
}

// Seek runs the real ref.SeekCommonAncestor on the tuple; res = 0 when the
// real code reports an error (text in errText).
func (h *History) Seek(tuple []int) (res int, errText string, herr error) {
	sums := make([][]byte, 0, len(tuple))
	for _, c := range tuple {
		s, err := h.sum(c)
		if err != nil {
			return 0, "", err
		}
		sums = append(sums, s)
	}
	b, err := ref.SeekCommonAncestor(h.DB, sums...)
	if err != nil {
		return 0, err.Error(), nil
	}
	if b == nil {
		return -1, "", nil // neither a commit nor an error
	}
	return h.ID(b), "", nil
}

func walkLimit(n int) int { return 64*n + 1024 }
