package graph

import (
	"encoding/json"
	"fmt"
	"sort"

	"verifharness/internal/child"
)

// Scenario is one SCN line of spec/GraphGen.tla (see Export there).
type Scenario struct {
	P    [][]int           `json:"p"`   // parents per commit, order kept
	T    []int             `json:"t"`   // abstract time per commit
	Clk  string            `json:"clk"` // clock class of the history (mono/tie/skew/none), computed by TLC; a label only
	Anc  [][]int           `json:"anc"` // ancestor set per commit, computed by TLC
	B    [][3][]int        `json:"b"`   // [S, AllowedBases(S), CommonAnc(S)] per set of inputs, computed by TLC
	WC   bool              `json:"wc"`  // dev was computed (WithCoded)
	Dev  []json.RawMessage `json:"dev"` // [tuple, answer] where the transcription SeekAsCoded leaves the contract
	Only *Focus            `json:"only,omitempty"`
}

// Focus restricts a replay to one query of the scenario (replay files).
type Focus struct {
	Op   string `json:"op"`
	Args []int  `json:"args"`
}

type Mismatch struct {
	Sig       string      `json:"sig"`
	Op        string      `json:"op"`
	Args      []int       `json:"args"`
	Expected  interface{} `json:"expected"`
	Observed  interface{} `json:"observed"`
	Predicted *bool       `json:"model_predicted,omitempty"` // seek only: SeekAsCoded gave the same answer
}

func mask(s []int) int {
	m := 0
	for _, c := range s {
		m |= 1 << uint(c)
	}
	return m
}

func contains(s []int, c int) bool {
	for _, x := range s {
		if x == c {
			return true
		}
	}
	return false
}

func shapeClass(p [][]int) string {
	maxPar, roots, edges := 0, 0, 0
	for _, ps := range p {
		if len(ps) == 0 {
			roots++
		}
		if len(ps) > maxPar {
			maxPar = len(ps)
		}
		edges += len(ps)
	}
	if edges == 0 {
		return ""
	}
	s := "tree"
	if maxPar == 2 {
		s = "merge"
	} else if maxPar > 2 {
		s = "octopus"
	}
	if roots > 1 {
		return s + "/roots=2+"
	}
	return s + "/roots=1"
}

func heads(tuple []int) string {
	seen := map[int]bool{}
	for _, c := range tuple {
		seen[c] = true
	}
	switch len(seen) {
	case 1:
		return "heads=1"
	case 2:
		return "heads=2"
	}
	return "heads=3+"
}

// seekKind names the way a merge-base answer misses the set TLC allows
// (same names as SeekKind in Graph.tla); "" = it does not miss.
func seekKind(res int, allowed, common []int) string {
	if res == 0 {
		if len(allowed) == 0 {
			return ""
		}
		return "missing-but-exists"
	}
	if contains(allowed, res) {
		return ""
	}
	switch {
	case res < 0:
		return "foreign"
	case len(common) == 0:
		return "found-but-none"
	case contains(common, res):
		return "not-input-base"
	}
	return "not-common-ancestor"
}

func distinct(t []int) bool {
	for i := range t {
		for j := 0; j < i; j++ {
			if t[i] == t[j] {
				return false
			}
		}
	}
	return true
}

// simpler: no repeated commit before repeated ones, then fewer inputs
func simpler(a, b []int) bool {
	if distinct(a) != distinct(b) {
		return distinct(a)
	}
	return len(a) < len(b)
}

func tupleKey(t []int) string { return fmt.Sprint(t) }

type collector struct {
	total    int
	bySig    map[string]int
	firstSig map[string]Mismatch
	order    []string
}

func (c *collector) add(m Mismatch) {
	c.total++
	if c.bySig == nil {
		c.bySig, c.firstSig = map[string]int{}, map[string]Mismatch{}
	}
	if cur, ok := c.bySig[m.Sig]; !ok || cur == 0 {
		c.firstSig[m.Sig] = m
		c.order = append(c.order, m.Sig)
	} else if w := c.firstSig[m.Sig]; simpler(m.Args, w.Args) {
		c.firstSig[m.Sig] = m // the witness kept per signature is the simplest query showing it
	}
	c.bySig[m.Sig]++
}

// Replay builds the scenario's history out of real commits and puts every
// ancestor query, every single-start walk and every merge-base query on tuples
// of 2..K commits (all orders, all repetitions) to the real code.
func Replay(i int, raw []byte) child.Result {
	var sc Scenario
	if err := json.Unmarshal(raw, &sc); err != nil {
		return child.Inconclusive(fmt.Errorf("scenario %d: %v", i, err))
	}
	n := len(sc.P)
	if n == 0 || len(sc.T) != n || len(sc.Anc) != n {
		return child.Inconclusive(fmt.Errorf("scenario %d: malformed (p/t/anc lengths)", i))
	}
	h := NewHistory()
	for c := 0; c < n; c++ {
		if _, err := h.Add(sc.P[c], sc.T[c]); err != nil {
			return child.Inconclusive(fmt.Errorf("scenario %d: %v", i, err))
		}
	}
	clock := sc.Clk
	if clock == "" {
		clock = "unknown"
	}
	var col collector
	want := func(op string, args ...int) bool {
		if sc.Only == nil {
			return true
		}
		if sc.Only.Op != op || len(sc.Only.Args) != len(args) {
			return false
		}
		for k := range args {
			if args[k] != sc.Only.Args[k] {
				return false
			}
		}
		return true
	}

	// ancestor queries: equality with the relation TLC exported
	for a := 1; a <= n; a++ {
		for b := 1; b <= n; b++ {
			if !want("isanc", a, b) {
				continue
			}
			exp := contains(sc.Anc[b-1], a)
			got, err := h.IsAnc(a, b)
			if err != nil {
				col.add(Mismatch{Sig: "graph/isanc/error/clock=" + clock, Op: "isanc", Args: []int{a, b}, Expected: exp, Observed: err.Error()})
			} else if got != exp {
				kind := "false-negative"
				if got {
					kind = "false-positive"
				}
				col.add(Mismatch{Sig: "graph/isanc/" + kind + "/clock=" + clock, Op: "isanc", Args: []int{a, b}, Expected: exp, Observed: got})
			}
		}
	}

	// walks: visited multiset = ancestor set, each once
	for c := 1; c <= n; c++ {
		if !want("walk", c) {
			continue
		}
		exp := sc.Anc[c-1]
		for mode := 0; mode < 2; mode++ {
			h.InsertSeeded = mode == 1
			seq, exceeded, err := h.Walk([]int{c}, walkLimit(n))
			h.InsertSeeded = false
			kind := ""
			switch {
			case err != nil:
				kind = "error"
			case exceeded:
				kind = "endless"
			default:
				count := map[int]int{}
				for _, v := range seq {
					count[v]++
				}
				for _, v := range seq {
					if !contains(exp, v) {
						kind = "foreign"
					}
				}
				if kind == "" {
					for _, v := range exp {
						if count[v] > 1 {
							kind = "duplicate"
						}
					}
				}
				if kind == "" {
					for _, v := range exp {
						if count[v] == 0 {
							kind = "missing"
						}
					}
				}
			}
			if kind != "" {
				obs := interface{}(seq)
				if err != nil {
					obs = err.Error()
				}
				if mode == 1 {
					kind += "/insert-seeded"
				}
				col.add(Mismatch{Sig: "graph/walk/" + kind + "/clock=" + clock, Op: "walk", Args: []int{c}, Expected: exp, Observed: obs})
			}
		}
	}

	// merge-base queries: membership in AllowedBases / error-ness
	allowed := map[int][2][]int{}
	K := 0
	for _, e := range sc.B {
		allowed[mask(e[0])] = [2][]int{e[1], e[2]}
		if len(e[0]) > K {
			K = len(e[0])
		}
	}
	dev := map[string]int{}
	for _, d := range sc.Dev {
		var pair []json.RawMessage
		var tp []int
		var r int
		if json.Unmarshal(d, &pair) != nil || len(pair) != 2 || json.Unmarshal(pair[0], &tp) != nil || json.Unmarshal(pair[1], &r) != nil {
			return child.Inconclusive(fmt.Errorf("scenario %d: malformed dev entry", i))
		}
		dev[tupleKey(tp)] = r
	}
	devSeen, devReproduced := 0, 0
	var runTuple func(tuple []int) error
	runTuple = func(tuple []int) error {
		e, ok := allowed[mask(tuple)]
		if !ok {
			return fmt.Errorf("no AllowedBases exported for the inputs %v", tuple)
		}
		res, errText, herr := h.Seek(tuple)
		if herr != nil {
			return herr
		}
		pred, isDev := dev[tupleKey(tuple)]
		if isDev {
			devSeen++
			if pred == res {
				devReproduced++
			}
		}
		if kind := seekKind(res, e[0], e[1]); kind != "" {
			obs := map[string]interface{}{"res": res}
			if errText != "" {
				obs["err"] = errText
			}
			m := Mismatch{Sig: "graph/seek/" + kind + "/" + heads(tuple), Op: "seek", Args: append([]int{}, tuple...),
				Expected: map[string]interface{}{"allowed": e[0], "common_ancestors": e[1]}, Observed: obs}
			if sc.WC && distinct(tuple) {
				// the generator evaluates the transcription on tuples of distinct commits only
				p := isDev && pred == res
				m.Predicted = &p
				if !p {
					// a recorded finding is the answer of the transcribed algorithm (SeekAsCoded), nothing else
					m.Sig += "/unlike-transcription"
				}
			}
			col.add(m)
		}
		return nil
	}
	if sc.Only != nil {
		if sc.Only.Op == "seek" {
			if err := runTuple(sc.Only.Args); err != nil {
				return child.Inconclusive(fmt.Errorf("scenario %d: %v", i, err))
			}
		}
	} else {
		tuple := make([]int, 0, K)
		var rec func(k int) error
		rec = func(k int) error {
			if len(tuple) >= 2 {
				if err := runTuple(tuple); err != nil {
					return err
				}
			}
			if len(tuple) == k {
				return nil
			}
			for c := 1; c <= n; c++ {
				tuple = append(tuple, c)
				if err := rec(k); err != nil {
					return err
				}
				tuple = tuple[:len(tuple)-1]
			}
			return nil
		}
		if err := rec(K); err != nil {
			return child.Inconclusive(fmt.Errorf("scenario %d: %v", i, err))
		}
	}

	shape := shapeClass(sc.P)
	cls := "-"
	if shape != "" {
		cls = "clock=" + clock + "/" + shape
	}
	if col.total > 0 {
		sigs := append([]string{}, col.order...)
		sort.Strings(sigs)
		firsts := make([]Mismatch, 0, len(sigs))
		for _, s := range sigs {
			firsts = append(firsts, col.firstSig[s])
		}
		return child.Fail(col.order[0], map[string]interface{}{
			"mismatches": firsts, "count_by_sig": col.bySig, "total": col.total,
			"model_dev_tuples": devSeen, "model_dev_reproduced": devReproduced, "class": cls,
		})
	}
	if shape == "" {
		return child.Pass("-")
	}
	if devSeen > devReproduced {
		cls += "/model-deviation-not-in-code"
	}
	return child.Pass(cls)
}
