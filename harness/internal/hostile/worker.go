package hostile

import (
	"bufio"
	"encoding/json"
	"fmt"
	"os"
	"runtime"
	"runtime/debug"
	"runtime/metrics"
	"sort"
	"strings"
)

// Proportionality rule (property C17, "never allocates memory out of proportion to the
// input size"): the bytes allocated on the heap during ONE call - cumulative, which bounds
// the peak from above - must not exceed ceilBase + ceilPerByte * len(input).
const (
	ceilBase    = 64 << 20
	ceilPerByte = 64
)

func ceiling(n int) uint64 { return ceilBase + ceilPerByte*uint64(n) }

type request struct {
	Op    string `json:"op"` // "call" | "resolve"
	Entry string `json:"e,omitempty"`
	B     []byte `json:"b,omitempty"`
	X     *env   `json:"x,omitempty"`
}

type panicInfo struct {
	Value   string `json:"panic"`
	Runtime bool   `json:"runtime_error"`
	IsError bool   `json:"is_error_value"`
	Class   string `json:"class"`
	Site    string `json:"site"`
	Stack   string `json:"stack"`
}

type response struct {
	Outcome string     `json:"outcome"` // "ok" | "err" | "panic" | "skip" | "harness" | "loop"
	Err     string     `json:"err,omitempty"`
	Panic   *panicInfo `json:"panic,omitempty"`
	Alloc   uint64     `json:"alloc"`
	Ceil    uint64     `json:"ceil"`
	Over    bool       `json:"over,omitempty"`    // Alloc > Ceil
	Pending int        `json:"pending,omitempty"` // id under which the allocation site will be resolved
	Tainted uint64     `json:"tainted,omitempty"` // bytes of out-of-proportion allocations in this worker's life
	Used    uint64     `json:"used,omitempty"`    // heap bytes allocated in this worker's life (none is ever freed)
	Stage   string     `json:"stage,omitempty"`
	Left    []string   `json:"left,omitempty"`
	Keys    []string   `json:"keys,omitempty"`
	Sites   []siteInfo `json:"sites,omitempty"` // resolve
}

type siteInfo struct {
	ID      int    `json:"id"`
	Site    string `json:"site"`
	Size    int64  `json:"size"`    // bytes per object of the matched profile record
	Objects int64  `json:"objects"` // objects of that record in this worker's life
	Stack   string `json:"stack"`
}

var allocSample = []metrics.Sample{{Name: "/gc/heap/allocs:bytes"}}

func heapAllocs() uint64 {
	metrics.Read(allocSample)
	return allocSample[0].Value.Uint64()
}

func classifyPanic(r interface{}) (class string, rt, isErr bool) {
	_, rt = r.(runtime.Error)
	_, isErr = r.(error)
	s := fmt.Sprint(r)
	switch {
	case !rt:
		class = "other"
	case strings.Contains(s, "index out of range"):
		class = "index"
	case strings.Contains(s, "slice bounds out of range"):
		class = "slice-bounds"
	case strings.Contains(s, "makeslice"):
		class = "makeslice"
	case strings.Contains(s, "nil pointer"):
		class = "nil-deref"
	case strings.Contains(s, "divide by zero"):
		class = "div-zero"
	default:
		class = "runtime-other"
	}
	return
}

// doCall runs one entry point on one input in this goroutine.
func doCall(en *entry, b []byte, x *env) (resp response) {
	var out callOut
	var err error
	resp.Ceil = ceiling(len(b))
	before := heapAllocs()
	func() {
		defer func() {
			if r := recover(); r != nil {
				class, rt, isErr := classifyPanic(r)
				st := string(debug.Stack())
				resp.Panic = &panicInfo{Value: fmt.Sprintf("%.300v", r), Runtime: rt, IsError: isErr, Class: class,
					Site: siteOfPanic(st), Stack: clip(st, 2500)}
			}
		}()
		err = en.Fn(b, x, &out)
	}()
	sink = nil
	resp.Alloc = heapAllocs() - before
	resp.Over = resp.Alloc > resp.Ceil
	resp.Left, resp.Keys, resp.Stage = out.Left, out.Keys, out.Stage
	switch {
	case resp.Panic != nil:
		resp.Outcome = "panic"
		if en.PanicRefuses && resp.Panic.IsError && !resp.Panic.Runtime {
			resp.Outcome = "err" // refusal of a function that has no error result
			resp.Err = "panic(error): " + resp.Panic.Value
			resp.Panic = nil
		}
	case err == errSkip:
		resp.Outcome = "skip"
	case err == errHarness:
		resp.Outcome, resp.Err = "harness", err.Error()
	case err == errLoop:
		resp.Outcome, resp.Err = "loop", err.Error()
	case err != nil:
		resp.Outcome, resp.Err = "err", clip(err.Error(), 300)
	default:
		resp.Outcome = "ok"
	}
	return
}

func clip(s string, n int) string {
	if len(s) > n {
		return s[:n]
	}
	return s
}

type pendingAlloc struct {
	id    int
	alloc uint64
}

// WorkerMain is the worker subprocess: one JSON request per line on stdin, one JSON
// response per line on stdout.  It exits after answering a "resolve" request.
func WorkerMain() {
	// every allocation of at least this size is recorded with its stack (smaller ones are sampled)
	runtime.MemProfileRate = 512 << 10
	// The collector never runs in a worker: a collection that starts while a giant slice of pointers
	// is live scans it - touching gigabytes of otherwise untouched pages - and freed memory is zeroed
	// (touched) when a later giant span overlaps it.  Nothing is ever freed, so every allocation comes
	// from fresh, untouched address space; the supervisor retires the worker when enough of it is
	// used up (and, for the allocation profile, at the end of an input that allocated out of proportion).
	debug.SetGCPercent(-1)
	runtime.GC() // creates the collector's threads while address space is plentiful (resolveSites collects twice)
	start := heapAllocs()
	in := bufio.NewReaderSize(os.Stdin, 1<<20)
	out := bufio.NewWriterSize(os.Stdout, 1<<16)
	enc := json.NewEncoder(out)
	var pending []pendingAlloc
	var tainted uint64
	nextID := 0
	for {
		line, err := in.ReadBytes('\n')
		if err != nil {
			return
		}
		var rq request
		if err = json.Unmarshal(line, &rq); err != nil {
			fmt.Fprintln(os.Stderr, "hostile-worker: bad request:", err)
			os.Exit(4)
		}
		switch rq.Op {
		case "call":
			en := entryByName(rq.Entry)
			if en == nil || rq.X == nil {
				fmt.Fprintln(os.Stderr, "hostile-worker: unknown entry", rq.Entry)
				os.Exit(4)
			}
			resp := doCall(en, rq.B, rq.X)
			if resp.Over {
				nextID++
				resp.Pending = nextID
				pending = append(pending, pendingAlloc{nextID, resp.Alloc})
				tainted += resp.Alloc
			}
			resp.Tainted = tainted
			resp.Used = heapAllocs() - start
			enc.Encode(&resp)
			out.Flush()
		case "resolve":
			resp := response{Outcome: "resolved", Sites: resolveSites(pending)}
			enc.Encode(&resp)
			out.Flush()
			return
		default:
			fmt.Fprintln(os.Stderr, "hostile-worker: unknown op", rq.Op)
			os.Exit(4)
		}
	}
}

// resolveSites names the allocation site of every out-of-proportion call of this worker's
// life from the runtime's allocation profile (published by two collections): the record
// whose object size is the largest one not above the bytes the call allocated.
func resolveSites(pending []pendingAlloc) []siteInfo {
	if len(pending) == 0 {
		return nil
	}
	runtime.GC()
	runtime.GC()
	var recs []runtime.MemProfileRecord
	n, _ := runtime.MemProfile(nil, true)
	for {
		recs = make([]runtime.MemProfileRecord, n+64)
		var ok bool
		n, ok = runtime.MemProfile(recs, true)
		if ok {
			recs = recs[:n]
			break
		}
	}
	type rec struct {
		size, objects int64
		site, stack   string
		used          int64
	}
	var big []*rec
	for i := range recs {
		r := &recs[i]
		if r.AllocObjects == 0 {
			continue
		}
		size := r.AllocBytes / r.AllocObjects
		if size < 1<<20 {
			continue
		}
		site, stack := siteOfPCs(r.Stack())
		big = append(big, &rec{size: size, objects: r.AllocObjects, site: site, stack: stack})
	}
	sort.Slice(big, func(i, j int) bool { return big[i].size > big[j].size })
	var out []siteInfo
	for _, p := range pending {
		var best *rec
		for _, r := range big {
			if uint64(r.size) <= p.alloc && r.used < r.objects {
				best = r
				break
			}
		}
		si := siteInfo{ID: p.id, Site: "unresolved"}
		if best != nil && uint64(best.size) >= p.alloc/4 {
			best.used++
			si = siteInfo{ID: p.id, Site: best.site, Size: best.size, Objects: best.objects, Stack: best.stack}
		} else if best != nil {
			// many medium allocations: name the site that allocated most
			si = siteInfo{ID: p.id, Site: best.site + "(repeated)", Size: best.size, Objects: best.objects, Stack: best.stack}
		}
		out = append(out, si)
	}
	return out
}
