package hostile

import (
	"bytes"
	"errors"
	"io"
	"sort"
	"strings"

	"github.com/go-logr/logr"
	"github.com/klauspost/compress/s2"
	"github.com/pckhoi/meow"
	apiutils "github.com/wrgl/wrgl/pkg/api/utils"
	"github.com/wrgl/wrgl/pkg/encoding"
	"github.com/wrgl/wrgl/pkg/encoding/packfile"
	"github.com/wrgl/wrgl/pkg/encoding/pktline"
	"github.com/wrgl/wrgl/pkg/objects"
	objmock "github.com/wrgl/wrgl/pkg/objects/mock"
)

// callOut carries what an entry point observed besides ok / error.
type callOut struct {
	Left  []string // key prefixes left in the destination store by a REFUSED packfile object
	Keys  []string // (a few of) those keys, hex
	Stage string   // set once a validating step accepted the bytes ("validated, then trusted")
}

// An entry is one real entry point.  Demand says which verdict of the specification
// binds it: "verdict" (the kind's decoder verdict), "rcv" (the receive verdict of a whole
// packfile) or "" (only: returns, no panic, no timeout, proportionate allocation, store
// untouched when refusing).  PanicRefuses: the function has no error result; a panic that
// carries an error value which is not a runtime error is its way to refuse (the same
// convention the wire engine applies to StrListEncoder.Encode).
type entry struct {
	Name         string
	Kinds        string // space separated
	Demand       string
	PanicRefuses bool
	// After names the entry point this one wraps (it hands the same bytes to that decoder before it
	// does anything else).  If the wrapped entry point KILLED its process on an input, the wrapper is
	// not run on that input: the death is already reported, and every process death costs a restart.
	After string
	Fn    func(b []byte, e *env, out *callOut) error
}

var sink interface{}

var (
	errSkip    = errors.New("harness: entry point not applicable to this input")
	errHarness = errors.New("harness: packfile object type differs from the specification's")
	errLoop    = errors.New("harness: the packfile reader returned more objects than the input has bytes")
)

func hashOf(b []byte) []byte {
	a := meow.Checksum(0, b) // trusted primitive: only used to name the object in the store
	return a[:]
}

func storeWith(key string, val []byte) *objmock.Store {
	st := objmock.NewStore()
	st.Set([]byte(key), val)
	return st
}

func compressed(b []byte) []byte { return s2.EncodeBetter(nil, b) } // trusted primitive

var entries = []*entry{
	// ---------------------------------------------------------------- string list
	{Name: "objects.StrListDecoder.Read", Kinds: "strlist", Demand: "verdict", Fn: func(b []byte, e *env, _ *callOut) error {
		_, sl, err := objects.NewStrListDecoder(false).Read(bytes.NewReader(b))
		sink = sl
		return err
	}},
	{Name: "objects.StrListDecoder(reuse).Read", After: "objects.StrListDecoder.Read", Kinds: "strlist", Demand: "verdict", Fn: func(b []byte, e *env, _ *callOut) error {
		_, sl, err := objects.NewStrListDecoder(true).Read(bytes.NewReader(b))
		sink = sl
		return err
	}},
	{Name: "objects.StrListDecoder.ReadBytes", Kinds: "strlist", Demand: "verdict", Fn: func(b []byte, e *env, _ *callOut) error {
		_, rb, err := objects.NewStrListDecoder(false).ReadBytes(bytes.NewReader(b))
		sink = rb
		return err
	}},
	{Name: "objects.ValidateStrListBytes", Kinds: "strlist", Demand: "verdict", Fn: func(b []byte, e *env, _ *callOut) error {
		_, err := objects.ValidateStrListBytes(b)
		return err
	}},
	{Name: "objects.StrListDecoder.Decode", Kinds: "strlist", PanicRefuses: true, Fn: func(b []byte, e *env, _ *callOut) error {
		sink = objects.NewStrListDecoder(false).Decode(b)
		return nil
	}},
	// validated, then trusted: what ValidateStrListBytes accepts must be safe to Decode
	{Name: "objects.ValidateStrListBytes+Decode", Kinds: "strlist", Demand: "verdict", Fn: func(b []byte, e *env, out *callOut) error {
		if _, err := objects.ValidateStrListBytes(b); err != nil {
			return err
		}
		out.Stage = "validated"
		sink = objects.NewStrListDecoder(true).Decode(b)
		return nil
	}},
	// ---------------------------------------------------------------- uint list
	{Name: "objects.UintListDecoder.Read", Kinds: "uintlist", Demand: "verdict", Fn: func(b []byte, e *env, _ *callOut) error {
		_, ul, err := objects.NewUintListDecoder(false).Read(bytes.NewReader(b))
		sink = ul
		return err
	}},
	{Name: "objects.UintListDecoder.Decode", Kinds: "uintlist", PanicRefuses: true, Fn: func(b []byte, e *env, _ *callOut) error {
		sink = objects.NewUintListDecoder(false).Decode(b)
		return nil
	}},
	// ---------------------------------------------------------------- commit
	{Name: "objects.ReadCommitFrom", Kinds: "commit", Demand: "verdict", Fn: func(b []byte, e *env, _ *callOut) error {
		_, c, err := objects.ReadCommitFrom(bytes.NewReader(b))
		sink = c
		return err
	}},
	{Name: "objects.GetCommit", After: "objects.ReadCommitFrom", Kinds: "commit", Demand: "verdict", Fn: func(b []byte, e *env, _ *callOut) error {
		sum := hashOf(b)
		c, err := objects.GetCommit(storeWith(e.Pfx+string(sum), b), sum)
		sink = c
		return err
	}},
	{Name: "Receive(commit)", After: "objects.ReadCommitFrom", Kinds: "commit", Demand: "verdict", Fn: func(b []byte, e *env, out *callOut) error {
		return receiveOne(packfile.ObjectCommit, e.OType, b, e, out)
	}},
	// ---------------------------------------------------------------- table
	{Name: "objects.ReadTableFrom", Kinds: "table", Demand: "verdict", Fn: func(b []byte, e *env, _ *callOut) error {
		_, t, err := objects.ReadTableFrom(bytes.NewReader(b))
		sink = t
		return err
	}},
	{Name: "objects.GetTable", After: "objects.ReadTableFrom", Kinds: "table", Demand: "verdict", Fn: func(b []byte, e *env, _ *callOut) error {
		sum := hashOf(b)
		t, err := objects.GetTable(storeWith(e.Pfx+string(sum), b), sum)
		sink = t
		return err
	}},
	{Name: "Receive(table)", After: "objects.ReadTableFrom", Kinds: "table", Demand: "verdict", Fn: func(b []byte, e *env, out *callOut) error {
		return receiveOne(packfile.ObjectTable, e.OType, b, e, out)
	}},
	// ---------------------------------------------------------------- block
	{Name: "objects.ReadBlockFrom", Kinds: "block", Demand: "verdict", Fn: func(b []byte, e *env, _ *callOut) error {
		_, blk, err := objects.ReadBlockFrom(bytes.NewReader(b))
		sink = blk
		return err
	}},
	{Name: "objects.ValidateBlockBytes", Kinds: "block", Demand: "verdict", Fn: func(b []byte, e *env, _ *callOut) error {
		return objects.ValidateBlockBytes(b)
	}},
	{Name: "objects.GetBlock", After: "objects.ReadBlockFrom", Kinds: "block", Demand: "verdict", Fn: func(b []byte, e *env, _ *callOut) error {
		sum := hashOf(b)
		blk, _, err := objects.GetBlock(storeWith(e.Pfx+string(sum), compressed(b)), nil, sum)
		sink = blk
		return err
	}},
	// the stored value is the hostile string itself (not a compressed stream at all)
	{Name: "objects.GetBlock(stored bytes)", Kinds: "block", Fn: func(b []byte, e *env, _ *callOut) error {
		sum := hashOf(b)
		blk, _, err := objects.GetBlock(storeWith(e.Pfx+string(sum), b), nil, sum)
		sink = blk
		return err
	}},
	{Name: "objects.GetTableIndex", After: "objects.ReadBlockFrom", Kinds: "block", Demand: "verdict", Fn: func(b []byte, e *env, _ *callOut) error {
		sum := hashOf(b)
		idx, err := objects.GetTableIndex(storeWith(e.TiPfx+string(sum), b), sum)
		sink = idx
		return err
	}},
	{Name: "Receive(block)", Kinds: "block", Demand: "verdict", Fn: func(b []byte, e *env, out *callOut) error {
		return receiveOne(packfile.ObjectBlock, e.OType, compressed(b), e, out)
	}},
	{Name: "Receive(block, payload bytes)", Kinds: "block", Fn: func(b []byte, e *env, out *callOut) error {
		return receiveOne(packfile.ObjectBlock, e.OType, b, e, out)
	}},
	// ---------------------------------------------------------------- block index
	{Name: "objects.ReadBlockIndex", Kinds: "blkidx", Demand: "verdict", Fn: func(b []byte, e *env, _ *callOut) error {
		_, idx, err := objects.ReadBlockIndex(bytes.NewReader(b))
		sink = idx
		return err
	}},
	{Name: "objects.GetBlockIndex", After: "objects.ReadBlockIndex", Kinds: "blkidx", Demand: "verdict", Fn: func(b []byte, e *env, _ *callOut) error {
		sum := hashOf(b)
		idx, _, err := objects.GetBlockIndex(storeWith(e.Pfx+string(sum), compressed(b)), nil, sum)
		sink = idx
		return err
	}},
	{Name: "objects.GetBlockIndex(stored bytes)", Kinds: "blkidx", Fn: func(b []byte, e *env, _ *callOut) error {
		sum := hashOf(b)
		idx, _, err := objects.GetBlockIndex(storeWith(e.Pfx+string(sum), b), nil, sum)
		sink = idx
		return err
	}},
	// ---------------------------------------------------------------- table profile
	{Name: "objects.TableProfile.ReadFrom", Kinds: "profile", Demand: "verdict", Fn: func(b []byte, e *env, _ *callOut) error {
		p := &objects.TableProfile{}
		_, err := p.ReadFrom(bytes.NewReader(b))
		sink = p
		return err
	}},
	{Name: "objects.GetTableProfile", After: "objects.TableProfile.ReadFrom", Kinds: "profile", Demand: "verdict", Fn: func(b []byte, e *env, _ *callOut) error {
		sum := hashOf(b)
		p, err := objects.GetTableProfile(storeWith(e.Pfx+string(sum), b), sum)
		sink = p
		return err
	}},
	// ---------------------------------------------------------------- pkt-line
	{Name: "pktline.ReadPktLine", Kinds: "pkt pkthex", Demand: "verdict", Fn: func(b []byte, e *env, _ *callOut) error {
		s, err := pktline.ReadPktLine(encoding.NewParser(bytes.NewReader(b)))
		sink = s
		return err
	}},
	// ---------------------------------------------------------------- packfile
	{Name: "packfile.PackfileReader", Kinds: "pack", Demand: "verdict", Fn: func(b []byte, e *env, _ *callOut) error {
		pr, err := packfile.NewPackfileReader(io.NopCloser(bytes.NewReader(b)))
		if err != nil {
			return err
		}
		// the way every caller uses the reader: objects until io.EOF
		for i := 0; i <= len(b); i++ {
			_, ob, err := pr.ReadObject()
			sink = ob
			if errors.Is(err, io.EOF) {
				return nil
			}
			if err != nil {
				return err
			}
		}
		return errLoop
	}},
	{Name: "Receive(packfile)", After: "packfile.PackfileReader", Kinds: "pack", Demand: "rcv", Fn: func(b []byte, e *env, out *callOut) error {
		return receive(b, e, out)
	}},
	// ---------------------------------------------------------------- a session of objects that refer to each other
	{Name: "Receive(session)", Kinds: "rpack", Fn: func(b []byte, e *env, out *callOut) error {
		pack, err := buildSession(e.Objs)
		if err != nil {
			return err
		}
		return receive(pack, e, out)
	}},
}

func entriesFor(kind string) []*entry {
	var out []*entry
	for _, en := range entries {
		for _, k := range strings.Fields(en.Kinds) {
			if k == kind {
				out = append(out, en)
			}
		}
	}
	return out
}

func entryByName(name string) *entry {
	for _, en := range entries {
		if en.Name == name {
			return en
		}
	}
	return nil
}

// receiveOne sends one object through the real packfile writer (the sender side is what
// property C07 checks) and feeds the packfile to the real receiver.
func receiveOne(objType, specType int, payload []byte, e *env, out *callOut) error {
	if objType != specType {
		return errHarness
	}
	if len(payload) == 0 {
		return errSkip // an empty object cannot be written by the real writer (no object is empty)
	}
	var buf bytes.Buffer
	pw, err := packfile.NewPackfileWriter(&buf)
	if err != nil {
		return err
	}
	if _, err = pw.WriteObject(objType, payload); err != nil {
		return err
	}
	return receive(buf.Bytes(), e, out)
}

func snapshot(st *objmock.Store) map[string]string {
	m, _ := st.Filter(nil)
	out := make(map[string]string, len(m))
	for k, v := range m {
		out[k] = string(v)
	}
	return out
}

// receive feeds a packfile to ObjectReceiver.Receive over a destination store that holds the
// seed commits.  If the receiver refuses, everything in the store must be what was there
// before or belong to an object it reported as saved before the refusal; block indices
// (blkidx/) are derived from stored blocks, content addressed and referenced by nothing, and
// are not counted.
func receive(pack []byte, e *env, out *callOut) error {
	db := objmock.NewStore()
	for _, s := range e.Seeds {
		db.Set([]byte(e.CPfx+string(s)), []byte("seed"))
	}
	before := snapshot(db)
	pr, err := packfile.NewPackfileReader(io.NopCloser(bytes.NewReader(pack)))
	if err != nil {
		return err
	}
	saved := map[string]bool{}
	r := apiutils.NewObjectReceiver(db, nil, logr.Discard(), apiutils.WithReceiverSaveObjectHook(func(objType int, sum []byte) {
		saved[string(sum)] = true
	}))
	_, err = r.Receive(pr, nil)
	if err == nil {
		return nil
	}
	after := snapshot(db)
	left := map[string]bool{}
	for k, v := range after {
		if old, ok := before[k]; ok && old == v {
			continue
		}
		i := strings.IndexByte(k, '/')
		if i < 0 {
			left["?"] = true
			continue
		}
		pfx, sum := k[:i], k[i+1:]
		if pfx == "blkidx" || saved[sum] {
			continue
		}
		left[pfx] = true
		if len(out.Keys) < 4 {
			out.Keys = append(out.Keys, pfx+"/"+hexs(sum))
		}
	}
	for k := range before {
		if _, ok := after[k]; !ok {
			left["deleted"] = true
		}
	}
	for p := range left {
		out.Left = append(out.Left, p)
	}
	sort.Strings(out.Left)
	return err
}

func hexs(s string) string {
	const d = "0123456789abcdef"
	b := make([]byte, 0, 2*len(s))
	for i := 0; i < len(s); i++ {
		b = append(b, d[s[i]>>4], d[s[i]&15])
	}
	return string(b)
}

var nothing = bytes.Repeat([]byte{0xEE}, 16) // a sum that names no object

// buildSession materialises a session: literal parts are the specification's bytes, a
// reference becomes the hash of the referenced object's bytes (trusted primitive); the sum
// of a block's index is what the sender-side code computes for that block (objects.IndexBlock,
// property C03), or a sum that names nothing if that code refuses the block.  The objects
// are written in the given order by the real PackfileWriter.
func buildSession(objs []semObj) ([]byte, error) {
	content := make([][]byte, len(objs))
	done := make([]bool, len(objs))
	sumOf := func(k int, wantType int) []byte {
		if k < 1 || k > len(objs) || !done[k-1] {
			return nothing
		}
		return hashOf(content[k-1])
	}
	build := func(i int) {
		var buf bytes.Buffer
		for _, p := range objs[i].Parts {
			switch p.What {
			case "raw":
				buf.Write(p.Raw)
			case "blk", "tbl", "com":
				buf.Write(sumOf(p.K, 0))
			case "idx":
				buf.Write(indexSumOf(objs, content, done, p.K, p.PK))
			}
		}
		content[i] = buf.Bytes()
		done[i] = true
	}
	// blocks first, then tables, then commits in sending order (a commit may name an earlier commit)
	for _, typ := range []int{packfile.ObjectBlock, packfile.ObjectTable, packfile.ObjectCommit} {
		for i := range objs {
			if objs[i].Type == typ {
				build(i)
			}
		}
	}
	var out bytes.Buffer
	pw, err := packfile.NewPackfileWriter(&out)
	if err != nil {
		return nil, errHarness
	}
	for i := range objs {
		if !done[i] || len(content[i]) == 0 {
			return nil, errHarness
		}
		payload := content[i]
		if objs[i].St == "s2" {
			payload = compressed(payload)
		}
		if _, err = pw.WriteObject(objs[i].Type, payload); err != nil {
			return nil, errHarness
		}
	}
	return out.Bytes(), nil
}

func indexSumOf(objs []semObj, content [][]byte, done []bool, k int, pk []uint32) (sum []byte) {
	sum = nothing
	if k < 1 || k > len(objs) || !done[k-1] || objs[k-1].Type != packfile.ObjectBlock {
		return
	}
	defer func() { recover() }() // the sender-side code refusing a block it would never have written is not a finding
	_, blk, err := objects.ReadBlockFrom(bytes.NewReader(content[k-1]))
	if err != nil {
		return
	}
	idx, err := objects.IndexBlock(objects.NewStrListEncoder(true), meow.New(0), blk, pk)
	if err != nil {
		return
	}
	var buf bytes.Buffer
	if _, err = idx.WriteTo(&buf); err != nil {
		return
	}
	return hashOf(buf.Bytes())
}
