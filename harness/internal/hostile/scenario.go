// Package hostile binds spec/WireMut.tla (property C17: malformed or hostile bytes are
// rejected with an error, never a crash) to the real wrgl decoders.
//
// A scenario is one input printed by TLC:
//
//	[kind, base, [mutation, segment, position, tag, alternative], bytes-as-runs, verdict, extra]
//
// verdict is what the format's total decoder (spec/Wire.tla) says about the bytes: "ok",
// "either" or "err".  The harness feeds the bytes to every real entry point of the kind and
// demands: the call returns (ok or error - an error where the specification says "err"),
// never panics, never exceeds the per-call timeout, never allocates out of proportion to
// the input, and a packfile object the receiver refuses leaves the destination store as it
// was.  Nothing about the expected outcome is computed here.
//
// Process structure: the replay child (child.Run) is a supervisor and never executes wrgl
// code on hostile input itself; it keeps one worker subprocess (the same binary started
// with the argument "hostile-worker") to which it sends one call at a time.  A worker
// that dies (runtime out-of-memory, a panic in a library goroutine, a stack overflow) or
// hangs is attributed to exactly the (entry point, input) pair in flight.
package hostile

import (
	"encoding/json"
	"fmt"

	"verifharness/internal/wire"
)

type desc struct {
	Name string
	Seg  int
	Pos  int
	Tag  string
	Alt  string
}

// env is what an entry point needs besides the bytes (all of it from the specification).
type env struct {
	Pfx   string   `json:"pfx"`            // storage key prefix of the kind
	St    string   `json:"st"`             // "raw" | "s2"
	TiPfx string   `json:"tipfx"`          // table-index prefix (blocks)
	CPfx  string   `json:"cpfx"`           // commit prefix
	Seeds [][]byte `json:"seeds"`          // commits that must pre-exist at the receiver
	Rcv   string   `json:"rcv"`            // verdict for ObjectReceiver.Receive of a whole packfile
	OType int      `json:"otype"`          // packfile object type of the kind
	Objs  []semObj `json:"objs,omitempty"` // kind "rpack": the objects of the session, in sending order
}

// semObj is one object of a session (spec/WireMut.tla section 8): its packfile type, how it
// travels ("raw" | "s2") and its bytes as parts - literal bytes or the sum of another object.
type semObj struct {
	Type  int       `json:"type"`
	St    string    `json:"st"`
	Parts []semPart `json:"parts"`
}

type semPart struct {
	What string   `json:"what"` // "raw" | "blk" | "idx" | "tbl" | "com"
	Raw  []byte   `json:"raw,omitempty"`
	K    int      `json:"k"`  // 1-based position of the referenced object, 0 = names nothing
	PK   []uint32 `json:"pk"` // "idx": key columns of the referring table
}

func parseSession(raw json.RawMessage) ([]semObj, error) {
	var objs []json.RawMessage
	if err := json.Unmarshal(raw, &objs); err != nil {
		return nil, err
	}
	var out []semObj
	for _, o := range objs {
		t, err := tuple(o, 3)
		if err != nil {
			return nil, err
		}
		var so semObj
		if err = json.Unmarshal(t[0], &so.Type); err != nil {
			return nil, err
		}
		if err = json.Unmarshal(t[1], &so.St); err != nil {
			return nil, err
		}
		var parts []json.RawMessage
		if err = json.Unmarshal(t[2], &parts); err != nil {
			return nil, err
		}
		for _, p := range parts {
			pt, err := tuple(p, 4)
			if err != nil {
				return nil, err
			}
			var sp semPart
			if err = json.Unmarshal(pt[0], &sp.What); err != nil {
				return nil, err
			}
			if sp.Raw, err = runs(pt[1]); err != nil {
				return nil, err
			}
			if err = json.Unmarshal(pt[2], &sp.K); err != nil {
				return nil, err
			}
			if err = json.Unmarshal(pt[3], &sp.PK); err != nil {
				return nil, err
			}
			so.Parts = append(so.Parts, sp)
		}
		out = append(out, so)
	}
	return out, nil
}

type scenario struct {
	Kind    string
	Base    int
	Desc    desc
	Bytes   []byte
	Verdict string
	X       env
}

func tuple(raw []byte, n int) ([]json.RawMessage, error) {
	var t []json.RawMessage
	if err := json.Unmarshal(raw, &t); err != nil {
		return nil, err
	}
	if len(t) != n {
		return nil, fmt.Errorf("tuple of %d, want %d: %.80s", len(t), n, raw)
	}
	return t, nil
}

func runs(raw json.RawMessage) ([]byte, error) {
	var r wire.Runs
	if err := json.Unmarshal(raw, &r); err != nil {
		return nil, fmt.Errorf("runs: %v in %.60s", err, raw)
	}
	for _, x := range r {
		if x[0] < 0 || x[0] > 255 || x[1] < 1 || x[1] > 1<<24 {
			return nil, fmt.Errorf("bad run %v", x)
		}
	}
	return r.Bytes(), nil
}

func parseScenario(raw []byte) (*scenario, error) {
	t, err := tuple(raw, 6)
	if err != nil {
		return nil, err
	}
	s := &scenario{}
	if err = json.Unmarshal(t[0], &s.Kind); err != nil {
		return nil, err
	}
	if err = json.Unmarshal(t[1], &s.Base); err != nil {
		return nil, err
	}
	d, err := tuple(t[2], 5)
	if err != nil {
		return nil, err
	}
	for i, p := range []interface{}{&s.Desc.Name, &s.Desc.Seg, &s.Desc.Pos, &s.Desc.Tag, &s.Desc.Alt} {
		if err = json.Unmarshal(d[i], p); err != nil {
			return nil, fmt.Errorf("descriptor field %d: %v", i, err)
		}
	}
	if s.Bytes, err = runs(t[3]); err != nil {
		return nil, err
	}
	if err = json.Unmarshal(t[4], &s.Verdict); err != nil {
		return nil, err
	}
	if s.Verdict != "ok" && s.Verdict != "either" && s.Verdict != "err" {
		return nil, fmt.Errorf("verdict %q", s.Verdict)
	}
	if s.Kind == "rpack" {
		s.X.Objs, err = parseSession(t[5])
		return s, err
	}
	x, err := tuple(t[5], 7)
	if err != nil {
		return nil, err
	}
	for i, p := range []interface{}{&s.X.Pfx, &s.X.St, &s.X.TiPfx, &s.X.CPfx} {
		if err = json.Unmarshal(x[i], p); err != nil {
			return nil, err
		}
	}
	var seeds []json.RawMessage
	if err = json.Unmarshal(x[4], &seeds); err != nil {
		return nil, err
	}
	for _, sd := range seeds {
		b, err := runs(sd)
		if err != nil {
			return nil, err
		}
		s.X.Seeds = append(s.X.Seeds, b)
	}
	if err = json.Unmarshal(x[5], &s.X.Rcv); err != nil {
		return nil, err
	}
	if err = json.Unmarshal(x[6], &s.X.OType); err != nil {
		return nil, err
	}
	return s, nil
}

// class is the label used to count distinct non-trivial inputs: kind, mutation, tag of the
// mutated segment, alternative, and the specification's verdict ("-" for an unmutated encoding).
func (s *scenario) class() string {
	switch s.Desc.Name {
	case "base":
		return "-"
	case "raw":
		return fmt.Sprintf("%s:raw:len%d:%s", s.Kind, s.Desc.Pos, s.Verdict)
	case "sem":
		return "rpack:" + s.Desc.Alt
	case "trunc":
		return fmt.Sprintf("%s:trunc-%s:%s:%s", s.Kind, s.Desc.Alt, s.Desc.Tag, s.Verdict)
	case "label", "flip":
		return fmt.Sprintf("%s:%s:%s:%s", s.Kind, s.Desc.Name, s.Desc.Tag, s.Verdict)
	case "type":
		return fmt.Sprintf("%s:type%d:%s", s.Kind, s.Desc.Pos, s.Verdict)
	case "trail":
		return fmt.Sprintf("%s:trail%d:%s", s.Kind, s.Desc.Pos, s.Verdict)
	}
	return fmt.Sprintf("%s:%s:%s:%s:%s", s.Kind, s.Desc.Name, s.Desc.Tag, s.Desc.Alt, s.Verdict)
}

// mutClass names the mutation in violation signatures (no verdict, no positions).
func (s *scenario) mutClass() string {
	switch s.Desc.Name {
	case "raw", "base":
		return s.Desc.Name
	case "sem":
		return "sem-" + s.Desc.Alt
	case "trunc":
		return "trunc-" + s.Desc.Alt + "-" + s.Desc.Tag // cut "at" the start of / "in" a segment of that tag
	case "label", "flip":
		return s.Desc.Name + "-" + s.Desc.Tag
	case "type":
		return fmt.Sprintf("type%d", s.Desc.Pos)
	case "trail":
		return "trail"
	}
	return s.Desc.Name + "-" + s.Desc.Tag + "-" + s.Desc.Alt
}
