package hostile

import (
	"runtime"
	"strings"
)

const wrglPrefix = "github.com/wrgl/wrgl/"

// shortFn turns github.com/wrgl/wrgl/pkg/objects.(*StrListDecoder).strSlice into
// objects.(*StrListDecoder).strSlice (closures keep their .funcN suffix).
func shortFn(fn string) string {
	fn = strings.TrimPrefix(fn, wrglPrefix)
	fn = strings.TrimPrefix(fn, "pkg/")
	return fn
}

// siteOfTrace returns the first wrgl function of a textual goroutine trace (the innermost
// wrgl frame: the function that indexed, sliced or asked for the memory, directly or
// through a library).  Lines of a trace look like
//
//	github.com/wrgl/wrgl/pkg/objects.ValidateStrListBytes({0xc000012345, 0x3, 0x3})
//		/repo/pkg/objects/str_list.go:128 +0x1a5
func siteOfTrace(trace string) string {
	for _, line := range strings.Split(trace, "\n") {
		if !strings.HasPrefix(line, wrglPrefix) {
			continue
		}
		fn := line
		if i := strings.LastIndexByte(fn, '('); i > 0 {
			fn = fn[:i] // the arguments follow the last '('
		}
		return shortFn(strings.TrimSpace(fn))
	}
	return "no-wrgl-frame"
}

func siteOfPanic(stack string) string {
	if i := strings.Index(stack, "\npanic("); i >= 0 {
		stack = stack[i:]
	}
	return siteOfTrace(stack)
}

func siteOfPCs(pcs []uintptr) (site, stack string) {
	frames := runtime.CallersFrames(pcs)
	site = "no-wrgl-frame"
	var sb strings.Builder
	n := 0
	for {
		f, more := frames.Next()
		if f.Function != "" && n < 12 {
			sb.WriteString(f.Function)
			sb.WriteString("\n")
			n++
		}
		if site == "no-wrgl-frame" && strings.HasPrefix(f.Function, wrglPrefix) {
			site = shortFn(f.Function)
		}
		if !more {
			break
		}
	}
	return site, sb.String()
}
