package hostile

import (
	"bufio"
	"bytes"
	"encoding/json"
	"fmt"
	"io"
	"os"
	"os/exec"
	"strconv"
	"strings"
	"sync"
	"time"

	"verifharness/internal/child"
)

// ---------------------------------------------------------------- worker handle

type worker struct {
	cmd    *exec.Cmd
	in     io.WriteCloser
	lines  chan []byte
	stderr *tailBuf
	done   chan struct{}
	calls  int
}

type tailBuf struct {
	mu sync.Mutex
	b  []byte
}

func (t *tailBuf) Write(p []byte) (int, error) {
	t.mu.Lock()
	defer t.mu.Unlock()
	if len(t.b) < 1<<16 { // the head of a fatal error report names the error and the running goroutine
		t.b = append(t.b, p...)
	}
	return len(p), nil
}

func (t *tailBuf) String() string {
	t.mu.Lock()
	defer t.mu.Unlock()
	return string(t.b)
}

func startWorker() (*worker, error) {
	exe, err := os.Executable()
	if err != nil {
		return nil, err
	}
	cmd := exec.Command(exe, "hostile-worker")
	// two processors: the worker runs one call at a time; every further processor is a thread (and, with
	// cgo, an 8 MiB stack mapping) that a collection may have to create under the address-space ceiling
	cmd.Env = append(os.Environ(), "GOTRACEBACK=single", "GOMAXPROCS=2")
	in, err := cmd.StdinPipe()
	if err != nil {
		return nil, err
	}
	outp, err := cmd.StdoutPipe()
	if err != nil {
		return nil, err
	}
	w := &worker{cmd: cmd, in: in, lines: make(chan []byte, 4), stderr: &tailBuf{}, done: make(chan struct{})}
	cmd.Stderr = w.stderr
	if err = cmd.Start(); err != nil {
		return nil, err
	}
	go func() {
		rd := bufio.NewReaderSize(outp, 1<<16)
		for {
			line, err := rd.ReadBytes('\n')
			if len(line) > 0 && err == nil {
				w.lines <- line
			}
			if err != nil {
				break
			}
		}
		cmd.Wait() // also waits for the stderr copy
		close(w.done)
	}()
	return w, nil
}

func (w *worker) kill() {
	w.cmd.Process.Kill()
	<-w.done
}

// death describes a worker that died (or was killed for hanging) during a call.
type death struct {
	Kind   string `json:"kind"` // "oom" | "panic" | "fatal" | "exit" | "timeout"
	Site   string `json:"site"`
	Text   string `json:"stderr"`
	Status string `json:"status"`
}

func classifyDeath(stderr, status string) *death {
	d := &death{Text: clip(stderr, 3000), Status: status, Site: siteOfTrace(stderr)}
	switch {
	case strings.Contains(stderr, "out of memory") || strings.Contains(stderr, "cannot allocate"):
		d.Kind = "oom"
	case strings.Contains(stderr, "stack overflow") || strings.Contains(stderr, "stack exceeds"):
		d.Kind = "stack-overflow"
	case strings.Contains(stderr, "\npanic: ") || strings.HasPrefix(stderr, "panic: "):
		d.Kind = "panic"
		if i := strings.Index(stderr, "panic: "); i >= 0 {
			d.Site = siteOfTrace(stderr[i:])
		}
	case strings.Contains(stderr, "fatal error:"):
		d.Kind = "fatal"
	default:
		d.Kind = "exit"
	}
	return d
}

// roundTrip sends one request and waits for the answer, the death of the worker, or the timeout.
func (w *worker) roundTrip(rq *request, timeout time.Duration) (*response, *death, error) {
	b, err := json.Marshal(rq)
	if err != nil {
		return nil, nil, err
	}
	b = append(b, '\n')
	werr := make(chan error, 1)
	go func() { _, e := w.in.Write(b); werr <- e }()
	timer := time.NewTimer(timeout)
	defer timer.Stop()
	select {
	case line := <-w.lines:
		var resp response
		if err = json.Unmarshal(line, &resp); err != nil {
			w.kill()
			return nil, nil, fmt.Errorf("worker answered %.200q: %v", line, err)
		}
		return &resp, nil, nil
	case <-w.done:
		// a last answer may have been written just before the exit
		select {
		case line := <-w.lines:
			var resp response
			if json.Unmarshal(line, &resp) == nil {
				return &resp, nil, nil
			}
		default:
		}
		return nil, classifyDeath(w.stderr.String(), w.cmd.ProcessState.String()), nil
	case <-timer.C:
		w.kill()
		return nil, &death{Kind: "timeout", Site: rq.Entry, Text: clip(w.stderr.String(), 1000), Status: "killed after " + timeout.String()}, nil
	}
}

// ---------------------------------------------------------------- supervisor

var (
	cur         *worker
	callTimeout = 10 * time.Second
	// A worker never frees anything; it is retired once this much address space is gone (the children
	// run under RLIMIT_AS, see bin/props/c17.py).
	taintBudget uint64 = 1 << 30
	setupOnce   sync.Once
	sigSeen     = map[string]int{}
)

func setup() {
	if v, err := strconv.Atoi(os.Getenv("HOSTILE_CALL_TIMEOUT_S")); err == nil && v > 0 {
		callTimeout = time.Duration(v) * time.Second
	}
	if v, err := strconv.ParseUint(os.Getenv("HOSTILE_TAINT_BUDGET"), 10, 64); err == nil && v > 0 {
		taintBudget = v
	}
}

func getWorker() (*worker, error) {
	if cur != nil {
		return cur, nil
	}
	w, err := startWorker()
	if err != nil {
		return nil, err
	}
	cur = w
	return w, nil
}

// failure is one deviation of the real code on one (entry point, input).
type failure struct {
	Sig    string      `json:"sig"`
	Entry  string      `json:"entry"`
	Detail interface{} `json:"detail"`
}

type pendingSite struct {
	fail *failure // its Sig is completed when the site is known
	id   int
}

// resolve asks the current worker for the allocation sites of its out-of-proportion calls and
// retires it.
func resolve(pend []pendingSite) error {
	if cur == nil {
		return nil
	}
	w := cur
	cur = nil
	resp, d, err := w.roundTrip(&request{Op: "resolve"}, 60*time.Second)
	if err != nil {
		return err
	}
	if d != nil {
		return fmt.Errorf("worker died while resolving allocation sites: %s %s", d.Kind, clip(d.Text, 300))
	}
	w.in.Close()
	<-w.done
	byID := map[int]siteInfo{}
	for _, s := range resp.Sites {
		byID[s.ID] = s
	}
	for _, p := range pend {
		s, ok := byID[p.id]
		if !ok {
			return fmt.Errorf("allocation %d was not resolved", p.id)
		}
		p.fail.Sig = "hostile/" + s.Site + "/alloc"
		if m, ok := p.fail.Detail.(map[string]interface{}); ok {
			m["allocation_site"] = s
		}
	}
	return nil
}

// Replay is the child handler of engine "hostile".
func Replay(i int, raw []byte) child.Result {
	setupOnce.Do(setup)
	sc, err := parseScenario(raw)
	if err != nil {
		return child.Inconclusive(fmt.Errorf("scenario %d: %v", i, err))
	}
	ens := entriesFor(sc.Kind)
	if len(ens) == 0 {
		return child.Inconclusive(fmt.Errorf("scenario %d: no entry point for kind %q", i, sc.Kind))
	}
	var fails []*failure
	var pend []pendingSite
	outcomes := map[string]string{}
	ncalls := 0
	input := func() map[string]interface{} {
		return map[string]interface{}{"input_len": len(sc.Bytes), "input_hex": hexClip(sc.Bytes), "spec_verdict": sc.Verdict}
	}
	died := map[string]bool{}
	for _, en := range ens {
		if en.After != "" && died[en.After] {
			outcomes[en.Name] = "not run: " + en.After + " killed its process on this input"
			continue
		}
		w, err := getWorker()
		if err != nil {
			return child.Inconclusive(fmt.Errorf("cannot start the worker: %v", err))
		}
		w.calls++
		ncalls++
		resp, d, err := w.roundTrip(&request{Op: "call", Entry: en.Name, B: sc.Bytes, X: &sc.X}, callTimeout)
		if err != nil {
			cur = nil
			return child.Inconclusive(err)
		}
		if d != nil {
			cur = nil
			// what the dead worker knew about earlier out-of-proportion allocations is gone: repeat those calls
			// in a fresh worker and resolve them at once
			for _, p := range pend {
				if e2 := redo(p, sc); e2 != nil {
					return child.Inconclusive(e2)
				}
			}
			pend = nil
			det := input()
			det["death"] = d
			f := &failure{Entry: en.Name, Detail: det}
			switch d.Kind {
			case "timeout":
				f.Sig = "hostile/" + en.Name + "/timeout"
			case "oom":
				f.Sig = "hostile/" + d.Site + "/alloc"
			case "panic":
				f.Sig = "hostile/" + d.Site + "/crash-panic"
			case "stack-overflow":
				f.Sig = "hostile/" + d.Site + "/stack-overflow"
			default:
				if d.Site == "no-wrgl-frame" && d.Kind == "exit" {
					return child.Inconclusive(fmt.Errorf("worker exited without a report (%s): %s", d.Status, clip(d.Text, 400)))
				}
				f.Sig = "hostile/" + d.Site + "/crash"
			}
			outcomes[en.Name] = "died:" + d.Kind
			died[en.Name] = true
			fails = append(fails, f)
			continue
		}
		outcomes[en.Name] = resp.Outcome
		switch resp.Outcome {
		case "harness":
			return child.Inconclusive(fmt.Errorf("scenario %d, %s: %s", i, en.Name, resp.Err))
		case "skip":
			continue
		case "loop":
			det := input()
			det["error"] = resp.Err
			fails = append(fails, &failure{Sig: "hostile/" + en.Name + "/timeout", Entry: en.Name, Detail: det})
		case "panic":
			det := input()
			det["panic"] = resp.Panic
			sig := "hostile/" + resp.Panic.Site + "/panic-" + resp.Panic.Class
			if resp.Stage != "" {
				// the bytes had passed the validating step: a different defect than a crash on unvalidated bytes
				sig = "hostile/" + en.Name + "/" + resp.Stage + "-then-panic-" + resp.Panic.Class
			}
			fails = append(fails, &failure{Sig: sig, Entry: en.Name, Detail: det})
		case "ok":
			demand := ""
			switch en.Demand {
			case "verdict":
				demand = sc.Verdict
			case "rcv":
				demand = sc.X.Rcv
			}
			if demand == "err" {
				det := input()
				det["real_outcome"] = "accepted (no error)"
				det["mutation"] = sc.Desc
				fails = append(fails, &failure{Sig: "hostile/" + en.Name + "/accepted-malformed/" + sc.mutClass(), Entry: en.Name, Detail: det})
			}
		case "err":
			if len(resp.Left) > 0 {
				det := input()
				det["refused_with"] = resp.Err
				det["left_in_store"] = resp.Keys
				fails = append(fails, &failure{Sig: "hostile/" + en.Name + "/left-stored/" + strings.Join(resp.Left, "+"), Entry: en.Name, Detail: det})
			}
		default:
			return child.Inconclusive(fmt.Errorf("worker outcome %q", resp.Outcome))
		}
		if resp.Over {
			det := input()
			det["allocated_bytes"] = resp.Alloc
			det["ceiling_bytes"] = resp.Ceil
			det["rule"] = "heap bytes allocated during the call <= 64 MiB + 64 * len(input)"
			det["real_outcome"] = resp.Outcome
			f := &failure{Sig: "hostile/?/alloc", Entry: en.Name, Detail: det}
			fails = append(fails, f)
			pend = append(pend, pendingSite{f, resp.Pending})
		}
		if resp.Used > taintBudget {
			if err = resolve(pend); err != nil {
				return child.Inconclusive(err)
			}
			pend = nil
		}
	}
	if len(pend) > 0 {
		if err = resolve(pend); err != nil {
			return child.Inconclusive(err)
		}
	}
	if len(fails) == 0 {
		return child.Pass(fmt.Sprintf("%s|%d", sc.class(), ncalls))
	}
	// An unrepaired defect fails a large share of the inputs: only the first few failures of a
	// signature carry their full detail (the replay file of a scenario reproduces it anyway).
	thin := func(f *failure) interface{} {
		sigSeen[f.Sig]++
		if sigSeen[f.Sig] > 3 {
			return map[string]interface{}{"entry": f.Entry}
		}
		return map[string]interface{}{"entry": f.Entry, "observed": f.Detail, "outcomes": outcomes}
	}
	// one F line per scenario: the first failure is the result, the others travel on the side channel
	for _, f := range fails[1:] {
		child.Emit(map[string]interface{}{"idx": i, "sig": f.Sig, "detail": thin(f)})
	}
	return child.Fail(fails[0].Sig, thin(fails[0]))
}

// redo repeats one out-of-proportion call in a fresh worker to learn its allocation site.
func redo(p pendingSite, sc *scenario) error {
	w, err := getWorker()
	if err != nil {
		return err
	}
	resp, d, err := w.roundTrip(&request{Op: "call", Entry: p.fail.Entry, B: sc.Bytes, X: &sc.X}, callTimeout)
	if err != nil {
		cur = nil
		return err
	}
	if d != nil {
		cur = nil
		p.fail.Sig = "hostile/" + d.Site + "/alloc"
		return nil
	}
	if !resp.Over {
		return fmt.Errorf("%s: the out-of-proportion allocation did not repeat", p.fail.Entry)
	}
	return resolve([]pendingSite{{p.fail, resp.Pending}})
}

func hexClip(b []byte) string {
	var sb bytes.Buffer
	n := len(b)
	if n > 96 {
		n = 96
	}
	fmt.Fprintf(&sb, "%x", b[:n])
	if n < len(b) {
		fmt.Fprintf(&sb, "...(%d bytes)", len(b))
	}
	return sb.String()
}
