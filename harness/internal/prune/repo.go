package prune

import (
	"bytes"
	"database/sql"
	"fmt"
	"io"
	"os"
	"path/filepath"
	"runtime/debug"
	"sort"
	"strings"
	"time"

	"github.com/go-logr/logr"
	"github.com/google/uuid"
	"github.com/spf13/viper"
	wrgl "github.com/wrgl/wrgl/cmd/wrgl"
	"github.com/wrgl/wrgl/pkg/diff"
	"github.com/wrgl/wrgl/pkg/local"
	"github.com/wrgl/wrgl/pkg/objects"
	objmock "github.com/wrgl/wrgl/pkg/objects/mock"
	realprune "github.com/wrgl/wrgl/pkg/prune"
	"github.com/wrgl/wrgl/pkg/ref"

	"verifharness/internal/refs"
)

// Repo is one real repository: an object store and the real SQL ref store.
// Mode "mem": objmock store + in-memory sqlite; mode "dir": a .wrgl directory
// (badger + sqlite file) as `wrgl init` lays it out, which the CLI can open.
type Repo struct {
	DB      objects.Store
	RS      ref.Store
	sqlDB   *sql.DB
	rd      *local.RepoDir
	Dir     string
	Commits map[string]int // real commit sum -> abstract id
	Sums    map[int][]byte
	Refs    map[string]int // ref name -> abstract commit
}

func NewMemRepo() (*Repo, error) {
	rs, db, err := refs.NewMemStore()
	if err != nil {
		return nil, err
	}
	return &Repo{DB: objmock.NewStore(), RS: rs, sqlDB: db, Commits: map[string]int{}, Sums: map[int][]byte{}, Refs: map[string]int{}}, nil
}

func NewDirRepo(parent string) (*Repo, error) {
	root, err := os.MkdirTemp(parent, "repo-*")
	if err != nil {
		return nil, err
	}
	dir := filepath.Join(root, ".wrgl")
	rd, err := local.NewRepoDir(dir, "")
	if err != nil {
		return nil, err
	}
	if err = rd.Init(); err != nil {
		return nil, err
	}
	db, err := rd.OpenObjectsStore()
	if err != nil {
		return nil, err
	}
	return &Repo{DB: db, RS: rd.OpenRefStore(), rd: rd, Dir: dir, Commits: map[string]int{}, Sums: map[int][]byte{}, Refs: map[string]int{}}, nil
}

func (r *Repo) Close() {
	if r.DB != nil {
		r.DB.Close()
	}
	if r.sqlDB != nil {
		r.sqlDB.Close()
	}
	if r.rd != nil {
		r.rd.Close()
		os.RemoveAll(filepath.Dir(r.Dir))
	}
}

// AddCommit stores abstract commit i naming the given table sum.
func (r *Repo) AddCommit(i int, table []byte, parents []int) error {
	ps := make([][]byte, 0, len(parents))
	for _, p := range parents {
		s, ok := r.Sums[p]
		if !ok {
			return fmt.Errorf("commit %d: parent %d not created yet", i, p)
		}
		ps = append(ps, s)
	}
	sum, _, err := SaveCommit(r.DB, i, table, ps)
	if err != nil {
		return err
	}
	if _, dup := r.Commits[string(sum)]; dup {
		return fmt.Errorf("commit %d collides with commit %d", i, r.Commits[string(sum)])
	}
	r.Commits[string(sum)] = i
	r.Sums[i] = sum
	return nil
}

// AddRef creates a ref of the given kind on abstract commit c, the way wrgl does.
// txBegin is the begin time of the transaction for kind "txn".
func (r *Repo) AddRef(kind string, c int, tag string, txBegin time.Time) (name string, err error) {
	sum := r.Sums[c]
	switch kind {
	case "head":
		name = "heads/b" + tag
		err = ref.SaveRef(r.RS, name, sum, "verif", "verif@example.com", "commit", "commit "+tag, nil)
	case "tag":
		name = "tags/v" + tag
		err = ref.SaveTag(r.RS, "v"+tag, sum)
	case "remote":
		name = "remotes/origin/b" + tag
		err = ref.SaveRemoteRef(r.RS, "origin", "b"+tag, sum, "verif", "verif@example.com", "fetch", "from origin")
	case "txn":
		id := uuid.New()
		if _, err = r.RS.NewTransaction(&ref.Transaction{ID: id, Status: ref.TSInProgress, Begin: txBegin}); err != nil {
			return "", err
		}
		name = ref.TransactionRef(id.String(), "b"+tag)
		err = ref.SaveTransactionRef(r.RS, id, "b"+tag, sum)
	default:
		err = fmt.Errorf("unknown ref kind %q", kind)
	}
	if err == nil {
		r.Refs[name] = c
	}
	return name, err
}

// RunResult is what one real prune run did.
type RunResult struct {
	Err     string
	Panic   string // recovered panic value + stack ("" = none)
	Crashed bool
}

// Run executes the real code: mode "lib" = prune.Prune, "cli" = `wrgl prune`,
// "gc" = `wrgl gc`, both in-process through wrgl.RootCmd().  A panic on the
// calling goroutine is recovered and reported (a crash of the real code); panics
// on other goroutines kill the child process and are attributed by the driver.
func (r *Repo) Run(mode string) (res RunResult) {
	defer func() {
		if p := recover(); p != nil {
			res.Crashed = true
			res.Panic = fmt.Sprintf("%v\n%s", p, debug.Stack())
		}
	}()
	switch mode {
	case "lib":
		if err := realprune.Prune(r.DB, r.RS, nil); err != nil {
			res.Err = err.Error()
		}
	case "cli", "gc":
		if r.rd == nil {
			res.Err = "harness: cli mode needs a directory repository"
			return
		}
		// the command opens badger itself: release our handle first
		if err := r.DB.Close(); err != nil {
			res.Err = "harness: close: " + err.Error()
			return
		}
		r.DB = nil
		defer func() {
			db, err := r.rd.OpenObjectsStore()
			if err != nil {
				res.Err = "harness: reopen: " + err.Error()
				return
			}
			r.DB = db
		}()
		viper.Set("wrgl_dir", r.Dir)
		cmd := wrgl.RootCmd()
		arg := "prune"
		if mode == "gc" {
			arg = "gc"
		}
		cmd.SetArgs([]string{arg})
		cmd.SetOut(io.Discard)
		cmd.SetErr(io.Discard)
		cmd.SilenceErrors = true
		cmd.SilenceUsage = true
		if err := cmd.Execute(); err != nil {
			res.Err = err.Error()
		}
	default:
		res.Err = "harness: unknown mode " + mode
	}
	return
}

// RefsIntact: every ref created still resolves to the same commit ("" = yes).
func (r *Repo) RefsIntact(except map[string]bool) string {
	m, err := ref.ListAllRefs(r.RS)
	if err != nil {
		return "ListAllRefs: " + err.Error()
	}
	names := make([]string, 0, len(r.Refs))
	for n := range r.Refs {
		names = append(names, n)
	}
	sort.Strings(names)
	for _, n := range names {
		if except[n] {
			continue
		}
		sum, ok := m[n]
		if !ok {
			return "ref " + n + " disappeared"
		}
		if !bytes.Equal(sum, r.Sums[r.Refs[n]]) {
			return "ref " + n + " moved"
		}
	}
	return ""
}

// Usable re-reads commit c in full, the way export / diff / merge would need it:
// the commit, its table, every block (row for row what was ingested), every block
// index, the table index, the profile when one is expected, and a self-diff
// through the real diff.DiffTables that must report nothing.  "" = usable.
func (r *Repo) Usable(u *Universe, c int, table int, wantProfile bool) string {
	sum, ok := r.Sums[c]
	if !ok {
		return fmt.Sprintf("c%d: unknown commit", c)
	}
	com, err := objects.GetCommit(r.DB, sum)
	if err != nil {
		return fmt.Sprintf("c%d: GetCommit: %v", c, err)
	}
	ti := u.Tables[table]
	if !bytes.Equal(com.Table, ti.Sum) {
		return fmt.Sprintf("c%d: commit names another table", c)
	}
	tbl, err := objects.GetTable(r.DB, com.Table)
	if err != nil {
		return fmt.Sprintf("c%d: GetTable t%d: %v", c, table, err)
	}
	if len(tbl.Blocks) != len(ti.Blocks) || len(tbl.BlockIndices) != len(ti.Blocks) {
		return fmt.Sprintf("c%d: table t%d lists %d blocks, %d block indices", c, table, len(tbl.Blocks), len(tbl.BlockIndices))
	}
	var bb []byte
	var rows uint32
	for i, bsum := range tbl.Blocks {
		var blk [][]string
		blk, bb, err = objects.GetBlock(r.DB, bb, bsum)
		if err != nil {
			return fmt.Sprintf("c%d: t%d block %d (b%d): %v", c, table, i, ti.Blocks[i], err)
		}
		if !rowsEqual(blk, RowsOfBlock(ti.Blocks[i])) {
			return fmt.Sprintf("c%d: t%d block %d (b%d): rows differ from what was ingested", c, table, i, ti.Blocks[i])
		}
		rows += uint32(len(blk))
		var idx *objects.BlockIndex
		idx, bb, err = objects.GetBlockIndex(r.DB, bb, tbl.BlockIndices[i])
		if err != nil {
			return fmt.Sprintf("c%d: t%d block index %d (bi%d): %v", c, table, i, ti.Blocks[i], err)
		}
		if idx.Len() != len(blk) {
			return fmt.Sprintf("c%d: t%d block index %d has %d entries for %d rows", c, table, i, idx.Len(), len(blk))
		}
	}
	if rows != tbl.RowsCount {
		return fmt.Sprintf("c%d: t%d has %d rows, table says %d", c, table, rows, tbl.RowsCount)
	}
	tblIdx, err := objects.GetTableIndex(r.DB, com.Table)
	if err != nil {
		return fmt.Sprintf("c%d: GetTableIndex ti%d: %v", c, table, err)
	}
	if len(tblIdx) != len(tbl.Blocks) {
		return fmt.Sprintf("c%d: table index ti%d has %d entries for %d blocks", c, table, len(tblIdx), len(tbl.Blocks))
	}
	if wantProfile {
		if _, err := objects.GetTableProfile(r.DB, com.Table); err != nil {
			return fmt.Sprintf("c%d: GetTableProfile p%d: %v", c, table, err)
		}
	}
	errCh := make(chan error, 10)
	diffCh, _ := diff.DiffTables(r.DB, r.DB, tbl, tbl, tblIdx, tblIdx, errCh, logr.Discard())
	n := 0
	for range diffCh {
		n++
	}
	select {
	case err := <-errCh:
		return fmt.Sprintf("c%d: self-diff of t%d: %v", c, table, err)
	default:
	}
	if n != 0 {
		return fmt.Sprintf("c%d: self-diff of t%d reports %d differences", c, table, n)
	}
	return ""
}

func firstLines(s string, n int) string {
	l := strings.SplitN(s, "\n", n+1)
	if len(l) > n {
		l = l[:n]
	}
	return strings.Join(l, "\n")
}
