package prune

import (
	"encoding/json"
	"fmt"
	"os"
	"sort"
	"strconv"
	"strings"
	"sync"
	"time"

	"verifharness/internal/child"
)

// FixedTables is the table universe of spec/PruneGen.tla:
// T1 = {b1,b2}, T2 = {b2,b3}, T3 = {b4}; b2 is shared.  T4 lists T1's blocks under another primary key:
// the same two block objects, two block indices of its own (101, 102).
var FixedTables = map[int][]int{1: {1, 2}, 2: {2, 3}, 3: {4}, 4: {1, 2}}
var FixedKV = map[int]int{4: 1}

var (
	fixedOnce sync.Once
	fixedU    *Universe
	fixedErr  error
)

func fixedUniverse() (*Universe, error) {
	fixedOnce.Do(func() {
		fixedU, fixedErr = BuildUniverse(FixedTables, FixedKV)
		if fixedErr == nil {
			// sharing must be genuine: T1's second block IS T2's first block
			t1, t2 := fixedU.Tables[1], fixedU.Tables[2]
			if string(t1.BlockSum[1]) != string(t2.BlockSum[0]) || string(t1.IdxSum[1]) != string(t2.IdxSum[0]) {
				fixedErr = fmt.Errorf("T1 and T2 do not share block b2 in the real store")
			}
			t4 := fixedU.Tables[4]
			if string(t1.BlockSum[0]) != string(t4.BlockSum[0]) || string(t1.BlockSum[1]) != string(t4.BlockSum[1]) ||
				string(t1.IdxSum[0]) == string(t4.IdxSum[0]) || string(t1.IdxSum[1]) == string(t4.IdxSum[1]) {
				fixedErr = fmt.Errorf("T4 does not list T1's blocks with block indices of its own in the real store")
			}
		}
	})
	return fixedU, fixedErr
}

// Scenario is one SCN line of PruneGen.
type Scenario struct {
	Par    [][]int           `json:"par"`
	Tab    []int             `json:"tab"`
	Refs   []json.RawMessage `json:"refs"` // [commit, kind]
	Abs    []int             `json:"abs"`
	Before Objs              `json:"before"`
	Must   Objs              `json:"must"`
	Mnot   Objs              `json:"mnot"`
	SS     []int             `json:"ss"` // absent tables named by reachable commits
}

type refSpec struct {
	C    int
	Kind string
}

func (s *Scenario) refs() ([]refSpec, error) {
	out := make([]refSpec, 0, len(s.Refs))
	for _, raw := range s.Refs {
		var pair []json.RawMessage
		if err := json.Unmarshal(raw, &pair); err != nil || len(pair) != 2 {
			return nil, fmt.Errorf("bad ref %s", raw)
		}
		var r refSpec
		if err := json.Unmarshal(pair[0], &r.C); err != nil {
			return nil, err
		}
		if err := json.Unmarshal(pair[1], &r.Kind); err != nil {
			return nil, err
		}
		out = append(out, r)
	}
	sort.Slice(out, func(i, j int) bool { return out[i].C < out[j].C })
	return out, nil
}

// Detail is what a failing scenario reports (expected vs observed).
type Detail struct {
	Mode       string   `json:"mode"`
	Step       string   `json:"step"`
	Missing    []string `json:"missing_must,omitempty"`
	Kept       []string `json:"kept_mustnot,omitempty"`
	Unknown    []string `json:"unknown_objects,omitempty"`
	After      *Objs    `json:"after,omitempty"`
	After2     *Objs    `json:"after2,omitempty"`
	Err        string   `json:"err,omitempty"`
	Panic      string   `json:"panic,omitempty"`
	Unusable   string   `json:"unusable,omitempty"`
	Refs       string   `json:"refs,omitempty"`
	LandsOn    []int    `json:"search_lands_on,omitempty"`
	AlsoFailed []string `json:"also,omitempty"`
}

type failure struct {
	sig    string
	detail Detail
}

// shallowLanding: for the signature only.  The tables on which the unchecked binary
// search of the pinned tree lands for the absent tables of surviving commits
// (0 = past the end).
func shallowLanding(u *Universe, sc *Scenario) []int {
	type ts struct {
		sum string
		id  int
	}
	var present []ts
	for _, t := range sc.Before.T {
		present = append(present, ts{string(u.Tables[t].Sum), t})
	}
	sort.Slice(present, func(i, j int) bool { return present[i].sum < present[j].sum })
	var out []int
	for _, a := range sc.SS {
		s := string(u.Tables[a].Sum)
		k := sort.Search(len(present), func(i int) bool { return present[i].sum >= s })
		if k == len(present) {
			out = append(out, 0)
		} else {
			out = append(out, present[k].id)
		}
	}
	return out
}

func crashSig(sc *Scenario, panicText string) string {
	if len(sc.SS) > 0 && strings.Contains(panicText, "index out of range") && strings.Contains(panicText, "pruneTables") {
		return "prune/crash/shallow-survivor"
	}
	return "prune/crash/other"
}

// keptSig: garbage that survived.  It is the known shallow deviation only when every
// surviving piece is a table the unchecked search lands on, or a block of such a table.
func keptSig(u *Universe, sc *Scenario, after Objs) (string, []int) {
	if len(sc.SS) == 0 {
		return "prune/state/kept-garbage", nil
	}
	lands := shallowLanding(u, sc)
	okT := map[int]bool{}
	okB := map[int]bool{}
	for _, w := range lands {
		if w != 0 {
			okT[w] = true
			for _, b := range u.Tables[w].Blocks {
				okB[b] = true
			}
		}
	}
	for _, c := range sc.Mnot.C {
		if has(after.C, c) {
			return "prune/state/kept-garbage", lands
		}
	}
	for _, t := range sc.Mnot.T {
		if has(after.T, t) && !okT[t] {
			return "prune/state/kept-garbage", lands
		}
	}
	for _, b := range sc.Mnot.B {
		if has(after.B, b) && !okB[b] {
			return "prune/state/kept-garbage", lands
		}
	}
	return "prune/state/shallow-marks-unrelated-table", lands
}

var knownDeviationSigs = map[string]bool{
	"prune/state/shallow-marks-unrelated-table": true,
}

func classOf(sc *Scenario, rs []refSpec) string {
	if len(sc.Mnot.C) == 0 {
		return "-"
	}
	c := "dead-commit"
	if len(sc.Mnot.T) > 0 {
		c += "+dead-table"
	}
	if len(sc.Mnot.B) > 0 {
		c += "+dead-block"
	}
	shared := false
	for _, t := range sc.Mnot.T {
		for _, b := range FixedTables[t] {
			if has(sc.Must.B, b) {
				shared = true
			}
		}
	}
	if shared {
		c += "+shared-block-survives"
	}
	if len(sc.SS) > 0 {
		c += "+shallow-survivor"
	}
	// one block object under two primary keys (two block indices), one of the two tables removed or both kept
	if has(sc.Tab, 1) && has(sc.Tab, 4) && !has(sc.Abs, 1) && !has(sc.Abs, 4) {
		if has(sc.Mnot.T, 1) || has(sc.Mnot.T, 4) {
			c += "+key-twin-removed"
		} else {
			c += "+key-twins-kept"
		}
	}
	for _, r := range rs {
		if r.Kind == "txn" {
			c += "+txn-ref"
			break
		}
	}
	return c
}

var dirEvery = func() int {
	n, _ := strconv.Atoi(os.Getenv("PRUNE_DIR_EVERY"))
	return n
}()

// Replay executes one scenario of PruneGen on the real code.
func Replay(i int, raw []byte) child.Result {
	u, err := fixedUniverse()
	if err != nil {
		return child.Inconclusive(err)
	}
	var sc Scenario
	if err := json.Unmarshal(raw, &sc); err != nil {
		return child.Inconclusive(fmt.Errorf("scenario %d: %v", i, err))
	}
	sc.Before.norm()
	sc.Must.norm()
	sc.Mnot.norm()
	rs, err := sc.refs()
	if err != nil {
		return child.Inconclusive(err)
	}
	mode := "lib"
	var repo *Repo
	if dirEvery > 0 && i%dirEvery == 0 {
		mode = "cli"
		repo, err = NewDirRepo(os.TempDir())
	} else {
		repo, err = NewMemRepo()
	}
	if err != nil {
		return child.Inconclusive(err)
	}
	defer repo.Close()

	// build the repository the scenario describes
	if err := u.Populate(repo.DB, sc.Before); err != nil {
		return child.Inconclusive(err)
	}
	for c := 1; c <= len(sc.Tab); c++ {
		if err := repo.AddCommit(c, u.Tables[sc.Tab[c-1]].Sum, sc.Par[c-1]); err != nil {
			return child.Inconclusive(err)
		}
	}
	for _, r := range rs {
		if _, err := repo.AddRef(r.Kind, r.C, strconv.Itoa(r.C), time.Now()); err != nil {
			return child.Inconclusive(err)
		}
	}
	before, unknown, err := u.Project(repo.DB, repo.Commits)
	if err != nil {
		return child.Inconclusive(err)
	}
	if len(unknown) > 0 || !before.Equal(sc.Before) {
		return child.Inconclusive(fmt.Errorf("scenario %d: built store %+v (unknown %v) is not the specified %+v", i, before, unknown, sc.Before))
	}

	var fails []failure
	add := func(sig string, d Detail) {
		d.Mode = mode
		fails = append(fails, failure{sig, d})
	}
	verdict := func() child.Result {
		if len(fails) == 0 {
			return child.Pass(classOf(&sc, rs))
		}
		pick := 0
		for k, f := range fails {
			if !knownDeviationSigs[f.sig] {
				pick = k
				break
			}
		}
		d := fails[pick].detail
		for k, f := range fails {
			if k != pick {
				d.AlsoFailed = append(d.AlsoFailed, f.sig)
			}
		}
		return child.Fail(fails[pick].sig, d)
	}

	// first prune
	r1 := repo.Run(mode)
	if strings.HasPrefix(r1.Err, "harness:") {
		return child.Inconclusive(fmt.Errorf("%s", r1.Err))
	}
	if r1.Crashed {
		add(crashSig(&sc, r1.Panic), Detail{Step: "prune-1", Panic: firstLines(r1.Panic, 14), LandsOn: shallowLanding(u, &sc)})
		return verdict()
	}
	after, unknown, err := u.Project(repo.DB, repo.Commits)
	if err != nil {
		return child.Inconclusive(err)
	}
	if r1.Err != "" {
		add("prune/run/error", Detail{Step: "prune-1", Err: r1.Err, After: &after})
	}
	if len(unknown) > 0 {
		add("prune/state/unknown-object", Detail{Step: "prune-1", Unknown: unknown, After: &after})
	}
	if miss := after.Missing(sc.Must); len(miss) > 0 {
		add("prune/state/lost-live", Detail{Step: "prune-1", Missing: miss, After: &after})
	}
	if kept := after.Common(sc.Mnot); len(kept) > 0 {
		sig, lands := keptSig(u, &sc, after)
		add(sig, Detail{Step: "prune-1", Kept: kept, After: &after, LandsOn: lands})
	}
	if s := repo.RefsIntact(nil); s != "" {
		add("prune/refs/changed", Detail{Step: "prune-1", Refs: s})
	}
	usable := func(step string) {
		for _, c := range sc.Must.C {
			t := sc.Tab[c-1]
			if !has(sc.Must.T, t) {
				continue // shallow commit: its table never was there
			}
			if s := repo.Usable(u, c, t, has(sc.Must.P, t)); s != "" {
				add("prune/usable/unreadable", Detail{Step: step, Unusable: s})
				return
			}
		}
	}
	usable("prune-1")

	// the repeated prune
	r2 := repo.Run(mode)
	if strings.HasPrefix(r2.Err, "harness:") {
		return child.Inconclusive(fmt.Errorf("%s", r2.Err))
	}
	if r2.Crashed {
		sig := "prune/second-run/crash"
		if crashSig(&sc, r2.Panic) == "prune/crash/shallow-survivor" {
			sig = "prune/crash/shallow-survivor"
		}
		add(sig, Detail{Step: "prune-2", Panic: firstLines(r2.Panic, 14)})
		return verdict()
	}
	after2, unknown2, err := u.Project(repo.DB, repo.Commits)
	if err != nil {
		return child.Inconclusive(err)
	}
	if r2.Err != "" {
		add("prune/second-run/error", Detail{Step: "prune-2", Err: r2.Err})
	}
	if miss := after2.Missing(sc.Must); len(miss) > 0 {
		add("prune/second-run/lost-live", Detail{Step: "prune-2", Missing: miss, After: &after, After2: &after2})
	} else if len(unknown2) > 0 || !after2.Equal(after) {
		add("prune/second-run/not-idempotent", Detail{Step: "prune-2", After: &after, After2: &after2, Unknown: unknown2})
	}
	if s := repo.RefsIntact(nil); s != "" {
		add("prune/refs/changed", Detail{Step: "prune-2", Refs: s})
	}
	usable("prune-2")
	return verdict()
}
