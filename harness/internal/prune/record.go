package prune

import (
	"bufio"
	"encoding/json"
	"flag"
	"fmt"
	"math/rand"
	"os"
	"path/filepath"
	"sort"
	"strconv"
	"strings"
	"time"

	"github.com/wrgl/wrgl/pkg/ref"
)

// Event is one NDJSON line of a prune trace (use C); every line has every field.
//
//	reset  starts a trace
//	repo   the repository that was built for real: commits 1..n, parents, table of
//	       each commit, blocks of each table, the refs that were created
//	       [kind, commit, state] (state 1 = exists, 0 = created and deleted again,
//	       2 = ref of an in-progress transaction older than the transaction TTL),
//	       and the projected object store
//	prune  one run of the real code (mode lib = prune.Prune, cli = `wrgl prune`,
//	       gc = `wrgl gc`): the projected object store afterwards, whether it crashed,
//	       and the outcome of re-reading every commit that still has its table
type Event struct {
	Op      string          `json:"op"`
	Mode    string          `json:"mode"`
	N       int             `json:"n"`
	Par     [][]int         `json:"par"`
	Tab     []int           `json:"tab"`
	Blk     [][]int         `json:"blk"`
	KV      []int           `json:"kv"` // key variant per table: block indices are named block + 100 * variant
	Refs    [][]interface{} `json:"refs"`
	Objs    Objs            `json:"objs"`
	Crashed bool            `json:"crashed"`
	Err     string          `json:"err"`
	Unus    string          `json:"unus"`
	Unknown []string        `json:"unknown"`
	Panic   string          `json:"panic"`
	TTL     string          `json:"ttl"` // where a transaction TTL of 60 days is configured: "" (nowhere) | "local" | "global"
	// gc only: the machine's time zone (hours east of UTC) and whether the ages of the transactions lie three
	// hours from the TTL instead of days (what is expired and what is not does not depend on the zone)
	Zone int  `json:"zone"`
	Near bool `json:"near"`
}

func newEvent(op, mode string) *Event {
	e := &Event{Op: op, Mode: mode, Par: [][]int{}, Tab: []int{}, Blk: [][]int{}, KV: []int{}, Refs: [][]interface{}{}, Unknown: []string{}}
	e.Objs.norm()
	return e
}

type refDecl struct {
	Kind  string
	C     int
	State int
}

// repoDesc is everything needed to build one repository for real.
type repoDesc struct {
	Mode   string
	N      int
	Par    [][]int
	Tab    []int
	Blk    [][]int // table u (1-based) -> abstract blocks
	KV     []int   // table u (1-based) -> key variant
	Refs   []refDecl
	Before Objs // non-commit objects to copy from the template (+ all commits)
	TTL    string
	Zone   int
	Near   bool
}

func (d *repoDesc) event() *Event {
	e := newEvent("repo", d.Mode)
	e.N, e.Par, e.Tab, e.Blk, e.KV = d.N, d.Par, d.Tab, d.Blk, d.KV
	e.TTL, e.Zone, e.Near = d.TTL, d.Zone, d.Near
	for _, r := range d.Refs {
		e.Refs = append(e.Refs, []interface{}{r.Kind, r.C, r.State})
	}
	return e
}

func descFromEvent(e *Event) (*repoDesc, error) {
	d := &repoDesc{Mode: e.Mode, N: e.N, Par: e.Par, Tab: e.Tab, Blk: e.Blk, KV: e.KV, Before: e.Objs, TTL: e.TTL, Zone: e.Zone, Near: e.Near}
	for _, r := range e.Refs {
		if len(r) != 3 {
			return nil, fmt.Errorf("bad ref %v", r)
		}
		kind, _ := r[0].(string)
		c, _ := r[1].(float64)
		s, _ := r[2].(float64)
		d.Refs = append(d.Refs, refDecl{kind, int(c), int(s)})
	}
	return d, nil
}

func universeOf(blk [][]int, kv []int) (*Universe, error) {
	m, v := map[int][]int{}, map[int]int{}
	for i, b := range blk {
		m[i+1] = b
		if i < len(kv) {
			v[i+1] = kv[i]
		}
	}
	return BuildUniverse(m, v)
}

// keyVariants: in two families out of three, one or two tables get a twin that lists the same blocks under
// another primary key (same block objects, block indices of its own).
func keyVariants(rng *rand.Rand, blk [][]int) ([][]int, []int) {
	kv := make([]int, len(blk))
	if rng.Intn(3) == 0 {
		return blk, kv
	}
	for n := 1 + rng.Intn(2); n > 0; n-- {
		blk = append(blk, blk[rng.Intn(len(kv))])
		kv = append(kv, 1)
	}
	// twins of one table would be one table
	seen := map[string]bool{}
	var ob [][]int
	var ok []int
	for i := range blk {
		key := fmt.Sprint(blk[i], kv[i])
		if !seen[key] {
			seen[key] = true
			ob, ok = append(ob, blk[i]), append(ok, kv[i])
		}
	}
	return ob, ok
}

// randomTables draws m distinct tables over full blocks 1..k and tail blocks.
func randomTables(rng *rand.Rand, m, k int) [][]int {
	seen := map[string]bool{}
	var out [][]int
	for len(out) < m {
		nb := 1 + rng.Intn(4)
		set := map[int]bool{}
		for len(set) < nb {
			set[1+rng.Intn(k)] = true
		}
		var bl []int
		for b := range set {
			bl = append(bl, b)
		}
		sort.Ints(bl)
		if rng.Intn(3) == 0 {
			bl = append(bl, TailBase+rng.Intn(3))
		}
		key := fmt.Sprint(bl)
		if seen[key] {
			continue
		}
		seen[key] = true
		out = append(out, bl)
	}
	return out
}

var gcRepos int

var refKinds = []string{"head", "tag", "remote", "txn"}

func randomRepo(rng *rand.Rand, blk [][]int, kv []int, mode string) *repoDesc {
	d := &repoDesc{Mode: mode, Blk: blk, KV: kv}
	d.N = 10 + rng.Intn(21)
	if mode != "lib" && rng.Intn(2) == 0 {
		// the on-disk store behaves differently once a listing runs over more than a hundred keys
		// (iterators prefetch and recycle their items): some repositories of the command-line runs are large
		d.N = 110 + rng.Intn(40)
	}
	m := len(blk)
	// a few tables are popular: that is where sharing between live and dead commits comes from
	for c := 1; c <= d.N; c++ {
		var ps []int
		if c > 1 {
			switch x := rng.Intn(20); {
			case x < 2:
			case x < 14 || c == 2:
				ps = []int{c - 1 - rng.Intn(min(c-1, 3))}
			default:
				a := 1 + rng.Intn(c-1)
				b := 1 + rng.Intn(c-1)
				if a == b {
					ps = []int{a}
				} else {
					ps = []int{min(a, b), max(a, b)}
				}
			}
		}
		if ps == nil {
			ps = []int{}
		}
		d.Par = append(d.Par, ps)
		t := 1 + rng.Intn(m)
		switch rng.Intn(6) {
		case 0, 1:
			t = 1 + rng.Intn(min(m, 3))
		case 2:
			// the twins (if any) are the last tables: popular too, so that a twin and its original both have
			// live and dead commits
			t = m - rng.Intn(min(m, 2))
		}
		d.Tab = append(d.Tab, t)
	}
	// refs of every kind; some are created and deleted again; more near the tips
	nrefs := 1 + rng.Intn(6)
	if rng.Intn(12) == 0 {
		nrefs = 0
	}
	for i := 0; i < nrefs; i++ {
		c := 1 + rng.Intn(d.N)
		if rng.Intn(2) == 0 {
			c = d.N - rng.Intn(min(d.N, 4))
		}
		st := 1
		if rng.Intn(4) == 0 {
			st = 0
		}
		d.Refs = append(d.Refs, refDecl{refKinds[rng.Intn(4)], c, st})
	}
	if rng.Intn(3) == 0 {
		d.Refs = append(d.Refs, refDecl{"txn", 1 + rng.Intn(d.N), 2})
	}
	if mode == "gc" {
		gcRepos++
		d.Zone = []int{0, -8, 9, -3}[(gcRepos/2)%4]
		d.Near = gcRepos%2 == 1
		if d.Near {
			// a transaction that is open and three hours short of its TTL: its refs are roots
			d.Refs = append(d.Refs, refDecl{"txn", 1 + rng.Intn(d.N), 1})
		}
	}
	if mode == "gc" && gcRepos%3 != 0 {
		// a transaction TTL of 60 days configured in the repository or in the user's (global) configuration: a
		// transaction of 40 days is still open (state 3), its refs are roots like any other
		d.TTL = []string{"", "global", "local"}[gcRepos%3]
		d.Refs = append(d.Refs, refDecl{"txn", d.N - rng.Intn(min(d.N, 3)), 3})
	}
	// the store: absent tables (shallow commits), missing profiles, orphans left behind
	absent := map[int]bool{}
	for t := 1; t <= m; t++ {
		if rng.Intn(5) == 0 {
			absent[t] = true
		}
	}
	if rng.Intn(3) == 0 {
		absent = map[int]bool{} // a good share of complete repositories
	}
	inPresent := map[int]bool{}
	for t := 1; t <= m; t++ {
		if !absent[t] {
			for _, b := range blk[t-1] {
				inPresent[b] = true
			}
		}
	}
	blocks, bidx := map[int]bool{}, map[int]bool{}
	for t := 1; t <= m; t++ {
		if !absent[t] {
			d.Before.T = append(d.Before.T, t)
			d.Before.TI = append(d.Before.TI, t)
			if rng.Intn(6) != 0 {
				d.Before.P = append(d.Before.P, t)
			}
		} else {
			// what a never-fetched table may still have lying around
			if rng.Intn(5) == 0 {
				d.Before.TI = append(d.Before.TI, t)
			}
			if rng.Intn(5) == 0 {
				d.Before.P = append(d.Before.P, t)
			}
		}
		for _, b := range blk[t-1] {
			if inPresent[b] || rng.Intn(5) == 0 {
				blocks[b] = true
			}
			if !absent[t] || rng.Intn(5) == 0 {
				bidx[BIdx(b, kv[t-1])] = true
			}
		}
	}
	for b := range blocks {
		d.Before.B = append(d.Before.B, b)
	}
	for b := range bidx {
		d.Before.BI = append(d.Before.BI, b)
	}
	for c := 1; c <= d.N; c++ {
		d.Before.C = append(d.Before.C, c)
	}
	d.Before.norm()
	return d
}

func min(a, b int) int {
	if a < b {
		return a
	}
	return b
}

func max(a, b int) int {
	if a > b {
		return a
	}
	return b
}

// execute builds the repository for real, runs the real code twice and returns the
// trace lines (reset, repo, prune, prune).
func execute(u *Universe, d *repoDesc, scratch string) ([]*Event, error) {
	var repo *Repo
	var err error
	if d.Mode == "lib" {
		repo, err = NewMemRepo()
	} else {
		repo, err = NewDirRepo(scratch)
	}
	if err != nil {
		return nil, err
	}
	defer repo.Close()
	if d.TTL != "" {
		const ttl = "transactionTTL: 1440h0m0s\n"
		switch {
		case repo.Dir == "":
			return nil, fmt.Errorf("a configured TTL needs a directory repository")
		case d.TTL == "local":
			if err := os.WriteFile(filepath.Join(repo.Dir, "config.yaml"), []byte(ttl), 0644); err != nil {
				return nil, err
			}
		default:
			xdg := filepath.Join(filepath.Dir(repo.Dir), "xdg")
			if err := os.MkdirAll(filepath.Join(xdg, "wrgl"), 0755); err != nil {
				return nil, err
			}
			if err := os.WriteFile(filepath.Join(xdg, "wrgl", "config.yaml"), []byte(ttl), 0644); err != nil {
				return nil, err
			}
			old, had := os.LookupEnv("XDG_CONFIG_HOME")
			os.Setenv("XDG_CONFIG_HOME", xdg)
			defer func() {
				if had {
					os.Setenv("XDG_CONFIG_HOME", old)
				} else {
					os.Unsetenv("XDG_CONFIG_HOME")
				}
			}()
		}
	}
	nonCommit := d.Before
	if err := u.Populate(repo.DB, nonCommit); err != nil {
		return nil, err
	}
	for c := 1; c <= d.N; c++ {
		if err := repo.AddCommit(c, u.Tables[d.Tab[c-1]].Sum, d.Par[c-1]); err != nil {
			return nil, err
		}
	}
	gone := map[string]bool{}
	if d.Mode == "gc" && d.Zone != 0 {
		// the zone of the machine: the ref store keeps the begin of a transaction as the local wall clock
		oldLocal := time.Local
		time.Local = time.FixedZone(fmt.Sprintf("Z%+d", d.Zone), d.Zone*3600)
		defer func() { time.Local = oldLocal }()
	}
	ttlDays := 30 // conf.DefaultTransactionTTL
	if d.TTL != "" {
		ttlDays = 60
	}
	for i, r := range d.Refs {
		begin := time.Now()
		if r.State == 2 {
			begin = begin.Add(-40 * 24 * time.Hour) // older than conf.DefaultTransactionTTL (30 days)
			if d.TTL != "" {
				begin = begin.Add(-30 * 24 * time.Hour) // ... and than the configured 60 days
			}
			if d.Near {
				begin = time.Now().Add(-time.Duration(ttlDays)*24*time.Hour - 3*time.Hour)
			}
		}
		if r.State == 1 && r.Kind == "txn" && d.Near {
			begin = time.Now().Add(-time.Duration(ttlDays)*24*time.Hour + 3*time.Hour)
		}
		if r.State == 3 {
			begin = begin.Add(-40 * 24 * time.Hour)
		}
		name, err := repo.AddRef(r.Kind, r.C, strconv.Itoa(i), begin)
		if err != nil {
			return nil, err
		}
		if r.State == 0 {
			if err := ref.DeleteRef(repo.RS, name); err != nil {
				return nil, err
			}
			gone[name] = true
		}
		if r.State == 2 && d.Mode == "gc" {
			gone[name] = true // gc discards the expired transaction with its refs
		}
	}
	before, unknown, err := u.Project(repo.DB, repo.Commits)
	if err != nil {
		return nil, err
	}
	if len(unknown) > 0 || !before.Equal(d.Before) {
		// the harness built this store object by object: if its LISTING (what prune itself works from) names a
		// key twice, names a key the store does not hold, or changes from one call to the next, the store is
		// at fault, not the description
		if f := listingFault(repo.DB); f != "" {
			e := newEvent("storefault", d.Mode)
			e.Err = f
			return []*Event{e}, nil
		}
		return nil, fmt.Errorf("built store %+v (unknown %v) is not the described %+v", before, unknown, d.Before)
	}
	ev := d.event()
	ev.Objs = before
	out := []*Event{newEvent("reset", d.Mode), ev}
	hadProfile := map[int]bool{}
	for _, t := range before.P {
		hadProfile[t] = true
	}
	for run := 0; run < 2; run++ {
		res := repo.Run(d.Mode)
		if strings.HasPrefix(res.Err, "harness:") {
			return nil, fmt.Errorf("%s", res.Err)
		}
		e := newEvent("prune", d.Mode)
		e.Crashed, e.Err, e.Panic = res.Crashed, res.Err, firstLines(res.Panic, 12)
		after, unknown, err := u.Project(repo.DB, repo.Commits)
		if err != nil {
			return nil, err
		}
		e.Objs = after
		if unknown != nil {
			e.Unknown = unknown
		}
		// every commit that is still there together with its table must be fully readable
		if !res.Crashed {
			for _, c := range after.C {
				t := d.Tab[c-1]
				if !has(after.T, t) || !has(before.T, t) {
					continue
				}
				if s := repo.Usable(u, c, t, hadProfile[t]); s != "" {
					e.Unus = s
					break
				}
			}
			if e.Unus == "" {
				if s := repo.RefsIntact(gone); s != "" {
					e.Unus = s
				}
			}
		}
		out = append(out, e)
	}
	return out, nil
}

func writeEvents(w *bufio.Writer, evs []*Event) error {
	for _, e := range evs {
		b, err := json.Marshal(e)
		if err != nil {
			return err
		}
		w.Write(b)
		w.WriteByte('\n')
	}
	return nil
}

// Record: seeded random repositories (10-30 commits) -> one trace each.
func Record(args []string) error {
	fs := flag.NewFlagSet("record prune", flag.ContinueOnError)
	seed := fs.Int64("seed", 1, "seed")
	n := fs.Int("n", 30, "number of repositories")
	out := fs.String("out", "", "trace file")
	dir := fs.String("dir", "", "scratch directory for directory repositories")
	cliEvery := fs.Int("cli-every", 4, "every k-th repository goes through the real CLI (alternating prune / gc); 0 = never")
	reexec := fs.String("reexec", "", "re-execute the repo events of this trace file instead of generating")
	if err := fs.Parse(args); err != nil {
		return err
	}
	if *out == "" {
		return fmt.Errorf("--out required")
	}
	if *dir == "" {
		*dir = os.TempDir()
	}
	f, err := os.Create(*out)
	if err != nil {
		return err
	}
	defer f.Close()
	w := bufio.NewWriterSize(f, 1<<16)
	defer w.Flush()

	if *reexec != "" {
		in, err := os.Open(*reexec)
		if err != nil {
			return err
		}
		defer in.Close()
		sc := bufio.NewScanner(in)
		sc.Buffer(make([]byte, 1<<20), 1<<26)
		for sc.Scan() {
			var e Event
			if err := json.Unmarshal(sc.Bytes(), &e); err != nil {
				return err
			}
			if e.Op != "repo" {
				continue
			}
			d, err := descFromEvent(&e)
			if err != nil {
				return err
			}
			u, err := universeOf(d.Blk, d.KV)
			if err != nil {
				return err
			}
			evs, err := execute(u, d, *dir)
			if err != nil {
				return err
			}
			if err := writeEvents(w, evs); err != nil {
				return err
			}
		}
		return sc.Err()
	}

	rng := rand.New(rand.NewSource(*seed))
	var u *Universe
	var blk [][]int
	var kv []int
	for i := 0; i < *n; i++ {
		if i%10 == 0 { // a fresh family of tables every ten repositories
			blk, kv = keyVariants(rng, randomTables(rng, 6+rng.Intn(5), 5+rng.Intn(4)))
			if u, err = universeOf(blk, kv); err != nil {
				return err
			}
		}
		mode := "lib"
		if *cliEvery > 0 && i%*cliEvery == *cliEvery-1 {
			mode = "cli"
			if (i / *cliEvery)%2 == 1 {
				mode = "gc"
			}
		}
		d := randomRepo(rng, blk, kv, mode)
		evs, err := execute(u, d, *dir)
		if err != nil {
			return fmt.Errorf("repository %d: %v", i, err)
		}
		if err := writeEvents(w, evs); err != nil {
			return err
		}
	}
	return nil
}

