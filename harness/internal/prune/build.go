// Package prune binds spec/Prune.tla to the real pkg/prune.Prune (and the
// `wrgl prune` / `wrgl gc` commands): it builds real repositories from abstract
// descriptions, runs the real code and projects the real object store back to
// the abstract presence sets (c, t, ti, p, b, bi) the specification talks about.
//
// The oracle (which objects must exist / must be gone) is never computed here:
// it comes from TLC, either in the scenario line (use B) or by TLC validating
// the recorded before/after key sets (use C).
package prune

import (
	"bytes"
	"encoding/csv"
	"fmt"
	"io"
	"sort"
	"strings"
	"time"

	"github.com/go-logr/logr"
	"github.com/wrgl/wrgl/pkg/ingest"
	"github.com/wrgl/wrgl/pkg/objects"
	objmock "github.com/wrgl/wrgl/pkg/objects/mock"
	"github.com/wrgl/wrgl/pkg/sorter"
)

// key prefixes of pkg/objects/persistence.go (checked against objects.Prefixes()).
const (
	pBlk    = "blk/"
	pTbl    = "tbl/"
	pBlkIdx = "blkidx/"
	pTblIdx = "tblidx/"
	pCom    = "com/"
	pTblSum = "tblsum/"
)

func checkPrefixes() error {
	want := map[string]bool{pBlk: true, pTbl: true, pBlkIdx: true, pTblIdx: true, pCom: true, pTblSum: true}
	got := objects.Prefixes()
	if len(got) != len(want) {
		return fmt.Errorf("objects.Prefixes() = %v: the projection knows %d kinds", got, len(want))
	}
	for _, p := range got {
		if !want[p] {
			return fmt.Errorf("objects.Prefixes() has unknown prefix %q", p)
		}
	}
	return nil
}

// Objs is the abstract store: presence sets over small integers, sorted.
type Objs struct {
	C  []int `json:"c"`
	T  []int `json:"t"`
	TI []int `json:"ti"`
	P  []int `json:"p"`
	B  []int `json:"b"`
	BI []int `json:"bi"`
}

func (o *Objs) norm() {
	for _, s := range []*[]int{&o.C, &o.T, &o.TI, &o.P, &o.B, &o.BI} {
		if *s == nil {
			*s = []int{}
		}
		sort.Ints(*s)
	}
}

func (o Objs) kinds() map[string][]int {
	return map[string][]int{"c": o.C, "t": o.T, "ti": o.TI, "p": o.P, "b": o.B, "bi": o.BI}
}

var kindOrder = []string{"c", "t", "ti", "p", "b", "bi"}

func (o Objs) Equal(p Objs) bool {
	a, b := o.kinds(), p.kinds()
	for _, k := range kindOrder {
		if len(a[k]) != len(b[k]) {
			return false
		}
		for i := range a[k] {
			if a[k][i] != b[k][i] {
				return false
			}
		}
	}
	return true
}

func has(s []int, x int) bool {
	for _, y := range s {
		if y == x {
			return true
		}
	}
	return false
}

// Missing lists the members of want that are not in o ("c3", "bi2", ...).
func (o Objs) Missing(want Objs) []string {
	var out []string
	a, w := o.kinds(), want.kinds()
	for _, k := range kindOrder {
		for _, x := range w[k] {
			if !has(a[k], x) {
				out = append(out, fmt.Sprintf("%s%d", k, x))
			}
		}
	}
	return out
}

// Common lists the members of o that are also in other.
func (o Objs) Common(other Objs) []string {
	var out []string
	a, w := o.kinds(), other.kinds()
	for _, k := range kindOrder {
		for _, x := range w[k] {
			if has(a[k], x) {
				out = append(out, fmt.Sprintf("%s%d", k, x))
			}
		}
	}
	return out
}

// ---------------------------------------------------------------- real tables

const (
	FullBlock = 255 // objects.BlockSize
	TailBase  = 90  // abstract blocks >= TailBase are short and can only end a table
)

// BlockLen is the number of rows of abstract block j.
func BlockLen(j int) int {
	if j >= TailBase {
		return 40 + 7*(j-TailBase)
	}
	return FullBlock
}

// the key column is deliberately not the first one: code that takes "the first cells" for the key is wrong
// (the first column name starts with a byte order mark, as a CSV exported by a spreadsheet does: it is part of the name)
var Columns = []string{"\ufeffa", "k", "b"}

// RowsOfBlock: abstract block j is a fixed key range; the keys of block j sort
// before those of block j+1, so a table made of blocks j1 < j2 < ... has exactly
// these rows in its 1st, 2nd, ... real block.
func RowsOfBlock(j int) [][]string {
	n := BlockLen(j)
	rows := make([][]string, n)
	for i := 0; i < n; i++ {
		rows[i] = []string{fmt.Sprintf("v%d", j*1000+i), fmt.Sprintf("k%03d-%03d", j, i), fmt.Sprintf("w%d", (j*7+i*13)%97)}
	}
	return rows
}

type TableInfo struct {
	Abs      int
	Sum      []byte
	Blocks   []int // abstract block ids in table order
	BlockSum [][]byte
	IdxSum   [][]byte
}

// Universe holds every table of a scenario family, ingested for real into one
// template store, and the bijection real key <-> abstract id.
type Universe struct {
	Tmpl    *objmock.Store
	Tables  map[int]*TableInfo
	BlkSum  map[int][]byte // abstract block -> real block sum
	BIdxSum map[int][]byte // abstract block index (block + 100 * key variant of the table) -> real block-index sum
	KV      map[int]int    // table -> key variant
	abs     map[string]int // real key (with prefix) -> abstract id
}

// BIdx names the block index of abstract block b in a table of key variant kv.
func BIdx(b, kv int) int { return b + 100*kv }

func ingestBlocks(db objects.Store, blocks []int, kv int) ([]byte, error) {
	buf := bytes.NewBuffer(nil)
	w := csv.NewWriter(buf)
	w.Write(Columns)
	// rows are handed over in descending order: the sorter has to do its work
	for bi := len(blocks) - 1; bi >= 0; bi-- {
		rows := RowsOfBlock(blocks[bi])
		for i := len(rows) - 1; i >= 0; i-- {
			w.Write(rows[i])
		}
	}
	w.Flush()
	s, err := sorter.NewSorter()
	if err != nil {
		return nil, err
	}
	// composite key declared in another order than the columns (a, k, b): code that takes key cells in column
	// order is wrong; rows still sort by k first, so the block layout is the one described above
	pk := []string{"k", "\ufeffa"}
	if kv == 1 {
		// key variant 1: k alone (k is unique, so rows, row order and blocks are those of variant 0; the block
		// indices, which hash the key cells, are not)
		pk = []string{"k"}
	}
	return ingest.IngestTable(db, s, io.NopCloser(bytes.NewReader(buf.Bytes())), pk, logr.Discard())
}

// BuildUniverse ingests every table (abstract id -> ascending abstract blocks).
func BuildUniverse(tables map[int][]int, kv map[int]int) (*Universe, error) {
	if err := checkPrefixes(); err != nil {
		return nil, err
	}
	u := &Universe{Tmpl: objmock.NewStore(), Tables: map[int]*TableInfo{}, BlkSum: map[int][]byte{},
		BIdxSum: map[int][]byte{}, KV: kv, abs: map[string]int{}}
	ids := make([]int, 0, len(tables))
	for id := range tables {
		ids = append(ids, id)
	}
	sort.Ints(ids)
	for _, id := range ids {
		blocks := tables[id]
		for i := range blocks {
			if i > 0 && blocks[i-1] >= blocks[i] {
				return nil, fmt.Errorf("table %d: blocks not ascending: %v", id, blocks)
			}
			if blocks[i] >= TailBase && i != len(blocks)-1 {
				return nil, fmt.Errorf("table %d: short block %d is not last", id, blocks[i])
			}
		}
		sum, err := ingestBlocks(u.Tmpl, blocks, kv[id])
		if err != nil {
			return nil, fmt.Errorf("ingest of table %d: %v", id, err)
		}
		tbl, err := objects.GetTable(u.Tmpl, sum)
		if err != nil {
			return nil, err
		}
		if len(tbl.Blocks) != len(blocks) || len(tbl.BlockIndices) != len(blocks) {
			return nil, fmt.Errorf("table %d: %d real blocks for %d abstract ones", id, len(tbl.Blocks), len(blocks))
		}
		if k := pTbl + string(sum); u.abs[k] != 0 {
			return nil, fmt.Errorf("tables %d and %d have the same sum", u.abs[k], id)
		}
		ti := &TableInfo{Abs: id, Sum: sum, Blocks: blocks, BlockSum: tbl.Blocks, IdxSum: tbl.BlockIndices}
		u.Tables[id] = ti
		u.abs[pTbl+string(sum)] = id
		u.abs[pTblIdx+string(sum)] = id
		u.abs[pTblSum+string(sum)] = id
		for i, b := range blocks {
			for _, e := range []struct {
				m      map[int][]byte
				prefix string
				sum    []byte
				id     int
			}{{u.BlkSum, pBlk, tbl.Blocks[i], b}, {u.BIdxSum, pBlkIdx, tbl.BlockIndices[i], BIdx(b, kv[id])}} {
				if old, ok := e.m[e.id]; ok && !bytes.Equal(old, e.sum) {
					return nil, fmt.Errorf("abstract %s %d has two different objects: sharing is not real", e.prefix, e.id)
				}
				if other, ok := u.abs[e.prefix+string(e.sum)]; ok && other != e.id {
					return nil, fmt.Errorf("abstract %s %d and %d share one object", e.prefix, other, e.id)
				}
				e.m[e.id] = e.sum
				u.abs[e.prefix+string(e.sum)] = e.id
			}
		}
	}
	return u, nil
}

func copyObj(dst objects.Store, src objects.Store, key string) error {
	v, err := src.Get([]byte(key))
	if err != nil {
		return fmt.Errorf("template lacks %q: %v", key, err)
	}
	return dst.Set([]byte(key), v)
}

// Populate copies exactly the non-commit objects named by o from the template.
func (u *Universe) Populate(db objects.Store, o Objs) error {
	for _, e := range []struct {
		ids    []int
		prefix string
	}{{o.T, pTbl}, {o.TI, pTblIdx}, {o.P, pTblSum}} {
		for _, id := range e.ids {
			t, ok := u.Tables[id]
			if !ok {
				return fmt.Errorf("no table %d in the universe", id)
			}
			if err := copyObj(db, u.Tmpl, e.prefix+string(t.Sum)); err != nil {
				return err
			}
		}
	}
	for _, b := range o.B {
		if err := copyObj(db, u.Tmpl, pBlk+string(u.BlkSum[b])); err != nil {
			return err
		}
	}
	for _, b := range o.BI {
		if err := copyObj(db, u.Tmpl, pBlkIdx+string(u.BIdxSum[b])); err != nil {
			return err
		}
	}
	return nil
}

var baseTime = time.Date(2022, 3, 1, 12, 0, 0, 0, time.UTC)

// SaveCommit stores commit number i (1-based): distinct message, distinct second.
func SaveCommit(db objects.Store, i int, table []byte, parents [][]byte) ([]byte, *objects.Commit, error) {
	com := &objects.Commit{
		Table:       table,
		AuthorName:  "verif",
		AuthorEmail: "verif@example.com",
		Time:        baseTime.Add(time.Duration(i) * time.Second),
		Message:     fmt.Sprintf("commit %d", i),
		Parents:     parents,
	}
	buf := bytes.NewBuffer(nil)
	if _, err := com.WriteTo(buf); err != nil {
		return nil, nil, err
	}
	sum, err := objects.SaveCommit(db, buf.Bytes())
	return sum, com, err
}

// Project maps the real key set of db to abstract ids.  Keys that are nobody's
// image are returned in unknown (an object prune must have invented).
func (u *Universe) Project(db objects.Store, commits map[string]int) (o Objs, unknown []string, err error) {
	for _, e := range []struct {
		dst    *[]int
		prefix string
		list   func(objects.Store) ([][]byte, error)
	}{
		{&o.C, pCom, objects.GetAllCommitKeys},
		{&o.T, pTbl, objects.GetAllTableKeys},
		{&o.TI, pTblIdx, objects.GetAllTableIndexKeys},
		{&o.P, pTblSum, objects.GetAllTableProfileKeys},
		{&o.B, pBlk, objects.GetAllBlockKeys},
		{&o.BI, pBlkIdx, objects.GetAllBlockIndexKeys},
	} {
		keys, err := e.list(db)
		if err != nil {
			return o, nil, err
		}
		for _, k := range keys {
			var id int
			var ok bool
			if e.prefix == pCom {
				id, ok = commits[string(k)]
			} else {
				id, ok = u.abs[e.prefix+string(k)]
			}
			if !ok {
				unknown = append(unknown, fmt.Sprintf("%s%x", e.prefix, k))
				continue
			}
			*e.dst = append(*e.dst, id)
		}
	}
	o.norm()
	return o, unknown, nil
}

func rowsEqual(a, b [][]string) bool {
	if len(a) != len(b) {
		return false
	}
	for i := range a {
		if strings.Join(a[i], "\x00") != strings.Join(b[i], "\x00") {
			return false
		}
	}
	return true
}

// listingFault cross-checks the key listings of a store against its own point lookups.
func listingFault(db objects.Store) string {
	for _, e := range []struct {
		prefix string
		list   func(objects.Store) ([][]byte, error)
	}{
		{pCom, objects.GetAllCommitKeys}, {pTbl, objects.GetAllTableKeys}, {pTblIdx, objects.GetAllTableIndexKeys},
		{pTblSum, objects.GetAllTableProfileKeys}, {pBlk, objects.GetAllBlockKeys}, {pBlkIdx, objects.GetAllBlockIndexKeys},
	} {
		a, err := e.list(db)
		if err != nil {
			return ""
		}
		seen := map[string]bool{}
		for _, k := range a {
			if seen[string(k)] {
				return fmt.Sprintf("listing of %s names key %x twice (%d keys listed)", e.prefix, k, len(a))
			}
			seen[string(k)] = true
			if !db.Exist(append([]byte(e.prefix), k...)) {
				return fmt.Sprintf("listing of %s names key %x, which the store does not hold", e.prefix, k)
			}
		}
		b, err := e.list(db)
		if err != nil {
			return ""
		}
		if len(a) != len(b) {
			return fmt.Sprintf("two listings of %s give %d and %d keys", e.prefix, len(a), len(b))
		}
	}
	return ""
}
