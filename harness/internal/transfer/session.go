package transfer

import (
	"bytes"
	"fmt"
	"io"
	"runtime"
	"runtime/debug"
	"strings"
	"time"

	"github.com/go-logr/logr"
	apiutils "github.com/wrgl/wrgl/pkg/api/utils"
	"github.com/wrgl/wrgl/pkg/diff"
	"github.com/wrgl/wrgl/pkg/encoding/packfile"
	"github.com/wrgl/wrgl/pkg/objects"

	"verifharness/internal/prune"
	"verifharness/internal/tbl"
)

// Event is one NDJSON line of a transfer trace (spec/TraceTransfer.tla); every
// line has every field.
//
//	reset  starts a trace
//	scn    the session that was set up for real: commits 1..n, parents, table of each
//	       commit, blocks of each table, the commits to send (parent-first), the
//	       tables to send, the commits declared common, the projected source and
//	       destination stores, the packfile limit in bytes (0 = the default, 2 GiB)
//	pack   one packfile: its number, its objects [kind, id, bytes on the wire] as
//	       identified from their content, what WriteObjects said about being done;
//	       crafted = written with packfile.Writer by the harness (an adversary's)
//	recv   one object of the current packfile as the receiver dealt with it: ok = it
//	       was persisted (WithReceiverSaveObjectHook fired), otherwise Receive
//	       returned an error at this object
//	final  the projected destination store afterwards, byte-for-byte equality of
//	       commits / tables / blocks with the source, the outcome of re-reading every
//	       received table (indices, profile, diff against the original)
type Event struct {
	Op      string          `json:"op"`
	N       int             `json:"n"`
	Par     [][]int         `json:"par"`
	Tab     []int           `json:"tab"`
	Blk     [][]int         `json:"blk"`
	Send    []int           `json:"send"`
	Tts     []int           `json:"tts"`
	Common  []int           `json:"common"`
	Src     Objs            `json:"src"`
	Dst     Objs            `json:"dst"`
	Max     uint64          `json:"max"`
	Pack    int             `json:"pack"`
	Objs    [][]interface{} `json:"objs"`
	Done    bool            `json:"done"`
	Crafted bool            `json:"crafted"`
	Kind    string          `json:"kind"`
	ID      int             `json:"id"`
	OK      bool            `json:"ok"`
	Err     string          `json:"err"`
	Equal   bool            `json:"equal"`
	Problem string          `json:"problem"`
	Foreign []string        `json:"foreign"`
	RDone   bool            `json:"rdone"`
	Tag     string          `json:"tag"` // where the session came from (replayable), opaque to the spec
}

func newEvent(op string) *Event {
	e := &Event{Op: op, Par: [][]int{}, Tab: []int{}, Blk: [][]int{}, Send: []int{}, Tts: []int{}, Common: []int{},
		Objs: [][]interface{}{}, Foreign: []string{}}
	e.Src.norm()
	e.Dst.norm()
	return e
}

func ints(s []int) []int {
	if s == nil {
		return []int{}
	}
	return s
}

// Outcome is what one real session did, for the replay comparison (use B).
type Outcome struct {
	Events    []*Event
	Packs     [][]Obj // objects of every packfile, identified from content
	Accepted  []Obj   // objects the receiver persisted, in order (save hook)
	Rejected  *Obj    // the object at which Receive returned an error
	RejectErr string
	SenderErr string
	Panic     string
	NoEnd     bool // the sender never reported done
	HookDiff  string
	Final     Objs
	Foreign   []string
	BytesDiff string
	BytesKind string
	TableBad  string   // first problem re-reading a received table
	Received  []int    // tables that arrived (persisted by the receiver in this session)
	Obs       []*tbl.Obs
}

// scanPack lists the objects of a packfile with their size on the wire.
func (w *World) scanPack(b []byte) ([]Obj, []int, error) {
	cr := &countReader{r: bytes.NewReader(b)}
	pr, err := packfile.NewPackfileReader(io.NopCloser(cr))
	if err != nil {
		return nil, nil, err
	}
	var objs []Obj
	var sizes []int
	for {
		before := cr.n
		typ, payload, err := pr.ReadObject()
		if err != nil && err != io.EOF {
			return objs, sizes, err
		}
		if typ != 0 {
			objs = append(objs, w.Identify(typ, payload))
			sizes = append(sizes, cr.n-before)
		}
		if err == io.EOF {
			return objs, sizes, nil
		}
	}
}

type countReader struct {
	r io.Reader
	n int
}

func (c *countReader) Read(p []byte) (int, error) {
	n, err := c.r.Read(p)
	c.n += n
	return n, err
}

// Session describes one transfer.
type Session struct {
	Send    []int
	Tts     []int
	Common  []int
	Max     uint64
	Crafted []Obj // non-nil: no sender; one packfile with exactly these objects in this order
	Tag     string
	Observe bool // project every received table for Objects.tla (expensive: runs the doctor)
	Recv    objects.Store // the store the receiver writes through (nil: the destination itself); fault injection wraps it
}

func (w *World) scnEvent(s *Session, src Objs) *Event {
	e := newEvent("scn")
	e.N, e.Par, e.Tab = w.N, w.Par, w.Tab
	maxT := 0
	for id := range w.U.Tables {
		if id > maxT {
			maxT = id
		}
	}
	for id := 1; id <= maxT; id++ {
		if t, ok := w.U.Tables[id]; ok {
			e.Blk = append(e.Blk, t.Blocks)
		} else {
			e.Blk = append(e.Blk, []int{})
		}
	}
	e.Send, e.Tts, e.Common = ints(s.Send), ints(s.Tts), ints(s.Common)
	e.Src = src
	e.Max = s.Max
	e.Crafted = s.Crafted != nil
	e.Tag = s.Tag
	return e
}

// Run executes one session on the real code.  Panics on the calling goroutine are
// recovered and reported; panics elsewhere kill the child (attributed by the driver).
func (w *World) Run(s *Session) (out *Outcome) {
	out = &Outcome{}
	src, _, err := w.Project(w.Src)
	if err != nil {
		out.SenderErr = "harness: " + err.Error()
		return
	}
	d0, _, err := w.Project(w.Dst)
	if err != nil {
		out.SenderErr = "harness: " + err.Error()
		return
	}
	scn := w.scnEvent(s, src)
	scn.Dst = d0
	out.Events = append(out.Events, newEvent("reset"), scn)
	func() {
		defer func() {
			if p := recover(); p != nil {
				out.Panic = fmt.Sprintf("%v\n%s", p, firstLines(string(debug.Stack()), 30))
			}
		}()
		w.transfer(s, out)
	}()
	w.finish(s, out, d0)
	return
}

func (w *World) transfer(s *Session, out *Outcome) {
	var hooked []Obj
	var expected [][]byte
	for _, c := range s.Send {
		expected = append(expected, w.Sums[c])
	}
	var rdb objects.Store = w.Dst
	if s.Recv != nil {
		rdb = s.Recv
	}
	recv := apiutils.NewObjectReceiver(rdb, expected, logr.Discard(),
		apiutils.WithReceiverSaveObjectHook(func(typ int, sum []byte) {
			hooked = append(hooked, w.BySum(typ, append([]byte{}, sum...)))
		}))
	receive := func(n int, pack []byte, done bool) bool {
		objs, sizes, err := w.scanPack(pack)
		ev := newEvent("pack")
		ev.Pack, ev.Done, ev.Crafted, ev.Max = n, done, s.Crafted != nil, s.Max
		for i, o := range objs {
			ev.Objs = append(ev.Objs, []interface{}{o.Kind, o.ID, sizes[i]})
		}
		if err != nil {
			ev.Err = "unreadable packfile: " + err.Error()
		}
		out.Events = append(out.Events, ev)
		out.Packs = append(out.Packs, objs)
		pr, err := packfile.NewPackfileReader(io.NopCloser(bytes.NewReader(pack)))
		if err != nil {
			out.SenderErr = "packfile reader: " + err.Error()
			return false
		}
		hooked = hooked[:0]
		rdone, rerr := recv.Receive(pr, nil)
		for i, h := range hooked {
			e := newEvent("recv")
			e.Pack, e.Kind, e.ID, e.OK = n, h.Kind, h.ID, true
			out.Events = append(out.Events, e)
			out.Accepted = append(out.Accepted, h)
			if out.HookDiff == "" && (i >= len(objs) || objs[i] != h) {
				out.HookDiff = fmt.Sprintf("packfile %d object %d: the receiver reports %v", n, i, h)
			}
			if h.Kind == "t" {
				out.Received = append(out.Received, h.ID)
			}
		}
		if rerr != nil {
			e := newEvent("recv")
			e.Pack, e.Err = n, rerr.Error()
			rej := Obj{"?", 0}
			if len(hooked) < len(objs) {
				rej = objs[len(hooked)]
			}
			e.Kind, e.ID = rej.Kind, rej.ID
			out.Events = append(out.Events, e)
			out.Rejected, out.RejectErr = &rej, rerr.Error()
			return false
		}
		if out.HookDiff == "" && len(hooked) != len(objs) {
			out.HookDiff = fmt.Sprintf("packfile %d: %d objects, the receiver reports %d", n, len(objs), len(hooked))
		}
		out.Events[len(out.Events)-1-len(hooked)].RDone = rdone
		return true
	}

	if s.Crafted != nil {
		buf := bytes.NewBuffer(nil)
		pw, err := packfile.NewPackfileWriter(buf)
		if err != nil {
			out.SenderErr = "harness: " + err.Error()
			return
		}
		for _, o := range s.Crafted {
			typ, b, err := w.Content(o)
			if err != nil {
				out.SenderErr = "harness: " + err.Error()
				return
			}
			if _, err := pw.WriteObject(typ, b); err != nil {
				out.SenderErr = "harness: " + err.Error()
				return
			}
		}
		receive(1, buf.Bytes(), true)
		return
	}

	var toSend []*objects.Commit
	for _, c := range s.Send {
		com, err := objects.GetCommit(w.Src, w.Sums[c])
		if err != nil {
			out.SenderErr = "harness: " + err.Error()
			return
		}
		toSend = append(toSend, com)
	}
	tables := map[string]struct{}{}
	for _, u := range s.Tts {
		tables[string(w.U.Tables[u].Sum)] = struct{}{}
	}
	var common [][]byte
	for _, c := range s.Common {
		common = append(common, w.Sums[c])
	}
	sender, err := apiutils.NewObjectSender(w.Src, toSend, tables, common, s.Max)
	if err != nil {
		out.SenderErr = "NewObjectSender: " + err.Error()
		return
	}
	buf := bytes.NewBuffer(nil)
	for n := 1; ; n++ {
		buf.Reset()
		done, _, err := sender.WriteObjects(buf, nil)
		if err != nil {
			out.SenderErr = "WriteObjects: " + err.Error()
			return
		}
		if !receive(n, append([]byte{}, buf.Bytes()...), done) {
			return
		}
		if done {
			return
		}
		if n > 400+40*w.N {
			out.NoEnd = true
			return
		}
	}
}

// finish projects the destination and re-reads what arrived.
func (w *World) finish(s *Session, out *Outcome, d0 Objs) {
	fin := newEvent("final")
	fin.Tag = s.Tag
	var err error
	out.Final, out.Foreign, err = w.Project(w.Dst)
	if err != nil {
		out.SenderErr = "harness: " + err.Error()
	}
	fin.Dst = out.Final
	if out.Foreign != nil {
		fin.Foreign = out.Foreign
	}
	out.BytesDiff, out.BytesKind = w.CompareBytes()
	fin.Equal = out.BytesDiff == ""
	seen := map[int]bool{}
	for _, u := range out.Received {
		if seen[u] {
			continue
		}
		seen[u] = true
		if p := w.checkTable(u); p != "" && out.TableBad == "" {
			out.TableBad = p
		}
		if s.Observe {
			o := tbl.Observe(w.Dst, w.U.Tables[u].Sum, "receive")
			o.Src = s.Tag
			out.Obs = append(out.Obs, o)
		}
	}
	var probs []string
	for _, p := range []string{out.SenderErr, out.Panic, out.BytesDiff, out.TableBad, out.HookDiff} {
		if p != "" {
			probs = append(probs, firstLines(p, 3))
		}
	}
	if out.NoEnd {
		probs = append(probs, "the sender never reported done")
	}
	fin.Problem = strings.Join(probs, "; ")
	out.Events = append(out.Events, fin)
}

// checkTable re-reads table u of the destination the way diff / merge / export
// would: the table object, every rebuilt block index it records, the rebuilt table
// index, the rebuilt profile, and a real diff against the original that must be empty.
func (w *World) checkTable(u int) string {
	ti := w.U.Tables[u]
	t, err := objects.GetTable(w.Dst, ti.Sum)
	if err != nil {
		return fmt.Sprintf("t%d: GetTable: %v", u, err)
	}
	var bb []byte
	for i, s := range t.BlockIndices {
		var idx *objects.BlockIndex
		idx, bb, err = objects.GetBlockIndex(w.Dst, bb, s)
		if err != nil {
			return fmt.Sprintf("t%d: block index %d (bi%d): %v", u, i, ti.Blocks[i], err)
		}
		if idx.Len() != prune.BlockLen(ti.Blocks[i]) {
			return fmt.Sprintf("t%d: block index %d has %d entries", u, i, idx.Len())
		}
	}
	idx, err := objects.GetTableIndex(w.Dst, ti.Sum)
	if err != nil {
		return fmt.Sprintf("t%d: table index: %v", u, err)
	}
	if len(idx) != len(t.Blocks) {
		return fmt.Sprintf("t%d: table index has %d entries for %d blocks", u, len(idx), len(t.Blocks))
	}
	prof, err := objects.GetTableProfile(w.Dst, ti.Sum)
	if err != nil {
		return fmt.Sprintf("t%d: profile: %v", u, err)
	}
	if prof.RowsCount != t.RowsCount {
		return fmt.Sprintf("t%d: profile counts %d rows, the table %d", u, prof.RowsCount, t.RowsCount)
	}
	orig, err := objects.GetTable(w.U.Tmpl, ti.Sum)
	if err != nil {
		return "harness: " + err.Error()
	}
	origIdx, err := objects.GetTableIndex(w.U.Tmpl, ti.Sum)
	if err != nil {
		return "harness: " + err.Error()
	}
	errCh := make(chan error, 10)
	diffCh, _ := diff.DiffTables(w.Dst, w.U.Tmpl, t, orig, idx, origIdx, errCh, logr.Discard())
	n := 0
	for range diffCh {
		n++
	}
	waitDiffGoroutine()
	select {
	case err := <-errCh:
		return fmt.Sprintf("t%d: diff against the original: %v", u, err)
	default:
	}
	if n != 0 {
		return fmt.Sprintf("t%d: diff against the original reports %d differences", u, n)
	}
	return ""
}

// waitDiffGoroutine: DiffTables' goroutine closes its channel in a deferred call,
// i.e. also while unwinding a panic; wait until it is really gone so that a dying
// process dies with the right scenario in flight (see internal/diff).
var leaky bool

func waitDiffGoroutine() {
	buf := make([]byte, 1<<16)
	patience := 3 * time.Second
	if leaky {
		patience = 20 * time.Millisecond
	}
	deadline := time.Now().Add(patience)
	for n := 0; ; n++ {
		st := buf[:runtime.Stack(buf, true)]
		if !bytes.Contains(st, []byte("github.com/wrgl/wrgl/pkg/diff.")) {
			return
		}
		if time.Now().After(deadline) {
			leaky = true
			return
		}
		if n < 10 {
			runtime.Gosched()
		} else {
			time.Sleep(50 * time.Microsecond)
		}
	}
}

func firstLines(s string, n int) string {
	l := strings.SplitN(s, "\n", n+1)
	if len(l) > n {
		l = l[:n]
	}
	return strings.Join(l, "\n")
}
