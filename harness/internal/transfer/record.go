package transfer

import (
	"encoding/json"
	"fmt"
	"math/rand"
	"sort"

	"verifharness/internal/child"
	"verifharness/internal/prune"
)

// CaseSpec is one line of the case file of use (C): a seeded random history.
type CaseSpec struct {
	Seed int64 `json:"seed"`
	Idx  int   `json:"idx"`
	Obs  bool  `json:"obs"` // project every received table for Objects.tla
	Adv  bool  `json:"adv"` // end the history with a crafted (adversarial) packfile
}

// randomTables draws m distinct tables over full blocks 1..k, some ending in a short block.
func randomTables(rng *rand.Rand, m, k int) map[int][]int {
	seen := map[string]bool{}
	out := map[int][]int{}
	for len(out) < m {
		nb := 1 + rng.Intn(4)
		set := map[int]bool{}
		for len(set) < nb {
			set[1+rng.Intn(k)] = true
		}
		var bl []int
		for b := range set {
			bl = append(bl, b)
		}
		sort.Ints(bl)
		if rng.Intn(3) == 0 {
			bl = append(bl, prune.TailBase+rng.Intn(3))
		}
		key := fmt.Sprint(bl)
		if seen[key] {
			continue
		}
		seen[key] = true
		out[len(out)+1] = bl
	}
	return out
}

func minInt(a, b int) int {
	if a < b {
		return a
	}
	return b
}

var byteLimits = []uint64{1, 1, 50, 150, 200, 400, 1000, 2700, 3000, 5000, 8000, 20000, 0}

func sortedKeys(m map[int]bool) []int {
	out := []int{}
	for k, v := range m {
		if v {
			out = append(out, k)
		}
	}
	sort.Ints(out)
	return out
}

// RunCase builds one random history for real: 10-25 commits over 5-9 tables that
// reuse blocks and each other, a destination that already holds a prefix of the
// history (some of it shallow, some stray blocks), then one to three consecutive
// sends of the rest through the real sender / packfile / receiver with random byte
// limits, and possibly a crafted packfile at the end.
func RunCase(cs CaseSpec) (traces [][]*Event, obs []interface{}, err error) {
	rng := rand.New(rand.NewSource(cs.Seed*1000003 + int64(cs.Idx)))
	tables := randomTables(rng, 5+rng.Intn(5), 5+rng.Intn(4))
	u, err := prune.BuildUniverse(tables, nil)
	if err != nil {
		return nil, nil, err
	}
	m := len(tables)
	n := 10 + rng.Intn(16)
	var par [][]int
	var tab []int
	for c := 1; c <= n; c++ {
		ps := []int{}
		if c > 1 {
			switch x := rng.Intn(20); {
			case x < 2:
			case x < 14 || c == 2:
				ps = []int{c - 1 - rng.Intn(minInt(c-1, 3))}
			default:
				a, b := 1+rng.Intn(c-1), 1+rng.Intn(c-1)
				if a == b {
					ps = []int{a}
				} else if a < b {
					ps = []int{a, b}
				} else {
					ps = []int{b, a}
				}
			}
		}
		par = append(par, ps)
		t := 1 + rng.Intn(m)
		if rng.Intn(3) == 0 {
			t = 1 + rng.Intn(minInt(m, 3)) // a few popular tables: reuse
		}
		tab = append(tab, t)
	}
	// the source: complete, now and then lacking one table (a shallow source)
	srcAbsent := 0
	if rng.Intn(6) == 0 {
		srcAbsent = 1 + rng.Intn(m)
	}
	st, sb := map[int]bool{}, map[int]bool{}
	for t := 1; t <= m; t++ {
		if t != srcAbsent {
			st[t] = true
			for _, b := range tables[t] {
				sb[b] = true
			}
		}
	}
	src := Objs{T: sortedKeys(st), TI: sortedKeys(st), P: sortedKeys(st), B: sortedKeys(sb), BI: sortedKeys(sb)}
	for c := 1; c <= n; c++ {
		src.C = append(src.C, c)
	}
	// the destination: commits 1..k0, a random part of their tables complete, stray blocks
	k0 := rng.Intn(n/2 + 1)
	if rng.Intn(4) == 0 {
		k0 = 0
	}
	dt, db, dbi := map[int]bool{}, map[int]bool{}, map[int]bool{}
	for c := 1; c <= k0; c++ {
		if t := tab[c-1]; st[t] && rng.Intn(4) != 0 {
			dt[t] = true
			for _, b := range tables[t] {
				db[b], dbi[b] = true, true
			}
		}
	}
	for b := range sb {
		if rng.Intn(5) == 0 {
			db[b] = true
		}
	}
	d0 := Objs{T: sortedKeys(dt), TI: sortedKeys(dt), P: sortedKeys(dt), B: sortedKeys(db), BI: sortedKeys(dbi)}
	for c := 1; c <= k0; c++ {
		d0.C = append(d0.C, c)
	}
	src.norm()
	d0.norm()
	w, err := NewWorld(u, par, tab, src, d0, true)
	if err != nil {
		return nil, nil, err
	}
	tag := func(what string) string {
		b, _ := json.Marshal(map[string]interface{}{"case": cs, "session": what})
		return string(b)
	}
	// consecutive sends
	have := k0
	nsess := 1 + rng.Intn(3)
	for s := 0; s < nsess && have < n; s++ {
		upto := n
		if s < nsess-1 {
			upto = have + 1 + rng.Intn(n-have)
		}
		if cs.Adv && s == nsess-1 && upto == n && n-have > 1 {
			upto = n - 1 - rng.Intn(minInt(3, n-have-1)) // leave something for the crafted packfile
		}
		cur, _, err := w.Project(w.Dst)
		if err != nil {
			return nil, nil, err
		}
		sess := &Session{Max: byteLimits[rng.Intn(len(byteLimits))], Observe: cs.Obs, Tag: tag(fmt.Sprintf("send %d..%d", have+1, upto))}
		wanted := map[int]bool{}
		for c := have + 1; c <= upto; c++ {
			sess.Send = append(sess.Send, c)
			if rng.Intn(5) != 0 {
				wanted[tab[c-1]] = true
			}
		}
		if rng.Intn(2) == 0 {
			for c := have + 1; c <= upto; c++ {
				wanted[tab[c-1]] = true
			}
		}
		sess.Tts = sortedKeys(wanted)
		for c := 1; c <= have; c++ {
			if has(cur.T, tab[c-1]) && rng.Intn(2) == 0 {
				sess.Common = append(sess.Common, c)
			}
		}
		out := w.Run(sess)
		traces = append(traces, out.Events)
		for _, o := range out.Obs {
			obs = append(obs, o)
		}
		if out.Rejected != nil || out.SenderErr != "" || out.Panic != "" {
			return traces, obs, nil // TLC judges; nothing sensible can follow
		}
		have = upto
	}
	if cs.Adv && have < n {
		// the objects a complete send of the remaining commits would consist of, shuffled;
		// now and then a table replaced by its corrupted variant
		cur, _, err := w.Project(w.Dst)
		if err != nil {
			return nil, nil, err
		}
		var objs []Obj
		seenT, seenB := map[int]bool{}, map[int]bool{}
		for c := have + 1; c <= n; c++ {
			t := tab[c-1]
			if st[t] && !seenT[t] && !has(cur.T, t) {
				seenT[t] = true
				for _, b := range tables[t] {
					if !seenB[b] && !(has(cur.B, b) && rng.Intn(2) == 0) {
						seenB[b] = true
						objs = append(objs, Obj{"b", b})
					}
				}
				if rng.Intn(4) == 0 {
					if _, err := w.Corrupt(t); err != nil {
						return nil, nil, err
					}
					objs = append(objs, Obj{"xt", t})
				} else {
					objs = append(objs, Obj{"t", t})
				}
			}
			objs = append(objs, Obj{"c", c})
		}
		// mostly a light disturbance of the valid order, sometimes a full shuffle
		if rng.Intn(3) == 0 {
			rng.Shuffle(len(objs), func(i, j int) { objs[i], objs[j] = objs[j], objs[i] })
		} else {
			for k := 0; k < 1+rng.Intn(2); k++ {
				i, j := rng.Intn(len(objs)), rng.Intn(len(objs))
				objs[i], objs[j] = objs[j], objs[i]
			}
		}
		sess := &Session{Crafted: objs, Observe: cs.Obs, Tag: tag("crafted")}
		for c := have + 1; c <= n; c++ {
			sess.Send = append(sess.Send, c)
		}
		out := w.Run(sess)
		traces = append(traces, out.Events)
		for _, o := range out.Obs {
			obs = append(obs, o)
		}
	}
	return traces, obs, nil
}

// RecCase is the child handler of use (C): one case line -> traces on the side channel.
func RecCase(i int, raw []byte) child.Result {
	var cs CaseSpec
	if err := json.Unmarshal(raw, &cs); err != nil {
		return child.Inconclusive(err)
	}
	traces, obs, err := RunCase(cs)
	if err != nil {
		return child.Inconclusive(err)
	}
	for _, t := range traces {
		docs := make([]interface{}, len(t))
		for k, e := range t {
			docs[k] = e
		}
		child.EmitBatch("transfer", docs)
	}
	for _, o := range obs {
		child.Emit(o)
	}
	return child.Pass(fmt.Sprintf("sessions=%d", len(traces)))
}
