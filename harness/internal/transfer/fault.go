package transfer

import (
	"encoding/json"
	"fmt"
	"os"
	"strconv"
	"strings"

	"verifharness/internal/child"
	"verifharness/internal/tbl"
)

// ReplayFault (C13, receive: "every table that the repository reports as present is fully usable";
// C07: nothing from a refused object is left behind that was not there before): a "send" scenario is
// repeated with a write error injected at the k-th store write of the RECEIVER, for a spread of k.
// After the refused transfer every object the destination held before must still be there, and every
// table the destination holds - the ones it had before as well as the ones that arrived - must be
// fully usable (table object, rebuilt block indices, table index, profile, empty diff against the
// original).
func ReplayFault(i int, raw []byte) child.Result {
	u, err := fixedUniverse()
	if err != nil {
		return child.Inconclusive(err)
	}
	var sc Scenario
	if err := json.Unmarshal(raw, &sc); err != nil {
		return child.Inconclusive(fmt.Errorf("scenario %d: %v", i, err))
	}
	if sc.Fam != "send" {
		return child.Pass("-")
	}
	for _, o := range []*Objs{&sc.D0, &sc.Fin, &sc.Up} {
		o.norm()
	}
	n := len(sc.Tab)
	src := Objs{T: []int{1, 2, 3}, TI: []int{1, 2, 3}, P: []int{1, 2, 3}, B: []int{1, 2, 3, 4}, BI: []int{1, 2, 3, 4}}
	for c := 1; c <= n; c++ {
		src.C = append(src.C, c)
	}
	src.norm()
	var send []int
	for c := sc.K + 1; c <= n; c++ {
		send = append(send, c)
	}
	seed, _ := strconv.Atoi(os.Getenv("VERIF_SEED"))
	run := func(at int) (*World, *Outcome, *tbl.FaultSets, error) {
		w, err := NewWorld(u, sc.Par, sc.Tab, src, sc.D0, false)
		if err != nil {
			return nil, nil, nil, err
		}
		fs := &tbl.FaultSets{Store: w.Dst, At: at}
		out := w.Run(&Session{Send: send, Tts: sc.Tts, Common: sc.Com, Max: 0, Tag: string(raw), Recv: fs})
		return w, out, fs, nil
	}
	_, out0, fs0, err := run(0)
	if err != nil {
		return child.Inconclusive(err)
	}
	if out0.SenderErr != "" && strings.HasPrefix(out0.SenderErr, "harness:") {
		return child.Inconclusive(fmt.Errorf("%s", out0.SenderErr))
	}
	total := fs0.Sets()
	fired := 0
	for _, k := range tbl.FaultPoints(total, 8, seed+i) {
		w, out, fs, err := run(k)
		if err != nil {
			return child.Inconclusive(err)
		}
		if !fs.Fired() {
			continue
		}
		fired++
		ctx := map[string]interface{}{"fault_at_write": k, "writes_without_fault": total, "receiver_error": out.RejectErr}
		if out.Panic != "" {
			ctx["panic"] = out.Panic
			return child.Fail("transfer/fault/panic", ctx)
		}
		if lost := minus(sc.D0, out.Final, ""); len(lost) > 0 {
			ctx["lost"] = lost
			return child.Fail("transfer/fault/lost/"+strings.TrimRight(lost[0], "0123456789"), ctx)
		}
		for _, t := range out.Final.T {
			if p := w.checkTable(t); p != "" {
				ctx["table"], ctx["problem"] = t, p
				ctx["held_before"] = has(sc.D0.T, t)
				return child.Fail("transfer/fault/table-unusable", ctx)
			}
		}
	}
	if fired == 0 {
		return child.Pass("nofault")
	}
	return child.Pass("fault")
}
