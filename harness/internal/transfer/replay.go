package transfer

import (
	"encoding/json"
	"fmt"
	"os"
	"strconv"
	"strings"
	"sync"

	"verifharness/internal/child"
	"verifharness/internal/prune"
)

var (
	fixedOnce sync.Once
	fixedU    *prune.Universe
	fixedErr  error
)

// the table universe of spec/TransferGen.tla: T1 = {b1,b2}, T2 = {b2,b3}, T3 = {b4}
func fixedUniverse() (*prune.Universe, error) {
	fixedOnce.Do(func() {
		fixedU, fixedErr = prune.BuildUniverse(prune.FixedTables, prune.FixedKV)
		if fixedErr == nil {
			t1, t2 := fixedU.Tables[1], fixedU.Tables[2]
			if string(t1.BlockSum[1]) != string(t2.BlockSum[0]) || string(t1.IdxSum[1]) != string(t2.IdxSum[0]) {
				fixedErr = fmt.Errorf("T1 and T2 do not share block b2 in the real store")
			}
		}
	})
	return fixedU, fixedErr
}

// Scenario is one SCN line of spec/TransferGen.tla (either family).
type Scenario struct {
	Fam string  `json:"fam"`
	Par [][]int `json:"par"`
	Tab []int   `json:"tab"`
	K   int     `json:"k"`
	Tts []int   `json:"tts"`
	Com []int   `json:"com"`
	D0  Objs    `json:"d0"`
	Fin Objs    `json:"fin"`
	Up  Objs    `json:"up"`
	// family "adv"
	Ord []json.RawMessage `json:"ord"`
	Acc int               `json:"acc"`
	Rej json.RawMessage   `json:"rej"`
	// set by the driver when a replay file is re-executed
	Limits []uint64 `json:"limits,omitempty"`
}

func parseObj(raw json.RawMessage) (Obj, error) {
	var pair []json.RawMessage
	if err := json.Unmarshal(raw, &pair); err != nil || len(pair) != 2 {
		return Obj{}, fmt.Errorf("bad object %s", raw)
	}
	var o Obj
	if err := json.Unmarshal(pair[0], &o.Kind); err != nil {
		return o, err
	}
	if err := json.Unmarshal(pair[1], &o.ID); err != nil {
		return o, err
	}
	return o, nil
}

// Detail is what a failing scenario reports (expected vs observed).
type Detail struct {
	Limit     uint64   `json:"limit"`
	Packs     []string `json:"packs,omitempty"`
	Accepted  []string `json:"accepted,omitempty"`
	Rejected  string   `json:"rejected,omitempty"`
	RejectErr string   `json:"reject_err,omitempty"`
	Expected  string   `json:"expected,omitempty"`
	Missing   []string `json:"missing,omitempty"`
	Extra     []string `json:"extra,omitempty"`
	Foreign   []string `json:"foreign,omitempty"`
	Final     *Objs    `json:"final,omitempty"`
	Problem   string   `json:"problem,omitempty"`
	Also      []string `json:"also,omitempty"`
}

// real packfile limits in bytes.  On the fixed universe a commit is ~110-150 bytes on
// the wire, a table ~120-160, a block ~2.6-2.7 KB: limit 1 closes after every object;
// 200 after a commit+table pair or any block; 3000 and 6000 cut inside a table's
// blocks / between commits; 0 = the default (2 GiB): one packfile.
var allLimits = []uint64{1, 200, 3000, 6000, 0}

func limitsFor(i int, sc *Scenario) []uint64 {
	if len(sc.Limits) > 0 {
		return sc.Limits
	}
	if os.Getenv("TRANSFER_LIMITS") == "all" {
		return allLimits
	}
	return []uint64{allLimits[i%len(allLimits)]}
}

func envInt(name string, def int) int {
	if n, err := strconv.Atoi(os.Getenv(name)); err == nil {
		return n
	}
	return def
}

var (
	obsEvery   = envInt("TRANSFER_OBS_EVERY", 0)
	traceEvery = envInt("TRANSFER_TRACE_EVERY", 0)
)

func objStrings(os []Obj) []string {
	out := make([]string, len(os))
	for i, o := range os {
		out[i] = o.String()
	}
	return out
}

func packStrings(ps [][]Obj) []string {
	out := make([]string, len(ps))
	for i, p := range ps {
		out[i] = strings.Join(objStrings(p), " ")
	}
	return out
}

type failure struct {
	sig    string
	detail Detail
}

func detailOf(limit uint64, out *Outcome) Detail {
	d := Detail{Limit: limit, Packs: packStrings(out.Packs), Accepted: objStrings(out.Accepted), RejectErr: out.RejectErr,
		Foreign: out.Foreign}
	if out.Rejected != nil {
		d.Rejected = out.Rejected.String()
	}
	f := out.Final
	d.Final = &f
	return d
}

// common problems of any session: crashes, foreign objects, bytes, unusable tables
func generic(limit uint64, out *Outcome, add func(string, Detail)) bool {
	if strings.HasPrefix(out.SenderErr, "harness:") {
		return false
	}
	d := detailOf(limit, out)
	if out.Panic != "" {
		d.Problem = out.Panic
		add("transfer/crash/panic", d)
	}
	if out.SenderErr != "" {
		d.Problem = out.SenderErr
		add("transfer/send/sender-error", d)
	}
	if out.NoEnd {
		add("transfer/send/never-done", d)
	}
	if len(out.Foreign) > 0 {
		add("transfer/state/foreign-object", d)
	}
	if out.BytesDiff != "" {
		d.Problem = out.BytesDiff
		add("transfer/state/bytes-differ/"+out.BytesKind, d)
	}
	if out.TableBad != "" {
		d.Problem = out.TableBad
		add("transfer/table/unusable", d)
	}
	if out.HookDiff != "" {
		d.Problem = out.HookDiff
		add("transfer/recv/hook-mismatch", d)
	}
	return true
}

func sendClass(sc *Scenario) string {
	nt := 0
	for _, t := range sc.Fin.T {
		if !has(sc.D0.T, t) {
			nt++
		}
	}
	if nt == 0 {
		return "-"
	}
	c := fmt.Sprintf("tables=%d", nt)
	if has(sc.Fin.T, 1) && has(sc.Fin.T, 2) && !(has(sc.D0.T, 1) && has(sc.D0.T, 2)) {
		c += "+shared-block"
	}
	if len(sc.Com) > 0 {
		c += "+common"
	}
	if len(sc.D0.B) > 0 {
		c += "+prepopulated"
	}
	for _, p := range sc.Par[sc.K:] {
		if len(p) > 1 {
			c += "+merge"
			break
		}
	}
	if len(sc.Tts) < len(uniq(sc.Tab[sc.K:])) {
		c += "+table-not-wanted"
	}
	return c
}

func uniq(s []int) []int {
	var out []int
	for _, x := range s {
		if !has(out, x) {
			out = append(out, x)
		}
	}
	return out
}

func emitTrace(out *Outcome) {
	docs := make([]interface{}, len(out.Events))
	for i, e := range out.Events {
		docs[i] = e
	}
	child.EmitBatch("transfer", docs)
}

func emitObs(out *Outcome) {
	for _, o := range out.Obs {
		child.Emit(o)
	}
}

// Replay executes one scenario of TransferGen on the real code.
func Replay(i int, raw []byte) child.Result {
	u, err := fixedUniverse()
	if err != nil {
		return child.Inconclusive(err)
	}
	var sc Scenario
	if err := json.Unmarshal(raw, &sc); err != nil {
		return child.Inconclusive(fmt.Errorf("scenario %d: %v", i, err))
	}
	for _, o := range []*Objs{&sc.D0, &sc.Fin, &sc.Up} {
		o.norm()
	}
	n := len(sc.Tab)
	src := Objs{T: []int{1, 2, 3}, TI: []int{1, 2, 3}, P: []int{1, 2, 3}, B: []int{1, 2, 3, 4}, BI: []int{1, 2, 3, 4}}
	for c := 1; c <= n; c++ {
		src.C = append(src.C, c)
	}
	src.norm()
	var fails []failure
	add := func(sig string, d Detail) { fails = append(fails, failure{sig, d}) }
	tag := string(raw)
	wantObs := obsEvery > 0 && i%obsEvery == 0
	wantTrace := traceEvery > 0 && i%traceEvery == 0

	switch sc.Fam {
	case "send":
		var send []int
		for c := sc.K + 1; c <= n; c++ {
			send = append(send, c)
		}
		for li, limit := range limitsFor(i, &sc) {
			w, err := NewWorld(u, sc.Par, sc.Tab, src, sc.D0, false)
			if err != nil {
				return child.Inconclusive(err)
			}
			out := w.Run(&Session{Send: send, Tts: sc.Tts, Common: sc.Com, Max: limit, Tag: tag, Observe: wantObs && li == 0})
			if !generic(limit, out, add) {
				return child.Inconclusive(fmt.Errorf("%s", out.SenderErr))
			}
			d := detailOf(limit, out)
			if out.Rejected != nil {
				// the sender's own order was refused by the receiver
				add("transfer/send/order-rejected/"+out.Rejected.Kind, d)
			}
			if miss := minus(sc.Fin, out.Final, ""); len(miss) > 0 {
				d.Missing = miss
				add("transfer/send/missing/"+strings.TrimRight(miss[0], "0123456789"), d)
			}
			if extra := minus(out.Final, sc.Up, ""); len(extra) > 0 {
				d.Extra = extra
				add("transfer/send/invented/"+strings.TrimRight(extra[0], "0123456789"), d)
			}
			if wantTrace && li == 0 {
				emitTrace(out)
			}
			emitObs(out)
			if len(fails) > 0 {
				break
			}
		}
		if len(fails) == 0 {
			return child.Pass(sendClass(&sc))
		}
	case "adv":
		var order []Obj
		for _, r := range sc.Ord {
			o, err := parseObj(r)
			if err != nil {
				return child.Inconclusive(err)
			}
			order = append(order, o)
		}
		rej, err := parseObj(sc.Rej)
		if err != nil {
			return child.Inconclusive(err)
		}
		w, err := NewWorld(u, sc.Par, sc.Tab, src, sc.D0, false)
		if err != nil {
			return child.Inconclusive(err)
		}
		for _, o := range order {
			if o.Kind == "xt" {
				if _, err := w.Corrupt(o.ID); err != nil {
					return child.Inconclusive(err)
				}
			}
		}
		out := w.Run(&Session{Crafted: order, Tag: tag, Observe: wantObs})
		if !generic(0, out, add) {
			return child.Inconclusive(fmt.Errorf("%s", out.SenderErr))
		}
		d := detailOf(0, out)
		if rej.Kind == "" {
			d.Expected = fmt.Sprintf("all %d objects accepted", sc.Acc)
		} else {
			d.Expected = fmt.Sprintf("%d objects accepted, then %v rejected", sc.Acc, rej)
		}
		switch {
		case len(out.Accepted) > sc.Acc:
			// something the specification refuses was persisted (e.g. a commit whose parent is missing)
			add("transfer/adv/accepted-unacceptable/"+rej.Kind, d)
		case len(out.Accepted) < sc.Acc || (rej.Kind == "" && out.Rejected != nil):
			k := "?"
			if out.Rejected != nil {
				k = out.Rejected.Kind
			}
			add("transfer/adv/rejected-acceptable/"+k, d)
		case rej.Kind != "" && out.Rejected == nil:
			add("transfer/adv/accepted-unacceptable/"+rej.Kind, d)
		default:
			// same prefix: the destination must be what the specification says; block indices
			// of blocks that are there may have been rebuilt before a table was refused
			miss := minus(sc.Fin, out.Final, "")
			extra := minus(out.Final, sc.Fin, "bi")
			var xbi []string
			for _, b := range out.Final.BI {
				if !has(sc.Fin.BI, b) && !(strings.HasSuffix(rej.Kind, "t") && has(prune.FixedTables[rej.ID], b) && has(sc.Fin.B, b)) {
					xbi = append(xbi, fmt.Sprintf("bi%d", b))
				}
			}
			d.Missing, d.Extra = miss, append(extra, xbi...)
			switch {
			case len(miss) == 0 && len(xbi) == 0 && len(extra) == 1 && rej.Kind == "t" && extra[0] == fmt.Sprintf("t%d", rej.ID):
				add("transfer/reject/table-left-stored/missing-block", d)
			case len(miss) == 0 && len(xbi) == 0 && len(extra) == 1 && rej.Kind == "xt" && extra[0] == fmt.Sprintf("x%d", rej.ID):
				add("transfer/reject/table-left-stored/index-mismatch", d)
			case len(miss) > 0 || len(extra) > 0 || len(xbi) > 0:
				if rej.Kind != "" {
					add("transfer/reject/state/"+rej.Kind, d)
				} else {
					add("transfer/adv/state", d)
				}
			}
		}
		if wantTrace {
			emitTrace(out)
		}
		emitObs(out)
		if len(fails) == 0 {
			if rej.Kind == "" {
				return child.Pass("-")
			}
			return child.Pass("rejects-" + rej.Kind)
		}
	default:
		return child.Inconclusive(fmt.Errorf("scenario %d: unknown family %q", i, sc.Fam))
	}
	// report a failure that is not the known deviation first
	pick := 0
	for k, f := range fails {
		if !strings.HasPrefix(f.sig, "transfer/reject/table-left-stored/") {
			pick = k
			break
		}
	}
	d := fails[pick].detail
	for k, f := range fails {
		if k != pick {
			d.Also = append(d.Also, f.sig)
		}
	}
	return child.Fail(fails[pick].sig, d)
}
