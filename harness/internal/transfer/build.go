// Package transfer binds spec/Transfer.tla (property C07) to the real
// pkg/api/utils ObjectSender -> pkg/encoding/packfile -> ObjectReceiver path.
//
// It builds a real source store and a real, partly pre-populated destination
// store out of tables that genuinely share 255-row blocks (the universe helpers
// of the prune engine: abstract block j = a fixed key range, ingested through
// the real ingest pipeline), runs the real sender / packfile reader / receiver,
// and projects what happened (objects per packfile, objects the receiver
// persisted or refused, the destination's key set) back to the abstract ids the
// specification talks about.
//
// The oracle is never computed here: expected stores / accepted prefixes come
// from TLC in the scenario line (use B), or TLC validates the recorded events
// (use C).  What this package decides on its own is only equality of bytes
// (source value == destination value under the same key) and the outcome of the
// repository's own readers (diff, table/index/profile decoders).
package transfer

import (
	"bytes"
	"encoding/hex"
	"fmt"
	"sort"
	"strings"
	"time"

	"github.com/klauspost/compress/s2"
	"github.com/pckhoi/meow"
	"github.com/wrgl/wrgl/pkg/encoding/packfile"
	"github.com/wrgl/wrgl/pkg/objects"
	objmock "github.com/wrgl/wrgl/pkg/objects/mock"

	"verifharness/internal/prune"
)

// Objs is the abstract store of spec/Transfer.tla: presence sets, sorted.
// X = corrupted table variants (by the id of the table they were made from).
type Objs struct {
	C  []int `json:"c"`
	T  []int `json:"t"`
	TI []int `json:"ti"`
	P  []int `json:"p"`
	B  []int `json:"b"`
	BI []int `json:"bi"`
	X  []int `json:"x"`
}

func (o *Objs) norm() {
	for _, s := range o.ptrs() {
		if *s == nil {
			*s = []int{}
		}
		sort.Ints(*s)
	}
}

func (o *Objs) ptrs() []*[]int { return []*[]int{&o.C, &o.T, &o.TI, &o.P, &o.B, &o.BI, &o.X} }

var kindNames = []string{"c", "t", "ti", "p", "b", "bi", "x"}

func (o Objs) sets() [][]int { return [][]int{o.C, o.T, o.TI, o.P, o.B, o.BI, o.X} }

func has(s []int, x int) bool {
	for _, y := range s {
		if y == x {
			return true
		}
	}
	return false
}

// minus lists "<kind><id>" for the members of a that b lacks; kinds in skip are ignored.
func minus(a, b Objs, skip string) []string {
	var out []string
	as, bs := a.sets(), b.sets()
	for k, name := range kindNames {
		if name == skip {
			continue
		}
		for _, x := range as[k] {
			if !has(bs[k], x) {
				out = append(out, fmt.Sprintf("%s%d", name, x))
			}
		}
	}
	return out
}

func (o Objs) toPrune() prune.Objs {
	return prune.Objs{C: o.C, T: o.T, TI: o.TI, P: o.P, B: o.B, BI: o.BI}
}

// Obj is an object on the wire: kind "b", "t", "xt" (corrupted table), "c".
type Obj struct {
	Kind string
	ID   int
}

func (o Obj) String() string { return fmt.Sprintf("%s%d", o.Kind, o.ID) }

// World is one real source store and one real destination store over a universe.
type World struct {
	U      *prune.Universe
	N      int
	Par    [][]int
	Tab    []int
	Src    *objmock.Store
	Dst    *objmock.Store
	Sums   map[int][]byte // commit id -> real sum
	byCom  map[string]int // real commit sum -> id
	byTbl  map[string]int
	byBlk  map[string]int
	xsum   map[string]int // sum of a corrupted table variant -> table id
	xbytes map[int][]byte
	D0     Objs
}

var zones = []*time.Location{time.UTC, time.FixedZone("", 7*3600), time.FixedZone("", -(9*3600 + 30*60)), time.FixedZone("", 5*3600+45*60)}

// saveCommit stores commit i; fancy commits get other time zones, longer messages
// and authors (the sender re-encodes commits: they must come out byte-identical).
func saveCommit(db objects.Store, i int, table []byte, parents [][]byte, fancy bool) ([]byte, error) {
	if !fancy {
		sum, _, err := prune.SaveCommit(db, i, table, parents)
		return sum, err
	}
	com := &objects.Commit{
		Table:       table,
		AuthorName:  []string{"verif", "Ünï Cødé", "a", "名前"}[i%4],
		AuthorEmail: "verif@example.com",
		Time:        time.Date(2022, 3, 1, 12, 0, i, 0, time.UTC).In(zones[i%len(zones)]),
		Message:     fmt.Sprintf("commit %d%s", i, strings.Repeat("\nline é", i%5)),
		Parents:     parents,
	}
	buf := bytes.NewBuffer(nil)
	if _, err := com.WriteTo(buf); err != nil {
		return nil, err
	}
	return objects.SaveCommit(db, buf.Bytes())
}

// NewWorld builds the source store (the non-commit objects of src, every commit
// 1..n) and the destination store (d0; its commits are copies of the source's).
func NewWorld(u *prune.Universe, par [][]int, tab []int, src Objs, d0 Objs, fancy bool) (*World, error) {
	w := &World{U: u, N: len(tab), Par: par, Tab: tab, Src: objmock.NewStore(), Dst: objmock.NewStore(),
		Sums: map[int][]byte{}, byCom: map[string]int{}, byTbl: map[string]int{}, byBlk: map[string]int{},
		xsum: map[string]int{}, xbytes: map[int][]byte{}, D0: d0}
	for id, t := range u.Tables {
		w.byTbl[string(t.Sum)] = id
	}
	for b, s := range u.BlkSum {
		w.byBlk[string(s)] = b
	}
	sp := src.toPrune()
	sp.C = nil
	if err := u.Populate(w.Src, sp); err != nil {
		return nil, err
	}
	for c := 1; c <= w.N; c++ {
		t, ok := u.Tables[tab[c-1]]
		if !ok {
			return nil, fmt.Errorf("commit %d names unknown table %d", c, tab[c-1])
		}
		var ps [][]byte
		for _, p := range par[c-1] {
			s, ok := w.Sums[p]
			if !ok {
				return nil, fmt.Errorf("commit %d: parent %d is not an earlier commit", c, p)
			}
			ps = append(ps, s)
		}
		sum, err := saveCommit(w.Src, c, t.Sum, ps, fancy)
		if err != nil {
			return nil, err
		}
		if other, dup := w.byCom[string(sum)]; dup {
			return nil, fmt.Errorf("commits %d and %d collide", other, c)
		}
		w.Sums[c] = sum
		w.byCom[string(sum)] = c
	}
	dp := d0.toPrune()
	dp.C = nil
	if err := u.Populate(w.Dst, dp); err != nil {
		return nil, err
	}
	for _, c := range d0.C {
		key := append([]byte("com/"), w.Sums[c]...)
		v, err := w.Src.Get(key)
		if err != nil {
			return nil, fmt.Errorf("destination commit %d is not a commit of the source", c)
		}
		w.Dst.Set(key, v)
	}
	got, foreign, err := w.Project(w.Dst)
	if err != nil {
		return nil, err
	}
	d0.norm()
	if len(foreign) > 0 || len(minus(got, d0, "")) > 0 || len(minus(d0, got, "")) > 0 {
		return nil, fmt.Errorf("built destination %+v (foreign %v) is not the described %+v", got, foreign, d0)
	}
	return w, nil
}

// Corrupt returns the bytes of table u with the recorded sum of its last block
// index altered: a different, well-formed table object that must not be accepted.
func (w *World) Corrupt(u int) ([]byte, error) {
	if b, ok := w.xbytes[u]; ok {
		return b, nil
	}
	ti, ok := w.U.Tables[u]
	if !ok {
		return nil, fmt.Errorf("no table %d", u)
	}
	t, err := objects.GetTable(w.U.Tmpl, ti.Sum)
	if err != nil {
		return nil, err
	}
	last := len(t.BlockIndices) - 1
	bad := append([]byte{}, t.BlockIndices[last]...)
	bad[0] ^= 0x5a
	t.BlockIndices[last] = bad
	buf := bytes.NewBuffer(nil)
	if _, err := t.WriteTo(buf); err != nil {
		return nil, err
	}
	sum := meow.Checksum(0, buf.Bytes())
	w.xsum[string(sum[:])] = u
	w.xbytes[u] = buf.Bytes()
	return buf.Bytes(), nil
}

// Content returns the packfile type and payload of an object as the source holds it.
func (w *World) Content(o Obj) (int, []byte, error) {
	switch o.Kind {
	case "c":
		b, err := w.Src.Get(append([]byte("com/"), w.Sums[o.ID]...))
		return packfile.ObjectCommit, b, err
	case "t":
		ti, ok := w.U.Tables[o.ID]
		if !ok {
			return 0, nil, fmt.Errorf("no table %d", o.ID)
		}
		b, err := w.U.Tmpl.Get(append([]byte("tbl/"), ti.Sum...))
		return packfile.ObjectTable, b, err
	case "xt":
		b, err := w.Corrupt(o.ID)
		return packfile.ObjectTable, b, err
	case "b":
		s, ok := w.U.BlkSum[o.ID]
		if !ok {
			return 0, nil, fmt.Errorf("no block %d", o.ID)
		}
		b, err := objects.GetBlockBytes(w.U.Tmpl, s)
		return packfile.ObjectBlock, b, err
	}
	return 0, nil, fmt.Errorf("unknown object kind %q", o.Kind)
}

// Identify names a packfile object by its content alone (not by what the sender
// says it is): the identifier under which the repository would store it.
func (w *World) Identify(typ int, payload []byte) Obj {
	switch typ {
	case packfile.ObjectCommit:
		s := meow.Checksum(0, payload)
		if c, ok := w.byCom[string(s[:])]; ok {
			return Obj{"c", c}
		}
		return Obj{"?c", 0}
	case packfile.ObjectTable:
		s := meow.Checksum(0, payload)
		if u, ok := w.byTbl[string(s[:])]; ok {
			return Obj{"t", u}
		}
		if u, ok := w.xsum[string(s[:])]; ok {
			return Obj{"xt", u}
		}
		return Obj{"?t", 0}
	case packfile.ObjectBlock:
		raw, err := s2.Decode(nil, payload)
		if err != nil {
			return Obj{"?b", 0}
		}
		s := meow.Checksum(0, raw)
		if b, ok := w.byBlk[string(s[:])]; ok {
			return Obj{"b", b}
		}
		return Obj{"?b", 0}
	}
	return Obj{"?", typ}
}

// BySum names an object the receiver reports through its save hook.
func (w *World) BySum(typ int, sum []byte) Obj {
	switch typ {
	case packfile.ObjectCommit:
		if c, ok := w.byCom[string(sum)]; ok {
			return Obj{"c", c}
		}
		return Obj{"?c", 0}
	case packfile.ObjectTable:
		if u, ok := w.byTbl[string(sum)]; ok {
			return Obj{"t", u}
		}
		if u, ok := w.xsum[string(sum)]; ok {
			return Obj{"xt", u}
		}
		return Obj{"?t", 0}
	case packfile.ObjectBlock:
		if b, ok := w.byBlk[string(sum)]; ok {
			return Obj{"b", b}
		}
		return Obj{"?b", 0}
	}
	return Obj{"?", typ}
}

// Project maps the real key set of db to abstract ids; keys that are nobody's
// image are returned in foreign.
func (w *World) Project(db objects.Store) (Objs, []string, error) {
	po, unknown, err := w.U.Project(db, w.byCom)
	if err != nil {
		return Objs{}, nil, err
	}
	o := Objs{C: po.C, T: po.T, TI: po.TI, P: po.P, B: po.B, BI: po.BI}
	var foreign []string
	for _, k := range unknown {
		if strings.HasPrefix(k, "tbl/") {
			if raw, err := hex.DecodeString(k[4:]); err == nil {
				if u, ok := w.xsum[string(raw)]; ok {
					o.X = append(o.X, u)
					continue
				}
			}
		}
		foreign = append(foreign, k)
	}
	o.norm()
	return o, foreign, nil
}

// CompareBytes: every commit, table and block of the destination must be, byte
// for byte, what the source (or the template the source was filled from) holds
// under the same key.  Returns the first difference ("" = none) and its kind.
func (w *World) CompareBytes() (string, string) {
	for _, e := range []struct{ prefix, kind string }{{"com/", "c"}, {"tbl/", "t"}, {"blk/", "b"}} {
		m, err := w.Dst.Filter([]byte(e.prefix))
		if err != nil {
			return "Filter: " + err.Error(), e.kind
		}
		keys := make([]string, 0, len(m))
		for k := range m {
			keys = append(keys, k)
		}
		sort.Strings(keys)
		for _, k := range keys {
			if e.kind == "t" {
				if _, ok := w.xsum[k[len(e.prefix):]]; ok {
					continue // a corrupted variant: judged by the projection (x), it has no original
				}
			}
			ref, err := w.Src.Get([]byte(k))
			if err != nil {
				ref, err = w.U.Tmpl.Get([]byte(k))
			}
			if err != nil {
				return fmt.Sprintf("%s%x: no such object at the source", e.prefix, k[len(e.prefix):]), e.kind
			}
			if !bytes.Equal(ref, m[k]) {
				return fmt.Sprintf("%s%x: %d bytes at the destination differ from the %d bytes at the source", e.prefix, k[len(e.prefix):], len(m[k]), len(ref)), e.kind
			}
		}
	}
	return "", ""
}
