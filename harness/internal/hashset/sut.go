// Package hashset binds spec/HashSet.tla to the real pkg/index.HashSet.
//
// The Go side only drives the real code on a real file, projects what it sees
// (Has answers, raw file content -> entry ids + fan-out) and compares with the
// allowed answers exported by TLC (replay) or writes it down for TLC to judge
// (record).
package hashset

import (
	"bytes"
	"encoding/binary"
	"fmt"
	"os"

	"github.com/wrgl/wrgl/pkg/index"
)

const (
	fanoutBytes = 1024 // 256 big-endian uint32, then the 16-byte entries
	hashLen     = 16
)

// Sut is one real index.HashSet on a real file.
type Sut struct {
	Path string
	BS   uint32
	f    *faultFile
	hs   *index.HashSet
}

// faultFile is the set's file with one injectable fault: once armed, the next Read fails (once).
type faultFile struct {
	*os.File
	armed, fired bool
}

var errInjected = fmt.Errorf("injected read error")

func (f *faultFile) Read(p []byte) (int, error) {
	if f.armed && !f.fired {
		f.fired = true
		return 0, errInjected
	}
	return f.File.Read(p)
}

// FlushWithReadFault runs Flush with the fault armed; fired tells whether Flush read the file at all.
func (s *Sut) FlushWithReadFault() (err error, fired bool) {
	s.f.armed, s.f.fired = true, false
	err, _ = safely(s.hs.Flush)
	fired = s.f.fired
	s.f.armed = false
	return
}

// safely turns a panic of the library into an error marked as such.
func safely(fn func() error) (err error, panicked bool) {
	defer func() {
		if r := recover(); r != nil {
			err = fmt.Errorf("panic: %v", r)
			panicked = true
		}
	}()
	return fn(), false
}

// Create starts from an empty file at path.
func Create(path string, bs int) (*Sut, error) {
	f, err := os.OpenFile(path, os.O_RDWR|os.O_CREATE|os.O_TRUNC, 0o600)
	if err != nil {
		return nil, err
	}
	s := &Sut{Path: path, BS: uint32(bs), f: &faultFile{File: f}}
	s.hs, err = index.NewHashSet(s.f, s.BS)
	if err != nil {
		f.Close()
		return nil, err
	}
	return s, nil
}

func (s *Sut) Add(h []byte) (error, bool) {
	// the set keeps the slice it is given until the next flush
	c := append([]byte(nil), h...)
	return safely(func() error { return s.hs.Add(c) })
}

func (s *Sut) Flush() (error, bool) { return safely(s.hs.Flush) }

// Reopen closes the set (no flush: Close does not promise one) and opens the
// same file again the way the library's own test does.
func (s *Sut) Reopen() (error, bool) {
	return safely(func() error {
		if err := s.hs.Close(); err != nil {
			return err
		}
		f, err := os.OpenFile(s.Path, os.O_RDWR, 0o600)
		if err != nil {
			return err
		}
		s.f = &faultFile{File: f}
		s.hs, err = index.NewHashSet(s.f, s.BS)
		return err
	})
}

func (s *Sut) Has(h []byte) (ok bool, err error, panicked bool) {
	err, panicked = safely(func() error {
		var e error
		ok, e = s.hs.Has(h)
		return e
	})
	return
}

func (s *Sut) Len() int { return s.hs.Len() }

func (s *Sut) Close() {
	if s.hs != nil {
		safely(s.hs.Close)
	}
}

// Projection is the raw file seen as what the statement talks about.
type Projection struct {
	Fan     []int    // 256 cumulative counts (0 where the file is too short)
	Entries [][]byte // every 16-byte entry after the fan-out table, in file order
	Trail   int      // bytes after the last whole entry
}

// Project reads the file independently of the library.
func Project(path string) (*Projection, error) {
	b, err := os.ReadFile(path)
	if err != nil {
		return nil, err
	}
	p := &Projection{Fan: make([]int, 256)}
	for k := 0; k < 256; k++ {
		if 4*k+4 <= len(b) {
			p.Fan[k] = int(binary.BigEndian.Uint32(b[4*k:]))
		}
	}
	if len(b) > fanoutBytes {
		rest := b[fanoutBytes:]
		for len(rest) >= hashLen {
			p.Entries = append(p.Entries, rest[:hashLen])
			rest = rest[hashLen:]
		}
		p.Trail = len(rest)
	}
	return p, nil
}

// Universe is the bijection id (1-based rank in byte order) <-> hash.
type Universe struct {
	Hashes [][]byte
	ids    map[[hashLen]byte]int
}

func NewUniverse(hashes [][]byte) (*Universe, error) {
	u := &Universe{Hashes: hashes, ids: map[[hashLen]byte]int{}}
	for i, h := range hashes {
		if len(h) != hashLen {
			return nil, fmt.Errorf("hash %d has %d bytes", i+1, len(h))
		}
		if i > 0 && bytes.Compare(hashes[i-1], h) >= 0 {
			return nil, fmt.Errorf("universe not strictly ascending at id %d", i+1)
		}
		var k [hashLen]byte
		copy(k[:], h)
		u.ids[k] = i + 1
	}
	return u, nil
}

func (u *Universe) N() int             { return len(u.Hashes) }
func (u *Universe) Hash(id int) []byte { return u.Hashes[id-1] }

// ID is 0 for bytes that are no member of the universe.
func (u *Universe) ID(h []byte) int {
	var k [hashLen]byte
	copy(k[:], h)
	return u.ids[k]
}

func (u *Universe) FirstBytes() []int {
	out := make([]int, len(u.Hashes))
	for i, h := range u.Hashes {
		out[i] = int(h[0])
	}
	return out
}

// SmallUniverse builds the hashes of a TLC scenario from their first bytes
// (non-decreasing).  Hashes sharing a first byte differ in the other 15 bytes:
// the first is all 00, later ones alternate between "only the last byte
// differs" and "all FF", so the universe holds 00..00 and FF..FF and pairs
// that are equal up to the last byte.
func SmallUniverse(fb []int) (*Universe, error) {
	var hs [][]byte
	group, j := -1, 0
	for i, b := range fb {
		if b < 0 || b > 255 {
			return nil, fmt.Errorf("first byte %d out of range", b)
		}
		if i == 0 || fb[i-1] != b {
			group++
			j = 0
		} else {
			j++
		}
		h := make([]byte, hashLen)
		h[0] = byte(b)
		switch {
		case j == 0:
		case group%2 == 1:
			h[hashLen-1] = byte(j)
		default:
			for k := 1; k < hashLen; k++ {
				h[k] = 0xff
			}
			h[hashLen-1] = byte(0xff - (len(fb) - i - 1)) // keeps later members of the group larger
			if i == len(fb)-1 || fb[i+1] != b {
				h[hashLen-1] = 0xff
			}
		}
		hs = append(hs, h)
	}
	return NewUniverse(hs)
}
