package hashset

import (
	"bytes"
	"encoding/hex"
	"encoding/json"
	"fmt"
	"os"
	"path/filepath"

	"verifharness/internal/child"
)

// Step is one operation of a TLC scenario with what the specification allows
// after it: Ans has one character per universe member ("T" Has must answer
// true, "F" must answer false, "?" either); Chk = 1 when the file projection
// must satisfy the file predicates.
type Step struct {
	Op  int
	Ans string
	Chk int
}

type Scenario struct {
	BS    int
	FB    []int
	Steps []Step
}

func (s *Step) UnmarshalJSON(b []byte) error {
	var raw []json.RawMessage
	if err := json.Unmarshal(b, &raw); err != nil {
		return err
	}
	if len(raw) != 3 {
		return fmt.Errorf("step: want 3 fields, got %d", len(raw))
	}
	for i, dst := range []interface{}{&s.Op, &s.Ans, &s.Chk} {
		if err := json.Unmarshal(raw[i], dst); err != nil {
			return err
		}
	}
	return nil
}

func (s Step) MarshalJSON() ([]byte, error) {
	return json.Marshal([]interface{}{s.Op, s.Ans, s.Chk})
}

func (sc *Scenario) UnmarshalJSON(b []byte) error {
	var raw []json.RawMessage
	if err := json.Unmarshal(b, &raw); err != nil {
		return err
	}
	if len(raw) != 3 {
		return fmt.Errorf("scenario: want 3 fields, got %d", len(raw))
	}
	for i, dst := range []interface{}{&sc.BS, &sc.FB, &sc.Steps} {
		if err := json.Unmarshal(raw[i], dst); err != nil {
			return err
		}
	}
	return nil
}

func opName(op, n int) string {
	switch {
	case op >= 1 && op <= n:
		return "add"
	case op == n+1:
		return "flush"
	case op == n+2:
		return "reopen"
	}
	return "?"
}

// FileVerdict evaluates the file predicates of the specification (Sorted,
// FanoutConsistent, FileOK) on a projection; ans says which ids must ("T") and
// must not ("F") be stored.  Returns "" or the kind of mismatch.
func FileVerdict(p *Projection, u *Universe, ans string) (kind string, detail string) {
	if p.Trail != 0 {
		return "file-partial-entry", fmt.Sprintf("%d bytes after the last whole entry", p.Trail)
	}
	for i := 0; i+1 < len(p.Entries); i++ {
		if bytes.Compare(p.Entries[i], p.Entries[i+1]) > 0 {
			return "file-unsorted", fmt.Sprintf("entry %d > entry %d", i, i+1)
		}
	}
	for k := 0; k < 256; k++ {
		c := 0
		for _, e := range p.Entries {
			if int(e[0]) <= k {
				c++
			}
		}
		if p.Fan[k] != c {
			return "file-fanout", fmt.Sprintf("fanout[%d] = %d but %d entries have first byte <= %d", k, p.Fan[k], c, k)
		}
	}
	present := make([]bool, u.N()+1)
	for i, e := range p.Entries {
		id := u.ID(e)
		if id == 0 || ans[id-1] == 'F' {
			return "file-extra", fmt.Sprintf("entry %d (%s) was never added", i, hex.EncodeToString(e))
		}
		present[id] = true
	}
	for id := 1; id <= u.N(); id++ {
		if ans[id-1] == 'T' && !present[id] {
			return "file-missing", fmt.Sprintf("flushed hash %d is not stored", id)
		}
	}
	return "", ""
}

func projDoc(p *Projection, u *Universe) map[string]interface{} {
	ids := make([]int, len(p.Entries))
	for i, e := range p.Entries {
		ids[i] = u.ID(e)
	}
	return map[string]interface{}{"entries": ids, "fanout_00_7e_7f_fe_ff": []int{p.Fan[0], p.Fan[0x7e], p.Fan[0x7f], p.Fan[0xfe], p.Fan[0xff]}, "trail": p.Trail}
}

// classOf labels a scenario for counting: "-" (trivial) unless at least two
// distinct hashes are added and the set is flushed or reopened at least once;
// otherwise the letters f (explicit flush), r (reopen), d (some hash added again).
func classOf(sc *Scenario) string {
	n := len(sc.FB)
	seen := map[int]bool{}
	var f, r, d bool
	for _, st := range sc.Steps {
		switch opName(st.Op, n) {
		case "add":
			if seen[st.Op] {
				d = true
			}
			seen[st.Op] = true
		case "flush":
			f = true
		case "reopen":
			r = true
		}
	}
	if len(seen) < 2 || !(f || r) {
		return "-"
	}
	c := ""
	if f {
		c += "f"
	}
	if r {
		c += "r"
	}
	if d {
		c += "d"
	}
	return c
}

func feature(sc *Scenario) string {
	if sc.BS == 1 {
		return "bs=1"
	}
	return "bs>1"
}

// Replay steps one TLC scenario through a real index.HashSet on a real file and
// compares, after every step, every Has answer with the allowed ones and, where
// the specification says so, the raw file with the file predicates.
func Replay(i int, raw []byte) child.Result {
	var sc Scenario
	if err := json.Unmarshal(raw, &sc); err != nil {
		return child.Inconclusive(fmt.Errorf("scenario %d: %v", i, err))
	}
	// (derived from the scenario's text, not from its position: a replay file reproduces it)
	mode := 0
	for _, b := range raw {
		mode = (mode*31 + int(b)) % 3001
	}
	mode %= 3
	u, err := SmallUniverse(sc.FB)
	if err != nil {
		return child.Inconclusive(fmt.Errorf("scenario %d: %v", i, err))
	}
	n := u.N()
	path := filepath.Join(os.TempDir(), fmt.Sprintf("hashset-%d.idx", os.Getpid()))
	sut, err := Create(path, sc.BS)
	if err != nil {
		return child.Inconclusive(fmt.Errorf("scenario %d: create: %v", i, err))
	}
	defer sut.Close()
	fail := func(k int, op, kind string, d map[string]interface{}) child.Result {
		d["step"] = k
		d["steps"] = sc.Steps[:k+1]
		d["batch_size"] = sc.BS
		d["len"] = sut.Len() // recorded, does not decide
		return child.Fail("hashset/"+op+"/"+kind+"/"+feature(&sc), d)
	}
	for k, st := range sc.Steps {
		if len(st.Ans) != n {
			return child.Inconclusive(fmt.Errorf("scenario %d step %d: %d answers for %d hashes", i, k, len(st.Ans), n))
		}
		op := opName(st.Op, n)
		var opErr error
		var panicked bool
		switch op {
		case "add":
			opErr, panicked = sut.Add(u.Hash(st.Op))
		case "flush":
			opErr, panicked = sut.Flush()
		case "reopen":
			opErr, panicked = sut.Reopen()
		default:
			return child.Inconclusive(fmt.Errorf("scenario %d: unknown op %d", i, st.Op))
		}
		if opErr != nil {
			kind := "error"
			if panicked {
				kind = "panic"
			}
			return fail(k, op, kind, map[string]interface{}{"error": opErr.Error()})
		}
		// which members are asked after the step, and in which order, rotates with the scenario: all in order, all
		// in reverse, or ONLY the operand of the nearest add (a lookup cache must not survive an add or a flush)
		var probe []int
		switch mode {
		case 0:
			for id := 1; id <= n; id++ {
				probe = append(probe, id)
			}
		case 1:
			for id := n; id >= 1; id-- {
				probe = append(probe, id)
			}
		default:
			h := 0
			for j := k + 1; j < len(sc.Steps) && h == 0; j++ {
				if opName(sc.Steps[j].Op, n) == "add" {
					h = sc.Steps[j].Op
				}
			}
			for j := k; j >= 0 && h == 0; j-- {
				if opName(sc.Steps[j].Op, n) == "add" {
					h = sc.Steps[j].Op
				}
			}
			if h == 0 {
				h = 1 + (mode+k)%n
			}
			probe = []int{h}
		}
		for _, id := range probe {
			got, err, pan := sut.Has(u.Hash(id))
			if err != nil {
				kind := "has-error"
				if pan {
					kind = "has-panic"
				}
				return fail(k, op, kind, map[string]interface{}{"hash": id, "error": err.Error()})
			}
			want := st.Ans[id-1]
			if want == 'T' && !got {
				return fail(k, op, "has-false-negative", map[string]interface{}{"hash": id, "allowed": st.Ans, "observed": false})
			}
			if want == 'F' && got {
				return fail(k, op, "has-false-positive", map[string]interface{}{"hash": id, "allowed": st.Ans, "observed": true})
			}
		}
		if st.Chk == 1 {
			p, err := Project(path)
			if err != nil {
				return child.Inconclusive(fmt.Errorf("scenario %d: project: %v", i, err))
			}
			if kind, why := FileVerdict(p, u, st.Ans); kind != "" {
				return fail(k, op, kind, map[string]interface{}{"why": why, "allowed": st.Ans, "file": projDoc(p, u)})
			}
		}
	}
	return child.Pass(classOf(&sc))
}
