package hashset

import (
	"bufio"
	"bytes"
	"encoding/hex"
	"encoding/json"
	"flag"
	"fmt"
	"math/rand"
	"os"
	"path/filepath"
	"sort"
)

// Event is one NDJSON line of a hashset trace.  Every field is always present.
//
//	reset   bs, fb (first byte of every id), hx (the hashes, for re-execution)
//	add     h
//	flush / reopen
//	flushfail   a flush that failed at its first read of the file (an injected error) and said so
//
// After every operation: probe (ids asked) and has (the real answers).  When
// proj is true the raw file was read back: ent (entry ids in file order, 0 = not
// a universe member), efb (first byte of every entry as stored), fan (the 256
// fan-out counts as stored).  len is HashSet.Len() (recorded, not judged).
type Event struct {
	Op    string   `json:"op"`
	H     int      `json:"h"`
	BS    int      `json:"bs"`
	FB    []int    `json:"fb"`
	HX    []string `json:"hx"`
	Probe []int    `json:"probe"`
	Has   []bool   `json:"has"`
	Proj  bool     `json:"proj"`
	Ent   []int    `json:"ent"`
	Efb   []int    `json:"efb"`
	Fan   []int    `json:"fan"`
	Trail int      `json:"trail"`
	Len   int      `json:"len"`
	Err   string   `json:"err"`
}

func newEvent(op string) *Event {
	return &Event{Op: op, FB: []int{}, HX: []string{}, Probe: []int{}, Has: []bool{}, Ent: []int{}, Efb: []int{}, Fan: []int{}}
}

// session executes operations on one real set and emits their events.
type session struct {
	u    *Universe
	sut  *Sut
	emit func(*Event) error
}

func startSession(path string, u *Universe, bs int, emit func(*Event) error) (*session, error) {
	// bs = 1024 is asked for the way the repository's callers do: NewHashSet(f, 0), the default batch size
	real := bs
	if bs == 1024 {
		real = 0
	}
	sut, err := Create(path, real)
	if err != nil {
		return nil, err
	}
	e := newEvent("reset")
	e.BS = bs
	e.FB = u.FirstBytes()
	for _, h := range u.Hashes {
		e.HX = append(e.HX, hex.EncodeToString(h))
	}
	if err := emit(e); err != nil {
		return nil, err
	}
	return &session{u: u, sut: sut, emit: emit}, nil
}

// do executes op ("add" with id h, "flush", "reopen"), asks Has for the probe
// ids and, if proj, reads the file back.  ok=false when the real code returned
// an error or panicked (the event carries it; TLC rejects it).
func (s *session) do(op string, h int, probe []int, proj bool) (bool, error) {
	e := newEvent(op)
	e.H = h
	var err error
	switch op {
	case "add":
		err, _ = s.sut.Add(s.u.Hash(h))
	case "flush":
		err, _ = s.sut.Flush()
	case "flushfail":
		// a flush whose first read of the file fails.  When the flush reports the failure nothing is judged until
		// the next (successful) flush; when it read nothing, or went on regardless, it is a flush like any other
		var fired bool
		err, fired = s.sut.FlushWithReadFault()
		if fired && err != nil {
			return true, s.emit(e)
		}
		e.Op = "flush"
	case "reopen":
		err, _ = s.sut.Reopen()
	default:
		return false, fmt.Errorf("unknown op %q", op)
	}
	if err != nil {
		e.Err = op + ": " + err.Error()
	}
	for _, id := range probe {
		if e.Err != "" {
			break
		}
		ok, herr, _ := s.sut.Has(s.u.Hash(id))
		if herr != nil {
			e.Err = fmt.Sprintf("has(%d): %v", id, herr)
			break
		}
		e.Probe = append(e.Probe, id)
		e.Has = append(e.Has, ok)
	}
	if proj && e.Err == "" {
		p, perr := Project(s.sut.Path)
		if perr != nil {
			return false, perr
		}
		e.Proj = true
		e.Fan = p.Fan
		e.Trail = p.Trail
		for _, b := range p.Entries {
			e.Ent = append(e.Ent, s.u.ID(b))
			e.Efb = append(e.Efb, int(b[0]))
		}
	}
	if e.Err == "" {
		e.Len = s.sut.Len()
	}
	return e.Err == "", s.emit(e)
}

func (s *session) close() { s.sut.Close() }

// randomUniverse draws n distinct 16-byte hashes: many share the first bytes
// 0x00 and 0xff, some share other first bytes, some are equal to another one up
// to the last bytes, the rest is uniform; 00..00 and ff..ff are sometimes in.
func randomUniverse(rng *rand.Rand, n int) (*Universe, error) {
	seen := map[string]bool{}
	var hs [][]byte
	shared := []byte{0x01, 0x7f, 0x80, 0xfe, byte(rng.Intn(256))}
	add := func(h []byte) {
		if !seen[string(h)] {
			seen[string(h)] = true
			hs = append(hs, h)
		}
	}
	if rng.Intn(2) == 0 {
		add(make([]byte, hashLen))
	}
	if rng.Intn(2) == 0 {
		add(bytes.Repeat([]byte{0xff}, hashLen))
	}
	for len(hs) < n {
		h := make([]byte, hashLen)
		rng.Read(h)
		switch k := rng.Intn(100); {
		case k < 25:
			h[0] = 0x00
		case k < 45:
			h[0] = 0xff
		case k < 60:
			h[0] = shared[rng.Intn(len(shared))]
		case k < 75 && len(hs) > 0:
			// a close neighbour of an existing hash
			copy(h, hs[rng.Intn(len(hs))])
			pos := hashLen - 1 - rng.Intn(3)
			h[pos] = byte(rng.Intn(256))
		}
		add(h)
	}
	sort.Slice(hs, func(i, j int) bool { return bytes.Compare(hs[i], hs[j]) < 0 })
	return NewUniverse(hs)
}

func probeSet(rng *rand.Rand, n, h int, extra int) []int {
	cand := []int{h, h - 1, h + 1, 1, n}
	for i := 0; i < extra; i++ {
		cand = append(cand, 1+rng.Intn(n))
	}
	seen := map[int]bool{}
	var out []int
	for _, c := range cand {
		if c >= 1 && c <= n && !seen[c] {
			seen[c] = true
			out = append(out, c)
		}
	}
	return out
}

func generate(rng *rand.Rand, dir string, ntraces, length int, emit func(*Event) error) error {
	for t := 0; t < ntraces; t++ {
		n := 100 + rng.Intn(301)
		tlen := length
		if t%4 == 3 {
			// a large set: more than 256 entries get shifted by one flush (chunked copies, page-sized buffers)
			n = 700 + rng.Intn(300)
			tlen = 3 * length
		}
		u, err := randomUniverse(rng, n)
		if err != nil {
			return err
		}
		bs := 1 + rng.Intn(50)
		if rng.Intn(4) == 0 {
			bs = 1 + rng.Intn(4)
		}
		if t < 2 {
			// one session with a whole default batch (what merge and the CLI use: 1024 pending hashes written by one
			// flush - on an empty set all of them at one insertion point), or a batch size above the default
			bs = 1024
			if t == 1 {
				bs = 1025 + rng.Intn(700)
			}
			n = bs + 200 + rng.Intn(200)
			tlen = bs + 150 + rng.Intn(200) // (no explicit flush before operation bs+80: the batch fills up)
			if u, err = randomUniverse(rng, n); err != nil {
				return err
			}
		}
		s, err := startSession(filepath.Join(dir, fmt.Sprintf("set-%d.idx", t)), u, bs, emit)
		if err != nil {
			return err
		}
		var addedIDs []int
		last := 0
		ok := true
		for i := 0; i < tlen && ok; i++ {
			k := rng.Intn(100)
			switch {
			case i == tlen-2:
				ok, err = s.do("flush", 0, probeSet(rng, n, 1+rng.Intn(n), 12), true)
			case i == tlen-1:
				ok, err = s.do("reopen", 0, probeSet(rng, n, 1+rng.Intn(n), 12), true)
			case k < 8 && (t >= 2 || i > bs+80):
				if rng.Intn(3) == 0 {
					// the flush fails at its first read of the file and is run again
					if ok, err = s.do("flushfail", 0, nil, false); err != nil || !ok {
						break
					}
				}
				ok, err = s.do("flush", 0, probeSet(rng, n, 1+rng.Intn(n), 8), true)
			case k < 12 && (t >= 2 || i > bs+80):
				ok, err = s.do("reopen", 0, probeSet(rng, n, 1+rng.Intn(n), 8), true)
			default:
				h := 1 + rng.Intn(n)
				switch c := rng.Intn(100); {
				case t < 2 && i <= bs+80 && c < 85 && len(addedIDs) < n:
					// the sessions with a large batch: mostly hashes not added before, so that the batch really
					// holds more than a default batch of DISTINCT pending hashes when it is written
					h = 1 + len(addedIDs)%n
				case c < 10 && last != 0:
					h = last // repeat inside the batch
				case c < 30 && len(addedIDs) > 0:
					h = addedIDs[rng.Intn(len(addedIDs))]
				case c < 45 && len(addedIDs) > 0:
					h = addedIDs[rng.Intn(len(addedIDs))] + 1 - 2*rng.Intn(2)
					if h < 1 || h > n {
						h = 1 + rng.Intn(n)
					}
				}
				ok, err = s.do("add", h, probeSet(rng, n, h, 5), false)
				addedIDs = append(addedIDs, h)
				last = h
			}
			if err != nil {
				s.close()
				return err
			}
		}
		s.close()
		os.Remove(s.sut.Path)
	}
	return nil
}

// reexecute runs the operations of recorded traces again (same hashes, same
// probes) and records what the current code answers.
func reexecute(path, dir string, emit func(*Event) error) error {
	f, err := os.Open(path)
	if err != nil {
		return err
	}
	defer f.Close()
	sc := bufio.NewScanner(f)
	sc.Buffer(make([]byte, 1<<20), 1<<28)
	var s *session
	t := 0
	dead := false
	for sc.Scan() {
		var e Event
		if err := json.Unmarshal(sc.Bytes(), &e); err != nil {
			return err
		}
		if e.Op == "reset" {
			if s != nil {
				s.close()
			}
			var hs [][]byte
			for _, x := range e.HX {
				b, err := hex.DecodeString(x)
				if err != nil {
					return err
				}
				hs = append(hs, b)
			}
			u, err := NewUniverse(hs)
			if err != nil {
				return err
			}
			t++
			s, err = startSession(filepath.Join(dir, fmt.Sprintf("re-%d.idx", t)), u, e.BS, emit)
			if err != nil {
				return err
			}
			dead = false
			continue
		}
		if s == nil {
			return fmt.Errorf("trace does not start with a reset line")
		}
		if dead {
			continue
		}
		ok, err := s.do(e.Op, e.H, e.Probe, e.Proj || e.Op != "add")
		if err != nil {
			return err
		}
		dead = !ok
	}
	if s != nil {
		s.close()
	}
	return sc.Err()
}

// fromScenarios executes every k-th TLC scenario of a scenario file as a trace
// (probe = the whole universe, file read back where the scenario says so), so
// that TLC itself judges a sample of what the replayer judged.
func fromScenarios(path, dir string, every int, emit func(*Event) error) error {
	f, err := os.Open(path)
	if err != nil {
		return err
	}
	defer f.Close()
	sc := bufio.NewScanner(f)
	sc.Buffer(make([]byte, 1<<20), 1<<28)
	i := -1
	for sc.Scan() {
		i++
		if every > 1 && i%every != 0 {
			continue
		}
		var scn Scenario
		if err := json.Unmarshal(sc.Bytes(), &scn); err != nil {
			return err
		}
		u, err := SmallUniverse(scn.FB)
		if err != nil {
			return err
		}
		s, err := startSession(filepath.Join(dir, "scn.idx"), u, scn.BS, emit)
		if err != nil {
			return err
		}
		all := make([]int, u.N())
		for k := range all {
			all[k] = k + 1
		}
		for _, st := range scn.Steps {
			op := opName(st.Op, u.N())
			h := 0
			if op == "add" {
				h = st.Op
			}
			ok, err := s.do(op, h, all, st.Chk == 1)
			if err != nil {
				s.close()
				return err
			}
			if !ok {
				break
			}
		}
		s.close()
	}
	return sc.Err()
}

// Record drives the real index.HashSet with a seeded random driver (or
// re-executes / samples) and writes the trace.
func Record(args []string) error {
	fs := flag.NewFlagSet("record hashset", flag.ExitOnError)
	seed := fs.Int64("seed", 1, "seed")
	n := fs.Int("n", 20, "number of traces")
	length := fs.Int("len", 400, "operations per trace")
	out := fs.String("out", "", "output trace file")
	dir := fs.String("dir", "", "directory for the set files (default: TMPDIR)")
	reexec := fs.String("reexec", "", "re-execute the operations of this recorded trace file")
	fromscn := fs.String("fromscn", "", "execute scenarios of this TLC scenario file as traces")
	every := fs.Int("every", 1, "with --fromscn: take every k-th scenario")
	fs.Parse(args)
	if *dir == "" {
		*dir = os.TempDir()
	}
	f, err := os.Create(*out)
	if err != nil {
		return err
	}
	defer f.Close()
	w := bufio.NewWriterSize(f, 1<<20)
	defer w.Flush()
	emit := func(e *Event) error {
		b, err := json.Marshal(e)
		if err != nil {
			return err
		}
		w.Write(b)
		return w.WriteByte('\n')
	}
	switch {
	case *reexec != "":
		return reexecute(*reexec, *dir, emit)
	case *fromscn != "":
		return fromScenarios(*fromscn, *dir, *every, emit)
	}
	return generate(rand.New(rand.NewSource(*seed)), *dir, *n, *length, emit)
}
