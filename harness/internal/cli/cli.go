// Package cli runs the real wrgl command line in-process against a private
// repository directory (wrgl.RootCmd() is exported by cmd/wrgl).
package cli

import (
	"bytes"
	"fmt"
	"io"
	"os"
	"path/filepath"
	"sync"

	"github.com/spf13/viper"
	wrgl "github.com/wrgl/wrgl/cmd/wrgl"
	"github.com/wrgl/wrgl/pkg/local"
	"github.com/wrgl/wrgl/pkg/objects"
	"github.com/wrgl/wrgl/pkg/ref"
)

// viper is process-global: commands of different repositories must not interleave
var mu sync.Mutex

type Repo struct {
	Root    string // working directory holding CSV files
	WrglDir string // Root/.wrgl
}

// NewRepo initialises a repository under parent (a fresh temporary directory).
func NewRepo(parent, name string) (*Repo, error) {
	root := filepath.Join(parent, name)
	if err := os.MkdirAll(root, 0755); err != nil {
		return nil, err
	}
	r := &Repo{Root: root, WrglDir: filepath.Join(root, ".wrgl")}
	rd, err := local.NewRepoDir(r.WrglDir, "")
	if err != nil {
		return nil, err
	}
	if err := rd.Init(); err != nil {
		return nil, err
	}
	rd.Close()
	if _, err := r.Run(nil, "config", "set", "user.email", "verif@example.invalid"); err != nil {
		return nil, err
	}
	if _, err := r.Run(nil, "config", "set", "user.name", "Verif"); err != nil {
		return nil, err
	}
	return r, nil
}

// NewRepoFast initialises a repository and writes its local config file directly
// (user identity plus the given extra YAML, e.g. a remote) instead of running
// `wrgl config set` twice.
func NewRepoFast(parent, name, extraYAML string) (*Repo, error) {
	root := filepath.Join(parent, name)
	if err := os.MkdirAll(root, 0755); err != nil {
		return nil, err
	}
	r := &Repo{Root: root, WrglDir: filepath.Join(root, ".wrgl")}
	rd, err := local.NewRepoDir(r.WrglDir, "")
	if err != nil {
		return nil, err
	}
	if err := rd.Init(); err != nil {
		return nil, err
	}
	rd.Close()
	cfg := "user:\n  email: verif@example.invalid\n  name: Verif\n" + extraYAML
	if err := os.WriteFile(filepath.Join(r.WrglDir, "config.yaml"), []byte(cfg), 0644); err != nil {
		return nil, err
	}
	return r, nil
}

// Run executes `wrgl <args>` and returns what it printed.
func (r *Repo) Run(stdin io.Reader, args ...string) (out string, err error) {
	mu.Lock()
	defer mu.Unlock()
	defer func() {
		if p := recover(); p != nil {
			err = fmt.Errorf("PANIC in wrgl %v: %v", args, p)
		}
	}()
	viper.Set("wrgl_dir", r.WrglDir)
	cmd := wrgl.RootCmd()
	buf := bytes.NewBuffer(nil)
	cmd.SetOut(buf)
	cmd.SetErr(buf)
	if stdin != nil {
		cmd.SetIn(stdin)
	}
	cmd.SetArgs(args)
	err = cmd.Execute()
	return buf.String(), err
}

// WriteFile writes a file into the working directory and returns its path.
func (r *Repo) WriteFile(name string, content []byte) (string, error) {
	p := filepath.Join(r.Root, name)
	return p, os.WriteFile(p, content, 0644)
}

// Open opens the object and ref stores of the repository; call close when done
// (badger allows one process-wide handle at a time).
func (r *Repo) Open() (db objects.Store, rs ref.Store, closeFn func(), err error) {
	rd, err := local.NewRepoDir(r.WrglDir, "")
	if err != nil {
		return nil, nil, nil, err
	}
	db, err = rd.OpenObjectsStore()
	if err != nil {
		rd.Close()
		return nil, nil, nil, err
	}
	rs = rd.OpenRefStore()
	return db, rs, func() { db.Close(); rd.Close() }, nil
}
