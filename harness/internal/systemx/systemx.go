// Package systemx binds spec/System.tla to the real command line: behaviours that TLC
// generates by simulation are replayed command by command on a real repository and the
// projected state is compared with the specification's after every command.
package systemx

import (
	"encoding/csv"
	"encoding/hex"
	"encoding/json"
	"fmt"
	"io"
	"os"
	"reflect"
	"sort"
	"strings"
	"sync"

	"github.com/wrgl/wrgl/pkg/objects"
	"github.com/wrgl/wrgl/pkg/ref"

	"verifharness/internal/child"
	"verifharness/internal/cli"
	"verifharness/internal/crashx"
	"verifharness/internal/tbl"
)

type Step struct {
	Op  [3]json.RawMessage `json:"op"`
	Ok  bool               `json:"ok"`
	Obs struct {
		Heads   [][3]json.RawMessage `json:"heads"`
		Present []int                `json:"present"`
		Commits [][3]json.RawMessage `json:"commits"`
		LogLens [][2]json.RawMessage `json:"loglens"`
		Logs    [][2]json.RawMessage `json:"logs"`
	} `json:"obs"`
}

// contents: abstract table content k -> CSV rows (unsorted in the file)
func contentRows(k int) [][]string {
	rows := [][]string{{"id", "a", "b"}}
	n := 3 + k
	if k == 3 {
		n = 300 // a multi-block table
	}
	for i := n - 1; i >= 0; i-- {
		rows = append(rows, []string{fmt.Sprintf("%04d", i), fmt.Sprintf("c%d", k), fmt.Sprintf("v%d", (i*7+k)%11)})
	}
	return rows
}

var (
	sumMu  sync.Mutex
	sumOfK = map[int]string{}
)

func tableSumOf(k int) (string, error) {
	sumMu.Lock()
	defer sumMu.Unlock()
	if s, ok := sumOfK[k]; ok {
		return s, nil
	}
	db := tbl.NewSafeStore()
	sum, err := tbl.Ingest(db, tbl.CSV(contentRows(k), 0), []string{"id"}, tbl.IngestOpts{})
	if err != nil {
		return "", err
	}
	sumOfK[k] = string(sum)
	return sumOfK[k], nil
}

type observed struct {
	Heads   map[string][2]int `json:"heads"` // branch -> [commit id, content]
	Present []int             `json:"present"`
	Commits map[int][]int     `json:"commits"` // id -> [content, parents...] for present commits
	LogLens map[string]int    `json:"loglens"`
	Logs    map[string][][2]int `json:"logs"` // branch -> [old, new] commit ids, oldest first
}

func project(r *cli.Repo, idOf map[string]int, kOf map[string]int) (*observed, error) {
	db, rs, closeFn, err := r.Open()
	if err != nil {
		return nil, err
	}
	defer closeFn()
	o := &observed{Heads: map[string][2]int{}, Present: []int{}, Commits: map[int][]int{}, LogLens: map[string]int{}, Logs: map[string][][2]int{}}
	heads, err := ref.ListHeads(rs)
	if err != nil {
		return nil, err
	}
	keys, err := objects.GetAllCommitKeys(db)
	if err != nil {
		return nil, err
	}
	// bind new commits to ids in creation order: a commit op creates exactly one unknown sum
	for _, k := range keys {
		if _, ok := idOf[string(k)]; !ok {
			idOf[string(k)] = len(idOf) + 1
		}
	}
	for _, k := range keys {
		id := idOf[string(k)]
		o.Present = append(o.Present, id)
		c, err := objects.GetCommit(db, k)
		if err != nil {
			return nil, err
		}
		kk, ok := kOf[string(c.Table)]
		if !ok {
			kk = -1
		}
		row := []int{kk}
		ps := []int{}
		for _, p := range c.Parents {
			ps = append(ps, idOf[string(p)])
		}
		sort.Ints(ps)
		o.Commits[id] = append(row, ps...)
	}
	sort.Ints(o.Present)
	for b, sum := range heads {
		if strings.HasSuffix(b, "-tmp") {
			continue
		}
		id := idOf[string(sum)]
		kk := -1
		if c, err := objects.GetCommit(db, sum); err == nil {
			if v, ok := kOf[string(c.Table)]; ok {
				kk = v
			}
		}
		o.Heads[b] = [2]int{id, kk}
		n := 0
		entries := [][2]int{}
		idOrZero := func(sum []byte) int {
			if len(sum) == 0 {
				return 0
			}
			if id, ok := idOf[string(sum)]; ok {
				return id
			}
			return -1
		}
		if lr, err := rs.LogReader("heads/" + b); err == nil {
			for {
				rl, err := lr.Read()
				if err != nil {
					break
				}
				n++
				entries = append([][2]int{{idOrZero(rl.OldOID), idOrZero(rl.NewOID)}}, entries...) // newest first -> oldest first
			}
			lr.Close()
		}
		o.LogLens[b] = n
		o.Logs[b] = entries
	}
	return o, nil
}

func expectedOf(st *Step) *observed {
	o := &observed{Heads: map[string][2]int{}, Present: append([]int{}, st.Obs.Present...), Commits: map[int][]int{}, LogLens: map[string]int{}, Logs: map[string][][2]int{}}
	sort.Ints(o.Present)
	pres := map[int]bool{}
	for _, p := range o.Present {
		pres[p] = true
	}
	for _, h := range st.Obs.Heads {
		var b string
		var id, k int
		json.Unmarshal(h[0], &b)
		json.Unmarshal(h[1], &id)
		json.Unmarshal(h[2], &k)
		o.Heads[b] = [2]int{id, k}
	}
	for _, c := range st.Obs.Commits {
		var id, k int
		var ps []int
		json.Unmarshal(c[0], &id)
		json.Unmarshal(c[1], &k)
		json.Unmarshal(c[2], &ps)
		if !pres[id] {
			continue
		}
		sort.Ints(ps)
		o.Commits[id] = append([]int{k}, ps...)
	}
	for _, l := range st.Obs.LogLens {
		var b string
		var n int
		json.Unmarshal(l[0], &b)
		json.Unmarshal(l[1], &n)
		o.LogLens[b] = n
	}
	for _, l := range st.Obs.Logs {
		var b string
		var es [][2]int
		json.Unmarshal(l[0], &b)
		json.Unmarshal(l[1], &es)
		if es == nil {
			es = [][2]int{}
		}
		o.Logs[b] = es
	}
	return o
}

// Replay runs one behaviour of System.tla on a real repository.
func Replay(i int, raw []byte) child.Result {
	var steps []Step
	if err := json.Unmarshal(raw, &steps); err != nil {
		return child.Inconclusive(err)
	}
	work, err := os.MkdirTemp("", "system")
	if err != nil {
		return child.Inconclusive(err)
	}
	defer os.RemoveAll(work)
	r, err := cli.NewRepoFast(work, "repo", "")
	if err != nil {
		return child.Inconclusive(err)
	}
	kOf := map[string]int{}
	files := map[int]string{}
	for k := 1; k <= 3; k++ {
		s, err := tableSumOf(k)
		if err != nil {
			return child.Inconclusive(err)
		}
		kOf[s] = k
		files[k], _ = r.WriteFile(fmt.Sprintf("c%d.csv", k), tbl.CSV(contentRows(k), 0))
	}
	idOf := map[string]int{}
	sumOfID := func(id int) string {
		for s, v := range idOf {
			if v == id {
				return hex.EncodeToString([]byte(s))
			}
		}
		return ""
	}
	events := []interface{}{}
	ops := []string{}
	for n, st := range steps {
		var name, a string
		var num int
		json.Unmarshal(st.Op[0], &name)
		json.Unmarshal(st.Op[1], &a)
		json.Unmarshal(st.Op[2], &num)
		var args []string
		switch name {
		case "commit":
			args = []string{"commit", a, files[num], fmt.Sprintf("step %d", n), "-p", "id", "-n", "1"}
		case "create":
			var from string
			json.Unmarshal(st.Op[2], &from)
			args = []string{"branch", "create", a, from}
		case "delete":
			args = []string{"branch", "delete", a}
		case "reset":
			args = []string{"reset", a, sumOfID(num)}
		case "merge":
			var o string
			json.Unmarshal(st.Op[2], &o)
			args = []string{"merge", a, o, "--no-gui"}
		case "prune":
			args = []string{"prune"}
		case "export":
			args = []string{"export", a}
		}
		ops = append(ops, strings.Join(args, " "))
		out, runErr := r.Run(nil, args...)
		ctx := map[string]interface{}{"step": n, "command": args, "commands_so_far": ops, "output": tailS(out, 400), "error": fmt.Sprint(runErr)}
		if (runErr == nil) != st.Ok {
			return child.Fail("system/"+name+"/exit-status", ctx)
		}
		if name == "export" && runErr == nil {
			want := contentRows(num)
			body := want[1:]
			sort.Slice(body, func(i, j int) bool { return body[i][0] < body[j][0] })
			got, perr := csv.NewReader(strings.NewReader(out)).ReadAll()
			if perr != nil && perr != io.EOF {
				ctx["parse_error"] = perr.Error()
				return child.Fail("system/export/unparsable", ctx)
			}
			if !reflect.DeepEqual(got, append([][]string{want[0]}, body...)) {
				ctx["rows_expected"], ctx["rows_observed"] = len(want), len(got)
				return child.Fail("system/export/rows", ctx)
			}
		}
		obs, err := project(r, idOf, kOf)
		if err != nil {
			ctx["projection_error"] = err.Error()
			return child.Fail("system/"+name+"/unreadable", ctx)
		}
		exp := expectedOf(&st)
		if !reflect.DeepEqual(obs, exp) {
			ctx["expected"], ctx["observed"] = exp, obs
			kind := "state"
			if !reflect.DeepEqual(obs.Heads, exp.Heads) {
				kind = "heads"
			} else if !reflect.DeepEqual(obs.Present, exp.Present) {
				kind = "present"
			} else if !reflect.DeepEqual(obs.LogLens, exp.LogLens) {
				kind = "logs"
			} else if !reflect.DeepEqual(obs.Logs, exp.Logs) {
				kind = "log-entries"
			}
			return child.Fail("system/"+name+"/"+kind, ctx)
		}
		if s, err := crashx.ScanState(r, fmt.Sprintf("system step %d %s", n, name)); err == nil {
			events = append(events, s)
		}
	}
	child.EmitBatch("crash", events)
	return child.Pass(fmt.Sprintf("len%d", len(steps)))
}

func tailS(s string, n int) string {
	if len(s) > n {
		return s[len(s)-n:]
	}
	return s
}
