// Package system2x binds spec/System2.tla - TWO repositories under the command line, the
// remote one served by the reference server - to the real code: behaviours that TLC
// generates by simulation are replayed command by command (local commands through the
// in-process CLI on L, commits and branch operations of the remote through the CLI on R's
// own directory, fetch / push / pull through the CLI against internal/refserver serving R's
// stores), and after EVERY command the real state of both repositories is projected to the
// specification's abstract ids and compared with the expected observation.
//
// Projection: a commit is recognised by its sum (one global numbering in creation order,
// the same object has the same id on both sides); its content is recognised by reading the
// table's rows back from the repository that holds it; a merge commit by parents + content.
//
// Failure signature: system2/<op>/<what differs>; the detail carries the step index, the
// command, the expected and the observed observation.
package system2x

import (
	"encoding/csv"
	"encoding/hex"
	"encoding/json"
	"fmt"
	"hash/fnv"
	"net/http"
	"net/http/httptest"
	"os"
	"path/filepath"
	"reflect"
	"regexp"
	"runtime"
	"sort"
	"strconv"
	"strings"
	"sync"
	"syscall"
	"time"

	"github.com/wrgl/wrgl/pkg/objects"
	"github.com/wrgl/wrgl/pkg/ref"
	"github.com/wrgl/wrgl/pkg/vhook"

	"verifharness/internal/child"
	"verifharness/internal/cli"
	"verifharness/internal/refserver"
	"verifharness/internal/tbl"
)

// ---------------------------------------------------------------- the SCN document

type ObsT struct {
	NC int                  `json:"nc"`
	LH [][2]json.RawMessage `json:"lh"`
	LP []int                `json:"lp"`
	LQ []int                `json:"lq"`
	LL [][2]json.RawMessage `json:"ll"`
	RH [][2]json.RawMessage `json:"rh"`
	RP []int                `json:"rp"`
	RQ []int                `json:"rq"`
	RL [][2]json.RawMessage `json:"rl"`
	SY []string             `json:"sy"`
}

type Step struct {
	Op  []json.RawMessage `json:"op"` // name, side, branch / ref, argument, outcome kind
	X   json.RawMessage   `json:"x"`
	Ok  bool              `json:"ok"`
	Rej []string          `json:"rej"`
	Obs ObsT              `json:"obs"`
}

type Doc struct {
	C [][2]json.RawMessage `json:"c"` // the global commit table: [content, parents] per id
	H []Step               `json:"h"`
	B []string             `json:"b"` // every branch with an upstream configured (what --all iterates over)
}

type mergeX struct {
	Other string               `json:"other"`
	Base  int                  `json:"base"`
	Alts  [][3]json.RawMessage `json:"alts"` // [base, conflicting keys, merged content] per admissible base
}

type alt struct {
	Base    int
	Conf    []int
	Content []int
}

func (x *mergeX) alts() []alt {
	out := []alt{}
	for _, a := range x.Alts {
		var v alt
		json.Unmarshal(a[0], &v.Base)
		json.Unmarshal(a[1], &v.Conf)
		json.Unmarshal(a[2], &v.Content)
		sort.Ints(v.Conf)
		out = append(out, v)
	}
	return out
}

func str(r json.RawMessage) string {
	var s string
	json.Unmarshal(r, &s)
	return s
}

func pairs(p [][2]json.RawMessage) map[string]int {
	m := map[string]int{}
	for _, x := range p {
		var v int
		json.Unmarshal(x[1], &v)
		m[str(x[0])] = v
	}
	return m
}

func sorted(a []int) []int {
	b := append([]int{}, a...)
	sort.Ints(b)
	return b
}

// ---------------------------------------------------------------- contents <-> tables

// A content is the value of every abstract key (0 = no such row).  Abstract key k with value
// v stands for S real rows  key<k>-<j>, <v>  (S > 1 makes the tables span several blocks).
func keyCell(k, j int) string { return fmt.Sprintf("key%d-%03d", k, j) }

func parseKey(c string) (k, j int, ok bool) {
	if !strings.HasPrefix(c, "key") {
		return 0, 0, false
	}
	p := strings.SplitN(c[3:], "-", 2)
	if len(p) != 2 {
		return 0, 0, false
	}
	k, e1 := strconv.Atoi(p[0])
	j, e2 := strconv.Atoi(p[1])
	return k, j, e1 == nil && e2 == nil
}

// rowsOf renders a content; sortedOrder = as export prints it, else reversed (the commit
// command has to sort).
func rowsOf(content []int, s int, sortedOrder bool) [][]string {
	body := [][]string{}
	for k := 1; k <= len(content); k++ {
		if content[k-1] == 0 {
			continue
		}
		for j := 0; j < s; j++ {
			body = append(body, []string{keyCell(k, j), strconv.Itoa(content[k-1])})
		}
	}
	if !sortedOrder {
		for i, j := 0, len(body)-1; i < j; i, j = i+1, j-1 {
			body[i], body[j] = body[j], body[i]
		}
	}
	return append([][]string{{"k", "v"}}, body...)
}

// recognise maps rows (header first) back to a content; a table that is not the image of
// any content yields nil and the reason.
func recognise(rows [][]string, nk, s int) ([]int, string) {
	if len(rows) == 0 || len(rows[0]) != 2 || rows[0][0] != "k" || rows[0][1] != "v" {
		return nil, fmt.Sprintf("columns %v", firstRow(rows))
	}
	content := make([]int, nk)
	count := make([]int, nk)
	seen := map[string]bool{}
	prev := ""
	for i, r := range rows[1:] {
		if len(r) != 2 {
			return nil, fmt.Sprintf("row %d has %d cells", i, len(r))
		}
		k, j, ok := parseKey(r[0])
		if !ok || k < 1 || k > nk || j < 0 || j >= s {
			return nil, fmt.Sprintf("row %d: unknown key %q", i, r[0])
		}
		if seen[r[0]] {
			return nil, fmt.Sprintf("row %d: key %q twice", i, r[0])
		}
		seen[r[0]] = true
		if prev != "" && !(prev < r[0]) {
			return nil, fmt.Sprintf("row %d: key %q not after %q", i, r[0], prev)
		}
		prev = r[0]
		v, err := strconv.Atoi(r[1])
		if err != nil || v < 1 {
			return nil, fmt.Sprintf("row %d: value %q", i, r[1])
		}
		if count[k-1] > 0 && content[k-1] != v {
			return nil, fmt.Sprintf("rows of key %d carry different values", k)
		}
		content[k-1] = v
		count[k-1]++
	}
	for k := range count {
		if count[k] != 0 && count[k] != s {
			return nil, fmt.Sprintf("key %d has %d of %d rows", k+1, count[k], s)
		}
	}
	return content, ""
}

func firstRow(rows [][]string) []string {
	if len(rows) == 0 {
		return nil
	}
	return rows[0]
}

// ---------------------------------------------------------------- projection of a repository

type commitObs struct {
	Content []int  `json:"content"` // nil = not recognised
	Parents []int  `json:"parents"`
	Why     string `json:"why,omitempty"`
}

type sideObs struct {
	Heads   map[string]int    `json:"heads"`
	Present []int             `json:"present"`
	Logs    map[string]int    `json:"logs"`
	RawLogs map[string]int    `json:"-"` // as counted, before optional entries are added
	Commits map[int]commitObs `json:"commits"`
}

type world struct {
	nk, s int
	idOf  map[string]int // commit sum -> global id
}

func (w *world) sumOf(id int) string {
	for s, i := range w.idOf {
		if i == id {
			return s
		}
	}
	return ""
}

func (w *world) project(r *cli.Repo) (*sideObs, error) {
	db, rs, closeFn, err := r.Open()
	if err != nil {
		return nil, err
	}
	defer closeFn()
	o := &sideObs{Heads: map[string]int{}, Present: []int{}, Logs: map[string]int{}, RawLogs: map[string]int{}, Commits: map[int]commitObs{}}
	keys, err := objects.GetAllCommitKeys(db)
	if err != nil {
		return nil, err
	}
	// a command creates at most one commit: the unknown sum is the next id
	for _, k := range keys {
		if _, ok := w.idOf[string(k)]; !ok {
			w.idOf[string(k)] = len(w.idOf) + 1
		}
	}
	for _, k := range keys {
		id := w.idOf[string(k)]
		o.Present = append(o.Present, id)
		co := commitObs{Parents: []int{}}
		c, err := objects.GetCommit(db, k)
		if err != nil {
			co.Why = "commit unreadable: " + err.Error()
			o.Commits[id] = co
			continue
		}
		for _, p := range c.Parents {
			co.Parents = append(co.Parents, w.idOf[string(p)]) // 0 = a commit never seen
		}
		sort.Ints(co.Parents)
		_, blocks, err := tbl.Read(db, c.Table)
		if err != nil {
			co.Why = "table unreadable: " + err.Error()
		} else {
			t, _ := objects.GetTable(db, c.Table)
			co.Content, co.Why = recognise(append([][]string{t.Columns}, tbl.Flatten(blocks)...), w.nk, w.s)
			if co.Content != nil && (len(t.PK) != 1 || t.PK[0] != 0) {
				co.Content, co.Why = nil, fmt.Sprintf("primary key %v", t.PK)
			}
		}
		o.Commits[id] = co
	}
	sort.Ints(o.Present)
	refs, err := ref.ListAllRefs(rs)
	if err != nil {
		return nil, err
	}
	for name, sum := range refs {
		o.Heads[name] = w.idOf[string(sum)] // 0 = points at a commit that is nowhere
		n := 0
		if lr, err := rs.LogReader(name); err == nil {
			for {
				if _, err := lr.Read(); err != nil {
					break
				}
				n++
			}
			lr.Close()
		}
		o.Logs[name] = n
		o.RawLogs[name] = n
	}
	return o, nil
}

// ---------------------------------------------------------------- the replay

type env struct {
	w     *world
	L, R  *cli.Repo
	work  string
	mu    sync.Mutex
	cur   http.Handler
	files int
}

// serve runs fn while the reference server serves R's stores under the fixed URL of the
// remote (R's stores are closed again before the next command on R's directory).
func (e *env) serve(fn func()) error {
	db, rs, closeFn, err := e.R.Open()
	if err != nil {
		return err
	}
	srv := refserver.New(db, rs, 0)
	e.mu.Lock()
	e.cur = srv.HTTP.Config.Handler
	e.mu.Unlock()
	fn()
	if poisoned {
		return nil // a command is stuck with connections and stores in use: nothing is closed, the process restarts
	}
	e.mu.Lock()
	e.cur = nil
	e.mu.Unlock()
	srv.Close()
	closeFn()
	return nil
}

// hangLimit bounds one command (the slowest legitimate one takes well under a second on an
// idle machine); the child's per-behaviour watchdog stays the fallback.
const hangLimit = 30 * time.Second

// poisoned: a command of an earlier behaviour never returned.  Its goroutine still holds the
// process-wide lock of the in-process command line, so the process replaces itself (same
// pid, same pipes) before it runs the next behaviour.
var poisoned bool

func restartFrom(i int) {
	exe, err := os.Executable()
	if err != nil {
		exe = os.Args[0]
	}
	args := append(append([]string{}, os.Args...), "--after", strconv.Itoa(i-1))
	syscall.Exec(exe, args, os.Environ())
	os.Exit(4) // exec failed: the driver attributes the death to the behaviour in flight
}

// watched runs one command; if it does not return it reports the goroutine stacks.
func watched(r *cli.Repo, args ...string) (out string, err error, stacks string) {
	type res struct {
		out string
		err error
	}
	ch := make(chan res, 1)
	go func() {
		o, er := r.Run(nil, args...)
		ch <- res{o, er}
	}()
	select {
	case x := <-ch:
		return x.out, x.err, ""
	case <-time.After(hangLimit):
		buf := make([]byte, 1<<22)
		n := runtime.Stack(buf, true)
		poisoned = true
		return "", fmt.Errorf("command did not return within %v", hangLimit), string(buf[:n])
	}
}

// hangKind names the place a command is stuck in, as narrowly as the stacks allow.
func hangKind(stacks string) string {
	switch {
	case strings.Contains(stacks, "pbar.(*bar).Done") && strings.Contains(stacks, "collectMergeConflicts"):
		return "hang-progress-bar-done-after-merge"
	case strings.Contains(stacks, "pbar.(*bar).Done"):
		return "hang-progress-bar-done"
	}
	return "hang"
}

// stuckFrames keeps the goroutines that are inside wrgl's own code.
func stuckFrames(stacks string) []string {
	out := []string{}
	for _, g := range strings.Split(stacks, "\n\n") {
		if strings.Contains(g, "github.com/wrgl/wrgl/") && !strings.Contains(g, "system2x.watched(") {
			lines := strings.Split(g, "\n")
			if len(lines) > 14 {
				lines = lines[:14]
			}
			out = append(out, strings.Join(lines, "\n"))
		}
	}
	if len(out) > 6 {
		out = out[:6]
	}
	return out
}

func (e *env) csvFile(r *cli.Repo, content []int) (string, error) {
	e.files++
	return r.WriteFile(fmt.Sprintf("t%d.csv", e.files), tbl.CSV(rowsOf(content, e.w.s, false), 0))
}

func tailS(s string, n int) string {
	if len(s) > n {
		return s[len(s)-n:]
	}
	return s
}

func exportRows(r *cli.Repo, name string) ([][]string, string, error) {
	out, err := r.Run(nil, "export", name)
	if err != nil {
		return nil, out, err
	}
	rows, perr := csv.NewReader(strings.NewReader(out)).ReadAll()
	if perr != nil {
		return nil, out, fmt.Errorf("export output is not CSV: %v", perr)
	}
	return rows, out, nil
}

// conflictFile parses CONFLICTS_*.csv written by `wrgl merge --no-gui`: the keys listed as
// conflicts (labelled rows) and the content of the resolved remainder (unlabelled rows).
func conflictFile(dir string, nk, s int) (conf []int, rest []int, why string, found bool) {
	names, _ := filepath.Glob(filepath.Join(dir, "CONFLICTS_*.csv"))
	if len(names) == 0 {
		return nil, nil, "no CONFLICTS_*.csv written", false
	}
	defer func() {
		for _, n := range names {
			os.Remove(n)
		}
	}()
	f, err := os.Open(names[0])
	if err != nil {
		return nil, nil, err.Error(), true
	}
	defer f.Close()
	rd := csv.NewReader(f)
	rd.FieldsPerRecord = -1
	rows, err := rd.ReadAll()
	if err != nil || len(rows) == 0 {
		return nil, nil, fmt.Sprintf("unparsable: %v", err), true
	}
	if len(rows[0]) != 3 || rows[0][0] != "" {
		return nil, nil, fmt.Sprintf("header %v", rows[0]), true
	}
	plain := [][]string{rows[0][1:]}
	cset := map[int]map[int]bool{}
	for _, r := range rows[1:] {
		if len(r) != 3 {
			return nil, nil, fmt.Sprintf("row %v", r), true
		}
		switch {
		case strings.HasPrefix(r[0], "COLUMNS IN "):
		case r[0] == "":
			plain = append(plain, r[1:])
		default:
			if k, j, ok := parseKey(r[1]); ok {
				if cset[k] == nil {
					cset[k] = map[int]bool{}
				}
				cset[k][j] = true
			}
		}
	}
	for k, js := range cset {
		if len(js) != s {
			return nil, nil, fmt.Sprintf("key %d: %d of %d rows listed as conflicts", k, len(js), s), true
		}
		conf = append(conf, k)
	}
	sort.Ints(conf)
	rest, why = recognise(plain, nk, s)
	return conf, rest, why, true
}

// mergeFile reads (and removes) the MERGE_<sums>.csv that `--no-commit` writes.
func mergeFile(dir string, nk, s int) (content []int, why string, found bool) {
	names, _ := filepath.Glob(filepath.Join(dir, "MERGE_*.csv"))
	if len(names) == 0 {
		return nil, "no MERGE_*.csv written", false
	}
	defer func() {
		for _, n := range names {
			os.Remove(n)
		}
	}()
	f, err := os.Open(names[0])
	if err != nil {
		return nil, err.Error(), true
	}
	defer f.Close()
	rd := csv.NewReader(f)
	rd.FieldsPerRecord = -1
	rows, err := rd.ReadAll()
	if err != nil || len(rows) == 0 {
		return nil, fmt.Sprintf("unparsable: %v", err), true
	}
	content, why = recognise(rows, nk, s)
	return content, why, true
}

var commitLine = regexp.MustCompile(`(?m)^commit ([0-9a-f]{32})$`)

func intsEq(a, b []int) bool {
	if len(a) != len(b) {
		return false
	}
	for i := range a {
		if a[i] != b[i] {
			return false
		}
	}
	return true
}

// scaleOf derives the number of real rows per abstract key from the behaviour itself (its
// commands and commit table, not the bytes of the line), so that a replay of the same
// behaviour from a replay file uses the same tables.
func scaleOf(doc *Doc) int {
	h := fnv.New32a()
	for _, c := range doc.C {
		var content, parents []int
		json.Unmarshal(c[0], &content)
		json.Unmarshal(c[1], &parents)
		fmt.Fprint(h, content, sorted(parents))
	}
	for _, st := range doc.H {
		for _, o := range st.Op {
			var v interface{}
			json.Unmarshal(o, &v)
			fmt.Fprint(h, v)
		}
	}
	if h.Sum32()%4 == 3 {
		return 100 // 3 keys -> 300 rows: two blocks
	}
	return 1
}

var slowOnce sync.Once

// slowMerge: VERIF_S2_SLOW_MERGE=<microseconds> makes the merger pause at every row it
// receives (the hook the pool engine yields at), as a large table or a slow disk would.  It
// turns a merge into one that lasts longer than a tick of its progress tracker - the
// deterministic witness of the recorded progress-bar hang.
func slowMerge() {
	slowOnce.Do(func() {
		us, _ := strconv.Atoi(os.Getenv("VERIF_S2_SLOW_MERGE"))
		if us <= 0 {
			return
		}
		prev := vhook.YieldFn
		vhook.YieldFn = func(point string) {
			if prev != nil {
				prev(point)
			}
			if point == "merge.recv" {
				time.Sleep(time.Duration(us) * time.Microsecond)
			}
		}
	})
}

// Replay runs one behaviour of System2.tla.
func Replay(i int, raw []byte) child.Result {
	if poisoned {
		restartFrom(i)
	}
	slowMerge()
	var doc Doc
	if err := json.Unmarshal(raw, &doc); err != nil {
		return child.Inconclusive(err)
	}
	if len(doc.C) == 0 || len(doc.H) == 0 {
		return child.Inconclusive(fmt.Errorf("empty behaviour"))
	}
	table := make([]commitObs, len(doc.C)+1)
	for id, c := range doc.C {
		var co commitObs
		json.Unmarshal(c[0], &co.Content)
		json.Unmarshal(c[1], &co.Parents)
		co.Parents = sorted(co.Parents)
		table[id+1] = co
	}
	w := &world{nk: len(table[1].Content), s: scaleOf(&doc), idOf: map[string]int{}}
	work, err := os.MkdirTemp("", "system2")
	if err != nil {
		return child.Inconclusive(err)
	}
	defer func() {
		if !poisoned {
			os.RemoveAll(work)
		}
	}()
	// `wrgl merge --no-gui` writes into the working directory
	if old, err := os.Getwd(); err == nil {
		defer os.Chdir(old)
	}
	if err := os.Chdir(work); err != nil {
		return child.Inconclusive(err)
	}
	e := &env{w: w, work: work}
	front := httptest.NewServer(http.HandlerFunc(func(rw http.ResponseWriter, rq *http.Request) {
		e.mu.Lock()
		h := e.cur
		e.mu.Unlock()
		if h == nil {
			http.Error(rw, "remote is not being served", 503)
			return
		}
		h.ServeHTTP(rw, rq)
	}))
	defer func() {
		if !poisoned {
			front.Close()
		}
	}()
	if e.R, err = cli.NewRepoFast(work, "remote", ""); err != nil {
		return child.Inconclusive(err)
	}
	branches := map[string]bool{"main": true}
	for _, st := range doc.H {
		if len(st.Op) == 5 {
			switch str(st.Op[0]) {
			case "commit", "push", "pull", "merge", "create", "delete", "reset":
				branches[str(st.Op[2])] = true
			case "copy", "move":
				branches[str(st.Op[2])] = true
				branches[str(st.Op[3])] = true
			}
		}
	}
	for _, b := range doc.B {
		branches[b] = true
	}
	yaml := fmt.Sprintf("remote:\n  origin:\n    url: %s\n    fetch:\n    - refs/heads/*:refs/remotes/origin/*\nbranch:\n", front.URL)
	bl := []string{}
	for b := range branches {
		bl = append(bl, b)
	}
	sort.Strings(bl)
	for _, b := range bl {
		yaml += fmt.Sprintf("  %s:\n    remote: origin\n    merge: refs/heads/%s\n", b, b)
	}
	if e.L, err = cli.NewRepoFast(work, "local", yaml); err != nil {
		return child.Inconclusive(err)
	}

	ops := []string{}
	labels := map[string]bool{}
	optionalLogs := map[string]int{} // ref of L -> log entries of the pinned code that a repository may lack
	for n, st := range doc.H {
		if len(st.Op) != 5 {
			return child.Inconclusive(fmt.Errorf("step %d: malformed op", n))
		}
		name, side, b, kind := str(st.Op[0]), str(st.Op[1]), str(st.Op[2]), str(st.Op[4])
		repo := e.L
		if side == "R" {
			repo = e.R
		}
		var out, stacks string
		var runErr error
		var args []string
		run := func(r *cli.Repo, a ...string) {
			args = a
			ops = append(ops, side+": wrgl "+strings.Join(a, " "))
			out, runErr, stacks = watched(r, a...)
		}
		var harnessErr error
		var mx mergeX
		switch name {
		case "init":
			f, err := e.csvFile(e.R, table[1].Content)
			if err != nil {
				return child.Inconclusive(err)
			}
			side = "R"
			run(e.R, "commit", "main", f, "initial", "-p", "k", "-n", "1")
			if runErr == nil {
				side = "L"
				harnessErr = e.serve(func() { run(e.L, "pull", "main") })
			}
		case "commit":
			var content []int
			json.Unmarshal(st.X, &content)
			f, err := e.csvFile(repo, content)
			if err != nil {
				return child.Inconclusive(err)
			}
			run(repo, "commit", b, f, fmt.Sprintf("step %d", n), "-p", "k", "-n", "1")
		case "fetch":
			a := []string{"fetch"}
			if str(st.Op[3]) == "force" {
				a = append(a, "--force")
			}
			harnessErr = e.serve(func() { run(e.L, a...) })
		case "push":
			a := []string{"push", "origin", fmt.Sprintf("refs/heads/%s:refs/heads/%s", b, b)}
			if str(st.Op[3]) == "force" {
				a = append(a, "--force")
			}
			harnessErr = e.serve(func() { run(e.L, a...) })
		case "pull":
			var fm [2]string
			json.Unmarshal(st.Op[3], &fm)
			// (a message of its own: with `reset` in the alphabet the same merge can be made twice, and within one second
			// two merge commits with the default message would be ONE object)
			a := []string{"pull", b, "-n", "1", "-m", fmt.Sprintf("merge at step %d", n)}
			if fm[0] == "force" {
				a = append(a, "--force")
			}
			switch fm[1] {
			case "ffonly":
				a = append(a, "--ff-only")
			case "nogui":
				a = append(a, "--no-gui")
			case "nocommit":
				a = append(a, "--no-commit")
			}
			json.Unmarshal(st.X, &mx)
			harnessErr = e.serve(func() { run(e.L, a...) })
		case "merge":
			json.Unmarshal(st.X, &mx)
			a := []string{"merge", "heads/" + b, mx.Other, "-n", "1", "-m", fmt.Sprintf("merge at step %d", n)}
			switch str(st.Op[3]) {
			case "ffonly":
				a = append(a, "--ff-only")
			case "noff":
				a = append(a, "--no-ff")
			case "nogui":
				a = append(a, "--no-gui")
			case "nocommit":
				a = append(a, "--no-commit")
			case "csv":
				// the table of the merge commit is given as a file (the model: "ours")
				if st.Obs.NC < 1 || st.Obs.NC >= len(table) {
					return child.Inconclusive(fmt.Errorf("step %d: no commit for --commit-csv", n))
				}
				f, err := e.csvFile(e.L, table[st.Obs.NC].Content)
				if err != nil {
					return child.Inconclusive(err)
				}
				a = append(a, "--commit-csv", f)
			}
			run(e.L, a...)
		case "create":
			run(repo, "branch", "create", b, str(st.Op[3]))
		case "delete":
			run(repo, "branch", "delete", b)
		case "reset":
			var c int
			json.Unmarshal(st.X, &c)
			sum := w.sumOf(c)
			if sum == "" {
				return child.Inconclusive(fmt.Errorf("step %d: reset to commit %d, which was never seen", n, c))
			}
			run(e.L, "reset", b, hex.EncodeToString([]byte(sum)))
		case "copy":
			run(repo, "branch", "create", b, "--copy", str(st.Op[3]))
		case "move":
			run(repo, "branch", "create", b, "--move", str(st.Op[3]))
		case "pushall":
			a := []string{"push", "--all"}
			if str(st.Op[3]) == "force" {
				a = append(a, "--force")
			}
			harnessErr = e.serve(func() { run(e.L, a...) })
		case "pullall":
			var fm [2]string
			json.Unmarshal(st.Op[3], &fm)
			a := []string{"pull", "--all", "-n", "1"}
			if fm[0] == "force" {
				a = append(a, "--force")
			}
			if fm[1] == "ffonly" {
				a = append(a, "--ff-only")
			}
			harnessErr = e.serve(func() { run(e.L, a...) })
		case "log":
			run(repo, "log", strings.TrimPrefix(b, "heads/"), "--no-pager")
		case "reflog":
			run(repo, "reflog", b, "--no-pager")
		case "prune":
			run(e.L, "prune")
		case "export":
			run(repo, "export", b)
		default:
			return child.Inconclusive(fmt.Errorf("step %d: unknown op %q", n, name))
		}
		if harnessErr != nil {
			return child.Inconclusive(fmt.Errorf("step %d: serving the remote: %v", n, harnessErr))
		}
		labels[name+"/"+kind] = true
		if os.Getenv("VERIF_S2_DEBUG") != "" {
			fmt.Fprintf(os.Stderr, "step %d %s: wrgl %s -> err=%v\n%s\n", n, side, strings.Join(args, " "), runErr, tailS(out, 300))
		}
		ctx := map[string]interface{}{"step": n, "op": name, "kind": kind, "scale": w.s, "command": side + ": wrgl " + strings.Join(args, " "),
			"commands_so_far": ops, "output": tailS(out, 600), "error": fmt.Sprint(runErr), "expected_ok": st.Ok, "expected_rejected": st.Rej}
		fail := func(what string) child.Result { return child.Fail("system2/"+name+"/"+what, ctx) }
		if stacks != "" {
			ctx["stuck_goroutines"] = stuckFrames(stacks)
			return fail(hangKind(stacks))
		}

		alts := mx.alts()
		realMerge := (name == "merge" || name == "pull") && kind == "real"
		// ---- exit status and reported rejections
		// (the statement asks that a rejected update be reported; which exit status a fetch or
		// push with a reported rejection has is not demanded)
		statusFree := (name == "fetch" || name == "push" || name == "pushall") && len(st.Rej) > 0
		if (runErr == nil) != st.Ok && !statusFree {
			if realMerge && runErr != nil {
				// the model's base merges cleanly; another admissible base conflicts, and the
				// command then needs its interactive tool: the behaviour ends here, no verdict
				for _, a := range alts {
					if len(a.Conf) > 0 && strings.Contains(fmt.Sprint(runErr), "tty") {
						return child.Pass(fmt.Sprintf("base-alt@%d", n))
					}
				}
			}
			return fail("exit-status")
		}
		for _, rn := range st.Rej {
			short := strings.TrimPrefix(strings.TrimPrefix(rn, "heads/"), "remotes/")
			found := false
			for _, line := range strings.Split(out, "\n") {
				if strings.Contains(line, "rejected") && strings.Contains(line, short) {
					found = true
				}
			}
			if !found {
				ctx["rejected_ref"] = rn
				return fail("rejection-not-reported")
			}
		}
		// ---- export: the rows printed
		if name == "export" && runErr == nil {
			var content []int
			json.Unmarshal(st.X, &content)
			got, perr := csv.NewReader(strings.NewReader(out)).ReadAll()
			want := rowsOf(content, w.s, true)
			if perr != nil || !reflect.DeepEqual(got, want) {
				ctx["rows_expected"], ctx["rows_observed"], ctx["parse_error"] = want, got, fmt.Sprint(perr)
				delete(ctx, "output")
				return fail("rows")
			}
		}
		// ---- --no-gui: the conflicts file against the oracle (any admissible base)
		if kind == "nogui-clean" || kind == "nogui-conflict" {
			conf, rest, why, found := conflictFile(work, w.nk, w.s)
			ctx["file_conflict_keys"], ctx["file_rest"], ctx["file_problem"], ctx["admissible"] = conf, rest, why, alts
			if !found {
				return fail("conflict-file-missing")
			}
			match := false
			for _, a := range alts {
				if rest != nil && intsEq(a.Conf, conf) && intsEq(a.Content, rest) {
					match = true
				}
			}
			if !match {
				return fail("conflict-file")
			}
		}
		// ---- --no-commit: the merge result file against the oracle (any admissible base)
		if kind == "nocommit-clean" {
			content, why, found := mergeFile(work, w.nk, w.s)
			ctx["file_content"], ctx["file_problem"], ctx["admissible"] = content, why, alts
			if !found {
				return fail("merge-file-missing")
			}
			match := false
			for _, a := range alts {
				if content != nil && len(a.Conf) == 0 && intsEq(a.Content, content) {
					match = true
				}
			}
			if !match {
				return fail("merge-file")
			}
		}
		// ---- log: the first-parent chain from the head, every listed commit a parent of the one before
		if name == "log" && runErr == nil {
			var head int
			json.Unmarshal(st.X, &head)
			chain := []int{}
			for _, m := range commitLine.FindAllStringSubmatch(out, -1) {
				raw, _ := hex.DecodeString(m[1])
				chain = append(chain, w.idOf[string(raw)])
			}
			ctx["chain"], ctx["head"] = chain, head
			good := len(chain) > 0 && chain[0] == head && !strings.Contains(out, "<missing")
			for i := 0; good && i < len(chain); i++ {
				c := chain[i]
				if c < 1 || c >= len(table) {
					good = false
				} else if i+1 < len(chain) {
					isParent := false
					for _, p := range table[c].Parents {
						isParent = isParent || p == chain[i+1]
					}
					good = isParent
				} else {
					good = len(table[c].Parents) == 0
				}
			}
			if !good {
				return fail("chain")
			}
		}
		// ---- the state of both repositories
		first, second := e.L, e.R
		if side == "R" {
			first, second = e.R, e.L
		}
		o1, err := w.project(first)
		if err != nil {
			ctx["projection_error"] = err.Error()
			return fail("unreadable")
		}
		o2, err := w.project(second)
		if err != nil {
			ctx["projection_error"] = err.Error()
			return fail("unreadable")
		}
		obsL, obsR := o1, o2
		if side == "R" {
			obsL, obsR = o2, o1
		}
		exp := map[string]interface{}{"L.heads": pairs(st.Obs.LH), "R.heads": pairs(st.Obs.RH), "L.present": sorted(st.Obs.LP), "R.present": sorted(st.Obs.RP),
			"L.required": sorted(st.Obs.LQ), "R.required": sorted(st.Obs.RQ), "L.logs": pairs(st.Obs.LL), "R.logs": pairs(st.Obs.RL), "commits": st.Obs.NC}
		ctx["expected"], ctx["observed"] = exp, map[string]interface{}{"L": obsL, "R": obsR}
		// a real merge whose commit carries the result over another admissible base: no verdict
		if realMerge && runErr == nil {
			if co, ok := obsL.Commits[st.Obs.NC]; ok && co.Content != nil && !intsEq(co.Content, table[st.Obs.NC].Content) {
				for _, a := range alts {
					if len(a.Conf) == 0 && intsEq(a.Content, co.Content) && a.Base != mx.Base {
						return child.Pass(fmt.Sprintf("base-alt@%d", n))
					}
				}
				ctx["admissible"] = alts
				return fail("merge-content")
			}
		}
		for _, sd := range []struct {
			tag       string
			o         *sideObs
			heads     map[string]int
			pres, req []int
			logs      map[string]int
		}{{"L", obsL, pairs(st.Obs.LH), st.Obs.LP, st.Obs.LQ, pairs(st.Obs.LL)}, {"R", obsR, pairs(st.Obs.RH), st.Obs.RP, st.Obs.RQ, pairs(st.Obs.RL)}} {
			if !reflect.DeepEqual(sd.o.Heads, sd.heads) {
				return fail(sd.tag + ".heads")
			}
			have := map[int]bool{}
			for _, c := range sd.o.Present {
				have[c] = true
			}
			for _, c := range sd.req {
				if !have[c] {
					ctx["missing_commit"] = c
					return fail(sd.tag + ".present-missing")
				}
			}
			may := map[int]bool{}
			for _, c := range sd.pres {
				may[c] = true
			}
			for _, c := range sd.o.Present {
				if !may[c] {
					ctx["extra_commit"] = c
					return fail(sd.tag + ".present-extra")
				}
			}
			for _, c := range sd.o.Present {
				co := sd.o.Commits[c]
				if c < 1 || c >= len(table) {
					ctx["extra_commit"] = c
					return fail(sd.tag + ".present-extra")
				}
				if !intsEq(co.Parents, table[c].Parents) {
					ctx["commit"] = c
					return fail(sd.tag + ".commit-parents")
				}
				if co.Content == nil || !intsEq(co.Content, table[c].Content) {
					ctx["commit"], ctx["commit_expected"] = c, table[c]
					if co.Content == nil && strings.Contains(co.Why, "unreadable") {
						return fail(sd.tag + ".objects-unreadable")
					}
					return fail(sd.tag + ".commit-content")
				}
			}
			// The pinned code logs a "fast-forward" of a branch onto the commit it already is
			// at (merging an ancestor); no statement demands or forbids that entry, so a
			// repository may lack it: optional entries are counted per ref.
			if sd.tag == "L" {
				for r := range optionalLogs {
					if _, ok := sd.o.Logs[r]; !ok {
						delete(optionalLogs, r)
					}
				}
				if kind == "self-ff" {
					r := "heads/" + b
					if sd.o.Logs[r]+optionalLogs[r]+1 == sd.logs[r] {
						optionalLogs[r]++
					}
				}
				for r, n := range optionalLogs {
					sd.o.Logs[r] += n
				}
			}
			if !reflect.DeepEqual(sd.o.Logs, sd.logs) {
				return fail(sd.tag + ".logs")
			}
		}
		// ---- reflog: one line per entry of the log the store holds, newest first (the newest entry's new
		// value is the value of the ref)
		if name == "reflog" && runErr == nil {
			so := obsL
			if side == "R" {
				so = obsR
			}
			lines := []string{}
			for _, l := range strings.Split(strings.TrimSpace(out), "\n") {
				if strings.TrimSpace(l) != "" {
					lines = append(lines, l)
				}
			}
			var want int
			json.Unmarshal(st.X, &want)
			headSum := hex.EncodeToString([]byte(w.sumOf(so.Heads[b])))
			ctx["reflog_lines"], ctx["entries_in_store"], ctx["entries_expected"] = len(lines), so.RawLogs[b], want
			if len(lines) != so.RawLogs[b] || len(lines) == 0 || len(headSum) < 7 || !strings.HasPrefix(lines[0], headSum[:7]+" ") {
				return fail("lines")
			}
		}
		// ---- convergence: a branch pushed and not moved since exports the same rows on both sides
		for _, sb := range st.Obs.SY {
			lr, lout, lerr := exportRows(e.L, "heads/"+sb)
			rr, rout, rerr := exportRows(e.R, "heads/"+sb)
			if lerr != nil || rerr != nil || lout != rout || !reflect.DeepEqual(lr, rr) {
				ctx["branch"], ctx["export_L"], ctx["export_R"], ctx["export_errors"] = sb, tailS(lout, 300), tailS(rout, 300), fmt.Sprint(lerr, " / ", rerr)
				return fail("convergence")
			}
		}
	}
	// class: the scale and the notable outcomes the behaviour went through
	notable := []string{}
	for _, k := range []string{"merge/real", "pull/real", "merge/nogui-conflict", "pull/nogui-conflict", "merge/merge-commit", "push/rejected", "push/forced",
		"fetch/rejected", "pull/fetch-rejected", "prune/removed",
		"reset/moved", "copy/done", "move/done", "pushall/ok", "pushall/rejected", "pushall/stops", "pullall/ok", "pullall/stops",
		"merge/nocommit-clean", "pull/nocommit-clean", "merge/csv-commit"} {
		if labels[k] {
			notable = append(notable, k)
		}
	}
	return child.Pass(fmt.Sprintf("S%d:%s", w.s, strings.Join(notable, "+")))
}
