package tbl

import (
	"errors"
	"sync"

	"github.com/wrgl/wrgl/pkg/objects"
)

// ErrInjected is the read error injected by FaultGets.
var ErrInjected = errors.New("verif: injected store read error")

// FaultGets wraps a store for the pipelines that only read (diff, merge): the At-th Get fails
// (At = 0: never); with Sticky the key that failed keeps failing - an unreadable object, which
// every goroutine that needs it will run into.
type FaultGets struct {
	objects.Store
	At     int
	Sticky bool

	mu    sync.Mutex
	n     int
	fired bool
	bad   map[string]bool
}

func (f *FaultGets) Get(key []byte) ([]byte, error) {
	f.mu.Lock()
	f.n++
	fail := f.bad[string(key)]
	if !fail && f.At > 0 && f.n == f.At {
		fail, f.fired = true, true
		if f.Sticky {
			if f.bad == nil {
				f.bad = map[string]bool{}
			}
			f.bad[string(key)] = true
		}
	}
	f.mu.Unlock()
	if fail {
		return nil, ErrInjected
	}
	return f.Store.Get(key)
}

// Gets returns the number of Get calls so far; Fired whether the fault was injected.
func (f *FaultGets) Gets() int   { f.mu.Lock(); defer f.mu.Unlock(); return f.n }
func (f *FaultGets) Fired() bool { f.mu.Lock(); defer f.mu.Unlock(); return f.fired }

// FaultPoints picks the Get indices to fail out of 1..n: all of them when few, else a spread
// rotated by the seed.
func FaultPoints(n, max, seed int) []int {
	if n <= max {
		out := make([]int, n)
		for i := range out {
			out[i] = i + 1
		}
		return out
	}
	out := []int{1, 2, n - 1, n}
	step := n / (max - 4)
	if step < 1 {
		step = 1
	}
	for k := 3 + seed%step; k < n-1 && len(out) < max; k += step {
		out = append(out, k)
	}
	return out
}

// FaultSets wraps a store: the At-th Set fails (At = 0: never); reads and deletes pass through.
type FaultSets struct {
	objects.Store
	At int

	mu    sync.Mutex
	n     int
	fired bool
}

func (f *FaultSets) Set(key, val []byte) error {
	f.mu.Lock()
	f.n++
	fail := f.At > 0 && f.n == f.At
	if fail {
		f.fired = true
	}
	f.mu.Unlock()
	if fail {
		return ErrInjected
	}
	return f.Store.Set(key, val)
}

func (f *FaultSets) Sets() int   { f.mu.Lock(); defer f.mu.Unlock(); return f.n }
func (f *FaultSets) Fired() bool { f.mu.Lock(); defer f.mu.Unlock(); return f.fired }
