// Package tbl holds what every table-producing engine shares: a goroutine-safe
// in-memory object store, ingest helpers, and the projection of a stored table
// (ObserveTable) that spec/Objects.tla judges (property C03).
package tbl

import (
	"bytes"
	"encoding/csv"
	"encoding/hex"
	"fmt"
	"io"
	"reflect"
	"sort"
	"strings"
	"sync"

	"github.com/go-logr/logr"
	"github.com/pckhoi/meow"
	wdiff "github.com/wrgl/wrgl/pkg/diff"
	"github.com/wrgl/wrgl/pkg/doctor"
	"github.com/wrgl/wrgl/pkg/ingest"
	"github.com/wrgl/wrgl/pkg/objects"
	"github.com/wrgl/wrgl/pkg/pbar"
	"github.com/wrgl/wrgl/pkg/sorter"
)

// SafeStore is a mutex-protected map store (objmock.Store is not goroutine-safe).
// Fail, when set, is consulted before every Set (fault injection).
type SafeStore struct {
	mu   sync.Mutex
	m    map[string][]byte
	Fail func(key []byte) error
	Sets int
}

func NewSafeStore() *SafeStore { return &SafeStore{m: map[string][]byte{}} }

func (s *SafeStore) Get(key []byte) ([]byte, error) {
	s.mu.Lock()
	defer s.mu.Unlock()
	if v, ok := s.m[string(key)]; ok {
		return v, nil
	}
	return nil, objects.ErrKeyNotFound
}
func (s *SafeStore) Set(key, val []byte) error {
	s.mu.Lock()
	defer s.mu.Unlock()
	s.Sets++
	if s.Fail != nil {
		if err := s.Fail(key); err != nil {
			return err
		}
	}
	v := make([]byte, len(val))
	copy(v, val)
	s.m[string(key)] = v
	return nil
}
func (s *SafeStore) Delete(key []byte) error {
	s.mu.Lock()
	defer s.mu.Unlock()
	delete(s.m, string(key))
	return nil
}
func (s *SafeStore) Exist(key []byte) bool {
	s.mu.Lock()
	defer s.mu.Unlock()
	_, ok := s.m[string(key)]
	return ok
}
func (s *SafeStore) Filter(prefix []byte) (map[string][]byte, error) {
	s.mu.Lock()
	defer s.mu.Unlock()
	m := map[string][]byte{}
	for k, v := range s.m {
		if strings.HasPrefix(k, string(prefix)) {
			m[k] = v
		}
	}
	return m, nil
}
func (s *SafeStore) FilterKey(prefix []byte) ([][]byte, error) {
	s.mu.Lock()
	defer s.mu.Unlock()
	keys := [][]byte{}
	for k := range s.m {
		if strings.HasPrefix(k, string(prefix)) {
			keys = append(keys, []byte(k))
		}
	}
	sort.Slice(keys, func(i, j int) bool { return bytes.Compare(keys[i], keys[j]) < 0 })
	return keys, nil
}
func (s *SafeStore) Clear(prefix []byte) error {
	s.mu.Lock()
	defer s.mu.Unlock()
	for k := range s.m {
		if strings.HasPrefix(k, string(prefix)) {
			delete(s.m, k)
		}
	}
	return nil
}
func (s *SafeStore) Close() error { return nil }

// Keys returns every key of the store, sorted.
func (s *SafeStore) Keys() []string {
	s.mu.Lock()
	defer s.mu.Unlock()
	keys := make([]string, 0, len(s.m))
	for k := range s.m {
		keys = append(keys, k)
	}
	sort.Strings(keys)
	return keys
}

// CSV renders rows (header first) as CSV bytes with the given delimiter (0 = comma).
func CSV(rows [][]string, delim rune) []byte {
	buf := bytes.NewBuffer(nil)
	w := csv.NewWriter(buf)
	if delim != 0 {
		w.Comma = delim
	}
	w.WriteAll(rows)
	w.Flush()
	return buf.Bytes()
}

type IngestOpts struct {
	RunSize uint64 // 0 = never spill
	Workers int    // value given to ingest.WithNumWorkers (the code subtracts 2)
	Delim   rune
	Bar     pbar.Bar // the progress bar the block workers report to (nil: none, as the library's callers without a terminal)
}

// Ingest runs the real ingest.IngestTable over CSV bytes.
func Ingest(db objects.Store, csvBytes []byte, pk []string, o IngestOpts) ([]byte, error) {
	rs := o.RunSize
	if rs == 0 {
		rs = 1 << 40
	}
	sopts := []sorter.SorterOption{sorter.WithRunSize(rs)}
	if o.Delim != 0 {
		sopts = append(sopts, sorter.WithDelimiter(o.Delim))
	}
	s, err := sorter.NewSorter(sopts...)
	if err != nil {
		return nil, err
	}
	iopts := []ingest.InserterOption{}
	if o.Workers > 0 {
		iopts = append(iopts, ingest.WithNumWorkers(o.Workers))
	}
	if o.Bar != nil {
		iopts = append(iopts, ingest.WithProgressBar(o.Bar))
	}
	return ingest.IngestTable(db, s, io.NopCloser(bytes.NewReader(csvBytes)), pk, logr.Discard(), iopts...)
}

// Read returns the table object and its rows block by block.
func Read(db objects.Store, sum []byte) (*objects.Table, [][][]string, error) {
	t, err := objects.GetTable(db, sum)
	if err != nil {
		return nil, nil, fmt.Errorf("GetTable: %v", err)
	}
	blocks := make([][][]string, len(t.Blocks))
	var bb []byte
	for i, bs := range t.Blocks {
		var blk [][]string
		blk, bb, err = objects.GetBlock(db, bb, bs)
		if err != nil {
			return t, nil, fmt.Errorf("GetBlock %d: %v", i, err)
		}
		cp := make([][]string, len(blk))
		for j, r := range blk {
			cp[j] = append([]string{}, r...)
		}
		blocks[i] = cp
	}
	return t, blocks, nil
}

// Flatten concatenates blocks.
func Flatten(blocks [][][]string) [][]string {
	var rows [][]string
	for _, b := range blocks {
		rows = append(rows, b...)
	}
	return rows
}

// Obs is the projection of one stored table for spec/Objects.tla (TableWellFormed).
// Keys are replaced by their rank in byte order among the table's own keys
// (equal keys get equal ranks), so the specification sees order and equality only.
type Obs struct {
	Op       string     `json:"op"`
	Producer string     `json:"producer"`
	Sum      string     `json:"sum"`
	Rows     int        `json:"rows"`     // recorded RowsCount
	Blocks   [][]int    `json:"blocks"`   // per block: key rank of every row
	BlkIdx   [][][3]int `json:"blkidx"`   // per block: index entries as [position of the row with that key hash or -1, 1 if row hash matches else 0, claimed position]
	BlkIdxN  []int      `json:"blkidxn"`  // per block: number of index entries
	TblIdx   []int      `json:"tblidx"`   // per block: rank of the table-index key (-1 = not a key of the table)
	TblIdxOK bool       `json:"tblidxok"` // table index present and readable
	Diagnose []string   `json:"diagnose"` // issues reported by doctor
	Readers  []int      `json:"readers"`  // diff.NewTableReader read to the end: key rank of every row (-1: cells differ from the stored row)
	Seeks    [][2]int   `json:"seeks"`    // TableReader.Seek(offset) + Read at block-boundary offsets: [offset, rank or -1]
	RowList  [][2]int   `json:"rowlist"`  // diff.RowListReader over the same offsets (reverse order): [offset, rank or -1]
	Err      string     `json:"err"`
	Src      string     `json:"src"` // how the table was produced (replayable scenario), opaque to the spec
}

func keyOf(row []string, pk []uint32) []string {
	if len(pk) == 0 {
		return row
	}
	k := make([]string, len(pk))
	for i, u := range pk {
		if int(u) < len(row) {
			k[i] = row[u]
		}
	}
	return k
}

func cmpKey(a, b []string) int {
	for i := 0; i < len(a) && i < len(b); i++ {
		if c := strings.Compare(a[i], b[i]); c != 0 {
			return c
		}
	}
	return len(a) - len(b)
}

func hashOf(enc *objects.StrListEncoder, cells []string) string {
	h := meow.New(0)
	h.Write(enc.Encode(cells))
	return string(h.Sum(nil))
}

// Observe projects the stored table sum. It never fails: problems are recorded in
// the observation (Err) so that the specification decides.
func Observe(db objects.Store, sum []byte, producer string) *Obs {
	o := &Obs{Op: "tableobs", Producer: producer, Sum: hex.EncodeToString(sum), Blocks: [][]int{}, BlkIdx: [][][3]int{}, BlkIdxN: []int{}, TblIdx: []int{}, Diagnose: []string{}}
	t, blocks, err := Read(db, sum)
	if err != nil {
		o.Err = err.Error()
		return o
	}
	o.Rows = int(t.RowsCount)
	// ranks
	var keys [][]string
	for _, b := range blocks {
		for _, r := range b {
			keys = append(keys, keyOf(r, t.PK))
		}
	}
	sorted := append([][]string{}, keys...)
	sort.SliceStable(sorted, func(i, j int) bool { return cmpKey(sorted[i], sorted[j]) < 0 })
	rank := func(k []string) int {
		i := sort.Search(len(sorted), func(i int) bool { return cmpKey(sorted[i], k) >= 0 })
		if i < len(sorted) && cmpKey(sorted[i], k) == 0 {
			// rank = index of first equal key among distinct keys: count distinct before
			return i
		}
		return -1
	}
	enc := objects.NewStrListEncoder(true)
	var bb []byte
	for bi, b := range blocks {
		ranks := make([]int, len(b))
		keyHashPos := map[string]int{}
		rowHash := make([]string, len(b))
		for j, r := range b {
			ranks[j] = rank(keyOf(r, t.PK))
			rowHash[j] = hashOf(enc, r)
			kh := rowHash[j]
			if len(t.PK) > 0 {
				kh = hashOf(enc, keyOf(r, t.PK))
			}
			if _, dup := keyHashPos[kh]; !dup {
				keyHashPos[kh] = j
			}
		}
		o.Blocks = append(o.Blocks, ranks)
		entries := [][3]int{}
		n := -1
		if bi < len(t.BlockIndices) && t.BlockIndices[bi] != nil {
			var idx *objects.BlockIndex
			idx, bb, err = objects.GetBlockIndex(db, bb, t.BlockIndices[bi])
			if err == nil {
				n = idx.Len()
				for pos, e := range idx.Rows {
					if len(e) != 32 {
						entries = append(entries, [3]int{-1, 0, pos})
						continue
					}
					p, ok := keyHashPos[string(e[:16])]
					if !ok {
						entries = append(entries, [3]int{-1, 0, pos})
						continue
					}
					m := 0
					if string(e[16:]) == rowHash[p] {
						m = 1
					}
					// lookup through the index's own search must agree
					gp, gs := idx.Get(e[:16])
					if int(gp) != pos || string(gs) != string(e[16:]) {
						m = 0
					}
					entries = append(entries, [3]int{p, m, pos})
				}
			}
		}
		o.BlkIdx = append(o.BlkIdx, entries)
		o.BlkIdxN = append(o.BlkIdxN, n)
	}
	ti, err := objects.GetTableIndex(db, sum)
	if err == nil {
		o.TblIdxOK = true
		for _, k := range ti {
			o.TblIdx = append(o.TblIdx, rank(k))
		}
	}
	func() {
		defer func() {
			if r := recover(); r != nil {
				o.Diagnose = append(o.Diagnose, fmt.Sprintf("diagnose panicked: %v", r))
			}
		}()
		issues := DiagnoseTable(db, sum)
		o.Diagnose = append(o.Diagnose, issues...)
	}()
	observeReaders(db, t, blocks, rank, o)
	return o
}

// observeReaders reads the table through the repository's own row readers (pkg/diff: the table
// reader behind `wrgl preview`, the row-list reader behind `wrgl diff`) and projects what they return.
func observeReaders(db objects.Store, t *objects.Table, blocks [][][]string, rank func([]string) int, o *Obs) {
	o.Readers, o.Seeks, o.RowList = []int{}, [][2]int{}, [][2]int{}
	flat := Flatten(blocks)
	proj := func(i int, row []string) int {
		if i < 0 || i >= len(flat) || !reflect.DeepEqual(row, flat[i]) {
			return -1
		}
		return rank(keyOf(row, t.PK))
	}
	defer func() {
		if r := recover(); r != nil {
			o.Readers = append(o.Readers, -3) // a reader panicked
		}
	}()
	tr, err := wdiff.NewTableReader(db, t)
	if err != nil {
		o.Readers = append(o.Readers, -2)
		return
	}
	for i := 0; i <= len(flat)+2; i++ {
		row, err := tr.Read()
		if err == io.EOF {
			break
		}
		if err != nil {
			o.Readers = append(o.Readers, -2)
			break
		}
		o.Readers = append(o.Readers, proj(i, row))
	}
	var offs []int
	seen := map[int]bool{}
	for _, x := range []int{0, 1, 254, 255, 256, 509, 510, 511, len(flat) - 2, len(flat) - 1} {
		if x >= 0 && x < len(flat) && !seen[x] {
			seen[x] = true
			offs = append(offs, x)
		}
	}
	for _, x := range offs {
		if _, err := tr.Seek(x, io.SeekStart); err != nil {
			o.Seeks = append(o.Seeks, [2]int{x, -2})
			continue
		}
		row, err := tr.Read()
		if err != nil {
			o.Seeks = append(o.Seeks, [2]int{x, -2})
			continue
		}
		o.Seeks = append(o.Seeks, [2]int{x, proj(x, row)})
	}
	rl, err := wdiff.NewRowListReader(db, t)
	if err != nil {
		o.RowList = append(o.RowList, [2]int{-1, -2})
		return
	}
	for i := len(offs) - 1; i >= 0; i-- {
		rl.Add(uint32(offs[i]))
	}
	for i := len(offs) - 1; i >= 0; i-- {
		row, err := rl.Read()
		if err != nil {
			o.RowList = append(o.RowList, [2]int{offs[i], -2})
			continue
		}
		o.RowList = append(o.RowList, [2]int{offs[i], proj(offs[i], row)})
	}
}

var _ = doctor.Issue{}
