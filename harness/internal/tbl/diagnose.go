package tbl

import (
	"bytes"
	"context"
	"time"

	"github.com/go-logr/logr"
	"github.com/wrgl/wrgl/pkg/conf"
	"github.com/wrgl/wrgl/pkg/doctor"
	"github.com/wrgl/wrgl/pkg/objects"
	"github.com/wrgl/wrgl/pkg/ref"

	"verifharness/internal/refs"
)

// SaveCommit stores a commit object for table sum with the given parents.
func SaveCommit(db objects.Store, table []byte, parents [][]byte, msg string, t time.Time) ([]byte, *objects.Commit, error) {
	c := &objects.Commit{
		Table:       table,
		AuthorName:  "verif",
		AuthorEmail: "verif@example.invalid",
		Time:        t,
		Message:     msg,
		Parents:     parents,
	}
	buf := bytes.NewBuffer(nil)
	if _, err := c.WriteTo(buf); err != nil {
		return nil, nil, err
	}
	sum, err := objects.SaveCommit(db, buf.Bytes())
	if err != nil {
		return nil, nil, err
	}
	c.Sum = sum
	return sum, c, nil
}

// DiagnoseTable runs the repository's own doctor on a throw-away commit of the table
// and returns the issues it reports.
func DiagnoseTable(db objects.Store, table []byte) []string {
	rs, sqldb, err := refs.NewMemStore()
	if err != nil {
		return []string{"harness: " + err.Error()}
	}
	defer sqldb.Close()
	sum, com, err := SaveCommit(db, table, nil, "diagnose", time.Unix(1600000000, 0))
	if err != nil {
		return []string{"harness: " + err.Error()}
	}
	defer objects.DeleteCommit(db, sum)
	if err := ref.CommitHead(rs, "diag", sum, com, nil); err != nil {
		return []string{"harness: " + err.Error()}
	}
	d := doctor.NewDoctor(db, rs, conf.User{Name: "verif", Email: "verif@example.invalid"}, logr.Discard())
	ch, errCh, err := d.Diagnose(context.Background(), nil, nil, nil)
	if err != nil {
		return []string{"diagnose error: " + err.Error()}
	}
	out := []string{}
	for ri := range ch {
		for _, iss := range ri.Issues {
			out = append(out, iss.Err)
		}
	}
	if err, ok := <-errCh; ok && err != nil {
		out = append(out, "diagnose error: "+err.Error())
	}
	return out
}
