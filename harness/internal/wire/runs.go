// Package wire binds spec/Wire.tla (the format definition) to the real wrgl
// encoders, decoders and object store helpers (property C06).
//
// A scenario is one test vector printed by TLC from spec/WireGen.tla:
//
//	[kind, class, value, bytes | "err", extra]
//
// Everything expected (bytes, storage key prefix, storage mode, class label)
// comes from the specification; this package only builds the real value, calls
// the real code, projects the result back and compares.
package wire

import (
	"bytes"
	"encoding/json"
	"fmt"
)

// Runs is a run-length byte string: [[byte, count], ...] (spec/Wire.tla "Bytes").
type Runs [][2]int64

// Bytes expands the runs.
func (r Runs) Bytes() []byte {
	n := int64(0)
	for _, x := range r {
		n += x[1]
	}
	b := make([]byte, n)
	off := int64(0)
	for _, x := range r {
		if x[0] == 195 && x[1] >= 2 {
			// multi-byte text: U+00C3 (C3 83) repeated, same length in BYTES (an odd run ends in "z")
			seg := b[off : off+x[1]]
			for i := range seg {
				if i%2 == 0 {
					seg[i] = 0xC3
				} else {
					seg[i] = 0x83
				}
			}
			if len(seg)%2 == 1 {
				seg[len(seg)-1] = 'z'
			}
		} else if x[0] != 0 {
			seg := b[off : off+x[1]]
			for i := range seg {
				seg[i] = byte(x[0])
			}
		}
		off += x[1]
	}
	return b
}

func (r Runs) String() string { return string(r.Bytes()) }

func (r Runs) valid() error {
	for _, x := range r {
		if x[0] < 0 || x[0] > 255 || x[1] < 1 || x[1] > 1<<28 {
			return fmt.Errorf("bad run %v", x)
		}
	}
	return nil
}

// parseRuns decodes a JSON run list.
func parseRuns(raw json.RawMessage) ([]byte, error) {
	var r Runs
	if err := json.Unmarshal(raw, &r); err != nil {
		return nil, fmt.Errorf("runs: %v in %.60s", err, raw)
	}
	if err := r.valid(); err != nil {
		return nil, err
	}
	return r.Bytes(), nil
}

func parseRunsList(raw json.RawMessage) ([][]byte, error) {
	var l []json.RawMessage
	if err := json.Unmarshal(raw, &l); err != nil {
		return nil, fmt.Errorf("list of runs: %v in %.60s", err, raw)
	}
	out := make([][]byte, len(l))
	for i, x := range l {
		b, err := parseRuns(x)
		if err != nil {
			return nil, err
		}
		out[i] = b
	}
	return out, nil
}

// diff describes the first difference of two byte strings compactly.
type diff struct {
	WantLen int    `json:"want_len"`
	GotLen  int    `json:"got_len"`
	At      int    `json:"first_diff_at"`
	Want    string `json:"want_hex_at"`
	Got     string `json:"got_hex_at"`
}

func firstDiff(want, got []byte) *diff {
	if bytes.Equal(want, got) {
		return nil
	}
	n := len(want)
	if len(got) < n {
		n = len(got)
	}
	at := n
	for i := 0; i < n; i++ {
		if want[i] != got[i] {
			at = i
			break
		}
	}
	win := func(b []byte) string {
		lo, hi := at-4, at+12
		if lo < 0 {
			lo = 0
		}
		if hi > len(b) {
			hi = len(b)
		}
		if lo > hi {
			lo = hi
		}
		return fmt.Sprintf("%x", b[lo:hi])
	}
	return &diff{WantLen: len(want), GotLen: len(got), At: at, Want: win(want), Got: win(got)}
}

// short renders a byte string for a failure detail without flooding the replay file.
func short(b []byte) string {
	if len(b) <= 24 {
		return fmt.Sprintf("%q", b)
	}
	return fmt.Sprintf("%q...(%d bytes)", b[:16], len(b))
}
