package wire

import (
	"bytes"
	"encoding/binary"
	"encoding/json"
	"fmt"
	"math"
	"time"

	"github.com/wrgl/wrgl/pkg/objects"
)

// ---------------------------------------------------------------- abstract values
// (the shapes exported by WireGen.Export)

type aTime [3]int64 // z, sec, off (minutes)

type aCommit struct {
	Table   []byte
	AN, AE  []byte
	Time    aTime
	Msg     []byte
	Parents [][]byte
}

type aTable struct {
	Cols   [][]byte
	PK     []uint32
	Rows   uint32
	Blocks [][]byte
	Idx    [][]byte
}

type aBlkIdx struct {
	Off  []byte
	Rows [][2][]byte
}

type aTop struct {
	V []byte
	N uint32
}

type aCol struct {
	Name             []byte
	NA               uint32
	Fl               [5]*uint64 // float bits, nil = absent
	PctPresent       bool
	Pct              []uint64
	MinL, MaxL, AvgL int64
	TopPresent       bool
	Top              []aTop
}

type aProfile struct {
	Version, Rows uint32
	Cols          []aCol
}

func tuple(raw json.RawMessage, n int) ([]json.RawMessage, error) {
	var t []json.RawMessage
	if err := json.Unmarshal(raw, &t); err != nil {
		return nil, fmt.Errorf("tuple: %v in %.80s", err, raw)
	}
	if n >= 0 && len(t) != n {
		return nil, fmt.Errorf("tuple: want %d fields, got %d in %.80s", n, len(t), raw)
	}
	return t, nil
}

func parseTime(raw json.RawMessage) (t aTime, err error) {
	err = json.Unmarshal(raw, &t)
	return
}

func parseCommit(raw json.RawMessage) (c aCommit, err error) {
	t, err := tuple(raw, 6)
	if err != nil {
		return
	}
	if c.Table, err = parseRuns(t[0]); err != nil {
		return
	}
	if c.AN, err = parseRuns(t[1]); err != nil {
		return
	}
	if c.AE, err = parseRuns(t[2]); err != nil {
		return
	}
	if c.Time, err = parseTime(t[3]); err != nil {
		return
	}
	if c.Msg, err = parseRuns(t[4]); err != nil {
		return
	}
	c.Parents, err = parseRunsList(t[5])
	return
}

func parseTable(raw json.RawMessage) (a aTable, err error) {
	t, err := tuple(raw, 5)
	if err != nil {
		return
	}
	if a.Cols, err = parseRunsList(t[0]); err != nil {
		return
	}
	if err = json.Unmarshal(t[1], &a.PK); err != nil {
		return
	}
	if err = json.Unmarshal(t[2], &a.Rows); err != nil {
		return
	}
	if a.Blocks, err = parseRunsList(t[3]); err != nil {
		return
	}
	a.Idx, err = parseRunsList(t[4])
	return
}

func parseBlock(raw json.RawMessage) ([][][]byte, error) {
	var rows []json.RawMessage
	if err := json.Unmarshal(raw, &rows); err != nil {
		return nil, err
	}
	out := make([][][]byte, len(rows))
	for i, r := range rows {
		l, err := parseRunsList(r)
		if err != nil {
			return nil, err
		}
		out[i] = l
	}
	return out, nil
}

func parseBlkIdx(raw json.RawMessage) (x aBlkIdx, err error) {
	t, err := tuple(raw, 2)
	if err != nil {
		return
	}
	var off []int
	if err = json.Unmarshal(t[0], &off); err != nil {
		return
	}
	x.Off = make([]byte, len(off))
	for i, o := range off {
		x.Off[i] = byte(o)
	}
	var rows []json.RawMessage
	if err = json.Unmarshal(t[1], &rows); err != nil {
		return
	}
	for _, r := range rows {
		p, err := parseRunsList(r)
		if err != nil || len(p) != 2 {
			return x, fmt.Errorf("blkidx row: %v", err)
		}
		x.Rows = append(x.Rows, [2][]byte{p[0], p[1]})
	}
	return
}

func parseF64(raw json.RawMessage) (uint64, error) {
	b, err := parseRuns(raw)
	if err != nil {
		return 0, err
	}
	if len(b) != 8 {
		return 0, fmt.Errorf("float: %d bytes", len(b))
	}
	return binary.BigEndian.Uint64(b), nil
}

func parseCol(raw json.RawMessage) (c aCol, err error) {
	t, err := tuple(raw, 8)
	if err != nil {
		return
	}
	if c.Name, err = parseRuns(t[0]); err != nil {
		return
	}
	if err = json.Unmarshal(t[1], &c.NA); err != nil {
		return
	}
	fl, err := tuple(t[2], 5)
	if err != nil {
		return
	}
	for k := 0; k < 5; k++ {
		opt, err := tuple(fl[k], -1)
		if err != nil {
			return c, err
		}
		if len(opt) == 1 {
			u, err := parseF64(opt[0])
			if err != nil {
				return c, err
			}
			c.Fl[k] = &u
		}
	}
	pct, err := tuple(t[3], 2)
	if err != nil {
		return
	}
	c.PctPresent = string(pct[0]) == "1"
	pl, err := tuple(pct[1], -1)
	if err != nil {
		return
	}
	for _, p := range pl {
		u, err := parseF64(p)
		if err != nil {
			return c, err
		}
		c.Pct = append(c.Pct, u)
	}
	for i, dst := range []*int64{&c.MinL, &c.MaxL, &c.AvgL} {
		if err = json.Unmarshal(t[4+i], dst); err != nil {
			return
		}
	}
	top, err := tuple(t[7], 2)
	if err != nil {
		return
	}
	c.TopPresent = string(top[0]) == "1"
	tl, err := tuple(top[1], -1)
	if err != nil {
		return
	}
	for _, e := range tl {
		p, err := tuple(e, 2)
		if err != nil {
			return c, err
		}
		var vc aTop
		if vc.V, err = parseRuns(p[0]); err != nil {
			return c, err
		}
		if err = json.Unmarshal(p[1], &vc.N); err != nil {
			return c, err
		}
		c.Top = append(c.Top, vc)
	}
	return
}

func parseProfile(raw json.RawMessage) (p aProfile, err error) {
	t, err := tuple(raw, 3)
	if err != nil {
		return
	}
	if err = json.Unmarshal(t[0], &p.Version); err != nil {
		return
	}
	if err = json.Unmarshal(t[1], &p.Rows); err != nil {
		return
	}
	cols, err := tuple(t[2], -1)
	if err != nil {
		return
	}
	for _, c := range cols {
		ac, err := parseCol(c)
		if err != nil {
			return p, err
		}
		p.Cols = append(p.Cols, ac)
	}
	return
}

// ---------------------------------------------------------------- abstract -> real

func (t aTime) real() time.Time {
	if t[0] == 1 {
		return time.Time{}
	}
	return time.Unix(t[1], 0).In(time.FixedZone("", int(t[2])*60))
}

func (c aCommit) real() *objects.Commit {
	r := &objects.Commit{
		Table:       append([]byte{}, c.Table...),
		AuthorName:  string(c.AN),
		AuthorEmail: string(c.AE),
		Time:        c.Time.real(),
		Message:     string(c.Msg),
	}
	for _, p := range c.Parents {
		r.Parents = append(r.Parents, append([]byte{}, p...))
	}
	return r
}

func strs(l [][]byte) []string {
	out := make([]string, len(l))
	for i, b := range l {
		out[i] = string(b)
	}
	return out
}

func (a aTable) real() *objects.Table {
	t := &objects.Table{Columns: strs(a.Cols), PK: append([]uint32{}, a.PK...), RowsCount: a.Rows}
	for _, b := range a.Blocks {
		t.Blocks = append(t.Blocks, append([]byte{}, b...))
	}
	for _, b := range a.Idx {
		t.BlockIndices = append(t.BlockIndices, append([]byte{}, b...))
	}
	return t
}

func realBlock(b [][][]byte) [][]string {
	out := make([][]string, len(b))
	for i, r := range b {
		out[i] = strs(r)
	}
	return out
}

func f64(u *uint64) *float64 {
	if u == nil {
		return nil
	}
	f := math.Float64frombits(*u)
	return &f
}

func (p aProfile) real() *objects.TableProfile {
	r := &objects.TableProfile{Version: p.Version, RowsCount: p.Rows, Columns: []*objects.ColumnProfile{}}
	for _, c := range p.Cols {
		col := &objects.ColumnProfile{
			Name: string(c.Name), NACount: c.NA,
			Min: f64(c.Fl[0]), Max: f64(c.Fl[1]), Mean: f64(c.Fl[2]), Median: f64(c.Fl[3]), StdDeviation: f64(c.Fl[4]),
			MinStrLen: uint16(c.MinL), MaxStrLen: uint16(c.MaxL), AvgStrLen: uint16(c.AvgL),
		}
		if c.PctPresent {
			col.Percentiles = make([]float64, len(c.Pct))
			for i, u := range c.Pct {
				col.Percentiles[i] = math.Float64frombits(u)
			}
		}
		if c.TopPresent {
			col.TopValues = make(objects.ValueCounts, len(c.Top))
			for i, vc := range c.Top {
				col.TopValues[i] = objects.ValueCount{Value: string(vc.V), Count: vc.N}
			}
		}
		r.Columns = append(r.Columns, col)
	}
	return r
}

// ---------------------------------------------------------------- real -> abstract, comparison

// projTime keeps what the format represents: the zero time, or whole seconds and the
// zone offset in minutes.
func projTime(t time.Time) (aTime, error) {
	if t.IsZero() {
		return aTime{1, 0, 0}, nil
	}
	_, off := t.Zone()
	if off%60 != 0 {
		return aTime{}, fmt.Errorf("zone offset %ds is not whole minutes", off)
	}
	return aTime{0, t.Unix(), int64(off / 60)}, nil
}

func eqList(a, b [][]byte) bool {
	if len(a) != len(b) {
		return false
	}
	for i := range a {
		if !bytes.Equal(a[i], b[i]) {
			return false
		}
	}
	return true
}

func eqStrs(want [][]byte, got []string) bool {
	if len(want) != len(got) {
		return false
	}
	for i := range want {
		if string(want[i]) != got[i] {
			return false
		}
	}
	return true
}

// cmpCommit returns "" or the name of the first field that differs.
func cmpCommit(want aCommit, got *objects.Commit) string {
	if got == nil {
		return "nil commit"
	}
	switch {
	case !bytes.Equal(want.Table, got.Table):
		return "table"
	case string(want.AN) != got.AuthorName:
		return "authorName"
	case string(want.AE) != got.AuthorEmail:
		return "authorEmail"
	case string(want.Msg) != got.Message:
		return "message"
	case !eqList(want.Parents, got.Parents):
		return "parents"
	}
	pt, err := projTime(got.Time)
	if err != nil || pt != want.Time {
		return fmt.Sprintf("time (want %v got %v %v)", want.Time, pt, err)
	}
	return ""
}

func cmpTable(want aTable, got *objects.Table) string {
	if got == nil {
		return "nil table"
	}
	switch {
	case !eqStrs(want.Cols, got.Columns):
		return "columns"
	case len(want.PK) != len(got.PK):
		return "pk"
	case want.Rows != got.RowsCount:
		return "rows"
	case !eqList(want.Blocks, got.Blocks):
		return "blocks"
	case !eqList(want.Idx, got.BlockIndices):
		return "blockIndices"
	}
	for i := range want.PK {
		if want.PK[i] != got.PK[i] {
			return "pk"
		}
	}
	return ""
}

func cmpBlock(want [][][]byte, got [][]string) string {
	if len(want) != len(got) {
		return fmt.Sprintf("row count (want %d got %d)", len(want), len(got))
	}
	for i := range want {
		if !eqStrs(want[i], got[i]) {
			return fmt.Sprintf("row %d", i)
		}
	}
	return ""
}

func cmpF(want *uint64, got *float64) bool {
	if want == nil || got == nil {
		return want == nil && got == nil
	}
	return *want == math.Float64bits(*got)
}

func cmpProfile(want aProfile, got *objects.TableProfile) string {
	if got == nil {
		return "nil profile"
	}
	if want.Version != got.Version || want.Rows != got.RowsCount || len(want.Cols) != len(got.Columns) {
		return "version/rowsCount/colsCount"
	}
	for i, w := range want.Cols {
		g := got.Columns[i]
		switch {
		case g == nil:
			return fmt.Sprintf("col %d nil", i)
		case string(w.Name) != g.Name:
			return fmt.Sprintf("col %d name", i)
		case w.NA != g.NACount:
			return fmt.Sprintf("col %d naCount", i)
		case !cmpF(w.Fl[0], g.Min) || !cmpF(w.Fl[1], g.Max) || !cmpF(w.Fl[2], g.Mean) || !cmpF(w.Fl[3], g.Median) || !cmpF(w.Fl[4], g.StdDeviation):
			return fmt.Sprintf("col %d float statistic", i)
		case w.MinL != int64(g.MinStrLen) || w.MaxL != int64(g.MaxStrLen) || w.AvgL != int64(g.AvgStrLen):
			return fmt.Sprintf("col %d strLen", i)
		case w.PctPresent != (g.Percentiles != nil) || len(w.Pct) != len(g.Percentiles):
			return fmt.Sprintf("col %d percentiles presence/length", i)
		case w.TopPresent != (g.TopValues != nil) || len(w.Top) != len(g.TopValues):
			return fmt.Sprintf("col %d topValues presence/length", i)
		}
		for j, u := range w.Pct {
			if u != math.Float64bits(g.Percentiles[j]) {
				return fmt.Sprintf("col %d percentile %d", i, j)
			}
		}
		for j, vc := range w.Top {
			if string(vc.V) != g.TopValues[j].Value || vc.N != g.TopValues[j].Count {
				return fmt.Sprintf("col %d topValue %d", i, j)
			}
		}
	}
	return ""
}
