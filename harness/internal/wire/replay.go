package wire

import (
	"time"
	"strings"
	"bytes"
	"encoding/json"
	"fmt"
	"io"
	"math/bits"
	"runtime"
	"runtime/debug"
	"sync"

	"github.com/klauspost/compress/s2"
	"github.com/pckhoi/meow"
	"github.com/wrgl/wrgl/pkg/encoding"
	"github.com/wrgl/wrgl/pkg/encoding/objline"
	"github.com/wrgl/wrgl/pkg/encoding/packfile"
	"github.com/wrgl/wrgl/pkg/misc"
	"github.com/wrgl/wrgl/pkg/objects"
	objmock "github.com/wrgl/wrgl/pkg/objects/mock"

	"verifharness/internal/child"
)

type extra struct {
	Pfx   string          `json:"pfx"`
	St    string          `json:"st"`
	IxLen int             `json:"ixlen"`
	IxPfx string          `json:"ixpfx"`
	IxSt  string          `json:"ixst"`
	TiPfx string          `json:"tipfx"`
	TiSt  string          `json:"tist"`
	Get   json.RawMessage `json:"get"`
	Alt   json.RawMessage `json:"alt"`
	Pack  json.RawMessage `json:"pack"`
}

type vector struct {
	Kind, Cls string
	Value     json.RawMessage
	Fits      bool
	Want      []byte // the specification's bytes (Fits only)
	Extra     extra
}

func parseVector(raw []byte) (*vector, error) {
	t, err := tuple(raw, 5)
	if err != nil {
		return nil, err
	}
	v := &vector{Value: t[2]}
	if err = json.Unmarshal(t[0], &v.Kind); err != nil {
		return nil, err
	}
	if err = json.Unmarshal(t[1], &v.Cls); err != nil {
		return nil, err
	}
	if len(t[3]) > 0 && t[3][0] == '"' {
		var s string
		if err = json.Unmarshal(t[3], &s); err != nil || s != "err" {
			return nil, fmt.Errorf("bytes field: %.40s", t[3])
		}
	} else {
		v.Fits = true
		if v.Want, err = parseRuns(t[3]); err != nil {
			return nil, err
		}
	}
	if err = json.Unmarshal(t[4], &v.Extra); err != nil {
		return nil, fmt.Errorf("extra: %v", err)
	}
	return v, nil
}

// signature: wire/<kind>/<check>/<class of the vector, computed by the specification>
func (v *vector) fail(check string, detail interface{}) *child.Result {
	r := child.Fail("wire/"+v.Kind+"/"+check+"/"+v.Cls, detail)
	return &r
}

func (v *vector) pass() child.Result {
	if v.Cls == "plain" {
		return child.Pass("-")
	}
	return child.Pass(v.Kind + ":" + v.Cls)
}

// ---------------------------------------------------------------- panics

type panicked struct {
	Value   string `json:"panic"`
	Runtime bool   `json:"runtime_error"`
	IsError bool   `json:"is_error_value"`
	Stack   string `json:"stack"`
}

// protect runs f in this goroutine and reports a panic instead of dying.
func protect(f func()) (p *panicked) {
	defer func() {
		if r := recover(); r != nil {
			_, rt := r.(runtime.Error)
			_, ie := r.(error)
			st := string(debug.Stack())
			if len(st) > 1500 {
				st = st[:1500]
			}
			p = &panicked{Value: fmt.Sprintf("%.300v", r), Runtime: rt, IsError: ie, Stack: st}
		}
	}()
	f()
	return nil
}

type writer func(w io.Writer) error

// mustEncode: a value that fits must be written as exactly the specification's bytes.
func (v *vector) mustEncode(name string, f writer) (*child.Result, []byte) {
	var buf bytes.Buffer
	var err error
	if p := protect(func() { err = f(&buf) }); p != nil {
		return v.fail("encode-panic", map[string]interface{}{"writer": name, "panic": p}), nil
	}
	if err != nil {
		return v.fail("encode-error", map[string]interface{}{"writer": name, "error": err.Error()}), nil
	}
	if d := firstDiff(v.Want, buf.Bytes()); d != nil {
		return v.fail("encode", map[string]interface{}{"writer": name, "diff": d}), nil
	}
	return nil, buf.Bytes()
}

// mustReject: a value that does not fit the format must be refused with an error.
func (v *vector) mustReject(name string, f writer, readsBack func(b []byte) bool) *child.Result {
	var buf bytes.Buffer
	var err error
	if p := protect(func() { err = f(&buf) }); p != nil {
		return v.fail("oversize-panic", map[string]interface{}{"writer": name, "panic": p})
	}
	if err != nil {
		return nil
	}
	d := map[string]interface{}{"writer": name, "error": nil, "wrote_bytes": buf.Len()}
	if readsBack != nil {
		rb := false
		protect(func() { rb = readsBack(buf.Bytes()) })
		d["output_reads_back_as_the_value"] = rb
	}
	return v.fail("oversize-accepted", d)
}

// decode: run a real decoder over the specification's bytes.
func (v *vector) decode(name string, f func() (mismatch string, err error)) *child.Result {
	var mm string
	var err error
	if p := protect(func() { mm, err = f() }); p != nil {
		return v.fail("decode-panic", map[string]interface{}{"reader": name, "panic": p})
	}
	if err != nil {
		return v.fail("decode-error", map[string]interface{}{"reader": name, "error": err.Error()})
	}
	if mm != "" {
		return v.fail("decode", map[string]interface{}{"reader": name, "differs_in": mm})
	}
	return nil
}

func (v *vector) reencode(name string, f writer) *child.Result {
	var buf bytes.Buffer
	var err error
	if p := protect(func() { err = f(&buf) }); p != nil {
		return v.fail("reencode-panic", map[string]interface{}{"writer": name, "panic": p})
	}
	if err != nil {
		return v.fail("reencode-error", map[string]interface{}{"writer": name, "error": err.Error()})
	}
	if d := firstDiff(v.Want, buf.Bytes()); d != nil {
		return v.fail("reencode", map[string]interface{}{"writer": name, "diff": d})
	}
	return nil
}

// ---------------------------------------------------------------- store

func hashOf(b []byte) []byte {
	a := meow.Checksum(0, b) // trusted primitive (DESIGN C06 limits)
	return a[:]
}

// stored: the store holds exactly one object, under pfx||sum, and its content is the
// canonical bytes (raw) or decompresses to them (s2).
func (v *vector) stored(st *objmock.Store, what, pfx, mode string, sum, canonical []byte) *child.Result {
	keys, err := st.FilterKey(nil)
	if err != nil {
		return v.fail("store-error", err.Error())
	}
	want := pfx + string(sum)
	if len(keys) != 1 || string(keys[0]) != want {
		ks := []string{}
		for _, k := range keys {
			ks = append(ks, fmt.Sprintf("%q", k))
		}
		return v.fail("store-key", map[string]interface{}{"object": what, "want_key": fmt.Sprintf("%q", want), "keys": ks})
	}
	raw, err := st.Get([]byte(want))
	if err != nil {
		return v.fail("store-get", map[string]interface{}{"object": what, "error": err.Error()})
	}
	switch mode {
	case "raw":
	case "s2":
		raw, err = s2.Decode(nil, raw)
		if err != nil {
			return v.fail("store-get", map[string]interface{}{"object": what, "s2_error": err.Error()})
		}
	default:
		r := child.Inconclusive(fmt.Errorf("unknown storage mode %q", mode))
		return &r
	}
	if d := firstDiff(canonical, raw); d != nil {
		return v.fail("store-get", map[string]interface{}{"object": what, "mode": mode, "diff": d})
	}
	return nil
}

func (v *vector) sumIs(what string, got, canonical []byte) *child.Result {
	if !bytes.Equal(got, hashOf(canonical)) {
		return v.fail("store-key", map[string]interface{}{"object": what, "returned_sum": fmt.Sprintf("%x", got),
			"hash_of_canonical_bytes": fmt.Sprintf("%x", hashOf(canonical))})
	}
	return nil
}

// ---------------------------------------------------------------- entry point

// Replay is the child handler of engine "wire".
func Replay(i int, raw []byte) child.Result {
	v, err := parseVector(raw)
	if err != nil {
		return child.Inconclusive(fmt.Errorf("scenario %d: %v", i, err))
	}
	var r *child.Result
	var herr error
	switch v.Kind {
	case "string":
		r, herr = v.doString()
	case "time":
		r, herr = v.doTime()
	case "uintlist":
		r, herr = v.doUintList()
	case "strlist":
		r, herr = v.doStrList()
	case "commit":
		noise.Do(startEncoderNoise)
		r, herr = v.doCommit()
	case "table":
		r, herr = v.doTable()
	case "block":
		r, herr = v.doBlock()
	case "blkidx":
		r, herr = v.doBlkIdx()
	case "profile":
		r, herr = v.doProfile()
	case "hdr":
		r, herr = v.doHdr()
	default:
		herr = fmt.Errorf("unknown kind %q", v.Kind)
	}
	if herr != nil {
		return child.Inconclusive(fmt.Errorf("scenario %d (%s): %v", i, v.Kind, herr))
	}
	if r != nil {
		return *r
	}
	return v.pass()
}

func first(rs ...*child.Result) *child.Result {
	for _, r := range rs {
		if r != nil {
			return r
		}
	}
	return nil
}

// ---------------------------------------------------------------- string, time (objline scalars)

func (v *vector) doString() (*child.Result, error) {
	s, err := parseRuns(v.Value)
	if err != nil {
		return nil, err
	}
	w := func(w io.Writer) error {
		_, err := objline.WriteString(w, misc.NewBuffer(nil), string(s))
		return err
	}
	readBack := func(b []byte) (string, error) {
		// in every object a string is followed by the field terminator; keep one byte after it
		p := encoding.NewParser(bytes.NewReader(append(append([]byte{}, b...), '\n')))
		var got string
		_, err := objline.ReadString(p, &got)
		if err != nil {
			return "", err
		}
		if got != string(s) {
			return "string " + short([]byte(got)), nil
		}
		return "", nil
	}
	if !v.Fits {
		return v.mustReject("objline.WriteString", w, func(b []byte) bool { m, e := readBack(b); return m == "" && e == nil }), nil
	}
	r, _ := v.mustEncode("objline.WriteString", w)
	if r != nil {
		return r, nil
	}
	return v.decode("objline.ReadString", func() (string, error) { return readBack(v.Want) }), nil
}

func (v *vector) doTime() (*child.Result, error) {
	at, err := parseTime(v.Value)
	if err != nil {
		return nil, err
	}
	if !v.Fits {
		return nil, fmt.Errorf("time vectors that do not fit are not part of the statement")
	}
	w := func(w io.Writer) error {
		_, err := objline.WriteTime(w, misc.NewBuffer(nil), at.real())
		return err
	}
	r, _ := v.mustEncode("objline.WriteTime", w)
	if r != nil {
		return r, nil
	}
	return v.decode("objline.ReadTime", func() (string, error) {
		p := encoding.NewParser(bytes.NewReader(v.Want))
		var t = at.real().AddDate(1, 0, 0) // whatever was there before must be overwritten
		_, err := objline.ReadTime(p, &t)
		if err != nil {
			return "", err
		}
		pt, err := projTime(t)
		if err != nil || pt != at {
			return fmt.Sprintf("time: want %v got %v %v", at, pt, err), nil
		}
		return "", nil
	}), nil
}

// ---------------------------------------------------------------- lists

func (v *vector) doUintList() (*child.Result, error) {
	var ul []uint32
	if err := json.Unmarshal(v.Value, &ul); err != nil {
		return nil, err
	}
	eq := func(got []uint32) string {
		if len(got) != len(ul) {
			return "length"
		}
		for i := range ul {
			if ul[i] != got[i] {
				return fmt.Sprintf("element %d", i)
			}
		}
		return ""
	}
	enc := objects.NewUintListEncoder()
	enc.Encode([]uint32{0xEEEEEEEE, 0xEEEEEEEE, 0xEEEEEEEE}) // stale buffer content must not leak
	r, _ := v.mustEncode("UintListEncoder.Encode", func(w io.Writer) error { _, err := w.Write(enc.Encode(ul)); return err })
	return first(r,
		v.decode("UintListDecoder.Decode", func() (string, error) {
			return eq(objects.NewUintListDecoder(false).Decode(v.Want)), nil
		}),
		v.decode("UintListDecoder.Read", func() (string, error) {
			_, got, err := objects.NewUintListDecoder(false).Read(bytes.NewReader(v.Want))
			if err != nil {
				return "", err
			}
			return eq(got), nil
		})), nil
}

// encodeRaw calls StrListEncoder.Encode, which has no error result: its only way to
// refuse a value is a panic carrying an error (an assertion); that is accepted as a
// refusal, a runtime error (index out of range ...) is not.
func (v *vector) doStrList() (*child.Result, error) {
	cells, err := parseRunsList(v.Value)
	if err != nil {
		return nil, err
	}
	sl := strs(cells)
	decoy := []string{string(bytes.Repeat([]byte{0xEE}, 300)), "", string(bytes.Repeat([]byte{0xEE}, 70))}
	if !v.Fits {
		for _, reuse := range []bool{false, true} {
			var out []byte
			p := protect(func() { out = append([]byte{}, objects.NewStrListEncoder(reuse).Encode(sl)...) })
			if p != nil {
				if p.IsError && !p.Runtime {
					continue // refused
				}
				return v.fail("oversize-panic", map[string]interface{}{"writer": "StrListEncoder.Encode", "panic": p}), nil
			}
			return v.fail("oversize-accepted", map[string]interface{}{"writer": "StrListEncoder.Encode", "wrote_bytes": len(out)}), nil
		}
		return nil, nil
	}
	for _, reuse := range []bool{false, true} {
		enc := objects.NewStrListEncoder(reuse)
		name := fmt.Sprintf("StrListEncoder(reuse=%v).Encode", reuse)
		r, _ := v.mustEncode(name, func(w io.Writer) error {
			enc.Encode(decoy)
			_, err := w.Write(enc.Encode(sl))
			return err
		})
		if r != nil {
			return r, nil
		}
	}
	return first(
		v.decode("StrListDecoder.Decode", func() (string, error) {
			for _, reuse := range []bool{false, true} {
				d := objects.NewStrListDecoder(reuse)
				d.Decode(objects.NewStrListEncoder(false).Encode(decoy))
				if got := d.Decode(v.Want); !eqStrs(cells, got) {
					return fmt.Sprintf("cells (reuse=%v)", reuse), nil
				}
			}
			return "", nil
		}),
		v.decode("StrListDecoder.Read", func() (string, error) {
			_, got, err := objects.NewStrListDecoder(false).Read(bytes.NewReader(v.Want))
			if err != nil {
				return "", err
			}
			if !eqStrs(cells, got) {
				return "cells", nil
			}
			return "", nil
		}),
		v.decode("StrListDecoder.ReadBytes", func() (string, error) {
			n, b, err := objects.NewStrListDecoder(false).ReadBytes(bytes.NewReader(append(append([]byte{}, v.Want...), 1, 2, 3)))
			if err != nil {
				return "", err
			}
			if n != len(v.Want) || !bytes.Equal(b, v.Want) {
				return "raw row bytes", nil
			}
			return "", nil
		}),
		v.decode("ValidateStrListBytes", func() (string, error) {
			_, err := objects.ValidateStrListBytes(v.Want)
			if err != nil {
				return "", err
			}
			return "", nil
		})), nil
}

// ---------------------------------------------------------------- commit

func (v *vector) doCommit() (*child.Result, error) {
	ac, err := parseCommit(v.Value)
	if err != nil {
		return nil, err
	}
	c := ac.real()
	w := func(w io.Writer) error { _, err := c.WriteTo(w); return err }
	if !v.Fits {
		return v.mustReject("Commit.WriteTo", w, func(b []byte) bool {
			_, got, err := objects.ReadCommitFrom(bytes.NewReader(b))
			return err == nil && cmpCommit(ac, got) == ""
		}), nil
	}
	r, realBytes := v.mustEncode("Commit.WriteTo", w)
	if r != nil {
		return r, nil
	}
	var decoded *objects.Commit
	r = v.decode("ReadCommitFrom", func() (string, error) {
		_, got, err := objects.ReadCommitFrom(bytes.NewReader(v.Want))
		if err != nil {
			return "", err
		}
		decoded = got
		return cmpCommit(ac, got), nil
	})
	if r != nil {
		return r, nil
	}
	if r = v.reencode("Commit.WriteTo(decoded)", func(w io.Writer) error { _, err := decoded.WriteTo(w); return err }); r != nil {
		return r, nil
	}
	// content addressing
	st := objmock.NewStore()
	var sum []byte
	if p := protect(func() { sum, err = objects.SaveCommit(st, realBytes) }); p != nil || err != nil {
		return v.fail("store-error", map[string]interface{}{"call": "SaveCommit", "panic": p, "error": fmt.Sprint(err)}), nil
	}
	if r = first(v.sumIs("commit", sum, v.Want), v.stored(st, "commit", v.Extra.Pfx, v.Extra.St, hashOf(v.Want), v.Want)); r != nil {
		return r, nil
	}
	r = v.decode("GetCommit", func() (string, error) {
		got, err := objects.GetCommit(st, sum)
		if err != nil {
			return "", err
		}
		if !bytes.Equal(got.Sum, sum) {
			return "Sum", nil
		}
		return cmpCommit(ac, got), nil
	})
	if r != nil {
		return r, nil
	}
	if _, err = objects.SaveCommit(st, append([]byte{}, realBytes...)); err != nil {
		return v.fail("store-error", err.Error()), nil
	}
	if r = v.stored(st, "commit saved twice", v.Extra.Pfx, v.Extra.St, hashOf(v.Want), v.Want); r != nil {
		r.Sig = "wire/commit/store-dup/" + v.Cls
		return r, nil
	}
	return nil, nil
}

// ---------------------------------------------------------------- table

func (v *vector) doTable() (*child.Result, error) {
	at, err := parseTable(v.Value)
	if err != nil {
		return nil, err
	}
	t := at.real()
	w := func(w io.Writer) error { _, err := t.WriteTo(w); return err }
	if !v.Fits {
		return v.mustReject("Table.WriteTo", w, func(b []byte) bool {
			_, got, err := objects.ReadTableFrom(bytes.NewReader(b))
			return err == nil && cmpTable(at, got) == ""
		}), nil
	}
	r, realBytes := v.mustEncode("Table.WriteTo", w)
	if r != nil {
		return r, nil
	}
	var decoded *objects.Table
	r = v.decode("ReadTableFrom", func() (string, error) {
		_, got, err := objects.ReadTableFrom(bytes.NewReader(v.Want))
		if err != nil {
			return "", err
		}
		decoded = got
		return cmpTable(at, got), nil
	})
	if r != nil {
		return r, nil
	}
	if r = v.reencode("Table.WriteTo(decoded)", func(w io.Writer) error { _, err := decoded.WriteTo(w); return err }); r != nil {
		return r, nil
	}
	st := objmock.NewStore()
	var sum []byte
	if p := protect(func() { sum, err = objects.SaveTable(st, realBytes) }); p != nil || err != nil {
		return v.fail("store-error", map[string]interface{}{"call": "SaveTable", "panic": p, "error": fmt.Sprint(err)}), nil
	}
	if r = first(v.sumIs("table", sum, v.Want), v.stored(st, "table", v.Extra.Pfx, v.Extra.St, hashOf(v.Want), v.Want)); r != nil {
		return r, nil
	}
	r = v.decode("GetTable", func() (string, error) {
		got, err := objects.GetTable(st, sum)
		if err != nil {
			return "", err
		}
		if !bytes.Equal(got.Sum, sum) {
			return "Sum", nil
		}
		return cmpTable(at, got), nil
	})
	if r != nil {
		return r, nil
	}
	if _, err = objects.SaveTable(st, append([]byte{}, realBytes...)); err != nil {
		return v.fail("store-error", err.Error()), nil
	}
	if r = v.stored(st, "table saved twice", v.Extra.Pfx, v.Extra.St, hashOf(v.Want), v.Want); r != nil {
		r.Sig = "wire/table/store-dup/" + v.Cls
		return r, nil
	}
	return nil, nil
}

// ---------------------------------------------------------------- block (+ its real index, + table index storage)

func (v *vector) doBlock() (*child.Result, error) {
	ab, err := parseBlock(v.Value)
	if err != nil {
		return nil, err
	}
	blk := realBlock(ab)
	w := func(w io.Writer) error {
		_, err := objects.WriteBlockTo(objects.NewStrListEncoder(true), w, blk)
		return err
	}
	if !v.Fits {
		return v.mustReject("WriteBlockTo", w, func(b []byte) bool {
			_, got, err := objects.ReadBlockFrom(bytes.NewReader(b))
			return err == nil && cmpBlock(ab, got) == ""
		}), nil
	}
	r, realBytes := v.mustEncode("WriteBlockTo", w)
	if r != nil {
		return r, nil
	}
	// the ingest path assembles a block from separately encoded rows
	r, _ = v.mustEncode("CombineRowBytesIntoBlock", func(w io.Writer) error {
		enc := objects.NewStrListEncoder(false)
		rows := make([][]byte, len(blk))
		for i, row := range blk {
			rows[i] = enc.Encode(row)
		}
		_, err := w.Write(objects.CombineRowBytesIntoBlock(rows))
		return err
	})
	if r != nil {
		return r, nil
	}
	var decoded [][]string
	r = first(
		v.decode("ReadBlockFrom", func() (string, error) {
			_, got, err := objects.ReadBlockFrom(bytes.NewReader(v.Want))
			if err != nil {
				return "", err
			}
			decoded = got
			return cmpBlock(ab, got), nil
		}),
		v.decode("ValidateBlockBytes", func() (string, error) { return "", objects.ValidateBlockBytes(v.Want) }))
	if r != nil {
		return r, nil
	}
	if r = v.reencode("WriteBlockTo(decoded)", func(w io.Writer) error {
		_, err := objects.WriteBlockTo(objects.NewStrListEncoder(true), w, decoded)
		return err
	}); r != nil {
		return r, nil
	}
	// content addressing of the block
	st := objmock.NewStore()
	var sum []byte
	if p := protect(func() { sum, _, err = objects.SaveBlock(st, nil, realBytes) }); p != nil || err != nil {
		return v.fail("store-error", map[string]interface{}{"call": "SaveBlock", "panic": p, "error": fmt.Sprint(err)}), nil
	}
	if r = first(v.sumIs("block", sum, v.Want), v.stored(st, "block", v.Extra.Pfx, v.Extra.St, hashOf(v.Want), v.Want)); r != nil {
		return r, nil
	}
	r = v.decode("GetBlock", func() (string, error) {
		got, _, err := objects.GetBlock(st, nil, sum)
		if err != nil {
			return "", err
		}
		return cmpBlock(ab, got), nil
	})
	if r != nil {
		return r, nil
	}
	if _, _, err = objects.SaveBlock(st, nil, append([]byte{}, realBytes...)); err != nil {
		return v.fail("store-error", err.Error()), nil
	}
	if r = v.stored(st, "block saved twice", v.Extra.Pfx, v.Extra.St, hashOf(v.Want), v.Want); r != nil {
		r.Sig = "wire/block/store-dup/" + v.Cls
		return r, nil
	}
	// a table index has the block format and is stored raw under its table's sum
	st = objmock.NewStore()
	tsum := bytes.Repeat([]byte{0xA5}, 16)
	if err = objects.SaveTableIndex(st, tsum, realBytes); err != nil {
		return v.fail("store-error", err.Error()), nil
	}
	if r = v.stored(st, "table index", v.Extra.TiPfx, v.Extra.TiSt, tsum, v.Want); r != nil {
		return r, nil
	}
	if r = v.decode("GetTableIndex", func() (string, error) {
		got, err := objects.GetTableIndex(st, tsum)
		if err != nil {
			return "", err
		}
		return cmpBlock(ab, got), nil
	}); r != nil {
		return r, nil
	}
	// the index the system writes for this block: round trip and content addressing
	// (what the index says about the rows is property C03)
	if len(blk) > 255 {
		// more entries than a block of rows can have: this is the encoding as a TABLE INDEX uses it (one entry
		// per block of the table); a row block index (one byte of count) does not exist for it
		return nil, nil
	}
	return v.realBlockIndex(blk), nil
}

func (v *vector) realBlockIndex(blk [][]string) *child.Result {
	var ib []byte
	var err error
	if p := protect(func() {
		var idx *objects.BlockIndex
		idx, err = objects.IndexBlock(objects.NewStrListEncoder(true), meow.New(0), blk, nil)
		if err == nil {
			var buf bytes.Buffer
			_, err = idx.WriteTo(&buf)
			ib = buf.Bytes()
		}
	}); p != nil || err != nil {
		return v.fail("blkidx-encode-error", map[string]interface{}{"call": "IndexBlock/WriteTo", "panic": p, "error": fmt.Sprint(err)})
	}
	if len(ib) != v.Extra.IxLen {
		return v.fail("blkidx-encode", map[string]interface{}{"want_len": v.Extra.IxLen, "got_len": len(ib)})
	}
	back := func(get func() (*objects.BlockIndex, error)) func() (string, error) {
		return func() (string, error) {
			idx, err := get()
			if err != nil {
				return "", err
			}
			var buf bytes.Buffer
			if _, err = idx.WriteTo(&buf); err != nil {
				return "", err
			}
			if !bytes.Equal(buf.Bytes(), ib) {
				return "re-encoded block index", nil
			}
			return "", nil
		}
	}
	if r := v.decode("ReadBlockIndex(real index)", back(func() (*objects.BlockIndex, error) {
		_, idx, err := objects.ReadBlockIndex(bytes.NewReader(ib))
		return idx, err
	})); r != nil {
		r.Sig = "wire/block/blkidx-roundtrip/" + v.Cls
		return r
	}
	st := objmock.NewStore()
	var sum []byte
	if p := protect(func() { sum, _, err = objects.SaveBlockIndex(st, nil, ib) }); p != nil || err != nil {
		return v.fail("store-error", map[string]interface{}{"call": "SaveBlockIndex", "panic": p, "error": fmt.Sprint(err)})
	}
	if r := first(v.sumIs("block index", sum, ib), v.stored(st, "block index", v.Extra.IxPfx, v.Extra.IxSt, hashOf(ib), ib)); r != nil {
		return r
	}
	if r := v.decode("GetBlockIndex", back(func() (*objects.BlockIndex, error) {
		idx, _, err := objects.GetBlockIndex(st, nil, sum)
		return idx, err
	})); r != nil {
		return r
	}
	if _, _, err = objects.SaveBlockIndex(st, nil, append([]byte{}, ib...)); err != nil {
		return v.fail("store-error", err.Error())
	}
	if r := v.stored(st, "block index saved twice", v.Extra.IxPfx, v.Extra.IxSt, hashOf(ib), ib); r != nil {
		r.Sig = "wire/block/store-dup/" + v.Cls
		return r
	}
	return nil
}

// ---------------------------------------------------------------- block index (abstract sums: the format's structure)

func (v *vector) doBlkIdx() (*child.Result, error) {
	ax, err := parseBlkIdx(v.Value)
	if err != nil {
		return nil, err
	}
	if !v.Fits {
		return nil, fmt.Errorf("block-index vectors that do not fit cannot be built through the public API")
	}
	var gets []json.RawMessage
	if err = json.Unmarshal(v.Extra.Get, &gets); err != nil {
		return nil, err
	}
	var idx *objects.BlockIndex
	r := v.decode("ReadBlockIndex", func() (string, error) {
		_, got, err := objects.ReadBlockIndex(bytes.NewReader(v.Want))
		if err != nil {
			return "", err
		}
		idx = got
		if len(got.Rows) != len(ax.Rows) {
			return "row count", nil
		}
		for i, row := range ax.Rows {
			if !bytes.Equal(got.Rows[i], append(append([]byte{}, row[0]...), row[1]...)) {
				return fmt.Sprintf("row %d", i), nil
			}
		}
		// the permutation is private: observe it through Get (expected answers are the spec's Lookup)
		for _, g := range gets {
			t, err := tuple(g, 3)
			if err != nil {
				return "", err
			}
			pk, err := parseRuns(t[0])
			if err != nil {
				return "", err
			}
			var off int
			if err = json.Unmarshal(t[1], &off); err != nil {
				return "", err
			}
			wsum, err := parseRuns(t[2])
			if err != nil {
				return "", err
			}
			goff, gsum := got.Get(pk)
			if off < 0 {
				if gsum != nil {
					return fmt.Sprintf("Get(absent key %x) found a row", pk), nil
				}
				continue
			}
			if gsum == nil || int(goff) != off || !bytes.Equal(gsum, wsum) {
				return fmt.Sprintf("Get(%x): want (%d,%x) got (%d,%x)", pk, off, wsum, goff, gsum), nil
			}
		}
		return "", nil
	})
	if r != nil {
		return r, nil
	}
	if r = v.reencode("BlockIndex.WriteTo(decoded)", func(w io.Writer) error { _, err := idx.WriteTo(w); return err }); r != nil {
		return r, nil
	}
	st := objmock.NewStore()
	var sum []byte
	if p := protect(func() { sum, _, err = objects.SaveBlockIndex(st, nil, v.Want) }); p != nil || err != nil {
		return v.fail("store-error", map[string]interface{}{"call": "SaveBlockIndex", "panic": p, "error": fmt.Sprint(err)}), nil
	}
	if r = first(v.sumIs("block index", sum, v.Want), v.stored(st, "block index", v.Extra.Pfx, v.Extra.St, hashOf(v.Want), v.Want)); r != nil {
		return r, nil
	}
	return v.decode("GetBlockIndex", func() (string, error) {
		got, _, err := objects.GetBlockIndex(st, nil, sum)
		if err != nil {
			return "", err
		}
		var buf bytes.Buffer
		if _, err = got.WriteTo(&buf); err != nil {
			return "", err
		}
		if !bytes.Equal(buf.Bytes(), v.Want) {
			return "re-encoded block index", nil
		}
		return "", nil
	}), nil
}

// ---------------------------------------------------------------- table profile

func (v *vector) doProfile() (*child.Result, error) {
	ap, err := parseProfile(v.Value)
	if err != nil {
		return nil, err
	}
	p := ap.real()
	w := func(w io.Writer) error { _, err := p.WriteTo(w); return err }
	read := func(b []byte) (*objects.TableProfile, int64, error) {
		got := &objects.TableProfile{}
		n, err := got.ReadFrom(bytes.NewReader(b))
		return got, n, err
	}
	if !v.Fits {
		return v.mustReject("TableProfile.WriteTo", w, func(b []byte) bool {
			got, _, err := read(b)
			return err == nil && cmpProfile(ap, got) == ""
		}), nil
	}
	r, realBytes := v.mustEncode("TableProfile.WriteTo", w)
	if r != nil {
		return r, nil
	}
	var decoded *objects.TableProfile
	r = v.decode("TableProfile.ReadFrom", func() (string, error) {
		got, _, err := read(v.Want)
		if err != nil {
			return "", err
		}
		decoded = got
		return cmpProfile(ap, got), nil
	})
	if r != nil {
		return r, nil
	}
	if r = v.reencode("TableProfile.WriteTo(decoded)", func(w io.Writer) error { _, err := decoded.WriteTo(w); return err }); r != nil {
		return r, nil
	}
	// a profile is stored raw under its table's sum
	st := objmock.NewStore()
	tsum := bytes.Repeat([]byte{0x5A}, 16)
	if err = objects.SaveTableProfile(st, tsum, realBytes); err != nil {
		return v.fail("store-error", err.Error()), nil
	}
	if r = v.stored(st, "table profile", v.Extra.Pfx, v.Extra.St, tsum, v.Want); r != nil {
		return r, nil
	}
	return v.decode("GetTableProfile", func() (string, error) {
		got, err := objects.GetTableProfile(st, tsum)
		if err != nil {
			return "", err
		}
		return cmpProfile(ap, got), nil
	}), nil
}

// ---------------------------------------------------------------- packfile object header

// zeros backs the bodies of the packfile objects written through the public API (allocated on
// first use: the wconf binary is shared by all engines)
var (
	zerosOnce sync.Once
	zerosBuf  []byte
)

func zeros() []byte {
	zerosOnce.Do(func() { zerosBuf = make([]byte, 1<<26+8) })
	return zerosBuf
}

func (v *vector) doHdr() (*child.Result, error) {
	t, err := tuple(v.Value, 2)
	if err != nil {
		return nil, err
	}
	var typ int
	var limbs []uint64
	if err = json.Unmarshal(t[0], &typ); err != nil {
		return nil, err
	}
	if err = json.Unmarshal(t[1], &limbs); err != nil {
		return nil, err
	}
	if len(limbs) > 4 || !v.Fits {
		return nil, fmt.Errorf("header vector outside 64 bits")
	}
	var u uint64
	for i, l := range limbs {
		u |= l << (16 * uint(i))
	}
	alt, err := parseRuns(v.Extra.Alt)
	if err != nil {
		return nil, err
	}
	pack, err := parseRuns(v.Extra.Pack)
	if err != nil {
		return nil, err
	}
	allowed := func(b []byte) bool { return bytes.Equal(b, v.Want) || bytes.Equal(b, alt) }
	type dec struct {
		Type int    `json:"type"`
		Len  uint64 `json:"len"`
		Err  string `json:"err,omitempty"`
	}
	decodeHdr := func(b []byte) (d dec, p *panicked) {
		p = protect(func() {
			rd := bytes.NewReader(b)
			ty, n, err := decodeObjTypeAndLen(rd)
			d = dec{Type: ty, Len: n}
			if err != nil {
				d.Err = err.Error()
			} else if rd.Len() != 0 {
				d.Err = fmt.Sprintf("%d header bytes left unread", rd.Len())
			}
		})
		return
	}
	want := dec{Type: typ, Len: u}
	// real encoder: its bytes are the canonical header or the one with a redundant zero group
	var real []byte
	if p := protect(func() { real = append([]byte{}, encodeObjTypeAndLen(misc.NewBuffer(nil), typ, u)...) }); p != nil {
		return v.fail("encode-panic", map[string]interface{}{"type": typ, "len": u, "panic": p}), nil
	}
	if !allowed(real) {
		return v.fail("encode", map[string]interface{}{"type": typ, "len": u, "got": fmt.Sprintf("%x", real),
			"want": fmt.Sprintf("%x", v.Want), "or": fmt.Sprintf("%x", alt)}), nil
	}
	for _, c := range []struct {
		name string
		b    []byte
	}{{"canonical header", v.Want}, {"header written by the real encoder", real}} {
		got, p := decodeHdr(c.b)
		if p != nil {
			return v.fail("decode-panic", map[string]interface{}{"input": c.name, "panic": p}), nil
		}
		if got != want {
			return v.fail("hdr-roundtrip", map[string]interface{}{"input": c.name, "bytes": fmt.Sprintf("%x", c.b), "want": want, "got": got}), nil
		}
	}
	// the public path, where an object of that length can be materialised
	near := bits.OnesCount64(u) <= 2 || bits.OnesCount64(u+1) <= 1 || bits.OnesCount64(u+2) <= 2
	if u <= 8192 || (u <= 1<<26 && (near || u%251 == 0)) {
		var out bytes.Buffer
		var rt int
		var rb []byte
		if p := protect(func() {
			var pw *packfile.PackfileWriter
			if pw, err = packfile.NewPackfileWriter(&out); err != nil {
				return
			}
			if _, err = pw.WriteObject(typ, zeros()[:u]); err != nil {
				return
			}
			var pr *packfile.PackfileReader
			if pr, err = packfile.NewPackfileReader(io.NopCloser(bytes.NewReader(out.Bytes()))); err != nil {
				return
			}
			rt, rb, err = pr.ReadObject()
		}); p != nil {
			return v.fail("packfile-panic", map[string]interface{}{"type": typ, "len": u, "panic": p}), nil
		}
		if err != nil {
			return v.fail("hdr-roundtrip", map[string]interface{}{"via": "PackfileWriter/PackfileReader", "error": err.Error()}), nil
		}
		o := out.Bytes()
		if !bytes.HasPrefix(o, pack) {
			return v.fail("encode", map[string]interface{}{"what": "packfile magic and version", "got": fmt.Sprintf("%x", o[:min(len(o), 8)])}), nil
		}
		if len(o) < len(pack)+int(u) {
			return v.fail("encode", map[string]interface{}{"via": "PackfileWriter.WriteObject", "type": typ, "len": u, "total_bytes_written": len(o)}), nil
		}
		h := o[len(pack) : len(o)-int(u)]
		if !allowed(h) {
			return v.fail("encode", map[string]interface{}{"via": "PackfileWriter.WriteObject", "type": typ, "len": u, "got": fmt.Sprintf("%x", h),
				"want": fmt.Sprintf("%x", v.Want)}), nil
		}
		if rt != typ || uint64(len(rb)) != u {
			return v.fail("hdr-roundtrip", map[string]interface{}{"via": "PackfileReader.ReadObject", "want": want, "got": dec{Type: rt, Len: uint64(len(rb))}}), nil
		}
	}
	return nil, nil
}

func min(a, b int) int {
	if a < b {
		return a
	}
	return b
}


// noise: while the vectors are replayed, other goroutines keep encoding commits, tables and blocks of other shapes.
// Encoders are called concurrently in real use (a server answering several fetches, ingest workers); state shared
// between calls shows as wrong bytes in the vector under replay.
var noise sync.Once

func startEncoderNoise() {
	for g := 0; g < 3; g++ {
		go func(g int) {
			names := []string{"a", "Ünï Cødé", strings.Repeat("n", 300), ""}
			for i := 0; ; i++ {
				c := &objects.Commit{
					Table:       bytes.Repeat([]byte{byte(g)}, 16),
					AuthorName:  names[(i+g)%len(names)],
					AuthorEmail: strings.Repeat("e", (i*7+g)%70),
					Message:     strings.Repeat("m", (i*13+g)%900),
					Time:        time.Unix(int64(1600000000+i), 0),
				}
				c.WriteTo(io.Discard)
				enc := objects.NewStrListEncoder(true)
				objects.WriteBlockTo(enc, io.Discard, [][]string{{"x", strings.Repeat("y", i%50)}, {"", "z"}})
				if i%64 == 0 {
					time.Sleep(time.Millisecond)
				}
			}
		}(g)
	}
}


// ReplayConcurrent: encoding is a function of the value - also when several goroutines encode at the same time.
// G goroutines each encode N commits / tables / blocks of different shapes; every result must be the bytes the same
// call gives when nothing else runs (the sequential results themselves are bound to the specification by the vectors).
func ReplayConcurrent(i int, raw []byte) child.Result {
	var sc struct {
		G, N int
	}
	if err := json.Unmarshal(raw, &sc); err != nil {
		return child.Inconclusive(err)
	}
	mk := func(g, i int) *objects.Commit {
		names := []string{"a", "Ünï Cødé", strings.Repeat("n", 300), ""}
		return &objects.Commit{
			Table:       bytes.Repeat([]byte{byte(g + 1)}, 16),
			AuthorName:  names[(i+g)%len(names)],
			AuthorEmail: strings.Repeat("e", (i*7+g)%70),
			Message:     strings.Repeat("m", (i*13+g*5)%900),
			Time:        time.Unix(int64(1600000000+i), 0).UTC(),
		}
	}
	encC := func(c *objects.Commit) []byte {
		var b bytes.Buffer
		c.WriteTo(&b)
		return b.Bytes()
	}
	encB := func(g, i int) []byte {
		var b bytes.Buffer
		objects.WriteBlockTo(objects.NewStrListEncoder(true), &b, [][]string{{"x", strings.Repeat("y", (i+g)%50)}, {"", fmt.Sprint(i)}})
		return b.Bytes()
	}
	want := make([][][2][]byte, sc.G)
	for g := 0; g < sc.G; g++ {
		want[g] = make([][2][]byte, sc.N)
		for k := 0; k < sc.N; k++ {
			want[g][k] = [2][]byte{encC(mk(g, k)), encB(g, k)}
		}
	}
	var wg sync.WaitGroup
	bad := make([]string, sc.G)
	for g := 0; g < sc.G; g++ {
		wg.Add(1)
		go func(g int) {
			defer wg.Done()
			for k := 0; k < sc.N; k++ {
				if !bytes.Equal(encC(mk(g, k)), want[g][k][0]) {
					bad[g] = fmt.Sprintf("commit %d of goroutine %d encodes differently while others encode", k, g)
					return
				}
				if !bytes.Equal(encB(g, k), want[g][k][1]) {
					bad[g] = fmt.Sprintf("block %d of goroutine %d encodes differently while others encode", k, g)
					return
				}
			}
		}(g)
	}
	wg.Wait()
	for _, b := range bad {
		if b != "" {
			return child.Fail("wire/concurrent-encode/differs", map[string]interface{}{"what": b, "goroutines": sc.G, "each": sc.N})
		}
	}
	return child.Pass("concurrent")
}
