package wire

import (
	"io"
	_ "unsafe" // go:linkname

	"github.com/wrgl/wrgl/pkg/encoding"
	_ "github.com/wrgl/wrgl/pkg/encoding/packfile"
)

// The packfile object header codec is unexported and only reachable through
// PackfileWriter.WriteObject / PackfileReader.ReadObject with a materialised object of
// that length - impossible for the 32-bit and 64-bit lengths the property quantifies
// over.  The two functions are therefore bound by name.  If wrgl renames them the
// harness stops linking, which the driver reports as inconclusive (never a verdict).
// (stub.s is empty; it only allows the body-less declarations.)

//go:linkname encodeObjTypeAndLen github.com/wrgl/wrgl/pkg/encoding/packfile.encodeObjTypeAndLen
func encodeObjTypeAndLen(buf encoding.Bufferer, objType int, u uint64) []byte

//go:linkname decodeObjTypeAndLen github.com/wrgl/wrgl/pkg/encoding/packfile.decodeObjTypeAndLen
func decodeObjTypeAndLen(r io.Reader) (objType int, u uint64, err error)
