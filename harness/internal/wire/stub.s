// intentionally empty: permits the body-less go:linkname declarations in link.go
