// Package doctorx drives the doctor's re-ingest as one more table producer for C03: a
// table is damaged in the store, the repository's own Diagnose must report it, Resolve
// re-ingests it, and the resulting table is observed (TraceTable.tla judges it).
package doctorx

import (
	"bytes"
	"context"
	"encoding/json"
	"fmt"
	"math/rand"
	"sort"
	"strings"
	"time"

	"github.com/go-logr/logr"
	"github.com/wrgl/wrgl/pkg/conf"
	"github.com/wrgl/wrgl/pkg/doctor"
	"github.com/wrgl/wrgl/pkg/objects"
	"github.com/wrgl/wrgl/pkg/ref"

	"verifharness/internal/child"
	"verifharness/internal/refs"
	"verifharness/internal/tbl"
)

type Scenario struct {
	Seed   int64  `json:"seed"`
	Idx    int    `json:"idx"`
	Damage string `json:"damage"` // rowscount | pk-out-of-range | keyed-then-keyless (two damaged commits on one branch)
	Rows   int    `json:"rows"`
	KeyPos int    `json:"keypos"`
}

func Replay(i int, raw []byte) child.Result {
	var sc Scenario
	if err := json.Unmarshal(raw, &sc); err != nil {
		return child.Inconclusive(err)
	}
	rng := rand.New(rand.NewSource(sc.Seed*911 + int64(sc.Idx)))
	cols := []string{"a", "b", "c"}
	key := cols[sc.KeyPos%3]
	rows := [][]string{cols}
	for _, j := range rng.Perm(sc.Rows) {
		r := []string{fmt.Sprintf("x%d", j%7), fmt.Sprintf("y%d", j%5), fmt.Sprintf("z%d", j%3)}
		r[sc.KeyPos%3] = fmt.Sprintf("%06d", j)
		if j == 0 {
			r[sc.KeyPos%3] = "" // an empty key sorts first
		}
		rows = append(rows, r)
	}
	db := tbl.NewSafeStore()
	rs, sqldb, err := refs.NewMemStore()
	if err != nil {
		return child.Inconclusive(err)
	}
	defer sqldb.Close()
	sum, err := tbl.Ingest(db, tbl.CSV(rows, 0), []string{key}, tbl.IngestOpts{})
	if err != nil {
		return child.Inconclusive(err)
	}
	_, before, err := tbl.Read(db, sum)
	if err != nil {
		return child.Inconclusive(err)
	}
	csum, com, err := tbl.SaveCommit(db, sum, nil, "c1", time.Unix(1600000000, 0))
	if err != nil {
		return child.Inconclusive(err)
	}
	if err := ref.CommitHead(rs, "main", csum, com, nil); err != nil {
		return child.Inconclusive(err)
	}
	// keyed-then-keyless: a SECOND, newer commit on the branch whose table has no usable key (rows that agree in
	// the older table's key column but are different rows): one Resolve re-ingests both, the older with its key,
	// the newer without one
	var before2 [][][]string
	var sum2 []byte
	if sc.Damage == "keyed-then-keyless" {
		rows2 := [][]string{cols}
		for j := 0; j < sc.Rows+3; j++ {
			r := []string{fmt.Sprintf("p%d", j), fmt.Sprintf("q%d", j%3), fmt.Sprintf("r%d", j%2)}
			r[sc.KeyPos%3] = fmt.Sprintf("%06d", j%4)
			rows2 = append(rows2, r)
		}
		if sum2, err = tbl.Ingest(db, tbl.CSV(rows2, 0), nil, tbl.IngestOpts{}); err != nil {
			return child.Inconclusive(err)
		}
		if _, before2, err = tbl.Read(db, sum2); err != nil {
			return child.Inconclusive(err)
		}
		csum2, com2, err := tbl.SaveCommit(db, sum2, [][]byte{csum}, "c2", time.Unix(1600000100, 0))
		if err != nil {
			return child.Inconclusive(err)
		}
		if err := ref.CommitHead(rs, "main", csum2, com2, nil); err != nil {
			return child.Inconclusive(err)
		}
		t2, err := objects.GetTable(db, sum2)
		if err != nil {
			return child.Inconclusive(err)
		}
		t2.PK = []uint32{uint32(len(cols) + 2)}
		buf2 := bytes.NewBuffer(nil)
		if _, err := t2.WriteTo(buf2); err != nil {
			return child.Inconclusive(err)
		}
		if err := db.Set(append([]byte("tbl/"), sum2...), buf2.Bytes()); err != nil {
			return child.Inconclusive(err)
		}
	}
	// damage the stored table object in place (its key no longer matches its content: a corrupted store)
	t, err := objects.GetTable(db, sum)
	if err != nil {
		return child.Inconclusive(err)
	}
	switch sc.Damage {
	case "rowscount", "keyed-then-keyless":
		// a wrong count that keeps the number of blocks (otherwise the table is unreadable and
		// the doctor's resolution is to remove the commit, which is not a re-ingest)
		if t.RowsCount%255 == 0 {
			t.RowsCount--
		} else {
			t.RowsCount++
		}
	case "pk-out-of-range":
		t.PK = []uint32{uint32(len(cols) + 2)}
	}
	buf := bytes.NewBuffer(nil)
	if _, err := t.WriteTo(buf); err != nil {
		return child.Inconclusive(err)
	}
	if err := db.Set(append([]byte("tbl/"), sum...), buf.Bytes()); err != nil {
		return child.Inconclusive(err)
	}
	d := doctor.NewDoctor(db, rs, conf.User{Name: "verif", Email: "verif@example.invalid"}, logr.Discard())
	ch, errCh, err := d.Diagnose(context.Background(), nil, nil, nil)
	if err != nil {
		return child.Fail("doctor/diagnose-error", map[string]interface{}{"error": err.Error()})
	}
	var issues []*doctor.Issue
	for ri := range ch {
		issues = append(issues, ri.Issues...)
	}
	if e, ok := <-errCh; ok && e != nil {
		return child.Fail("doctor/diagnose-error", map[string]interface{}{"error": e.Error()})
	}
	if len(issues) == 0 {
		return child.Fail("doctor/damage-not-diagnosed/"+sc.Damage, map[string]interface{}{"rows": sc.Rows})
	}
	if err := d.Resolve(issues); err != nil {
		return child.Fail("doctor/resolve-error/"+sc.Damage, map[string]interface{}{"error": err.Error(), "issue": issues[0].Err})
	}
	head, err := ref.GetHead(rs, "main")
	if err != nil {
		return child.Fail("doctor/head-lost", map[string]interface{}{"error": err.Error()})
	}
	nc, err := objects.GetCommit(db, head)
	if err != nil {
		return child.Fail("doctor/head-unreadable", map[string]interface{}{"error": err.Error()})
	}
	o := tbl.Observe(db, nc.Table, "doctor")
	o.Src = string(raw)
	child.Emit(o)
	// the re-ingested table holds the rows the damaged one held
	_, after, err := tbl.Read(db, nc.Table)
	if err != nil {
		return child.Fail("doctor/reingested-table-unreadable", map[string]interface{}{"error": err.Error()})
	}
	flat := func(b [][][]string) []string {
		out := []string{}
		for _, r := range tbl.Flatten(b) {
			out = append(out, strings.Join(r, "\x00"))
		}
		sort.Strings(out)
		return out
	}
	if sc.Damage == "keyed-then-keyless" {
		// the head is the newer commit: its rows are the key-less table's; its parent carries the older table
		f2a, f2b := flat(after), flat(before2)
		if strings.Join(f2a, "\x01") != strings.Join(f2b, "\x01") {
			return child.Fail("doctor/rows-changed/second-table", map[string]interface{}{"before": len(f2b), "after": len(f2a)})
		}
		if len(nc.Parents) != 1 {
			return child.Fail("doctor/parents-changed", map[string]interface{}{"parents": len(nc.Parents)})
		}
		pc, err := objects.GetCommit(db, nc.Parents[0])
		if err != nil {
			return child.Fail("doctor/parent-unreadable", map[string]interface{}{"error": err.Error()})
		}
		o1 := tbl.Observe(db, pc.Table, "doctor")
		o1.Src = string(raw)
		child.Emit(o1)
		if _, after, err = tbl.Read(db, pc.Table); err != nil {
			return child.Fail("doctor/reingested-table-unreadable", map[string]interface{}{"error": err.Error()})
		}
	}
	fa, fb := flat(after), flat(before)
	if len(fa) != len(fb) {
		return child.Fail("doctor/rows-changed", map[string]interface{}{"before": len(fb), "after": len(fa)})
	}
	for k := range fa {
		if fa[k] != fb[k] {
			return child.Fail("doctor/rows-changed", map[string]interface{}{"first_difference": k})
		}
	}
	return child.Pass(sc.Damage)
}
