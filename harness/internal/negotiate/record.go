package negotiate

import (
	"bufio"
	"encoding/json"
	"flag"
	"fmt"
	"math/rand"
	"os"
)

// Event is one NDJSON line of a negotiate trace.  Every field is always
// present so that TraceNegotiate.tla can refer to it unconditionally.
//
//	reset                                        a new, empty history without refs
//	commit  c, ps, t, full                       commit c created with parents ps, time t; its table stored iff full
//	refs    tips                                 the commits the refs point at (set once, after the commits)
//	process round, depth, wants, haves, done,    one real Process call of a negotiation (round 1 starts a new
//	        acks, err                            one); err: 0 none, 1 wants refused, 2 any other failure
//	result  depth, commits, len, tables, gets,   real CommitsToSend (first occurrences, list order; len = raw
//	        cut, err                             length), TablesToSend (as commits), object-store reads; cut =
//	                                             the read budget (twice the bound) was exhausted: no result
type Event struct {
	Op      string `json:"op"`
	C       int    `json:"c"`
	Ps      []int  `json:"ps"`
	T       int    `json:"t"`
	Full    bool   `json:"full"`
	Tips    []int  `json:"tips"`
	Round   int    `json:"round"`
	Depth   int    `json:"depth"`
	Wants   []int  `json:"wants"`
	Haves   []int  `json:"haves"`
	Done    bool   `json:"done"`
	Acks    []int  `json:"acks"`
	Err     int    `json:"err"`
	Commits []int  `json:"commits"`
	Len     int    `json:"len"`
	Tables  []int  `json:"tables"`
	Gets    int    `json:"gets"`
	Cut     bool   `json:"cut"`
	Text    string `json:"text"`
}

func newEvent(op string) *Event {
	return &Event{Op: op, Ps: []int{}, Tips: []int{}, Wants: []int{}, Haves: []int{}, Acks: []int{}, Commits: []int{}, Tables: []int{}}
}

// poly is the work bound of the contract (Poly in Negotiate.tla); the recorder
// only uses it to size the read budget (2*poly) - whether the reads stay
// within the bound is decided by TraceNegotiate.
func poly(n int) int { return 8*n*n + 64*n }

// negotiation runs one negotiation on the real code and returns its events:
// one process event per Process call made, then - unless a call failed - the
// result event.
func negotiation(h *History, rounds []Round, depth int) []*Event {
	o := h.Negotiate(rounds, depth, 2*poly(h.N()))
	var evs []*Event
	for i, r := range rounds {
		if i > len(o.Acks) {
			break
		}
		e := newEvent("process")
		e.Round, e.Depth, e.Done = i+1, depth, r.D
		e.Wants = append(e.Wants, r.W...)
		e.Haves = append(e.Haves, r.H...)
		if i < len(o.Acks) {
			e.Acks = append(e.Acks, o.Acks[i]...)
			evs = append(evs, e)
			continue
		}
		// the call that failed (or was cut off)
		switch {
		case o.Err == i+1:
			e.Err = 1
		case o.Tripped:
			break
		default:
			e.Err = 2
		}
		e.Text = o.ErrText
		evs = append(evs, e)
		if o.Err != 0 || e.Err == 2 {
			return evs
		}
	}
	e := newEvent("result")
	e.Depth = depth
	e.Gets, e.Cut, e.Len = o.Gets, o.Tripped, o.Len
	if o.Other {
		e.Err, e.Text = 2, o.ErrText
	}
	if !o.Tripped {
		e.Commits = append(e.Commits, o.Commits...)
		e.Tables = append(e.Tables, o.Tables...)
	}
	return append(evs, e)
}

// Record builds seeded random histories (15-40 commits; chains with few merges
// up to merge-heavy and criss-cross ones, in turn; increasing, equal, reversed and
// random clocks; some commits without table), points refs at some commits and
// runs seeded negotiations (1-3 rounds, 1-3 wants among reachable, unreachable,
// shallow and unknown hashes, 0-4 haves per round, depth 0-3) on the real code.
func Record(args []string) error {
	fs := flag.NewFlagSet("record negotiate", flag.ExitOnError)
	seed := fs.Int64("seed", 1, "seed")
	n := fs.Int("n", 20, "number of traces (histories)")
	negs := fs.Int("len", 12, "negotiations per history")
	out := fs.String("out", "", "output trace file")
	reexec := fs.String("reexec", "", "re-execute the history and negotiations of this recorded trace on the current code")
	fs.Parse(args)
	f, err := os.Create(*out)
	if err != nil {
		return err
	}
	defer f.Close()
	w := bufio.NewWriterSize(f, 1<<16)
	defer w.Flush()
	emit := func(e *Event) error {
		b, err := json.Marshal(e)
		if err != nil {
			return err
		}
		w.Write(b)
		return w.WriteByte('\n')
	}
	if *reexec != "" {
		return reexecute(*reexec, emit)
	}
	rng := rand.New(rand.NewSource(*seed))
	for tr := 0; tr < *n; tr++ {
		if err := emit(newEvent("reset")); err != nil {
			return err
		}
		h, err := NewHistory()
		if err != nil {
			return err
		}
		N := 15 + rng.Intn(26)
		clock := tr % 4
		style := (tr / 4) % 4 // 0: few merges, 1: some, 2: merge-heavy, 3: criss-cross (most commits merge two of the last three)
		mergePct := []int{8, 20, 45, 80}[style]
		near := []int{4, 4, 4, 3}[style]
		hasChild := make([]bool, N+1)
		for c := 1; c <= N; c++ {
			k := 1
			switch r := rng.Intn(100); {
			case c == 1 || r < 5:
				k = 0
			case r < 5+mergePct:
				k = 2
			}
			ps := []int{}
			for len(ps) < k && len(ps) < c-1 {
				var p int
				if rng.Intn(100) < 75 || style == 3 {
					lo := c - near
					if lo < 1 {
						lo = 1
					}
					p = lo + rng.Intn(c-lo)
				} else {
					p = 1 + rng.Intn(c-1)
				}
				dup := false
				for _, x := range ps {
					dup = dup || x == p
				}
				if !dup {
					ps = append(ps, p)
				}
			}
			var t int
			switch clock {
			case 0:
				t = 1000 + 2*c + rng.Intn(2)
			case 1:
				t = 1000
			case 2:
				t = 1000 + 3*N - 2*c - rng.Intn(2)
			default:
				t = 1000 + rng.Intn(3*N)
			}
			full := rng.Intn(100) >= 8
			if _, err := h.Add(ps, t, full); err != nil {
				return err
			}
			for _, p := range ps {
				hasChild[p] = true
			}
			e := newEvent("commit")
			e.C, e.Ps, e.T, e.Full = c, ps, t, full
			if err := emit(e); err != nil {
				return err
			}
		}
		// refs: most heads, sometimes not all, plus a few inner commits
		tips := []int{}
		for c := 1; c <= N; c++ {
			if (!hasChild[c] && rng.Intn(100) < 80) || rng.Intn(100) < 6 {
				tips = append(tips, c)
			}
		}
		if len(tips) == 0 {
			tips = append(tips, N)
		}
		if err := h.SetRefs(tips); err != nil {
			return err
		}
		e := newEvent("refs")
		e.Tips = tips
		if err := emit(e); err != nil {
			return err
		}
		pickAny := func() int {
			switch r := rng.Intn(100); {
			case r < 4:
				return N + 1 + rng.Intn(3) // a hash nobody knows
			case r < 50:
				lo := N - 7
				if lo < 1 {
					lo = 1
				}
				return lo + rng.Intn(N-lo+1)
			}
			return 1 + rng.Intn(N)
		}
		for q := 0; q < *negs; q++ {
			depth := []int{0, 0, 1, 2, 3}[rng.Intn(5)]
			nr := 1 + rng.Intn(3)
			var rounds []Round
			for i := 0; i < nr; i++ {
				r := Round{W: []int{}, H: []int{}, D: i == nr-1 && rng.Intn(4) > 0}
				if i == 0 || rng.Intn(6) == 0 {
					for k := 1 + rng.Intn(3); k > 0; k-- {
						x := tips[rng.Intn(len(tips))]
						if rng.Intn(100) < 35 {
							x = pickAny()
						}
						dup := false
						for _, y := range r.W {
							dup = dup || y == x
						}
						if !dup {
							r.W = append(r.W, x)
						}
					}
				}
				for k := rng.Intn(5); k > 0; k-- {
					r.H = append(r.H, pickAny())
				}
				rounds = append(rounds, r)
			}
			for _, e := range negotiation(h, rounds, depth) {
				if err := emit(e); err != nil {
					return err
				}
			}
		}
		h.Close()
	}
	return nil
}

const reexecRepeats = 12

// reexecute rebuilds the history of a recorded trace and runs the same
// negotiations on the current code, writing the events it produces now.
func reexecute(path string, emit func(*Event) error) error {
	f, err := os.Open(path)
	if err != nil {
		return err
	}
	defer f.Close()
	sc := bufio.NewScanner(f)
	sc.Buffer(make([]byte, 1<<20), 1<<26)
	var h *History
	var rounds []Round
	depth := 0
	flush := func() error {
		if len(rounds) == 0 {
			return nil
		}
		if h == nil {
			return fmt.Errorf("negotiation before any history")
		}
		// the outcome may depend on the iteration order of a map inside the real code:
		// the negotiation is run several times, the wants given in every rotation
		for rep := 0; rep < reexecRepeats; rep++ {
			rs := make([]Round, len(rounds))
			for i, r := range rounds {
				rs[i] = r
				if len(r.W) > 1 {
					rs[i].W = rotated(r.W, rep%len(r.W))
				}
			}
			for _, e := range negotiation(h, rs, depth) {
				if err := emit(e); err != nil {
					return err
				}
			}
		}
		rounds = nil
		return nil
	}
	for sc.Scan() {
		if len(sc.Bytes()) == 0 {
			continue
		}
		var e Event
		if err := json.Unmarshal(sc.Bytes(), &e); err != nil {
			return err
		}
		switch e.Op {
		case "reset":
			if err := flush(); err != nil {
				return err
			}
			if h != nil {
				h.Close()
			}
			if h, err = NewHistory(); err != nil {
				return err
			}
			if err := emit(newEvent("reset")); err != nil {
				return err
			}
		case "commit":
			if err := flush(); err != nil {
				return err
			}
			if h == nil {
				if h, err = NewHistory(); err != nil {
					return err
				}
			}
			c, err := h.Add(e.Ps, e.T, e.Full)
			if err != nil {
				return err
			}
			if c != e.C {
				return fmt.Errorf("commit event numbered %d is commit %d of its history", e.C, c)
			}
			o := newEvent("commit")
			o.C, o.T, o.Full = c, e.T, e.Full
			o.Ps = append(o.Ps, e.Ps...)
			if err := emit(o); err != nil {
				return err
			}
		case "refs":
			if err := flush(); err != nil {
				return err
			}
			if err := h.SetRefs(e.Tips); err != nil {
				return err
			}
			o := newEvent("refs")
			o.Tips = append(o.Tips, e.Tips...)
			if err := emit(o); err != nil {
				return err
			}
		case "process":
			if e.Round == 1 {
				if err := flush(); err != nil {
					return err
				}
			}
			depth = e.Depth
			rounds = append(rounds, Round{W: e.Wants, H: e.Haves, D: e.Done})
		case "result":
			if err := flush(); err != nil {
				return err
			}
		default:
			return fmt.Errorf("unknown event %q", e.Op)
		}
	}
	if err := flush(); err != nil {
		return err
	}
	return sc.Err()
}
