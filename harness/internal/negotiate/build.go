// Package negotiate binds spec/Negotiate.tla to the real negotiation code of
// wrgl: apiutils.ClosedSetsFinder (Process rounds, CommitsToSend, TablesToSend)
// executed on real commit objects in an object store, with real refs in a real
// SQL ref store.  The package only builds histories, runs the real code and
// projects its outputs to abstract commit numbers.  What the outputs must
// satisfy is the contract of Negotiate.tla: on enumerated scenarios its clauses
// are tested against the sets TLC exported with the scenario (ancestor sets,
// reachable-from-refs, distance from the wants, refuse flags, work bound); on
// recorded traces TLC itself decides (TraceNegotiate.tla).
package negotiate

import (
	"bytes"
	"database/sql"
	"errors"
	"fmt"
	"time"

	apiutils "github.com/wrgl/wrgl/pkg/api/utils"
	"github.com/wrgl/wrgl/pkg/objects"
	objmock "github.com/wrgl/wrgl/pkg/objects/mock"
	refsql "github.com/wrgl/wrgl/pkg/ref/sql"

	"verifharness/internal/refs"
)

// epoch is the second that abstract time 0 maps to.
const epoch = 1600000000

// errWorkBound is what the counting store answers once the read budget of a
// negotiation is used up.
var errWorkBound = errors.New("verif: object-store read budget of the negotiation exhausted")

// countingStore counts Get calls and fails them beyond the limit, so that a
// computation whose work explodes is reported instead of waited for.
type countingStore struct {
	objects.Store
	gets    int
	limit   int // 0 = unlimited
	tripped bool
}

func (s *countingStore) Get(k []byte) ([]byte, error) {
	s.gets++
	if s.limit > 0 && s.gets > s.limit {
		s.tripped = true
		return nil, errWorkBound
	}
	return s.Store.Get(k)
}

// History is a set of real commits numbered 1..N in creation order, each with
// its own table sum (the table object is stored iff the commit is "full"), and
// a real SQL ref store whose refs point at some of them.
type History struct {
	cs     *countingStore
	rs     *refsql.Store
	sqldb  *sql.DB
	Sums   [][]byte
	Tables [][]byte
	ids    map[string]int // commit sum -> abstract commit
	tids   map[string]int // table sum  -> abstract commit
}

func NewHistory() (*History, error) {
	rs, db, err := refs.NewMemStore()
	if err != nil {
		return nil, err
	}
	return &History{cs: &countingStore{Store: objmock.NewStore()}, rs: rs, sqldb: db,
		ids: map[string]int{}, tids: map[string]int{}}, nil
}

func (h *History) Close() {
	if h.sqldb != nil {
		h.sqldb.Close()
	}
}

func (h *History) N() int { return len(h.Sums) }

// Add creates commit N+1 with the given parents (abstract numbers, order kept),
// abstract time, and a table of its own that is stored iff full.
func (h *History) Add(parents []int, t int, full bool) (int, error) {
	c := len(h.Sums) + 1
	content := []byte(fmt.Sprintf("dummy table of commit %d", c))
	var tsum []byte
	var err error
	if full {
		tsum, err = objects.SaveTable(h.cs.Store, content)
	} else {
		tsum, err = objects.SaveTable(objmock.NewStore(), content) // the sum only
	}
	if err != nil {
		return 0, err
	}
	com := &objects.Commit{
		Table:       tsum,
		AuthorName:  "verif",
		AuthorEmail: "verif@example.invalid",
		Time:        time.Unix(epoch+int64(t), 0).UTC(),
		Message:     fmt.Sprintf("commit %d", c), // distinct message => distinct sum even at equal times
	}
	for _, p := range parents {
		if p < 1 || p >= c {
			return 0, fmt.Errorf("commit %d: parent %d does not exist yet", c, p)
		}
		com.Parents = append(com.Parents, h.Sums[p-1])
	}
	buf := bytes.NewBuffer(nil)
	if _, err := com.WriteTo(buf); err != nil {
		return 0, err
	}
	sum, err := objects.SaveCommit(h.cs.Store, buf.Bytes())
	if err != nil {
		return 0, err
	}
	if _, dup := h.ids[string(sum)]; dup {
		return 0, fmt.Errorf("commit %d: sum collides with an earlier commit", c)
	}
	if _, dup := h.tids[string(tsum)]; dup {
		return 0, fmt.Errorf("commit %d: table sum collides", c)
	}
	h.Sums = append(h.Sums, sum)
	h.Tables = append(h.Tables, tsum)
	h.ids[string(sum)] = c
	h.tids[string(tsum)] = c
	return c, nil
}

// SetRefs stores one ref per listed commit (heads, tags and remote refs in turn).
func (h *History) SetRefs(tips []int) error {
	for _, c := range tips {
		if c < 1 || c > len(h.Sums) {
			return fmt.Errorf("ref to unknown commit %d", c)
		}
		var name string
		switch c % 3 {
		case 0:
			name = fmt.Sprintf("heads/b%d", c)
		case 1:
			name = fmt.Sprintf("tags/t%d", c)
		default:
			name = fmt.Sprintf("remotes/o/r%d", c)
		}
		if err := h.rs.Set(name, h.Sums[c-1]); err != nil {
			return err
		}
	}
	return nil
}

// unknownSum is a hash no object of any history has; abstract ids outside 1..N
// (the "unknown hash" of a scenario) map to it.
func unknownSum(c int) []byte {
	b := bytes.Repeat([]byte{0xEE}, 16)
	b[0] = byte(c)
	b[1] = byte(c >> 8)
	return b
}

func (h *History) sums(cs []int) [][]byte {
	out := make([][]byte, 0, len(cs))
	for _, c := range cs {
		if c >= 1 && c <= len(h.Sums) {
			out = append(out, h.Sums[c-1])
		} else {
			out = append(out, unknownSum(c))
		}
	}
	return out
}

// id projects a commit sum to its abstract number, 0 = not a commit of this history.
func (h *History) id(sum []byte) int { return h.ids[string(sum)] }

// Round is one Process call.
type Round struct {
	W []int `json:"w"` // wants passed in this round
	H []int `json:"h"` // haves, in the order given
	D bool  `json:"d"` // done flag
}

// Outcome is the projection of one real negotiation.
type Outcome struct {
	Err     int     `json:"err"`     // round whose Process returned an error that is a refusal of wants (0 = none)
	ErrText string  `json:"errtext"` // text of that error or of any other failure
	Other   bool    `json:"other"`   // a failure that is neither a refusal nor the work bound
	Acks    [][]int `json:"acks"`    // per completed round, in the order returned (0 = not a commit of the history)
	Commits []int   `json:"commits"` // CommitsToSend projected, FIRST occurrence of each entry, in list order
	Len     int     `json:"len"`     // raw length of CommitsToSend (with repetitions)
	Tables  []int   `json:"tables"`  // TablesToSend projected to the commit owning the table (0 = foreign), ascending
	Gets    int     `json:"gets"`    // object-store reads of the whole negotiation
	Tripped bool    `json:"tripped"` // the read budget was exhausted (the computation was cut off)
}

// Negotiate runs the real ClosedSetsFinder over the rounds, then CommitsToSend
// and TablesToSend, counting object-store reads; limit 0 = unlimited.
func (h *History) Negotiate(rounds []Round, depth, limit int) *Outcome {
	h.cs.gets, h.cs.limit, h.cs.tripped = 0, limit, false
	o := &Outcome{Acks: [][]int{}, Commits: []int{}, Tables: []int{}}
	defer func() { o.Gets, o.Tripped = h.cs.gets, h.cs.tripped }()
	f := apiutils.NewClosedSetsFinder(h.cs, h.rs, depth)
	for i, r := range rounds {
		var wants [][]byte
		if len(r.W) > 0 {
			wants = h.sums(r.W)
		}
		acks, err := f.Process(wants, h.sums(r.H), r.D)
		if err != nil {
			o.ErrText = err.Error()
			var uw *apiutils.UnrecognizedWantsError
			switch {
			case h.cs.tripped:
			case errors.As(err, &uw):
				o.Err = i + 1
			default:
				o.Other = true
			}
			return o
		}
		a := make([]int, 0, len(acks))
		for _, s := range acks {
			a = append(a, h.id(s))
		}
		o.Acks = append(o.Acks, a)
	}
	coms, err := f.CommitsToSend()
	if err != nil {
		o.ErrText = err.Error()
		o.Other = !h.cs.tripped
		return o
	}
	o.Len = len(coms)
	seen := map[int]bool{}
	foreign := false
	for _, c := range coms {
		k := h.id(c.Sum)
		if k == 0 {
			if foreign {
				continue
			}
			foreign = true
		} else if seen[k] {
			continue
		}
		seen[k] = true
		o.Commits = append(o.Commits, k)
	}
	tbls, err := f.TablesToSend()
	if err != nil {
		o.ErrText = err.Error()
		o.Other = !h.cs.tripped
		return o
	}
	marks := make([]bool, len(h.Sums)+1)
	for s := range tbls {
		marks[h.tids[s]] = true
	}
	for k, m := range marks {
		if m {
			o.Tables = append(o.Tables, k)
		}
	}
	return o
}
