package negotiate

import (
	"encoding/json"
	"fmt"
	"sort"

	"verifharness/internal/child"
)

// Scenario is one SCN line of spec/NegotiateGen.tla (see Export there): one
// history with refs and wants, the sets the contract's clauses need (computed
// by TLC) and the negotiations to run on it.
type Scenario struct {
	P     [][]int             `json:"p"`     // parents per commit
	T     []int               `json:"t"`     // abstract time per commit
	Refs  []int               `json:"refs"`  // commits some ref points at
	Full  []int               `json:"full"`  // commits whose table object is present
	W     []int               `json:"w"`     // the want set of the line
	Anc   [][]int             `json:"anc"`   // ancestor set per commit (TLC)
	Reach []int               `json:"reach"` // reachable from the refs (TLC)
	Dist  []int               `json:"dist"`  // shortest parent path from a want; n+1 = none (TLC)
	Must  []int               `json:"must"`  // wants that must be refused (TLC)
	May   []int               `json:"may"`   // wants that may be refused (TLC)
	Bound int                 `json:"bound"` // Poly(n): allowed object-store reads (TLC)
	Vs    [][]json.RawMessage `json:"vs"`    // variants: rounds [wants, haves(set), done]
	Ds    []int               `json:"ds"`    // depths to run every variant at
	Fam   string              `json:"fam"`   // "enum" | "ladder"
	PW    int                 `json:"pw"`    // PathWork (TLC): fetches of walks following every parent path; names the class of a work violation
	WC    bool                `json:"wc"`    // dev was computed
	Dev   [][2]int            `json:"dev"`   // [variant, depth] where the code as written misses the table clause (model)
	Only  *Focus              `json:"only,omitempty"`
}

// Focus restricts a replay to one variant at one depth (replay files); the
// orders are then repeated more often.
type Focus struct {
	V int `json:"v"` // 1-based index into vs
	D int `json:"d"`
}

type Mismatch struct {
	Sig       string      `json:"sig"`
	V         int         `json:"v"`
	D         int         `json:"d"`
	Rounds    []Round     `json:"rounds"` // as put to the real code (orders as given)
	Why       interface{} `json:"why"`
	Observed  *Outcome    `json:"observed"`
	Predicted *bool       `json:"model_predicted,omitempty"`
}

type intset map[int]bool

func setOf(xs []int) intset {
	s := intset{}
	for _, x := range xs {
		s[x] = true
	}
	return s
}

func parseRound(raw json.RawMessage) (Round, error) {
	var parts []json.RawMessage
	var r Round
	if err := json.Unmarshal(raw, &parts); err != nil || len(parts) != 3 {
		return r, fmt.Errorf("malformed round %s", raw)
	}
	if err := json.Unmarshal(parts[0], &r.W); err != nil {
		return r, err
	}
	if err := json.Unmarshal(parts[1], &r.H); err != nil {
		return r, err
	}
	if err := json.Unmarshal(parts[2], &r.D); err != nil {
		return r, err
	}
	sort.Ints(r.H)
	return r, nil
}

func reversed(xs []int) []int {
	out := make([]int, len(xs))
	for i, x := range xs {
		out[len(xs)-1-i] = x
	}
	return out
}

func rotated(xs []int, k int) []int {
	out := make([]int, 0, len(xs))
	out = append(out, xs[k:]...)
	return append(out, xs[:k]...)
}

// orderings lists the ways one variant is put to the real code.  The contract
// does not depend on them; the code's behaviour may (it walks the haves in the
// order given and keeps the wants in a map filled in the order given): haves
// ascending and descending where a round has two or more, wants in every
// rotation and its reverse.
func orderings(rounds []Round) [][]Round {
	wantOrders := func(w []int) [][]int {
		if len(w) < 2 {
			return [][]int{w}
		}
		var out [][]int
		for k := range w {
			out = append(out, rotated(w, k))
			if len(w) > 2 {
				out = append(out, reversed(rotated(w, k)))
			}
		}
		return out
	}
	multiH := false
	for _, r := range rounds {
		if len(r.H) >= 2 {
			multiH = true
		}
	}
	var out [][]Round
	var rec func(i int, cur []Round)
	rec = func(i int, cur []Round) {
		if i == len(rounds) {
			out = append(out, append([]Round{}, cur...))
			if multiH {
				alt := make([]Round, len(cur))
				for k, r := range cur {
					alt[k] = Round{W: r.W, H: reversed(r.H), D: r.D}
				}
				out = append(out, alt)
			}
			return
		}
		for _, w := range wantOrders(rounds[i].W) {
			rec(i+1, append(cur, Round{W: w, H: rounds[i].H, D: rounds[i].D}))
		}
	}
	rec(0, nil)
	return out
}

// judge tests the clauses of the contract (Verdict / Sig of Negotiate.tla) on
// one real outcome, using only the sets exported by TLC.  "" = it holds.
func judge(sc *Scenario, rounds []Round, depth int, o *Outcome) (sig string, why interface{}) {
	n := len(sc.P)
	if o.Tripped || o.Gets > sc.Bound {
		cls := "other" // WorkClass of Negotiate.tla
		if (len(rounds)+1)*sc.PW > sc.Bound/2 {
			cls = "path-explosion"
		}
		return "negotiate/work/exponential/" + cls, map[string]interface{}{"gets": o.Gets, "bound": sc.Bound, "cut_off": o.Tripped, "commits": n, "path_work": sc.PW}
	}
	if o.Other {
		return "negotiate/error/unexpected", o.ErrText
	}
	must, may := setOf(sc.Must), setOf(sc.May)
	any := func(ws []int, s intset) bool {
		for _, w := range ws {
			if s[w] {
				return true
			}
		}
		return false
	}
	if o.Err != 0 && !any(rounds[o.Err-1].W, may) {
		return "negotiate/refuse/spurious", map[string]interface{}{"round": o.Err, "error": o.ErrText}
	}
	for i, r := range rounds {
		if any(r.W, must) && !(o.Err != 0 && o.Err <= i+1) {
			return "negotiate/refuse/missing", map[string]interface{}{"round": i + 1, "wants": r.W, "reachable_from_refs": sc.Reach}
		}
	}
	if o.Err != 0 {
		return "", nil
	}
	// acks
	if len(o.Acks) != len(rounds) {
		return "negotiate/acks/foreign", "number of ack lists differs from the number of rounds"
	}
	have := intset{}
	for i, as := range o.Acks {
		hs := setOf(rounds[i].H)
		for _, a := range as {
			if a < 1 || a > n || !hs[a] {
				return "negotiate/acks/foreign", map[string]interface{}{"round": i + 1, "ack": a}
			}
			for _, x := range sc.Anc[a-1] {
				have[x] = true
			}
		}
	}
	sent := intset{}
	pos := map[int]int{}
	for i, c := range o.Commits {
		sent[c] = true
		if _, ok := pos[c]; !ok {
			pos[c] = i
		}
	}
	wants := intset{}
	for _, r := range rounds {
		for _, w := range r.W {
			wants[w] = true
		}
	}
	fromWants := intset{}
	for w := range wants {
		if w >= 1 && w <= n {
			for _, a := range sc.Anc[w-1] {
				fromWants[a] = true
				if !sent[a] && !have[a] {
					return "negotiate/closed/missing-ancestor", map[string]interface{}{"want": w, "ancestor": a}
				}
			}
		}
	}
	for _, c := range o.Commits {
		if c < 1 || c > n {
			continue
		}
		for _, p := range sc.P[c-1] {
			if have[p] {
				continue
			}
			if pp, ok := pos[p]; !ok || pp >= pos[c] {
				return "negotiate/order/child-before-parent", map[string]interface{}{"commit": c, "parent": p}
			}
		}
	}
	for _, c := range o.Commits {
		if !fromWants[c] {
			return "negotiate/extra/unreachable-from-wants", map[string]interface{}{"commit": c}
		}
	}
	inDepth := func(c int) bool { return depth == 0 || sc.Dist[c-1] < depth }
	tabs := setOf(o.Tables)
	for _, t := range o.Tables {
		if t < 1 || t > n || !sent[t] || !inDepth(t) {
			return "negotiate/tables/extra/beyond-depth", map[string]interface{}{"table_of": t}
		}
	}
	// missing tables; the class is decided by a commit that two or more wants share, if there is one
	var missing, shared []int
	for _, c := range o.Commits {
		if c >= 1 && c <= n && !have[c] && inDepth(c) && !tabs[c] {
			missing = append(missing, c)
			k := 0
			for w := range wants {
				if w >= 1 && w <= n && setOf(sc.Anc[w-1])[c] {
					k++
				}
			}
			if k >= 2 {
				shared = append(shared, c)
			}
		}
	}
	if len(missing) > 0 {
		cls := "single-want"
		if len(shared) > 0 {
			cls = "shared-by-wants"
		}
		return "negotiate/tables/missing/" + cls, map[string]interface{}{"tables_of": missing, "shared_by_wants": shared, "dist": sc.Dist, "depth": depth}
	}
	return "", nil
}

func shapeClass(p [][]int) string {
	maxPar, roots, edges := 0, 0, 0
	for _, ps := range p {
		if len(ps) == 0 {
			roots++
		}
		if len(ps) > maxPar {
			maxPar = len(ps)
		}
		edges += len(ps)
	}
	if edges == 0 {
		return "no-edge"
	}
	s := "tree"
	if maxPar >= 2 {
		s = "merge"
	}
	if roots > 1 {
		return s + "/roots=2+"
	}
	return s + "/roots=1"
}

func clockClass(sc *Scenario) string {
	inc, dec := false, false
	for c, ps := range sc.P {
		for _, p := range ps {
			if sc.T[c] > sc.T[p-1] {
				inc = true
			} else if sc.T[c] < sc.T[p-1] {
				dec = true
			}
		}
	}
	switch {
	case inc && !dec:
		return "mono"
	case dec:
		return "skew"
	}
	return "tie"
}

// Replay realises one scenario line as real commits, tables and refs and runs
// every variant at every depth in every ordering through the real finder.
func Replay(i int, raw []byte) child.Result {
	var sc Scenario
	if err := json.Unmarshal(raw, &sc); err != nil {
		return child.Inconclusive(fmt.Errorf("scenario %d: %v", i, err))
	}
	n := len(sc.P)
	if n == 0 || len(sc.T) != n || len(sc.Anc) != n || len(sc.Dist) != n || sc.Bound <= 0 {
		return child.Inconclusive(fmt.Errorf("scenario %d: malformed (p/t/anc/dist/bound)", i))
	}
	h, err := NewHistory()
	if err != nil {
		return child.Inconclusive(err)
	}
	defer h.Close()
	full := setOf(sc.Full)
	for c := 1; c <= n; c++ {
		if _, err := h.Add(sc.P[c-1], sc.T[c-1], full[c]); err != nil {
			return child.Inconclusive(fmt.Errorf("scenario %d: %v", i, err))
		}
	}
	if err := h.SetRefs(sc.Refs); err != nil {
		return child.Inconclusive(fmt.Errorf("scenario %d: %v", i, err))
	}
	dev := map[[2]int]bool{}
	for _, d := range sc.Dev {
		dev[d] = true
	}
	repeats := 1
	if sc.Only != nil {
		repeats = 12
	}
	runs, total := 0, 0
	bySig := map[string]int{}
	first := map[string]Mismatch{}
	var order []string
	devSeen, devReproduced := 0, 0
	for vi, v := range sc.Vs {
		rounds := make([]Round, 0, len(v))
		for _, rr := range v {
			r, err := parseRound(rr)
			if err != nil {
				return child.Inconclusive(fmt.Errorf("scenario %d: %v", i, err))
			}
			rounds = append(rounds, r)
		}
		ords := orderings(rounds)
		for _, d := range sc.Ds {
			if sc.Only != nil && (sc.Only.V != vi+1 || sc.Only.D != d) {
				continue
			}
			predicted := dev[[2]int{vi + 1, d}]
			if predicted {
				devSeen++
			}
			hit := false
			for rep := 0; rep < repeats; rep++ {
				for _, ord := range ords {
					o := h.Negotiate(ord, d, 2*sc.Bound)
					runs++
					sig, why := judge(&sc, ord, d, o)
					if sig == "" {
						continue
					}
					total++
					m := Mismatch{Sig: sig, V: vi + 1, D: d, Rounds: ord, Why: why, Observed: o}
					if sc.WC && sig == "negotiate/tables/missing/shared-by-wants" {
						p := predicted
						m.Predicted = &p
						hit = true
					}
					if bySig[sig] == 0 {
						first[sig] = m
						order = append(order, sig)
					}
					bySig[sig]++
				}
			}
			if predicted && hit {
				devReproduced++
			}
		}
	}
	child.Emit(map[string]interface{}{"i": i, "runs": runs, "dev": devSeen, "devhit": devReproduced})
	cls := "-"
	if len(sc.Must) == 0 && len(sc.May) == 0 {
		sh := shapeClass(sc.P)
		if sc.Fam == "ladder" {
			cls = fmt.Sprintf("ladder/wants=%d", len(sc.W))
		} else if sh != "no-edge" {
			cls = fmt.Sprintf("clock=%s/%s/wants=%d", clockClass(&sc), sh, len(sc.W))
		}
	}
	if total > 0 {
		sigs := append([]string{}, order...)
		sort.Strings(sigs)
		firsts := make([]Mismatch, 0, len(sigs))
		for _, s := range sigs {
			firsts = append(firsts, first[s])
		}
		return child.Fail(order[0], map[string]interface{}{
			"mismatches": firsts, "count_by_sig": bySig, "total": total, "runs": runs, "class": cls,
		})
	}
	return child.Pass(cls)
}
