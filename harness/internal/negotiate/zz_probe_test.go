package negotiate

import (
	"fmt"
	"testing"
	"time"
)

func TestProbeLadder(t *testing.T) {
	for _, L := range []int{5, 10, 12} {
		h, _ := NewHistory()
		h.Add(nil, 1, true)
		h.Add(nil, 1, true)
		for l := 1; l < L; l++ {
			a, b := 2*l-1, 2*l
			h.Add([]int{a, b}, l+1, true)
			h.Add([]int{a, b}, l+1, true)
		}
		tip, _ := h.Add([]int{2*L - 1, 2 * L}, L+2, true)
		h.SetRefs([]int{tip})
		t0 := time.Now()
		o := h.Negotiate([]Round{{W: []int{tip}, D: true}}, 0, 0)
		fmt.Println("ladder", L, "n", h.N(), "len", o.Len, "gets", o.Gets, "distinct", len(o.Commits), time.Since(t0), o.ErrText)
		n := h.N()
		o = h.Negotiate([]Round{{W: []int{tip}, D: true}}, 0, 2*(8*n*n+64*n))
		fmt.Println("  bounded: tripped", o.Tripped, "gets", o.Gets, o.ErrText)
	}
}

func TestProbeTables(t *testing.T) {
	// 1 <- 2 <- 3 <- 4 ; wants {4, 2}, depth 1: table of 2 must be selected (Dist 0)
	cnt := map[string]int{}
	for i := 0; i < 200; i++ {
		h, _ := NewHistory()
		h.Add(nil, 1, true)
		h.Add([]int{1}, 2, true)
		h.Add([]int{2}, 3, true)
		h.Add([]int{3}, 4, true)
		h.SetRefs([]int{4})
		w := []int{4, 2}
		if i%2 == 1 {
			w = []int{2, 4}
		}
		o := h.Negotiate([]Round{{W: w, D: true}}, 1, 0)
		cnt[fmt.Sprint(w, o.Commits, o.Tables, o.ErrText)]++
		h.Close()
	}
	for k, v := range cnt {
		fmt.Println(v, k)
	}
}
