package refs

import (
	"bufio"
	"encoding/json"
	"flag"
	"fmt"
	"math/rand"
	"os"
	"sort"
	"strings"

	"github.com/wrgl/wrgl/pkg/ref"
	reffs "github.com/wrgl/wrgl/pkg/ref/fs"
)

// Event is one NDJSON line of a refs trace; every field is always present so
// that the trace specification can refer to it unconditionally.
type Event struct {
	Op    string           `json:"op"`
	N     string           `json:"n"`
	M     string           `json:"m"`
	V     int              `json:"v"`
	Ps    []string         `json:"ps"`
	Nps   []string         `json:"nps"`
	Ok    bool             `json:"ok"`
	Val   int              `json:"val"`
	Names []string         `json:"names"`
	Vals  [][2]interface{} `json:"vals"`
	Log   [][3]int         `json:"log"`
	Refs  [][2]interface{} `json:"refs"`
	Logs  [][2]interface{} `json:"logs"`
	Err   string           `json:"err"`
}

func newEvent(op string) *Event {
	return &Event{Op: op, Ps: []string{}, Nps: []string{}, Names: []string{}, Vals: [][2]interface{}{}, Log: [][3]int{}, Refs: [][2]interface{}{}, Logs: [][2]interface{}{}}
}

var recNames = []string{
	"heads/a_b", "heads/aXb", "heads/A_b", "heads/a%b", "heads/a", "heads/a_", "heads/main", "heads/Main", "heads/m%in",
	"tags/v1", "tags/v_", "tags/V1",
	"remotes/o/x", "remotes/o/y", "remotes/oo/x", "remotes/o_/x", "remotes/O/x", "remotes/o%/x", "remotes/o/a_b", "remotes/o_/a_b",
}
var recPrefixes = []string{
	"", "heads/", "heads/a", "heads/a_", "heads/a%", "heads/A", "heads/m", "heads/M", "tags/", "tags/v", "tags/v_", "tags/V",
	"remotes/", "remotes/o", "remotes/o/", "remotes/o_/", "remotes/oo/", "remotes/O/", "remotes/o%/", "remotes/o/a_",
}
var recRemotes = []string{"o", "oo", "o_", "O", "o%", "zz"}

func sortedVals(m map[string]int) [][2]interface{} {
	keys := make([]string, 0, len(m))
	for k := range m {
		keys = append(keys, k)
	}
	sort.Strings(keys)
	out := make([][2]interface{}, 0, len(keys))
	for _, k := range keys {
		out = append(out, [2]interface{}{k, m[k]})
	}
	return out
}

func observeEvent(s ref.Store) (*Event, error) {
	a, err := Observe(s, recNames)
	if err != nil {
		return nil, err
	}
	e := newEvent("observe")
	e.Ok = true
	e.Refs = sortedVals(a.Refs)
	names := make([]string, 0, len(a.Logs))
	for n := range a.Logs {
		names = append(names, n)
	}
	sort.Strings(names)
	for _, n := range names {
		e.Logs = append(e.Logs, [2]interface{}{n, a.Logs[n]})
	}
	return e, nil
}

// renameAllEnabled mirrors RenameAllRemoteEnabled of the specification, decided
// on the real store's full listing with literal string comparison.
func renameAllEnabled(s ref.Store, r1, r2 string) bool {
	if r1 == r2 {
		return false
	}
	p1, p2 := "remotes/"+r1+"/", "remotes/"+r2+"/"
	if strings.HasPrefix(p2, p1) {
		return false
	}
	m, err := s.Filter(nil, nil)
	if err != nil {
		return false
	}
	for k := range m {
		if strings.HasPrefix(k, p1) {
			if _, ok := m[p2+k[len(p1):]]; ok {
				return false
			}
		}
	}
	return true
}

// Record drives the real SQL ref store with seeded random operations and writes
// the trace (operations with their real results, periodic full observations).
func Record(args []string) error {
	fs := flag.NewFlagSet("record refs", flag.ExitOnError)
	seed := fs.Int64("seed", 1, "seed")
	n := fs.Int("n", 20, "number of traces")
	length := fs.Int("len", 60, "operations per trace")
	out := fs.String("out", "", "output trace file")
	fileBacked := fs.String("dir", "", "directory for file-backed sqlite stores (default: in-memory)")
	reexec := fs.String("reexec", "", "re-execute the operations of this recorded trace instead of generating")
	fs.Parse(args)
	f, err := os.Create(*out)
	if err != nil {
		return err
	}
	defer f.Close()
	w := bufio.NewWriter(f)
	defer w.Flush()
	emit := func(e *Event) error {
		b, err := json.Marshal(e)
		if err != nil {
			return err
		}
		w.Write(b)
		return w.WriteByte('\n')
	}
	if *reexec != "" {
		return reexecute(*reexec, emit)
	}
	rng := rand.New(rand.NewSource(*seed))
	pick := func(l []string) string { return l[rng.Intn(len(l))] }
	for t := 0; t < *n; t++ {
		var s ref.Store
		if *fileBacked != "" && t%5 == 4 {
			// the FILE ref store with LONG logs: tens of logged sets of one ref (a log of several KiB is read
			// backwards in chunks), log reads in between, a rename carrying the log, another ref for contrast
			d, err := os.MkdirTemp(*fileBacked, "refsfs")
			if err != nil {
				return err
			}
			if err := fsLongLog(reffs.NewStore(d), rng, emit); err != nil {
				return err
			}
			continue
		}
		if *fileBacked != "" && t%2 == 1 {
			d, err := os.MkdirTemp(*fileBacked, "refs")
			if err != nil {
				return err
			}
			st, db, err := NewFileStore(d)
			if err != nil {
				return err
			}
			defer db.Close()
			s = st
		} else {
			st, db, err := NewMemStore()
			if err != nil {
				return err
			}
			defer db.Close()
			s = st
		}
		emit(newEvent("reset"))
		for i := 0; i < *length; i++ {
			var o Op
			switch k := rng.Intn(100); {
			case k < 18:
				o = Op{Name: "set", N: pick(recNames), V: 1 + rng.Intn(5)}
			case k < 42:
				o = Op{Name: "setlog", N: pick(recNames), V: 1 + rng.Intn(5)}
			case k < 50:
				o = Op{Name: "del", N: pick(recNames)}
			case k < 55:
				o = Op{Name: "get", N: pick(recNames)}
			case k < 62:
				o = Op{Name: "log", N: pick(recNames)}
			case k < 69:
				o = Op{Name: "ren", N: pick(recNames), M: pick(recNames)}
			case k < 76:
				o = Op{Name: "copy", N: pick(recNames), M: pick(recNames)}
			case k < 88:
				o = Op{Name: "filter"}
				for j := rng.Intn(3); j > 0; j-- {
					o.Ps = append(o.Ps, pick(recPrefixes))
				}
				for j := rng.Intn(3) - 1; j > 0; j-- {
					o.Nps = append(o.Nps, pick(recPrefixes[1:]))
				}
			case k < 92:
				o = Op{Name: "delremote", N: pick(recRemotes)}
			case k < 96:
				o = Op{Name: "listremote", N: pick(recRemotes)}
			default:
				o = Op{Name: "renremote", N: pick(recRemotes), M: pick(recRemotes)}
				if !renameAllEnabled(s, o.N, o.M) {
					continue
				}
			}
			e := fillEvent(o, Apply(s, o))
			if err := emit(e); err != nil {
				return err
			}
			if i%10 == 9 || i == *length-1 {
				oe, err := observeEvent(s)
				if err != nil {
					return fmt.Errorf("observe: %v", err)
				}
				emit(oe)
			}
		}
	}
	return nil
}

func fillEvent(o Op, got RealRet) *Event {
	e := newEvent(o.Name)
	e.N, e.M, e.V = o.N, o.M, o.V
	if o.Ps != nil {
		e.Ps = o.Ps
	}
	if o.Nps != nil {
		e.Nps = o.Nps
	}
	e.Ok, e.Val, e.Err = got.Ok, got.Val, got.Err
	if got.Names != nil {
		e.Names = got.Names
	}
	if got.Vals != nil {
		e.Vals = sortedVals(got.Vals)
	}
	if got.Log != nil {
		e.Log = got.Log
	}
	return e
}

// reexecute replays the operations of a recorded trace on a fresh real store and
// records the results the current code gives.
func reexecute(path string, emit func(*Event) error) error {
	f, err := os.Open(path)
	if err != nil {
		return err
	}
	defer f.Close()
	sc := bufio.NewScanner(f)
	sc.Buffer(make([]byte, 1<<20), 1<<26)
	var s ref.Store
	for sc.Scan() {
		var e Event
		if err := json.Unmarshal(sc.Bytes(), &e); err != nil {
			return err
		}
		switch e.Op {
		case "reset":
			st, _, err := NewMemStore()
			if err != nil {
				return err
			}
			s = st
			emit(newEvent("reset"))
		case "observe":
			oe, err := observeEvent(s)
			if err != nil {
				return err
			}
			emit(oe)
		default:
			if s == nil {
				st, _, err := NewMemStore()
				if err != nil {
					return err
				}
				s = st
			}
			o := Op{Name: e.Op, N: e.N, M: e.M, V: e.V, Ps: e.Ps, Nps: e.Nps}
			if len(o.Ps) == 0 {
				o.Ps = nil
			}
			if len(o.Nps) == 0 {
				o.Nps = nil
			}
			emit(fillEvent(o, Apply(s, o)))
		}
	}
	return sc.Err()
}


// fsLongLog records one trace on the file ref store within the operations it implements.
func fsLongLog(s ref.Store, rng *rand.Rand, emit func(*Event) error) error {
	emit(newEvent("reset"))
	names := []string{"heads/a_b", "heads/aXb"}
	cur := names[0]
	n := 12 + rng.Intn(40)
	for i := 0; i < n; i++ {
		var o Op
		switch k := rng.Intn(20); {
		case k < 14:
			o = Op{Name: "setlog", N: cur, V: 1 + rng.Intn(5)}
		case k < 16:
			o = Op{Name: "log", N: cur}
		case k < 17:
			o = Op{Name: "get", N: cur}
		case k < 18:
			o = Op{Name: "setlog", N: "remotes/o/x", V: 1 + rng.Intn(5)}
		case k < 19:
			o = Op{Name: "log", N: "remotes/o/x"}
		default:
			// move the ref (with its log) to the other name when that one is free
			other := names[0]
			if cur == names[0] {
				other = names[1]
			}
			if _, err := s.Get(other); err == nil {
				continue
			}
			if _, err := s.Get(cur); err != nil {
				continue
			}
			o = Op{Name: "ren", N: cur, M: other}
			if err := emit(fillEvent(o, Apply(s, o))); err != nil {
				return err
			}
			cur = other
			continue
		}
		if err := emit(fillEvent(o, Apply(s, o))); err != nil {
			return err
		}
	}
	for _, nm := range []string{cur, "remotes/o/x"} {
		o := Op{Name: "log", N: nm}
		if err := emit(fillEvent(o, Apply(s, o))); err != nil {
			return err
		}
	}
	oe, err := observeEvent(s)
	if err != nil {
		return err
	}
	return emit(oe)
}
