package refs

import (
	"github.com/google/uuid"
	"database/sql"
	"errors"
	"syscall"
	"time"
	"encoding/json"
	"fmt"
	"io"
	"os"
	"reflect"
	"sort"
	"strings"

	"github.com/wrgl/wrgl/pkg/ref"
	reffs "github.com/wrgl/wrgl/pkg/ref/fs"

	"verifharness/internal/child"
)

// Universe of names observed after every scenario (the names of spec/RefsGen.tla
// plus whatever the scenario mentions).
var Universe = []string{
	"heads/a_b", "heads/aXb", "heads/A_b", "heads/a%b",
	"remotes/o/x", "remotes/oo/x", "remotes/o_/x", "remotes/o/y", "remotes/o/x/y",
}

type Op struct {
	Name string
	N, M string
	V    int
	Ps   []string
	Nps  []string
}

func (o *Op) UnmarshalJSON(b []byte) error {
	var raw []json.RawMessage
	if err := json.Unmarshal(b, &raw); err != nil {
		return err
	}
	if len(raw) != 6 {
		return fmt.Errorf("op: want 6 fields, got %d", len(raw))
	}
	for i, dst := range []interface{}{&o.Name, &o.N, &o.M, &o.V, &o.Ps, &o.Nps} {
		if err := json.Unmarshal(raw[i], dst); err != nil {
			return err
		}
	}
	return nil
}

type LogEntry [3]int // old, new, meta

type State struct {
	Refs [][2]interface{}  `json:"refs"`
	Logs []json.RawMessage `json:"logs"`
}

// Abstract is the projection of a ref store: name -> value, name -> log (oldest first).
type Abstract struct {
	Refs map[string]int      `json:"refs"`
	Logs map[string][][3]int `json:"logs"`
}

type Ret struct {
	Ok    bool             `json:"ok"`
	Free  bool             `json:"free,omitempty"` // error-ness not part of the statement
	Val   *int             `json:"val,omitempty"`
	Names []string         `json:"names,omitempty"`
	Vals  [][2]interface{} `json:"vals,omitempty"`
	Log   [][3]int         `json:"log,omitempty"`
}

type Scenario struct {
	Path []Op `json:"path"`
	Ret  Ret  `json:"ret"`
	Fs   int  `json:"fs"` // applicability to the file store: 2 result+state, 1 state only, 0 not judged
	Post struct {
		Refs [][2]interface{} `json:"refs"`
		Logs [][2]interface{} `json:"logs"`
	} `json:"post"`
}

// RealRet is what the real call returned, projected.
type RealRet struct {
	Ok    bool           `json:"ok"`
	Val   int            `json:"val,omitempty"`
	Names []string       `json:"names,omitempty"`
	Vals  map[string]int `json:"vals,omitempty"`
	Log   [][3]int       `json:"log,omitempty"`
	Err   string         `json:"err,omitempty"`
}

func errStr(err error) string {
	if err == nil {
		return ""
	}
	return err.Error()
}

// The harness writes two kinds of log entries (RefsGen / TraceRefs: MetaOf(v) = v % 2):
//   meta 0  a plain entry: author "verif", action "commit", message "m", no transaction;
//   meta 1  an entry written by a transaction: the same with message "tx" and the id of a transaction
//           of the store.
// Whatever else is read back (a field lost or changed by a copy, a rename, a bulk rename) is meta 9: no
// behaviour of the specification has such an entry ("rename / copy carry the log along").
var fixedTx = uuid.MustParse("7a1f0c3e-5b2d-4e6f-8a9b-0c1d2e3f4a5b")

// noTx: the store under test has no transactions (the file store: "not implemented", and its log format
// has no field for the id); the two kinds of entries then differ by their message only.
func noTx(s ref.Store) bool {
	_, fs := s.(*reffs.Store)
	return fs
}

func metaOf(rl *ref.Reflog, noTx bool) int {
	if rl.AuthorName != "verif" || rl.AuthorEmail != "verif@example.invalid" || rl.Action != "commit" {
		return 9
	}
	switch {
	case rl.Txid == nil && rl.Message == "m":
		return 0
	case rl.Txid != nil && *rl.Txid == fixedTx && rl.Message == "tx":
		return 1
	case noTx && rl.Txid == nil && rl.Message == "tx":
		return 1
	}
	return 9
}

// saveLogged is the logged set of the harness: an odd value is written "by a transaction".
func saveLogged(s ref.Store, name string, v int) error {
	if v%2 == 0 {
		return ref.SaveRef(s, name, Sum(v), "verif", "verif@example.invalid", "commit", "m", nil)
	}
	if noTx(s) {
		return ref.SaveRef(s, name, Sum(v), "verif", "verif@example.invalid", "commit", "tx", nil)
	}
	if _, err := s.GetTransaction(fixedTx); err != nil {
		if _, err := s.NewTransaction(&ref.Transaction{ID: fixedTx, Status: ref.TSInProgress, Begin: time.Now()}); err != nil {
			return fmt.Errorf("harness: cannot create the transaction: %v", err)
		}
	}
	id := fixedTx
	return ref.SaveRef(s, name, Sum(v), "verif", "verif@example.invalid", "commit", "tx", &id)
}

// ReadLog returns the log of name newest first as (old, new, meta) triples; ok=false when
// the store says there is none.
func ReadLog(s ref.Store, name string) (log [][3]int, ok bool, err error) {
	r, err := s.LogReader(name)
	if err != nil {
		return nil, false, nil
	}
	defer r.Close()
	for {
		rl, err := r.Read()
		if err == io.EOF {
			break
		}
		if err != nil {
			if errors.Is(err, syscall.EISDIR) {
				// file store: an emptied directory left under logs/ is not a log
				return nil, false, nil
			}
			return nil, false, err
		}
		log = append(log, [3]int{Val(rl.OldOID), Val(rl.NewOID), metaOf(rl, noTx(s))})
	}
	return log, true, nil
}

// curDB is the database of the SQL store under replay (fault injection inside the store).
var curDB *sql.DB

// skew counts the logged sets whose timestamp was moved back.
var skew int

// Apply executes one abstract operation on the real store.
func Apply(s ref.Store, o Op) RealRet {
	switch o.Name {
	case "set":
		err := s.Set(o.N, Sum(o.V))
		return RealRet{Ok: err == nil, Err: errStr(err)}
	case "setlog":
		err := saveLogged(s, o.N, o.V)
		if err == nil && curDB != nil {
			// a clock that was set back, entries written in other time zones: the timestamp the store keeps
			// with the entry just written is moved to an EARLIER instant than all before it (logs read
			// newest-first by the order of the sets, whatever their timestamps say)
			skew++
			zone := time.UTC
			if skew%2 == 1 {
				zone = time.FixedZone("", -5*3600)
			}
			tm := time.Date(2021, 6, 1, 12, 0, 0, 0, time.UTC).Add(-time.Duration(skew) * time.Hour).In(zone)
			curDB.Exec(`UPDATE reflogs SET time = ? WHERE ref = ? AND ordinal = (SELECT MAX(ordinal) FROM reflogs WHERE ref = ?)`, tm, o.N, o.N)
		}
		return RealRet{Ok: err == nil, Err: errStr(err)}
	case "setlogf":
		// the store's own write of the log record is made to fail (an SQL trigger aborts the insert):
		// the logged set is ONE operation and must leave neither the value nor a log entry behind
		if curDB == nil {
			return RealRet{Err: "setlogf needs the SQL store"}
		}
		if _, err := curDB.Exec(`CREATE TRIGGER verif_fail BEFORE INSERT ON reflogs BEGIN SELECT RAISE(ABORT, 'verif-injected-failure'); END`); err != nil {
			return RealRet{Err: "cannot install the failing trigger: " + err.Error()}
		}
		err := saveLogged(s, o.N, o.V)
		if _, derr := curDB.Exec(`DROP TRIGGER verif_fail`); derr != nil {
			return RealRet{Err: "cannot remove the failing trigger: " + derr.Error()}
		}
		return RealRet{Ok: err == nil, Err: errStr(err)}
	case "del":
		err := s.Delete(o.N)
		return RealRet{Ok: err == nil, Err: errStr(err)}
	case "get":
		b, err := s.Get(o.N)
		if err != nil {
			return RealRet{Ok: false, Err: errStr(err)}
		}
		return RealRet{Ok: true, Val: Val(b)}
	case "log":
		l, ok, err := ReadLog(s, o.N)
		if err != nil || !ok {
			return RealRet{Ok: false, Err: errStr(err)}
		}
		return RealRet{Ok: true, Log: l}
	case "ren":
		err := s.Rename(o.N, o.M)
		return RealRet{Ok: err == nil, Err: errStr(err)}
	case "copy":
		err := s.Copy(o.N, o.M)
		return RealRet{Ok: err == nil, Err: errStr(err)}
	case "filter":
		keys, err := s.FilterKey(o.Ps, o.Nps)
		if err != nil {
			return RealRet{Ok: false, Err: errStr(err)}
		}
		m, err := s.Filter(o.Ps, o.Nps)
		if err != nil {
			return RealRet{Ok: false, Err: errStr(err)}
		}
		r := RealRet{Ok: true, Names: append([]string{}, keys...), Vals: map[string]int{}}
		sort.Strings(r.Names)
		for k, v := range m {
			r.Vals[k] = Val(v)
		}
		return r
	case "delremote":
		err := ref.DeleteAllRemoteRefs(s, o.N)
		return RealRet{Ok: err == nil, Err: errStr(err)}
	case "listremote":
		m, err := ref.ListRemoteRefs(s, o.N)
		if err != nil {
			return RealRet{Ok: false, Err: errStr(err)}
		}
		r := RealRet{Ok: true, Vals: map[string]int{}}
		for k, v := range m {
			r.Vals[k] = Val(v)
		}
		return r
	case "renremote":
		err := ref.RenameAllRemoteRefs(s, o.N, o.M)
		return RealRet{Ok: err == nil, Err: errStr(err)}
	}
	return RealRet{Err: "unknown op " + o.Name}
}

// Observe projects the whole store on the universe.
func Observe(s ref.Store, universe []string) (*Abstract, error) {
	a := &Abstract{Refs: map[string]int{}, Logs: map[string][][3]int{}}
	m, err := s.Filter(nil, nil)
	if err != nil {
		return nil, err
	}
	for k, v := range m {
		a.Refs[k] = Val(v)
	}
	seen := map[string]bool{}
	names := append([]string{}, universe...)
	for k := range m {
		names = append(names, k)
	}
	for _, n := range names {
		if seen[n] {
			continue
		}
		seen[n] = true
		// Get must agree with the listing
		b, err := s.Get(n)
		if _, listed := a.Refs[n]; listed != (err == nil) {
			a.Refs[n+"#get-disagrees-with-listing"] = -1
		} else if err == nil && Val(b) != a.Refs[n] {
			a.Refs[n+"#get-value-differs"] = Val(b)
		}
		l, ok, err := ReadLog(s, n)
		if err != nil {
			// the store cannot read its own log back: that is an observation (no behaviour of the
			// specification has such a log), not a failure of the harness
			a.Logs[n] = [][3]int{{-1, -1, 9}}
			continue
		}
		if ok && len(l) > 0 {
			// oldest first
			for i, j := 0, len(l)-1; i < j; i, j = i+1, j-1 {
				l[i], l[j] = l[j], l[i]
			}
			a.Logs[n] = l
		}
	}
	return a, nil
}

func expectedState(sc *Scenario) (*Abstract, error) {
	a := &Abstract{Refs: map[string]int{}, Logs: map[string][][3]int{}}
	for _, p := range sc.Post.Refs {
		a.Refs[p[0].(string)] = int(p[1].(float64))
	}
	for _, p := range sc.Post.Logs {
		n := p[0].(string)
		for _, e := range p[1].([]interface{}) {
			t := e.([]interface{})
			a.Logs[n] = append(a.Logs[n], [3]int{int(t[0].(float64)), int(t[1].(float64)), int(t[2].(float64))})
		}
	}
	return a, nil
}

func compareRet(o Op, exp Ret, got RealRet) string {
	if exp.Free {
		return ""
	}
	eok := exp.Ok
	if eok != got.Ok {
		return "ok"
	}
	if !eok {
		return ""
	}
	switch o.Name {
	case "get":
		if exp.Val == nil || *exp.Val != got.Val {
			return "val"
		}
	case "log":
		if len(exp.Log) != len(got.Log) {
			return "log"
		}
		for i := range exp.Log {
			if exp.Log[i] != got.Log[i] {
				return "log"
			}
		}
	case "filter", "listremote":
		ev := map[string]int{}
		for _, p := range exp.Vals {
			ev[p[0].(string)] = int(p[1].(float64))
		}
		gv := got.Vals
		if gv == nil {
			gv = map[string]int{}
		}
		if !reflect.DeepEqual(ev, gv) {
			return "vals"
		}
		if o.Name == "filter" {
			en := append([]string{}, exp.Names...)
			sort.Strings(en)
			gn := got.Names
			if len(en) != len(gn) {
				return "names"
			}
			for i := range en {
				if en[i] != gn[i] {
					return "names"
				}
			}
		}
	}
	return ""
}

func stateEqual(a, b *Abstract) bool {
	if !reflect.DeepEqual(a.Refs, b.Refs) {
		return false
	}
	if len(a.Logs) != len(b.Logs) {
		return false
	}
	for n, l := range a.Logs {
		if !reflect.DeepEqual(l, b.Logs[n]) {
			return false
		}
	}
	return true
}

func classOf(sc *Scenario) string {
	last := sc.Path[len(sc.Path)-1]
	if len(sc.Post.Refs) == 0 && len(sc.Path) == 1 {
		return "-"
	}
	return last.Name
}

// Replay runs one scenario line against a fresh real SQL ref store.
func Replay(i int, raw []byte) child.Result {
	var sc Scenario
	if err := json.Unmarshal(raw, &sc); err != nil {
		return child.Inconclusive(fmt.Errorf("scenario %d: %v", i, err))
	}
	if len(sc.Path) == 0 {
		return child.Pass("-")
	}
	var s ref.Store
	tag := "refs/"
	fsMode := os.Getenv("REFS_STORE") == "fs"
	if fsMode && sc.Fs == 0 {
		return child.Pass("-")
	}
	if fsMode {
		// the file store (pkg/ref/fs), "for the operations it implements": all of the scenario alphabet
		dir, err := os.MkdirTemp("", "refsfs")
		if err != nil {
			return child.Inconclusive(err)
		}
		defer os.RemoveAll(dir)
		s = reffs.NewStore(dir)
		tag = "refs-fs/"
	} else {
		st, db, err := NewMemStore()
		if err != nil {
			return child.Inconclusive(err)
		}
		defer db.Close()
		curDB = db
		s = st
	}
	var got RealRet
	for _, o := range sc.Path {
		got = Apply(s, o)
	}
	last := sc.Path[len(sc.Path)-1]
	if k := compareRet(last, sc.Ret, got); k != "" && !(fsMode && sc.Fs == 1) {
		return child.Fail(tag+last.Name+"/ret-"+k, map[string]interface{}{
			"expected": sc.Ret, "observed": got, "path": sc.Path,
		})
	}
	uni := append([]string{}, Universe...)
	for _, o := range sc.Path {
		if o.N != "" {
			uni = append(uni, o.N)
		}
		if o.M != "" {
			uni = append(uni, o.M)
		}
	}
	if fsMode {
		// in a file store a name that is a path prefix of a stored name is a directory: it cannot be probed as a ref
		// (nor can both be stored: RefsGen!FsStep does not judge such paths)
		var keep []string
		for _, n := range uni {
			dir := false
			for _, o := range sc.Path {
				for _, m := range []string{o.N, o.M} {
					if strings.HasPrefix(m, n+"/") {
						dir = true
					}
				}
			}
			for _, pr := range sc.Post.Refs {
				if m, ok := pr[0].(string); ok && strings.HasPrefix(m, n+"/") {
					dir = true
				}
			}
			if !dir {
				keep = append(keep, n)
			}
		}
		uni = keep
	}
	obs, err := Observe(s, uni)
	if err != nil {
		return child.Fail(tag+last.Name+"/observe-error", map[string]interface{}{"error": err.Error(), "path": sc.Path})
	}
	exp, _ := expectedState(&sc)
	if !stateEqual(exp, obs) {
		return child.Fail(tag+last.Name+"/state", map[string]interface{}{
			"expected": exp, "observed": obs, "path": sc.Path,
		})
	}
	return child.Pass(classOf(&sc))
}
