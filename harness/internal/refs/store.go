// Package refs binds spec/Refs.tla to the real ref store (pkg/ref/sql).
package refs

import (
	"database/sql"
	"fmt"
	"path/filepath"
	"sync/atomic"

	_ "github.com/mattn/go-sqlite3"
	"github.com/wrgl/wrgl/pkg/ref"
	refsql "github.com/wrgl/wrgl/pkg/ref/sql"
)

var dbCounter int64

// NewMemStore opens a private in-memory sqlite database holding the ref tables.
func NewMemStore() (*refsql.Store, *sql.DB, error) {
	n := atomic.AddInt64(&dbCounter, 1)
	return open(fmt.Sprintf("file:verif%d.db?cache=shared&mode=memory", n))
}

// NewFileStore opens (creating if needed) a file-backed sqlite ref store.
func NewFileStore(dir string) (*refsql.Store, *sql.DB, error) {
	return open(filepath.Join(dir, "sqlite.db"))
}

func open(dsn string) (*refsql.Store, *sql.DB, error) {
	db, err := sql.Open("sqlite3", dsn)
	if err != nil {
		return nil, nil, err
	}
	db.SetMaxOpenConns(1)
	tx, err := db.Begin()
	if err != nil {
		return nil, nil, err
	}
	for _, stmt := range refsql.CreateTableStmts {
		if _, err := tx.Exec(stmt); err != nil {
			tx.Rollback()
			return nil, nil, err
		}
	}
	if err := tx.Commit(); err != nil {
		return nil, nil, err
	}
	return refsql.NewStore(db), db, nil
}

// Sum maps an abstract value (small positive integer) to a 16-byte sum.
func Sum(v int) []byte {
	b := make([]byte, 16)
	for i := range b {
		b[i] = byte(v)
	}
	b[15] = 0xA5
	return b
}

// Val is the inverse of Sum; -1 for bytes that are no abstract value, 0 for nil.
func Val(b []byte) int {
	if b == nil {
		return 0
	}
	if len(b) != 16 || b[15] != 0xA5 {
		return -1
	}
	for i := 1; i < 15; i++ {
		if b[i] != b[0] {
			return -1
		}
	}
	return int(b[0])
}

var _ ref.Store = (*refsql.Store)(nil)
