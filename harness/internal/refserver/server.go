// Package refserver is the reference server of the sync engine (properties C09, C10).
// The server half of wrgl's push/pull protocol lives in another repository, so this one is
// assembled only from the protocol pieces this repository ships - ClosedSetsFinder,
// ObjectSender, ObjectReceiver, packfile, payload - and its policy is the Server* actions of
// spec/Sync.tla: advertise refs; upload-pack = negotiate (acks while wants are deferred),
// offer table haves once, then packfiles of at most MaxPack bytes; receive-pack = table
// acks, receive packfiles, then compare-and-swap every update on its old value with all
// ancestors present, report per ref.  Every request and response is logged for the traces.
package refserver

import (
	"time"
	"strconv"
	"bytes"
	"compress/gzip"
	"encoding/hex"
	"encoding/json"
	"io"
	"net/http"
	"net/http/httptest"
	"sort"
	"sync"

	"github.com/go-logr/logr"
	"github.com/google/uuid"
	"github.com/wrgl/wrgl/pkg/api"
	"github.com/wrgl/wrgl/pkg/api/payload"
	apiutils "github.com/wrgl/wrgl/pkg/api/utils"
	"github.com/wrgl/wrgl/pkg/encoding/packfile"
	"github.com/wrgl/wrgl/pkg/objects"
	"github.com/wrgl/wrgl/pkg/ref"
)

// Exchange is one logged request/response pair.
type Exchange struct {
	Path    string               `json:"path"`
	Kind    string               `json:"kind"` // refs | negotiate | tables | pack | rp-negotiate | rp-pack | rp-report
	Wants   []string             `json:"wants,omitempty"`
	Haves   []string             `json:"haves,omitempty"`
	Done    bool                 `json:"done,omitempty"`
	Depth   int                  `json:"depth,omitempty"`
	ACKs    []string             `json:"acks,omitempty"`
	Tables  []string             `json:"tables,omitempty"`
	Objects [][2]string          `json:"objects,omitempty"` // [type, sum] in packfile order
	Updates map[string][3]string `json:"updates,omitempty"` // ref -> [old, new, errMsg]
	Status  int                  `json:"status"`
}

type upSession struct {
	finder  *apiutils.ClosedSetsFinder
	sender  *apiutils.ObjectSender
	tables  map[string]struct{}
	offered bool
	pending [][]byte
}

type rpSession struct {
	updates  map[string]*payload.Update
	receiver *apiutils.ObjectReceiver
	reported bool // updates applied: later packfiles of the same session (objects the server
	// did not need) are still received and answered with the same report
}

type Server struct {
	DB      objects.Store
	RS      ref.Store
	MaxPack uint64
	HTTP    *httptest.Server

	mu  sync.Mutex
	Log []Exchange
	up  map[string]*upSession
	rp  map[string]*rpSession

	packs int // packfile responses so far
}

func New(db objects.Store, rs ref.Store, maxPack uint64) *Server {
	s := &Server{DB: db, RS: rs, MaxPack: maxPack, up: map[string]*upSession{}, rp: map[string]*rpSession{}}
	mux := http.NewServeMux()
	mux.HandleFunc(api.PathRefs, s.refs)
	mux.HandleFunc(api.PathUploadPack, s.uploadPack)
	mux.HandleFunc(api.PathReceivePack, s.receivePack)
	s.HTTP = httptest.NewServer(mux)
	return s
}

func (s *Server) URL() string { return s.HTTP.URL }
func (s *Server) Close()      { s.HTTP.Close() }

func (s *Server) TakeLog() []Exchange {
	s.mu.Lock()
	defer s.mu.Unlock()
	l := s.Log
	s.Log = nil
	return l
}

func (s *Server) log(e Exchange) {
	s.Log = append(s.Log, e)
}

func hexes(sl [][]byte) []string {
	out := make([]string, len(sl))
	for i, b := range sl {
		out[i] = hex.EncodeToString(b)
	}
	return out
}

func writeJSON(w http.ResponseWriter, v interface{}) {
	w.Header().Set("Content-Type", api.CTJSON)
	json.NewEncoder(w).Encode(v)
}

func (s *Server) refs(w http.ResponseWriter, r *http.Request) {
	s.mu.Lock()
	defer s.mu.Unlock()
	q := r.URL.Query()
	m, err := ref.ListLocalRefs(s.RS, q["prefix"], q["notprefix"])
	if err != nil {
		http.Error(w, err.Error(), 500)
		return
	}
	resp := &payload.GetRefsResponse{Refs: map[string]*payload.Hex{}}
	for k, v := range m {
		resp.Refs[k] = payload.BytesToHex(v)
	}
	s.log(Exchange{Path: r.URL.Path, Kind: "refs", Status: 200})
	writeJSON(w, resp)
}

func sessionID(r *http.Request, name string) string {
	if c, err := r.Cookie(name); err == nil {
		return c.Value
	}
	return ""
}

func (s *Server) uploadPack(w http.ResponseWriter, r *http.Request) {
	s.mu.Lock()
	defer s.mu.Unlock()
	req := &payload.UploadPackRequest{}
	body, _ := io.ReadAll(r.Body)
	if len(bytes.TrimSpace(body)) > 0 {
		if err := json.Unmarshal(body, req); err != nil {
			http.Error(w, err.Error(), 400)
			return
		}
	}
	sid := sessionID(r, api.CookieUploadPackSession)
	ses := s.up[sid]
	ex := Exchange{Path: r.URL.Path}
	if ses == nil {
		if len(req.Wants) == 0 {
			http.Error(w, "empty wants list", 400)
			return
		}
		sid = uuid.New().String()
		ses = &upSession{finder: apiutils.NewClosedSetsFinder(s.DB, s.RS, req.Depth)}
		s.up[sid] = ses
		http.SetCookie(w, &http.Cookie{Name: api.CookieUploadPackSession, Value: sid, Path: api.PathUploadPack})
	}
	switch {
	case ses.sender != nil:
		// packfile phase
	case ses.offered:
		ex.Kind = "tables"
		for _, h := range req.TableACKs {
			delete(ses.tables, string((*h)[:]))
			ex.Tables = append(ex.Tables, hex.EncodeToString((*h)[:]))
		}
		if len(ses.pending) > 0 {
			s.offerTables(w, ses, &ex)
			return
		}
	default:
		ex.Kind = "negotiate"
		ex.Wants, ex.Haves, ex.Done, ex.Depth = hexes(payload.HexSliceToBytesSlice(req.Wants)), hexes(payload.HexSliceToBytesSlice(req.Haves)), req.Done, req.Depth
		acks, err := ses.finder.Process(payload.HexSliceToBytesSlice(req.Wants), payload.HexSliceToBytesSlice(req.Haves), req.Done)
		if err != nil {
			ex.Status = 400
			s.log(ex)
			delete(s.up, sid)
			http.Error(w, err.Error(), 400)
			return
		}
		ex.ACKs = hexes(acks)
		if len(ses.finder.Wants) > 0 && !req.Done {
			ex.Status = 200
			s.log(ex)
			writeJSON(w, &payload.UploadPackResponse{ACKs: payload.BytesSliceToHexSlice(acks)})
			return
		}
		tables, err := ses.finder.TablesToSend()
		if err != nil {
			http.Error(w, err.Error(), 500)
			return
		}
		ses.tables = tables
		for t := range tables {
			ses.pending = append(ses.pending, []byte(t))
		}
		sort.Slice(ses.pending, func(i, j int) bool { return bytes.Compare(ses.pending[i], ses.pending[j]) < 0 })
		ses.offered = true
		if len(ses.pending) > 0 {
			ex.Status = 200
			s.log(ex)
			ex2 := Exchange{Path: r.URL.Path, Kind: "tables"}
			s.offerTables(w, ses, &ex2)
			return
		}
		ex.Status = 200
		s.log(ex)
		ex = Exchange{Path: r.URL.Path}
	}
	if ses.sender == nil {
		commits, err := ses.finder.CommitsToSend()
		if err != nil {
			http.Error(w, err.Error(), 500)
			return
		}
		ses.sender, err = apiutils.NewObjectSender(s.DB, commits, ses.tables, ses.finder.CommonCommmits(), s.MaxPack)
		if err != nil {
			http.Error(w, err.Error(), 500)
			return
		}
	}
	buf := bytes.NewBuffer(nil)
	done, info, err := ses.sender.WriteObjects(buf, nil)
	if err != nil {
		http.Error(w, err.Error(), 500)
		return
	}
	ex.Kind = "pack"
	ex.Done = done
	if info != nil {
		ex.Objects = infoObjects(info)
	}
	ex.Status = 200
	s.log(ex)
	if done {
		delete(s.up, sid)
	}
	w.Header().Set("Content-Type", api.CTPackfile)
	// every other packfile is sent with its size announced (Content-Length, as a buffering server or a proxy
	// would), the others chunked: the bytes the client decodes are the same
	s.packs++
	if (buf.Len()+s.packs)%2 == 0 {
		w.Header().Set("Content-Length", strconv.Itoa(buf.Len()))
		// ... and leaves in two segments, as a body of any size may
		b := buf.Bytes()
		w.Write(b[:len(b)/2])
		if f, ok := w.(http.Flusher); ok {
			f.Flush()
			time.Sleep(2 * time.Millisecond)
		}
		w.Write(b[len(b)/2:])
		return
	}
	w.Write(buf.Bytes())
}

func infoObjects(info *packfile.PackfileInfo) [][2]string {
	return append([][2]string{}, info.Objects...)
}

func (s *Server) offerTables(w http.ResponseWriter, ses *upSession, ex *Exchange) {
	n := len(ses.pending)
	if n > 256 {
		n = 256
	}
	batch := ses.pending[:n]
	ses.pending = ses.pending[n:]
	ex.Tables = append(ex.Tables, hexes(batch)...)
	ex.Status = 200
	s.log(*ex)
	writeJSON(w, &payload.UploadPackResponse{TableHaves: payload.BytesSliceToHexSlice(batch)})
}

func (s *Server) receivePack(w http.ResponseWriter, r *http.Request) {
	s.mu.Lock()
	defer s.mu.Unlock()
	sid := sessionID(r, api.CookieReceivePackSession)
	ses := s.rp[sid]
	ex := Exchange{Path: r.URL.Path}
	if r.Header.Get("Content-Type") == api.CTPackfile {
		if ses == nil {
			http.Error(w, "no session", 400)
			return
		}
		var body io.ReadCloser = r.Body
		if r.Header.Get("Content-Encoding") == "gzip" {
			gz, err := gzip.NewReader(r.Body)
			if err != nil {
				http.Error(w, err.Error(), 400)
				return
			}
			body = gz
		}
		pr, err := packfile.NewPackfileReader(body)
		if err != nil {
			http.Error(w, err.Error(), 400)
			return
		}
		done, err := ses.receiver.Receive(pr, nil)
		done = done || ses.reported
		ex.Kind = "rp-pack"
		ex.Done = done
		if err != nil {
			ex.Status = 400
			s.log(ex)
			delete(s.rp, sid)
			http.Error(w, err.Error(), 400)
			return
		}
		ex.Status = 200
		s.log(ex)
		if !done {
			w.WriteHeader(200)
			return
		}
		s.report(w, sid, ses)
		return
	}
	req := &payload.ReceivePackRequest{}
	if err := json.NewDecoder(r.Body).Decode(req); err != nil {
		http.Error(w, err.Error(), 400)
		return
	}
	ex.Kind = "rp-negotiate"
	// A request that carries updates is the greeting of a NEW session, whatever cookie a client that has
	// talked to this server before still sends (`wrgl push --all` runs one session per branch over one
	// cookie jar); the later requests of a session (table haves only) carry none.
	if len(req.Updates) > 0 {
		ses = nil
	}
	if ses == nil {
		if len(req.Updates) == 0 {
			http.Error(w, "no updates", 400)
			return
		}
		sid = uuid.New().String()
		expected := [][]byte{}
		for _, u := range req.Updates {
			if u.Sum != nil && !objects.CommitExist(s.DB, (*u.Sum)[:]) {
				expected = append(expected, (*u.Sum)[:])
			}
		}
		ses = &rpSession{updates: req.Updates, receiver: apiutils.NewObjectReceiver(s.DB, expected, logr.Discard())}
		s.rp[sid] = ses
		http.SetCookie(w, &http.Cookie{Name: api.CookieReceivePackSession, Value: sid, Path: api.PathReceivePack})
		if len(expected) == 0 {
			ex.Status = 200
			s.log(ex)
			s.report(w, sid, ses)
			return
		}
	}
	acks := []*payload.Hex{}
	for _, h := range req.TableHaves {
		ex.Tables = append(ex.Tables, hex.EncodeToString((*h)[:]))
		if objects.TableExist(s.DB, (*h)[:]) {
			acks = append(acks, h)
		}
	}
	ex.Status = 200
	s.log(ex)
	writeJSON(w, &payload.ReceivePackResponse{TableACKs: acks})
}

// report applies the updates (compare-and-swap on the old value, commit and all its
// ancestors present) and answers with the per-ref status.
func (s *Server) report(w http.ResponseWriter, sid string, ses *rpSession) {
	ex := Exchange{Path: api.PathReceivePack, Kind: "rp-report", Updates: map[string][3]string{}, Status: 200}
	names := []string{}
	for n := range ses.updates {
		names = append(names, n)
	}
	sort.Strings(names)
	if ses.reported {
		writeJSON(w, &payload.ReceivePackResponse{Updates: ses.updates})
		return
	}
	ses.reported = true
	for _, n := range names {
		u := ses.updates[n]
		cur, _ := ref.GetRef(s.RS, n)
		var old, sum []byte
		if u.OldSum != nil {
			old = (*u.OldSum)[:]
		}
		if u.Sum != nil {
			sum = (*u.Sum)[:]
		}
		switch {
		case !bytes.Equal(cur, old):
			u.ErrMsg = "remote ref updated since checkout"
		case sum == nil:
			if err := ref.DeleteRef(s.RS, n); err != nil {
				u.ErrMsg = err.Error()
			}
		case !s.historyPresent(sum):
			u.ErrMsg = "remote did not receive commit"
		default:
			if err := ref.SaveRef(s.RS, n, sum, "server", "server@example.invalid", "receive-pack", "update ref", nil); err != nil {
				u.ErrMsg = err.Error()
			}
		}
		ex.Updates[n] = [3]string{hex.EncodeToString(old), hex.EncodeToString(sum), u.ErrMsg}
	}
	s.log(ex)
	writeJSON(w, &payload.ReceivePackResponse{Updates: ses.updates})
}

func (s *Server) historyPresent(sum []byte) bool {
	seen := map[string]bool{}
	stack := [][]byte{sum}
	for len(stack) > 0 {
		c := stack[len(stack)-1]
		stack = stack[:len(stack)-1]
		if seen[string(c)] {
			continue
		}
		seen[string(c)] = true
		com, err := objects.GetCommit(s.DB, c)
		if err != nil {
			return false
		}
		stack = append(stack, com.Parents...)
	}
	return true
}
