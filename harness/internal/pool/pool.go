// Package pool binds spec/IngestPool.tla / spec/TracePool.tla to the real inserter
// worker pool (property C16): real multi-worker ingests are recorded through the
// verif hooks of pkg/ingest (take / enter / leave / published) and the trace is
// validated by TLC.
package pool

import (
	"encoding/hex"
	"encoding/json"
	"errors"
	"fmt"
	"io"
	"math/rand"
	"runtime"
	"strings"
	"sync"
	"time"

	"github.com/wrgl/wrgl/pkg/pbar"
	"github.com/wrgl/wrgl/pkg/vhook"

	"verifharness/internal/child"
	"verifharness/internal/tbl"
)

type Scenario struct {
	Seed    int64 `json:"seed"`
	Idx     int   `json:"idx"`
	Blocks  int   `json:"blocks"`  // number of 255-row blocks (last one short)
	Workers int   `json:"workers"` // real worker goroutines (the inserter gets workers+2)
	Procs   int   `json:"procs"`   // GOMAXPROCS
	YieldPm int   `json:"yieldpm"` // probability (per mille) of a short sleep inside the hooks
	FaultAt int   `json:"faultat"` // fail the n-th object-store write of the run (0 = none)
}

type rec struct {
	mu     sync.Mutex
	events []interface{}
	tok    int64
	rng    *rand.Rand
	yield  int
}

func (r *rec) add(e map[string]interface{}) {
	r.events = append(r.events, e)
}

func (r *rec) maybeYield() { r.yieldAtLeast(0) }

// yieldAtLeast sleeps briefly with probability max(yield, floor) per mille.
func (r *rec) yieldAtLeast(floor int) {
	p := r.yield
	if p < floor {
		p = floor
	}
	r.mu.Lock()
	hit := p > 0 && r.rng.Intn(1000) < p
	r.mu.Unlock()
	if hit {
		runtime.Gosched()
		time.Sleep(time.Duration(20+r.rng.Intn(100)) * time.Microsecond)
	}
}

func install(r *rec) func() {
	vhook.EnterFn = func(point string) int64 {
		r.mu.Lock()
		r.tok++
		t := r.tok
		r.add(map[string]interface{}{"op": "enter", "point": point, "tok": t, "off": 0, "rows": 0})
		r.mu.Unlock()
		r.yieldAtLeast(500) // inside the region: widens the window in which another worker could enter
		return t
	}
	vhook.LeaveFn = func(point string, tok int64) {
		r.mu.Lock()
		r.add(map[string]interface{}{"op": "leave", "point": point, "tok": tok, "off": 0, "rows": 0})
		r.mu.Unlock()
	}
	vhook.EventFn = func(name string, kv ...interface{}) {
		e := map[string]interface{}{"op": strings.TrimPrefix(name, "ins."), "point": "", "tok": 0, "off": 0, "rows": 0}
		for i := 0; i+1 < len(kv); i += 2 {
			if k, ok := kv[i].(string); ok {
				e[k] = kv[i+1]
			}
		}
		r.mu.Lock()
		r.add(e)
		r.mu.Unlock()
		r.maybeYield()
	}
	vhook.YieldFn = func(point string) { r.maybeYield() }
	return func() { vhook.EnterFn, vhook.LeaveFn, vhook.EventFn, vhook.YieldFn = nil, nil, nil, nil }
}

func csvOf(sc *Scenario) []byte {
	rng := rand.New(rand.NewSource(sc.Seed*7919 + int64(sc.Idx)))
	n := sc.Blocks*255 - rng.Intn(255)
	if n < 1 {
		n = 1
	}
	rows := make([][]string, 0, n+1)
	// the key column is not the first one and the cell before it varies in length (and the key itself does too):
	// per-row scratch state shared between workers shows as a wrong key
	rows = append(rows, []string{"a", "id", "b"})
	perm := rng.Perm(n)
	for _, i := range perm {
		rows = append(rows, []string{strings.Repeat("x", i%9) + fmt.Sprintf("v%d", i%97), fmt.Sprintf("%07d", i) + strings.Repeat("k", i%4),
			fmt.Sprintf("w%d", rng.Intn(1000))})
	}
	return tbl.CSV(rows, 0)
}

var errInjected = errors.New("injected store failure")

// Run executes one recorded multi-worker ingest and returns the trace.
func Run(sc *Scenario) []interface{} {
	if sc.Procs > 0 {
		defer runtime.GOMAXPROCS(runtime.GOMAXPROCS(sc.Procs))
	}
	csv := csvOf(sc)
	// sequential reference (hooks off)
	ref := tbl.NewSafeStore()
	refSum, refErr := tbl.Ingest(ref, csv, []string{"id"}, tbl.IngestOpts{Workers: 1})
	r := &rec{rng: rand.New(rand.NewSource(sc.Seed + int64(sc.Idx)*31)), yield: sc.YieldPm}
	db := tbl.NewSafeStore()
	hit := false
	if sc.FaultAt > 0 {
		n := 0
		db.Fail = func(key []byte) error {
			n++
			if n == sc.FaultAt {
				hit = true
				return errInjected
			}
			return nil
		}
	}
	uninstall := install(r)
	// as `wrgl commit` on a terminal: the workers report every block to one visible progress bar, the command ends
	// with Done + Container.Wait - which must return whatever the workers' schedule was
	bars := pbar.NewContainer(io.Discard, false)
	bar := bars.NewBar(-1, "Saving blocks", 0)
	sum, err := tbl.Ingest(db, csv, []string{"id"}, tbl.IngestOpts{Workers: sc.Workers + 2, Bar: bar})
	uninstall()
	waited := make(chan struct{})
	go func() {
		bar.Done()
		bars.Wait()
		close(waited)
	}()
	barHung := false
	select {
	case <-waited:
	case <-time.After(20 * time.Second):
		barHung = true
	}
	events := []interface{}{map[string]interface{}{"op": "reset", "point": "", "tok": 0, "off": 0, "rows": 0}}
	events = append(events, r.events...)
	fin := map[string]interface{}{"op": "final", "point": "", "tok": 0, "off": 0, "rows": 0,
		"err": err != nil, "fault": hit, "same": false, "nblocks": 0, "reforr": refErr != nil,
		"workers": sc.Workers, "procs": sc.Procs, "yieldpm": sc.YieldPm, "faultat": sc.FaultAt, "blocks": sc.Blocks,
		"seed": sc.Seed, "idx": sc.Idx, "errtext": "", "barhung": barHung}
	if err != nil {
		fin["errtext"] = err.Error()
	} else {
		fin["same"] = hex.EncodeToString(sum) == hex.EncodeToString(refSum)
		if t, blocks, rerr := tbl.Read(db, sum); rerr == nil {
			fin["nblocks"] = len(blocks)
			fin["rows"] = int(t.RowsCount)
		} else {
			fin["errtext"] = "unreadable: " + rerr.Error()
		}
	}
	events = append(events, fin)
	return events
}

// Replay is the child handler of engine "pool".
func Replay(i int, raw []byte) child.Result {
	var sc Scenario
	if err := json.Unmarshal(raw, &sc); err != nil {
		return child.Inconclusive(err)
	}
	events := Run(&sc)
	child.EmitBatch("pool", events)
	if fin := events[len(events)-1].(map[string]interface{}); fin["barhung"] == true {
		return child.Fail("pool/progress-bar-never-finishes", map[string]interface{}{"workers": sc.Workers, "blocks": sc.Blocks})
	}
	cls := fmt.Sprintf("w%d", sc.Workers)
	if sc.FaultAt > 0 {
		cls += "+fault"
	}
	return child.Pass(cls)
}
