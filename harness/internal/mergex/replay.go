// Package mergex binds spec/Merge.tla (property C05) to the real pkg/merge.
package mergex

import (
	"context"
	"encoding/json"
	"fmt"
	"sort"
	"strconv"
	"strings"

	"github.com/go-logr/logr"
	"github.com/pckhoi/meow"
	"github.com/wrgl/wrgl/pkg/diff"
	"github.com/wrgl/wrgl/pkg/ingest"
	"github.com/wrgl/wrgl/pkg/merge"
	"github.com/wrgl/wrgl/pkg/objects"
	"github.com/wrgl/wrgl/pkg/slice"
	"github.com/wrgl/wrgl/pkg/sorter"

	"verifharness/internal/child"
	"verifharness/internal/tbl"
)

// Version as exported by MergeGen: cols (layout incl. the key column "k"), rows as
// [key, [[col, val]...]] pairs.
type Version struct {
	Cols []string             `json:"cols"`
	Rows [][2]json.RawMessage `json:"rows"`
}

type Scenario struct {
	Base      Version              `json:"base"`
	Branches  []Version            `json:"branches"`
	Result    Version              `json:"result"` // cols is a set here (no "k")
	Conflicts [][2]json.RawMessage `json:"conflicts"`
	Ambiguous []int                `json:"ambiguous"`
	S         int                  `json:"S,omitempty"`      // cluster scaling: every abstract key stands for S real keys
	Commit    bool                 `json:"commit,omitempty"` // also build the merged table as `wrgl merge` commits it
}

const (
	free = -3
)

func rowsOf(v *Version) (map[int]map[string]int, error) {
	out := map[int]map[string]int{}
	for _, p := range v.Rows {
		var k int
		if err := json.Unmarshal(p[0], &k); err != nil {
			return nil, err
		}
		var cells [][2]json.RawMessage
		if err := json.Unmarshal(p[1], &cells); err != nil {
			return nil, err
		}
		m := map[string]int{}
		for _, c := range cells {
			var name string
			var val int
			if err := json.Unmarshal(c[0], &name); err != nil {
				return nil, err
			}
			if err := json.Unmarshal(c[1], &val); err != nil {
				return nil, err
			}
			m[name] = val
		}
		out[k] = m
	}
	return out, nil
}

// cellText is the text of the specification's cell value v.  The value 2 is the EMPTY cell: a branch that
// changes A from 0 to 2 clears it, a column added "filled with 2" is an empty column - to the merge the empty
// string is a value like any other.
func cellText(v int) string {
	if v == 2 {
		return ""
	}
	return strconv.Itoa(v)
}

func keyCell(k, j, s int) string {
	if s <= 1 {
		return fmt.Sprintf("key%d", k)
	}
	return fmt.Sprintf("key%d-%03d", k, j)
}

// parseKey inverts keyCell.
func parseKey(c string) (k int, ok bool) {
	if !strings.HasPrefix(c, "key") {
		return 0, false
	}
	c = c[3:]
	if i := strings.IndexByte(c, '-'); i >= 0 {
		c = c[:i]
	}
	k, err := strconv.Atoi(c)
	return k, err == nil
}

// csvOf renders a version with scale s.
func csvOf(v *Version, s int) ([]byte, error) {
	rows, err := rowsOf(v)
	if err != nil {
		return nil, err
	}
	keys := []int{}
	for k := range rows {
		keys = append(keys, k)
	}
	sort.Sort(sort.Reverse(sort.IntSlice(keys))) // unsorted input
	out := [][]string{v.Cols}
	if s < 1 {
		s = 1
	}
	for _, k := range keys {
		for j := s - 1; j >= 0; j-- {
			row := make([]string, len(v.Cols))
			for i, c := range v.Cols {
				if c == "k" {
					row[i] = keyCell(k, j, s)
				} else {
					row[i] = cellText(rows[k][c])
				}
			}
			out = append(out, row)
		}
	}
	return tbl.CSV(out, 0), nil
}

func pkHash(key string) string {
	enc := objects.NewStrListEncoder(true)
	h := meow.New(0)
	h.Write(enc.Encode([]string{key}))
	return string(h.Sum(nil))
}

type outcome struct {
	Cols      []string            `json:"cols"`
	Rows      [][]string          `json:"rows"`
	Conflicts map[string][]string `json:"conflicts"` // real key cell -> unresolved column names
	Err       string              `json:"err,omitempty"`
}

type tables struct {
	db    *tbl.SafeStore
	rd    objects.Store // the store the merge reads through (nil: db); fault injection wraps it
	baseT *objects.Table
	baseS []byte
	othT  []*objects.Table
	othS  [][]byte
	keys  map[string]string // pk hash -> key cell
}

func build(sc *Scenario) (*tables, error) {
	t := &tables{db: tbl.NewSafeStore(), keys: map[string]string{}}
	mk := func(v *Version) (*objects.Table, []byte, error) {
		b, err := csvOf(v, sc.S)
		if err != nil {
			return nil, nil, err
		}
		sum, err := tbl.Ingest(t.db, b, []string{"k"}, tbl.IngestOpts{})
		if err != nil {
			return nil, nil, err
		}
		tb, err := objects.GetTable(t.db, sum)
		return tb, sum, err
	}
	var err error
	if t.baseT, t.baseS, err = mk(&sc.Base); err != nil {
		return nil, err
	}
	for i := range sc.Branches {
		tb, s, err := mk(&sc.Branches[i])
		if err != nil {
			return nil, err
		}
		t.othT = append(t.othT, tb)
		t.othS = append(t.othS, s)
	}
	s := sc.S
	if s < 1 {
		s = 1
	}
	for k := 1; k <= 4; k++ {
		for j := 0; j < s; j++ {
			c := keyCell(k, j, s)
			t.keys[pkHash(c)] = c
		}
	}
	return t, nil
}

func newMerger(t *tables) (*merge.Merger, func(), error) {
	var db objects.Store = t.db
	if t.rd != nil {
		db = t.rd
	}
	buf, err := diff.BlockBufferWithSingleStore(db, append([]*objects.Table{t.baseT}, t.othT...))
	if err != nil {
		return nil, nil, err
	}
	collector, cleanup, err := merge.CreateRowCollector(db, t.baseT)
	if err != nil {
		return nil, nil, err
	}
	m, err := merge.NewMerger(db, collector, buf, 0, t.baseT, t.othT, t.baseS, t.othS, logr.Discard())
	if err != nil {
		cleanup()
		return nil, nil, err
	}
	return m, cleanup, nil
}

// conflictsAndRemoved starts the merge, records the unresolved merges, drops them
// (resolution "nil"), and returns the set of columns removed by some branch - what
// `wrgl merge` does when it has nothing to ask the user.
func conflictsAndRemoved(m *merge.Merger, t *tables, o *outcome) (map[int]struct{}, error) {
	mc, err := m.Start()
	if err != nil {
		return nil, err
	}
	var cd *diff.ColDiff
	var merges []*merge.Merge
	for mg := range mc {
		if mg.ColDiff != nil {
			cd = mg.ColDiff
			continue
		}
		merges = append(merges, mg)
	}
	if cd == nil {
		return nil, fmt.Errorf("no column diff received")
	}
	for _, mg := range merges {
		key, ok := t.keys[string(mg.PK)]
		if !ok {
			key = fmt.Sprintf("unknown-pk-%x", mg.PK)
		}
		cols := []string{}
		for u := range mg.UnresolvedCols {
			if int(u) < len(cd.Names) {
				cols = append(cols, cd.Names[u])
			}
		}
		sort.Strings(cols)
		o.Conflicts[key] = cols
		if err := m.SaveResolvedRow(mg.PK, nil); err != nil {
			return nil, err
		}
	}
	if err := m.Error(); err != nil {
		return nil, err
	}
	removed := map[int]struct{}{}
	for _, layer := range cd.Removed {
		for col := range layer {
			removed[int(col)] = struct{}{}
		}
	}
	return removed, nil
}

// runRows performs the merge and reads the result as plain rows (`--no-commit` path).
func runRows(t *tables) *outcome {
	o := &outcome{Conflicts: map[string][]string{}}
	m, cleanup, err := newMerger(t)
	if err != nil {
		o.Err = err.Error()
		return o
	}
	defer cleanup()
	removed, err := conflictsAndRemoved(m, t, o)
	if err != nil {
		o.Err = err.Error()
		return o
	}
	o.Cols = m.Columns(removed)
	ch, err := m.SortedRows(context.Background(), removed)
	if err != nil {
		o.Err = err.Error()
		return o
	}
	for rs := range ch {
		for _, r := range rs.Rows {
			o.Rows = append(o.Rows, append([]string{}, r...))
		}
	}
	if err := m.Error(); err != nil {
		o.Err = err.Error()
	}
	return o
}

// runCommit performs the merge and stores the result as a table the way `wrgl merge` does.
func runCommit(t *tables) (*outcome, []byte) {
	o := &outcome{Conflicts: map[string][]string{}}
	m, cleanup, err := newMerger(t)
	if err != nil {
		o.Err = err.Error()
		return o, nil
	}
	defer cleanup()
	removed, err := conflictsAndRemoved(m, t, o)
	if err != nil {
		o.Err = err.Error()
		return o, nil
	}
	columns := m.Columns(removed)
	pk, err := slice.KeyIndices(columns, m.PK())
	if err != nil {
		o.Err = err.Error()
		return o, nil
	}
	blocks, err := m.SortedBlocks(context.Background(), removed)
	if err != nil {
		o.Err = err.Error()
		return o, nil
	}
	s, err := sorter.NewSorter()
	if err != nil {
		o.Err = err.Error()
		return o, nil
	}
	sum, err := ingest.IngestTableFromBlocks(t.db, s, columns, pk, blocks, logr.Discard(), ingest.WithNumWorkers(1))
	if err != nil {
		o.Err = err.Error()
		return o, nil
	}
	if err := m.Error(); err != nil {
		o.Err = err.Error()
		return o, nil
	}
	tb, blks, err := tbl.Read(t.db, sum)
	if err != nil {
		o.Err = "merged table unreadable: " + err.Error()
		return o, sum
	}
	o.Cols = tb.Columns
	o.Rows = tbl.Flatten(blks)
	return o, sum
}

// untouched returns the base keys whose row is the base row in every branch, and whether
// the merged layout differs from the base layout (key column not first, or a column added).
func untouched(sc *Scenario) (keys map[int]bool, relayout bool) {
	keys = map[int]bool{}
	base, err := rowsOf(&sc.Base)
	if err != nil {
		return
	}
	brs := make([]map[int]map[string]int, len(sc.Branches))
	baseCols := map[string]bool{}
	for _, c := range sc.Base.Cols {
		baseCols[c] = true
	}
	relayout = len(sc.Base.Cols) > 0 && sc.Base.Cols[0] != "k"
	for i := range sc.Branches {
		brs[i], _ = rowsOf(&sc.Branches[i])
		for _, c := range sc.Branches[i].Cols {
			if !baseCols[c] {
				relayout = true
			}
		}
	}
	for k, row := range base {
		same := true
		for i, b := range brs {
			r, ok := b[k]
			if !ok || len(sc.Branches[i].Cols) != len(sc.Base.Cols) {
				same = false
				break
			}
			for c, v := range row {
				if w, ok := r[c]; !ok || w != v {
					same = false
				}
			}
		}
		if same {
			keys[k] = true
		}
	}
	return
}

// judge compares a real outcome with the specification's expectation.  With skip != nil
// the rows of those keys (which the code carries over in the BASE layout, a recorded
// finding) are not judged and the order of rows is not checked.
func judge(sc *Scenario, o *outcome, skip map[int]bool) (kind string, detail interface{}) {
	if o.Err != "" {
		return "error", map[string]interface{}{"error": o.Err}
	}
	exp, err := rowsOf(&sc.Result)
	if err != nil {
		return "", nil
	}
	s := sc.S
	if s < 1 {
		s = 1
	}
	// conflicts: exactly the spec's conflicting keys, plus possibly the ambiguous ones
	specConf := map[int]bool{}
	for _, c := range sc.Conflicts {
		var k int
		json.Unmarshal(c[0], &k)
		specConf[k] = true
	}
	amb := map[int]bool{}
	for _, k := range sc.Ambiguous {
		amb[k] = true
	}
	realConf := map[int]int{}
	for kc := range o.Conflicts {
		k, ok := parseKey(kc)
		if !ok {
			return "conflict-unknown-key", map[string]interface{}{"key": kc}
		}
		realConf[k]++
	}
	for k := range specConf {
		if realConf[k] != s {
			return "conflict-missed", map[string]interface{}{"key": k, "reported_for": realConf[k], "of": s, "conflicts": o.Conflicts}
		}
	}
	for k, n := range realConf {
		if !specConf[k] && !amb[k] {
			return "conflict-spurious", map[string]interface{}{"key": k, "conflicts": o.Conflicts}
		}
		if n != s {
			return "conflict-partial", map[string]interface{}{"key": k, "reported_for": n, "of": s}
		}
	}
	// columns: as a set (the position of added columns is free; order is not part of a version)
	wantCols := map[string]bool{"k": true}
	for _, c := range sc.Result.Cols {
		wantCols[c] = true
	}
	gotCols := map[string]int{}
	for i, c := range o.Cols {
		if _, dup := gotCols[c]; dup {
			return "columns", map[string]interface{}{"observed": o.Cols, "expected_set": sc.Result.Cols}
		}
		gotCols[c] = i
	}
	if len(gotCols) != len(wantCols) {
		return "columns", map[string]interface{}{"observed": o.Cols, "expected_set": sc.Result.Cols}
	}
	for c := range wantCols {
		if _, ok := gotCols[c]; !ok {
			return "columns", map[string]interface{}{"observed": o.Cols, "expected_set": sc.Result.Cols}
		}
	}
	// rows
	seen := map[string]bool{}
	prev := ""
	count := map[int]int{}
	ki := gotCols["k"]
	for i, r := range o.Rows {
		if skip != nil {
			// a carried-over base row has its key at the base layout's key position
			bk := -1
			for j, c := range sc.Base.Cols {
				if c == "k" {
					bk = j
				}
			}
			if bk >= 0 && bk < len(r) {
				if k0, ok := parseKey(r[bk]); ok && skip[k0] {
					continue
				}
			}
		}
		if len(r) != len(o.Cols) {
			return "row-width", map[string]interface{}{"position": i, "row": r, "cols": o.Cols}
		}
		kc := r[ki]
		k, ok := parseKey(kc)
		if !ok {
			return "row-key-garbled", map[string]interface{}{"position": i, "row": r, "cols": o.Cols}
		}
		if seen[kc] {
			return "row-duplicated", map[string]interface{}{"position": i, "row": r}
		}
		seen[kc] = true
		if skip == nil && prev != "" && !(prev < kc) {
			return "order", map[string]interface{}{"position": i, "prev_key": prev, "key": kc, "cols": o.Cols}
		}
		prev = kc
		want, present := exp[k]
		if realConf[k] > 0 {
			return "row-of-conflicting-key", map[string]interface{}{"position": i, "row": r}
		}
		if !present {
			return "row-unexpected", map[string]interface{}{"position": i, "row": r, "cols": o.Cols}
		}
		for c, v := range want {
			if v == free {
				continue
			}
			if r[gotCols[c]] != cellText(v) {
				return "cell", map[string]interface{}{"key": kc, "col": c, "expected": v, "observed": r[gotCols[c]], "row": r, "cols": o.Cols}
			}
		}
		count[k]++
	}
	for k := range exp {
		if realConf[k] > 0 || (skip != nil && skip[k]) {
			continue
		}
		if count[k] != s {
			return "row-missing", map[string]interface{}{"key": k, "present": count[k], "of": s, "rows": o.Rows, "cols": o.Cols}
		}
	}
	return "", nil
}

func feature(sc *Scenario) string {
	f := []string{}
	if len(sc.Base.Cols) > 0 && sc.Base.Cols[0] != "k" {
		f = append(f, "key-not-first")
	}
	baseCols := strings.Join(sc.Base.Cols, ",")
	colchg := false
	for _, b := range sc.Branches {
		if strings.Join(b.Cols, ",") != baseCols {
			colchg = true
		}
	}
	if colchg {
		f = append(f, "colchange")
	}
	if len(sc.Conflicts) > 0 {
		f = append(f, "conflict")
	}
	if sc.S > 1 {
		f = append(f, "multiblock")
	}
	if len(f) == 0 {
		return "plain"
	}
	return strings.Join(f, "+")
}

// Replay merges one scenario with the real code.
func Replay(i int, raw []byte) child.Result {
	var sc Scenario
	if err := json.Unmarshal(raw, &sc); err != nil {
		return child.Inconclusive(err)
	}
	t, err := build(&sc)
	if err != nil {
		return child.Inconclusive(fmt.Errorf("building tables: %v", err))
	}
	fc := feature(&sc)
	unt, relayout := untouched(&sc)
	verdict := func(stage string, o *outcome) *child.Result {
		kind, detail := judge(&sc, o, nil)
		if kind == "" {
			return nil
		}
		if relayout && len(unt) > 0 {
			// explained by the recorded finding iff everything else is right
			if k2, _ := judge(&sc, o, unt); k2 == "" {
				r := child.Fail("merge/"+stage+"/untouched-base-row-in-base-layout", map[string]interface{}{"what": detail, "first_symptom": kind, "outcome": o})
				return &r
			}
		}
		r := child.Fail("merge/"+stage+"/"+kind+"/"+fc, map[string]interface{}{"what": detail, "outcome": o})
		return &r
	}
	o := runRows(t)
	if r := verdict("rows", o); r != nil {
		return *r
	}
	if sc.Commit {
		oc, sum := runCommit(t)
		if r := verdict("commit", oc); r != nil {
			return *r
		}
		if sum != nil {
			ob := tbl.Observe(t.db, sum, "merge")
			ob.Src = string(raw)
			child.Emit(ob)
		}
	}
	return child.Pass(fc)
}
