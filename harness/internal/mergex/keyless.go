package mergex

import (
	"context"
	"encoding/json"
	"fmt"
	"sort"
	"strings"

	"github.com/go-logr/logr"
	"github.com/wrgl/wrgl/pkg/diff"
	"github.com/wrgl/wrgl/pkg/merge"
	"github.com/wrgl/wrgl/pkg/objects"

	"verifharness/internal/child"
	"verifharness/internal/tbl"
)

// KeylessScenario: tables without a primary key; a version is a set of abstract rows.
type KeylessScenario struct {
	Keyless  bool    `json:"keyless"`
	Base     []int   `json:"base"`
	Branches [][]int `json:"branches"`
	Result   []int   `json:"result"`
	Alt      []int   `json:"alt"`       // the other admissible reading when a column was dropped
	Drop     bool    `json:"drop"`      // the second branch has dropped the last column
	MayRefuse bool   `json:"mayrefuse"` // the merge may be refused (never answered with other rows)
}

func keylessRow(r int) []string {
	return []string{fmt.Sprintf("r%d", r), fmt.Sprintf("v%d", r%2), "x"}
}

func keylessCSV(rows []int) []byte {
	out := [][]string{{"a", "b", "c"}}
	for i := len(rows) - 1; i >= 0; i-- {
		out = append(out, keylessRow(rows[i]))
	}
	return tbl.CSV(out, 0)
}

func mkDropped(db *tbl.SafeStore, rows []int) (*objects.Table, []byte, error) {
	out := [][]string{{"a", "b"}}
	for i := len(rows) - 1; i >= 0; i-- {
		out = append(out, keylessRow(rows[i])[:2])
	}
	sum, err := tbl.Ingest(db, tbl.CSV(out, 0), nil, tbl.IngestOpts{})
	if err != nil {
		return nil, nil, err
	}
	t, err := objects.GetTable(db, sum)
	return t, sum, err
}

// ReplayKeyless merges keyless tables with the real code the way `wrgl merge` drives it.
func ReplayKeyless(i int, raw []byte) child.Result {
	var sc KeylessScenario
	if err := json.Unmarshal(raw, &sc); err != nil {
		return child.Inconclusive(err)
	}
	db := tbl.NewSafeStore()
	mk := func(rows []int) (*objects.Table, []byte, error) {
		sum, err := tbl.Ingest(db, keylessCSV(rows), nil, tbl.IngestOpts{})
		if err != nil {
			return nil, nil, err
		}
		t, err := objects.GetTable(db, sum)
		return t, sum, err
	}
	baseT, baseS, err := mk(sc.Base)
	if err != nil {
		return child.Inconclusive(err)
	}
	var othT []*objects.Table
	var othS [][]byte
	for bi, b := range sc.Branches {
		t, s, err := mk(b)
		if sc.Drop && bi == 1 {
			t, s, err = mkDropped(db, b)
		}
		if err != nil {
			return child.Inconclusive(err)
		}
		othT, othS = append(othT, t), append(othS, s)
	}
	buf, err := diff.BlockBufferWithSingleStore(db, append([]*objects.Table{baseT}, othT...))
	if err != nil {
		return child.Inconclusive(err)
	}
	collector, cleanup, err := merge.CreateRowCollector(db, baseT)
	if err != nil {
		return child.Inconclusive(err)
	}
	defer cleanup()
	m, err := merge.NewMerger(db, collector, buf, 0, baseT, othT, baseS, othS, logr.Discard())
	if err != nil {
		return child.Inconclusive(err)
	}
	mc, err := m.Start()
	if err != nil {
		if sc.MayRefuse {
			return child.Pass("keyless/refused")
		}
		return child.Fail("merge/keyless/start-error", map[string]interface{}{"error": err.Error()})
	}
	conflicts := 0
	var removed map[int]struct{}
	for mg := range mc {
		if mg.ColDiff != nil {
			// as `wrgl merge` does: the columns some branch removed are dropped from the result
			for _, layer := range mg.ColDiff.Removed {
				for col := range layer {
					if removed == nil {
						removed = map[int]struct{}{}
					}
					removed[int(col)] = struct{}{}
				}
			}
			continue
		}
		conflicts++
		m.SaveResolvedRow(mg.PK, nil)
	}
	if err := m.Error(); err != nil {
		return child.Fail("merge/keyless/error", map[string]interface{}{"error": err.Error()})
	}
	ch, err := m.SortedRows(context.Background(), removed)
	if err != nil {
		return child.Fail("merge/keyless/error", map[string]interface{}{"error": err.Error()})
	}
	got := []string{}
	for rs := range ch {
		for _, r := range rs.Rows {
			got = append(got, strings.Join(r, ","))
		}
	}
	if err := m.Error(); err != nil {
		return child.Fail("merge/keyless/error", map[string]interface{}{"error": err.Error()})
	}
	rowsOf := func(ids []int) []string {
		out := []string{}
		for _, r := range ids {
			cells := keylessRow(r)
			if sc.Drop {
				cells = cells[:2]
			}
			out = append(out, strings.Join(cells, ","))
		}
		sort.Strings(out)
		return out
	}
	want := rowsOf(sc.Result)
	sorted := append([]string{}, got...)
	sort.Strings(sorted)
	detail := map[string]interface{}{"expected_rows": want, "observed_rows": got, "conflicts": conflicts, "dropped_column": sc.Drop}
	if conflicts > 0 && !sc.Drop {
		return child.Fail("merge/keyless/spurious-conflict", detail)
	}
	if strings.Join(sorted, "|") != strings.Join(want, "|") {
		if sc.Drop && strings.Join(sorted, "|") == strings.Join(rowsOf(sc.Alt), "|") {
			return child.Pass("keyless/drop-alt")
		}
		if sc.Drop {
			detail["also_admissible"] = rowsOf(sc.Alt)
			return child.Fail("merge/keyless/rows/column-dropped", detail)
		}
		return child.Fail("merge/keyless/rows", detail)
	}
	if strings.Join(sorted, "|") != strings.Join(got, "|") {
		return child.Fail("merge/keyless/order", detail)
	}
	return child.Pass(fmt.Sprintf("keyless/%d", len(sc.Branches)))
}
