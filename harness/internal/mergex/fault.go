package mergex

import (
	"encoding/json"
	"fmt"
	"os"
	"reflect"
	"sort"
	"strconv"

	"verifharness/internal/child"
	"verifharness/internal/tbl"
)

func sortedRows(o *outcome) [][]string {
	rows := append([][]string{}, o.Rows...)
	sort.Slice(rows, func(a, b int) bool { return fmt.Sprint(rows[a]) < fmt.Sprint(rows[b]) })
	return rows
}

// ReplayFault (C16: "an error in one worker is reported to the caller instead of hanging it"):
// the merge of the scenario is repeated with a read error injected at the k-th store read of the
// merge, for a spread of k, once (one failing read) and sticky (an unreadable object that every
// goroutine needing it runs into).  Demanded of every run: it returns (a hang is caught by the
// watchdog of the parent, a panic kills the child - both are attributed to this scenario), and
// when the fault fired the caller either gets an error or - the failing read turned out not to be
// needed - exactly the outcome of the run without fault.
func ReplayFault(i int, raw []byte) child.Result {
	var sc Scenario
	if err := json.Unmarshal(raw, &sc); err != nil {
		return child.Inconclusive(err)
	}
	t, err := build(&sc)
	if err != nil {
		return child.Inconclusive(fmt.Errorf("building tables: %v", err))
	}
	seed, _ := strconv.Atoi(os.Getenv("VERIF_SEED"))
	count := &tbl.FaultGets{Store: t.db}
	t.rd = count
	base := runRows(t)
	if base.Err != "" {
		return child.Inconclusive(fmt.Errorf("merge without fault failed: %s", base.Err))
	}
	n := count.Gets()
	fired, reported := 0, 0
	for _, sticky := range []bool{false, true} {
		for _, k := range tbl.FaultPoints(n, 10, seed+i) {
			fs := &tbl.FaultGets{Store: t.db, At: k, Sticky: sticky}
			t.rd = fs
			o := runRows(t)
			if !fs.Fired() {
				continue
			}
			fired++
			if o.Err != "" {
				reported++
				continue
			}
			if !reflect.DeepEqual(sortedRows(o), sortedRows(base)) || !reflect.DeepEqual(o.Conflicts, base.Conflicts) {
				return child.Fail("merge/fault/error-swallowed", map[string]interface{}{
					"fault_at_read": k, "sticky": sticky, "reads_without_fault": n,
					"what": "a store read failed during the merge, no error reached the caller and the outcome differs from the merge without fault",
					"outcome": o, "without_fault": base})
			}
		}
	}
	return child.Pass(fmt.Sprintf("fired=%v reported=%v", fired > 0, reported > 0))
}
