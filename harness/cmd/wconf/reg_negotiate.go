package main

import "verifharness/internal/negotiate"

func init() {
	replayers["negotiate"] = negotiate.Replay
	recorders["negotiate"] = negotiate.Record
}
