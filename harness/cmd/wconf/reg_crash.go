package main

import "verifharness/internal/crashx"

func init() {
	replayers["crash"] = crashx.Replay
}
