package main

import "verifharness/internal/transfer"

func init() {
	replayers["transfer"] = transfer.Replay
	replayers["transferrec"] = transfer.RecCase
	replayers["transferfault"] = transfer.ReplayFault
}
