package main

import "verifharness/internal/system2x"

func init() {
	replayers["system2"] = system2x.Replay
}
