package main

import "verifharness/internal/systemx"

func init() {
	replayers["system"] = systemx.Replay
}
