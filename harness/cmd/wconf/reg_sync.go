package main

import "verifharness/internal/syncx"

func init() {
	replayers["sync"] = syncx.Replay
	replayers["syncsession"] = syncx.ReplaySession
}
