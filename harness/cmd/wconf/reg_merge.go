package main

import "verifharness/internal/mergex"

func init() {
	replayers["merge"] = mergex.Replay
	replayers["mergekeyless"] = mergex.ReplayKeyless
	replayers["mergefault"] = mergex.ReplayFault
}
