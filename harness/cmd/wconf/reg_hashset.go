package main

import "verifharness/internal/hashset"

func init() {
	replayers["hashset"] = hashset.Replay
	recorders["hashset"] = hashset.Record
}
