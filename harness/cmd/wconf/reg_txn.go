package main

import "verifharness/internal/txn"

func init() {
	replayers["txn"] = txn.Replay
	recorders["txn"] = txn.Record
}
