package main

import "verifharness/internal/pool"

func init() {
	replayers["pool"] = pool.Replay
}
