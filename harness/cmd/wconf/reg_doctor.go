package main

import "verifharness/internal/doctorx"

func init() {
	replayers["doctor"] = doctorx.Replay
}
