package main

import "verifharness/internal/ingestx"

func init() {
	replayers["ingest"] = ingestx.Replay
	replayers["ingestrec"] = ingestx.RecCase
	replayers["sorter"] = ingestx.ReplaySorter
}
