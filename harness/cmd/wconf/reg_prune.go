package main

import "verifharness/internal/prune"

func init() {
	replayers["prune"] = prune.Replay
	recorders["prune"] = prune.Record
}
