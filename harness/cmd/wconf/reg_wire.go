package main

import "verifharness/internal/wire"

func init() {
	replayers["wire"] = wire.Replay
	replayers["wireconc"] = wire.ReplayConcurrent
}
