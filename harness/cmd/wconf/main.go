// wconf is the conformance harness binding the TLA+ specifications in
// /verif/spec to the real wrgl packages.
//
//	wconf replay <engine> --in scenarios.ndjson --shard k/n   (use B)
//	wconf record <engine> --seed s --n N --out trace.ndjson   (use C)
package main

import (
	"fmt"
	"os"

	"verifharness/internal/child"
)

// engines register themselves from reg_<engine>.go files
var replayers = map[string]child.Handler{}

var recorders = map[string]func(args []string) error{}

func main() {
	if len(os.Args) < 3 {
		fmt.Fprintln(os.Stderr, "usage: wconf replay|record <engine> [flags]")
		os.Exit(2)
	}
	switch os.Args[1] {
	case "replay":
		h, ok := replayers[os.Args[2]]
		if !ok {
			fmt.Fprintln(os.Stderr, "unknown engine", os.Args[2])
			os.Exit(2)
		}
		child.Run(os.Args[3:], h)
	case "record":
		r, ok := recorders[os.Args[2]]
		if !ok {
			fmt.Fprintln(os.Stderr, "unknown engine", os.Args[2])
			os.Exit(2)
		}
		if err := r(os.Args[3:]); err != nil {
			fmt.Fprintln(os.Stderr, "record:", err)
			os.Exit(2)
		}
	default:
		fmt.Fprintln(os.Stderr, "unknown command", os.Args[1])
		os.Exit(2)
	}
}
