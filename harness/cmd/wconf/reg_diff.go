package main

import vdiff "verifharness/internal/diff"

func init() {
	replayers["diff"] = vdiff.Replay
	recorders["diff"] = vdiff.Record
	replayers["difffault"] = vdiff.ReplayFault
	replayers["diffcli"] = vdiff.ReplayCLI
}
