package main

import "verifharness/internal/stream"

func init() {
	replayers["stream"] = stream.Replay
}
