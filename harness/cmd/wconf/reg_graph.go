package main

import "verifharness/internal/graph"

func init() {
	replayers["graph"] = graph.Replay
	recorders["graph"] = graph.Record
}
