package main

import "verifharness/internal/refs"

func init() {
	replayers["refs"] = refs.Replay
	recorders["refs"] = refs.Record
}
