package main

import (
	"os"

	"verifharness/internal/hostile"
)

func init() {
	// The replay child of engine "hostile" is a supervisor; the real decoders run in worker
	// subprocesses of the same binary (see internal/hostile).
	if len(os.Args) > 1 && os.Args[1] == "hostile-worker" {
		hostile.WorkerMain()
		os.Exit(0)
	}
	replayers["hostile"] = hostile.Replay
}
