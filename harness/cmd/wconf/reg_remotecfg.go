package main

import (
	"os"

	"verifharness/internal/remotecfg"
)

func init() {
	// The real `wrgl remote` / `wrgl config` commands leave through os.Exit when they
	// refuse: they run in a worker subprocess of this binary (see internal/remotecfg).
	if len(os.Args) > 1 && os.Args[1] == "remotecfg-worker" {
		remotecfg.WorkerMain()
		os.Exit(0)
	}
	replayers["remotecfg"] = remotecfg.Replay
	recorders["remotecfg"] = remotecfg.Record
}
