----------------------------- MODULE TraceRefs -----------------------------
(***************************************************************************)
(* Use (C) of Refs: a sequence of operations executed by the harness on    *)
(* the REAL ref store (with the real return values) is accepted iff it is  *)
(* a behaviour of Refs: every logged return value must be the one the      *)
(* specification computes, and every "observe" line (a projection of the   *)
(* whole real store) must equal the specification's state.                 *)
(***************************************************************************)
EXTENDS Refs, TraceBase

VARIABLES refs, logs, l
vars == <<refs, logs, l>>

Range(s) == {s[i] : i \in 1..Len(s)}
Ev == TLog[l]

Apply(e) ==
  CASE e.op = "set"        -> Set(refs, logs, e.n, e.v)
    [] e.op = "setlog"     -> SetWithLog(refs, logs, e.n, e.v, MetaOf(e.v))
    [] e.op = "del"        -> Delete(refs, logs, e.n)
    [] e.op = "get"        -> Get(refs, logs, e.n)
    [] e.op = "log"        -> LogRead(refs, logs, e.n)
    [] e.op = "ren"        -> Rename(refs, logs, e.n, e.m)
    [] e.op = "copy"       -> Copy(refs, logs, e.n, e.m)
    [] e.op = "filter"     -> Filter(refs, logs, Range(e.ps), Range(e.nps))
    [] e.op = "delremote"  -> DeleteAllRemote(refs, logs, e.n)
    [] e.op = "listremote" -> ListRemote(refs, logs, e.n)
    [] e.op = "renremote"  -> RenameAllRemote(refs, logs, e.n, e.m)

\* the whole entry is compared: old value, new value and the kind of entry (MetaOf; the harness reads
\* author, action, message and transaction id back: an entry that lost one of them is kind 9)
OldNew(s) == s

RetMatches(e, ret) ==
  /\ "free" \notin DOMAIN ret => ret.ok = e.ok
  /\ (ret.ok = TRUE /\ e.op = "get") => ret.val = e.val
  /\ (ret.ok = TRUE /\ e.op = "log") => OldNew(ret.log) = e.log
  /\ (ret.ok = TRUE /\ e.op = "filter") => ret.names = Range(e.names) /\ ret.vals = Range(e.vals)
  /\ (ret.ok = TRUE /\ e.op = "listremote") => ret.vals = Range(e.vals)

TReset == /\ Ev.op = "reset"
          /\ refs' = <<>> /\ logs' = <<>>

TObserve == /\ Ev.op = "observe"
            /\ {<<n, refs[n]>> : n \in DOMAIN refs} = Range(Ev.refs)
            /\ {<<n, OldNew(logs[n])>> : n \in DOMAIN logs} = Range(Ev.logs)
            /\ UNCHANGED <<refs, logs>>

TOp == /\ Ev.op \notin {"reset", "observe"}
       /\ Ev.op = "renremote" => RenameAllRemoteEnabled(refs, Ev.n, Ev.m)
       /\ LET s == Apply(Ev) IN
            /\ RetMatches(Ev, s.ret)
            /\ refs' = s.refs
            /\ logs' = s.logs

Init == refs = <<>> /\ logs = <<>> /\ l = 1
Next == /\ l <= Len(TLog)
        /\ l' = l + 1
        /\ (TReset \/ TObserve \/ TOp)
Spec == Init /\ [][Next]_vars

Constr == Mark(l)
Inv == LogsOnlyForRefs(refs, logs)
=============================================================================
