----------------------------- MODULE StreamGen -----------------------------
(***************************************************************************)
(* Uses (A) and (B) of Stream for property C18.                            *)
(*                                                                         *)
(* The streams: for every kind one (thorough: two) valid encoded stream,   *)
(* built with the format definition Wire (Segs... = the field boundaries): *)
(*   packfile  magic | version | (header | body)* with 3 objects           *)
(*   pktline   pkt-lines incl. flush-pkts                                  *)
(*   commit table (>= 2 blocks' worth of sums) block blkidx uintlist       *)
(*   strlist profile                                                       *)
(*                                                                         *)
(* ContractSpec (use A): Stream's state machine over the plans of these    *)
(*   streams (field lengths capped at Cap: the contract does not look at   *)
(*   content) - EVERY delivery schedule; invariants ChunkingTheorem,       *)
(*   PrefixInv, ReaderInv, WholeInv, property Termination.  With           *)
(*   Variant = "single" TLC must report ChunkingTheorem violated.          *)
(*                                                                         *)
(* GenSpec (use B): the schedules replayed on the real decoders.  Per      *)
(*   stream: the INTERESTING cut points Cand (every field boundary, +-1    *)
(*   around it, the middle of every field); K of them are chosen (evenly   *)
(*   spread over Cand, rotated by the seeded constant Rot) and EVERY       *)
(*   subset of the chosen points is a schedule (a binary tree of depth K); *)
(*   plus every single candidate point alone, the all-1-byte schedule and  *)
(*   "1 byte, then the rest"; all of them x {EOF with the last bytes, EOF  *)
(*   on a later call}.  At every leaf the invariant checks the theorem     *)
(*   instance (the "full" decoder under this schedule = whole-buffer       *)
(*   result) and prints                                                    *)
(*     <<"SCN", ["sch", stream id, cuts, ewd, hard]>>                      *)
(*   hard = 1 iff a single-Read decoder would NOT survive the schedule.    *)
(*   Per stream one definition line is printed:                            *)
(*     <<"SCN", ["def", id, kind, end, bytes as runs, [[tag, len]...],     *)
(*               items, total, candidate points]>>                         *)
(*   end = the end-of-stream condition of the whole-buffer decode; items = *)
(*   the packfile objects [type, body] / the pkt-line payloads.            *)
(***************************************************************************)
EXTENDS Stream, Wire, TLC, Json

CONSTANTS KCodes,     \* which streams this run covers and with how many chosen cut points: stream index * 100 + K
                      \* (a .cfg file cannot hold a function)
          Rot,        \* seeded rotation of the choice
          Cap         \* ContractSpec: field lengths are capped at Cap

VARIABLE sc           \* GenSpec: <<stream index, phase, next chosen point, cuts, ewd>>

(* ---------------- pkt-line format (pkg/encoding/pktline): 4 hex digits = payload length + 1,
                    payload, NL; the flush-pkt is "0000" ---------------- *)
HexDigit(x) == IF x < 10 THEN 48 + x ELSE 87 + x
Hex4(n) == CatAll(<< B1(HexDigit((n \div 4096) % 16)), B1(HexDigit((n \div 256) % 16)),
                     B1(HexDigit((n \div 16) % 16)), B1(HexDigit(n % 16)) >>)
SegsPktLine(s) == IF Len(s) = 0 THEN Seg("pktlen", Hex4(0))
                  ELSE Seg("pktlen", Hex4(BLen(s) + 1)) \o Seg("data", s) \o Seg("nl", NL)
SegsPktLines(ls) == ConcatAll([i \in 1..Len(ls) |-> SegsPktLine(ls[i])])

(* ---------------- packfile: magic, version, then header | body per object ---------------- *)
SegsPackObj(type, body) == SegsHdrG(type, NatBits(BLen(body)), HdrGroups(NatBits(BLen(body)))) \o Seg("body", body)
SegsPack(objs) == Seg("magic", Ascii("PACK")) \o Seg("version", BE32(PackVersion))
                  \o ConcatAll([i \in 1..Len(objs) |-> SegsPackObj(objs[i][1], objs[i][2])])

(* ---------------- the values ---------------- *)
TableSum == Cat(Run(1, 15), B1(200))
SumA == Run(2, 16)
SumB == Cat(Run(3, 8), Run(4, 8))
SumN(i) == Cat(Run(16 + i, 8), Run(32 + i, 8))

C1 == [table |-> TableSum, an |-> Ascii("Ann"), ae |-> CatAll(<<Ascii("ann"), B1(64), Ascii("x")>>),
       time |-> <<0, 1600000000, -420>>, msg |-> CatAll(<<Ascii("line"), NL, Ascii("two")>>), parents |-> <<SumA, SumB>>]
C2 == [table |-> TableSum, an |-> <<>>, ae |-> Ascii("e"), time |-> ZeroTime, msg |-> Run(109, 300), parents |-> <<>>]

MkTable(cols, pk, rows) ==
  [cols |-> cols, pk |-> pk, rows |-> rows,
   blocks |-> [i \in 1..NumBlocks(rows) |-> SumN(i)], idx |-> [i \in 1..NumBlocks(rows) |-> SumN(100 + i)]]
T1 == MkTable(<<Ascii("id"), Ascii("name"), <<>>>>, <<0>>, 300)          \* 2 blocks + 2 block indices
T2 == MkTable(<<Run(99, 70), Ascii("k")>>, <<1, 0>>, 600)                 \* 3 + 3

BlkA == << <<Ascii("a"), Ascii("bc")>>, << <<>>, Ascii("x")>>, <<Run(121, 40), <<>>>> >>
BlkC == << <<Ascii("p")>>, <<Run(113, 300)>> >>

X1 == [off |-> <<1, 2, 0>>, rows |-> << <<Run(30, 16), SumN(1)>>, <<Run(10, 16), SumN(2)>>, <<Run(20, 16), SumN(3)>> >>]
X2 == [off |-> <<0>>, rows |-> << <<Run(7, 16), SumN(9)>> >>]

U1 == <<255, 256, 65536, 7>>
U2 == <<>>
SL1 == <<Ascii("a"), <<>>, Run(113, 300), Ascii("bc")>>
SL2 == <<Ascii("only")>>

FOne == FromList(<<63, 240, 0, 0, 0, 0, 0, 0>>)
FPi == FromList(<<64, 9, 33, 251, 84, 68, 45, 24>>)
F0 == Run(0, 8)
ColFull == [name |-> Ascii("ab"), na |-> 3, fl |-> <<<<F0>>, <<FPi>>, <<FOne>>, <<>>, <<FOne>>>>,
            pct |-> <<1, <<F0, FOne, FPi>>>>, minl |-> 1, maxl |-> 300, avgl |-> 256,
            top |-> <<1, << <<Ascii("x"), 70000>>, <<<<>>, 2>> >> >>]
P1 == [version |-> 1, rows |-> 300, cols |-> <<ColFull, EmptyCol, [EmptyCol EXCEPT !.name = Ascii("n")]>>]
P2 == [version |-> 1, rows |-> 0, cols |-> <<>>]

\* the last object is EMPTY: its second header byte is the last byte of the stream and may arrive with EOF
Pack1 == << <<ObjTypeCommit, EncCommit(C1)>>, <<ObjTypeTable, EncTable(T1)>>, <<ObjTypeBlock, EncBlock(BlkC)>>, <<ObjTypeBlock, <<>>>> >>
Pack2 == << <<ObjTypeBlock, EncBlock(BlkA)>>, <<ObjTypeCommit, EncCommit(C2)>> >>
\* an object of more than 1 MiB (one run of 1 310 721 bytes): readers that fetch large objects in steps
Pack3 == << <<ObjTypeCommit, EncCommit(C1)>>, <<ObjTypeBlock, Run(7, 1310721)>>, <<ObjTypeBlock, EncBlock(BlkA)>> >>
Pkt1 == <<Ascii("want"), Ascii("have"), <<>>, Run(104, 300), Ascii("done"), <<>>>>   \* ends with a flush-pkt
Pkt2 == <<Ascii("ack"), <<>>, Ascii("z")>>                                           \* ends with a data line

(* ---------------- the stream table (a constant: evaluated once) ---------------- *)
\* probe: the size of the request with which the decoder of an item sequence looks for a further item
\* (packfile: the header byte; pkt-line: the length; commit: the label "parent "); 0 = count-delimited
MkStream(kind, segs, probe, items) == [kind |-> kind, segs |-> segs, probe |-> probe, items |-> items]
PackItems(objs) == [i \in 1..Len(objs) |-> <<objs[i][1], objs[i][2]>>]
Streams == <<
  MkStream("packfile", SegsPack(Pack1), 1, PackItems(Pack1)),
  MkStream("pktline", SegsPktLines(Pkt1), 4, Pkt1),
  MkStream("commit", SegsCommit(C1), 7, <<>>),
  MkStream("table", SegsTable(T1), 0, <<>>),
  MkStream("block", SegsBlock(BlkA), 0, <<>>),
  MkStream("blkidx", SegsBlockIndex(X1), 0, <<>>),
  MkStream("uintlist", SegsUintList(U1), 0, <<>>),
  MkStream("strlist", SegsStrList(SL1), 0, <<>>),
  MkStream("profile", SegsProfile(P1), 0, <<>>),
  \* second values (thorough)
  MkStream("packfile", SegsPack(Pack2), 1, PackItems(Pack2)),
  MkStream("pktline", SegsPktLines(Pkt2), 4, Pkt2),
  MkStream("commit", SegsCommit(C2), 7, <<>>),
  MkStream("table", SegsTable(T2), 0, <<>>),
  MkStream("block", SegsBlock(BlkC), 0, <<>>),
  MkStream("blkidx", SegsBlockIndex(X2), 0, <<>>),
  MkStream("uintlist", SegsUintList(U2), 0, <<>>),
  MkStream("strlist", SegsStrList(SL2), 0, <<>>),
  MkStream("profile", SegsProfile(P2), 0, <<>>),
  \* 19: a packfile with a large object
  MkStream("packfile", SegsPack(Pack3), 1, PackItems(Pack3))
>>
NStreams == Len(Streams)
GenIds == {c \div 100 : c \in KCodes}

\* (a function constructor stays a lambda in TLC and is re-evaluated at every application: the tables
\*  are built as explicit tuples)
RECURSIVE TabTo(_, _)
TabTo(F(_), n) == IF n = 0 THEN <<>> ELSE Append(TabTo(F, n - 1), F(n))
PlanOf(k) == TabTo(LAMBDA j : BLen(Streams[k].segs[j][2]), Len(Streams[k].segs))
PlanTab == TabTo(PlanOf, NStreams)
TotalOf(k) == Total(PlanTab[k])
TotalTab == TabTo(TotalOf, NStreams)
BytesOf(k) == Join(Streams[k].segs)
BytesTab == TabTo(BytesOf, NStreams)
WholeOf(k) == WholeBuffer(PlanTab[k], Streams[k].probe)
WholeTab == TabTo(WholeOf, NStreams)
StartOf(k) == DecStart(PlanTab[k], Streams[k].probe)
StartTab == TabTo(StartOf, NStreams)

(* ---------------- interesting cut points ---------------- *)
Inside(k, S) == {c \in S : c >= 1 /\ c <= TotalTab[k] - 1}
CandSet(k) ==
  LET plan == PlanTab[k]
      off == Offsets(plan)
      bounds == {off[i] : i \in 2..Len(plan)}
      mids == {off[i] + plan[i] \div 2 : i \in {j \in 1..Len(plan) : plan[j] >= 2}}
  IN Inside(k, UNION {{b - 1, b, b + 1} : b \in bounds} \cup mids)
RECURSIVE SortedSeq(_)
SortedSeq(S) == IF S = {} THEN <<>>
                ELSE \* (bound through a singleton set: evaluated once)
                     CHOOSE r \in {<<m>> \o SortedSeq(S \ {m}) : m \in {CHOOSE c \in S : \A x \in S : c <= x}} : TRUE
CandOf(k) == SortedSeq(CandSet(k))
CandTab == TabTo(CandOf, NStreams)
KOf(k) == IF k \in GenIds THEN CHOOSE n \in 0..99 : (k * 100 + n) \in KCodes ELSE 0
\* K points evenly spread over the candidates, rotated by Rot (all of them if there are at most K)
ChosenOf(k) ==
  LET cs == CandTab[k]
      m == Len(cs)
      kk == KOf(k)
  IN IF m <= kk THEN cs
     ELSE SortedSeq({cs[(((j * m) \div kk + Rot) % m) + 1] : j \in 0..(kk - 1)})
ChosenTab == TabTo(ChosenOf, NStreams)
ChosenSet(k) == {ChosenTab[k][i] : i \in 1..Len(ChosenTab[k])}
\* schedules outside the subset tree
Specials(k) ==
  {{c} : c \in CandSet(k) \ ChosenSet(k)}
  \cup (IF TotalTab[k] >= 2 /\ 1 \notin ChosenSet(k) THEN {{1}} ELSE {})
  \* all 1-byte reads; for a large stream: reads of 4096 bytes and of 65 535 bytes instead
  \cup (IF TotalTab[k] >= 2 /\ TotalTab[k] <= 100000 THEN {1..(TotalTab[k] - 1)} ELSE {})
  \cup (IF TotalTab[k] > 100000 THEN {{c \in 1..(TotalTab[k] - 1) : c % 4096 = 0}, {c \in 1..(TotalTab[k] - 1) : c % 65535 = 0}} ELSE {})

(* ---------------- well-formedness of the universe, lemmas ---------------- *)
ASSUME StreamsWF ==
  /\ GenIds \subseteq 1..NStreams /\ Cardinality(GenIds) = Cardinality(KCodes)
  /\ Join(SubSeq(SegsPack(Pack1), 1, 2)) = PackMagic
  /\ WFCommit(C1) /\ FitsCommit(C1) /\ WFCommit(C2) /\ FitsCommit(C2)
  /\ WFTable(T1) /\ FitsTable(T1) /\ WFTable(T2) /\ FitsTable(T2) /\ Len(T1.blocks) >= 2
  /\ FitsBlock(BlkA) /\ FitsBlock(BlkC)
  /\ WFBlockIndex(X1) /\ FitsBlockIndex(X1) /\ WFBlockIndex(X2) /\ FitsBlockIndex(X2)
  /\ FitsStrList(SL1) /\ FitsStrList(SL2) /\ FitsProfile(P1) /\ FitsProfile(P2)
  /\ \A k \in GenIds : IsBytes(BytesTab[k]) /\ BLen(BytesTab[k]) = TotalTab[k]
  \* the encoded objects are what the format's total decoders read back (Wire's own theorem, on these values)
  /\ RoundTrips("commit", C1) /\ RoundTrips("table", T1) /\ RoundTrips("block", BlkA) /\ RoundTrips("blkidx", X1)
\* every scheduled reader is inside the io.Reader contract (small instance, all schedules)
ASSUME SchedLemma ==
  \A total \in 1..5 : \A cuts \in SUBSET (1..(total - 1)) : \A ewd \in BOOLEAN : SchedInsideContract(total, cuts, ewd)

(* ---------------- use (A): the contract state machine over the plans of the streams ---------------- *)
CapPlan(plan) == TabTo(LAMBDA i : Min(plan[i], Cap), Len(plan))
NoSc == <<0, "none", 0, {}, FALSE>>
\* Stream!Init with Plans = the (capped) plans of the streams of this run (written out: a configuration
\* substitution Plans <- <definition of this module> made TLC hang while processing the constants)
ContractInit == /\ \E k \in GenIds : \E plan \in {CapPlan(PlanTab[k])} :
                      sp = <<plan, Streams[k].probe>> /\ pos = 0 /\ d = DecStart(plan, Streams[k].probe)
                /\ sc = NoSc
ContractNext == Next /\ UNCHANGED sc
ContractSpec == ContractInit /\ [][ContractNext]_<<vars, sc>> /\ WF_<<vars, sc>>(ContractNext)

(* ---------------- use (B): the schedules ---------------- *)
Idle == /\ sp = <<<<>>, 0>> /\ pos = 0 /\ d = DecStart(<<>>, 0)
GenInit == Idle /\ \E k \in GenIds : sc = <<k, "def", 0, {}, FALSE>>
Tree(k, i, cuts, ewd) == <<k, IF i = Len(ChosenTab[k]) THEN "leaf" ELSE "tree", i, cuts, ewd>>
GenNext ==
  /\ UNCHANGED vars
  /\ \/ /\ sc[2] = "def"
        /\ \E ewd \in BOOLEAN :
             \/ sc' = Tree(sc[1], 0, {}, ewd)
             \/ \E cuts \in Specials(sc[1]) : sc' = <<sc[1], "leaf", Len(ChosenTab[sc[1]]), cuts, ewd>>
     \/ /\ sc[2] = "tree"
        /\ \E take \in BOOLEAN :
             sc' = Tree(sc[1], sc[3] + 1, IF take THEN sc[4] \cup {ChosenTab[sc[1]][sc[3] + 1]} ELSE sc[4], sc[5])
GenSpec == GenInit /\ [][GenNext]_<<vars, sc>>

RunUnder(v, k, cuts, ewd) ==
  Result(Deliver(v, PlanTab[k], Streams[k].probe, TotalTab[k], cuts, ewd, 0, StartTab[k]))

Bit(b) == IF b THEN 1 ELSE 0
ExportItems(k) ==
  IF Streams[k].kind = "packfile" THEN [i \in 1..Len(Streams[k].items) |-> <<Streams[k].items[i][1], Streams[k].items[i][2]>>]
  ELSE Streams[k].items
DefLine(k) ==
  <<"def", k, Streams[k].kind, WholeTab[k][2], BytesTab[k],
    [j \in 1..Len(Streams[k].segs) |-> <<Streams[k].segs[j][1], PlanTab[k][j]>>],
    ExportItems(k), TotalTab[k], CandTab[k]>>
SchLine(k, cuts, ewd, hard) == <<"sch", k, cuts, Bit(ewd), Bit(hard)>>

GenInv ==
  /\ sc[2] = "def" =>
       /\ WholeTab[sc[1]] = WholeClosedForm(PlanTab[sc[1]], Streams[sc[1]].probe)
       /\ PrintT(<<"SCN", ToJson(DefLine(sc[1]))>>)
  /\ sc[2] = "leaf" =>
       /\ sc[4] \subseteq 1..(TotalTab[sc[1]] - 1)
       \* the theorem instance: the ReadFull decoder under this schedule = the whole-buffer result
       /\ RunUnder("full", sc[1], sc[4], sc[5]) = WholeTab[sc[1]]
       /\ PrintT(<<"SCN", ToJson(SchLine(sc[1], sc[4], sc[5], RunUnder("single", sc[1], sc[4], sc[5]) # WholeTab[sc[1]]))>>)
=============================================================================
