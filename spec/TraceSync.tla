------------------------------ MODULE TraceSync ------------------------------
(***************************************************************************)
(* Use (C) for C09 / C10: every "sync" line is one REAL fetch or push run   *)
(* through the command line against the reference server, projected to     *)
(* abstract commit ids: the receiver before and after, the sender, the refs *)
(* that were allowed to be forced, the newest log entry of every ref that   *)
(* changed, the number of received objects whose bytes differ from the      *)
(* sender's, and what an immediately repeated run did.  Ancestry is         *)
(* computed by the specification from the logged parent relation.           *)
(***************************************************************************)
EXTENDS Sync, TraceBase

VARIABLE l
Ev == TLog[l]
Range(s) == {s[i] : i \in 1..Len(s)}

ParOf(e) == [c \in {x[1] : x \in Range(e.par)} |-> Range((CHOOSE y \in Range(e.par) : y[1] = c)[2])]
RefsOf(side) == [n \in {x[1] : x \in Range(side.refs)} |-> (CHOOSE y \in Range(side.refs) : y[1] = n)[2]]
RepoOf(side) == [refs |-> RefsOf(side), commits |-> Range(side.commits), tables |-> Range(side.tables)]

Clause(e) ==
  LET par == ParOf(e) b == RepoOf(e.before) a == RepoOf(e.after)
      known == \A n \in DOMAIN a.refs : a.refs[n] \in DOMAIN par
  IN IF ~known THEN "ref-to-unknown-commit"
     ELSE IF ~Monotone(b, a) THEN "objects-lost"
     ELSE IF ~HistoryComplete(par, b, a, e.depth) THEN "history-incomplete"
     ELSE IF e.differs # 0 THEN "objects-differ"
     ELSE IF ~RefsForward(par, b.refs, a.refs, Range(e.forced)) THEN "ref-moved-backwards-or-tag-clobbered"
     ELSE IF ~LogFaithful(b.refs, a.refs, Range(e.logs)) THEN "log-not-faithful"
     ELSE IF e.repeat.changed THEN "repeat-changed-something"
     ELSE IF e.repeat.transferred # 0 THEN "repeat-transferred-objects"
     ELSE "ok"

Init == l = 1
Next == /\ l <= Len(TLog)
        /\ l' = l + 1
        /\ \/ Ev.op = "reset"
           \/ /\ Ev.op = "sync"
              /\ \/ Clause(Ev) = "ok"
                 \/ Clause(Ev) # "ok" /\ PrintT(<<"BROKEN", l, Clause(Ev)>>) /\ FALSE
Spec == Init /\ [][Next]_l
Constr == Mark(l)
=============================================================================
