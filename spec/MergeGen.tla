------------------------------ MODULE MergeGen ------------------------------
(***************************************************************************)
(* Use (A)+(B) of Merge.  The universe: a base table with the non-key      *)
(* columns A (cells = 0), B (cells = 3) and the keys 1, 2; a branch is     *)
(* from it by one column operation and one row operation per key:          *)
(*   column ops  none | addC1 / addC2 (new column C filled with 1 / 2) |   *)
(*               addC0 (C added in FRONT, i.e. possibly left of the key) | *)
(*               remB | remA | swap (B before A) | renB (B renamed to B2)  *)
(*   keys 1, 2   same | removed | A1 | A2 | B1 | A1B1 (cells changed) |      *)
(*               X (the values of A and B exchanged: under "swap" the row  *)
(*               then has the very bytes of the base row)                  *)
(*   key 3       absent | add1 | add2 (a new row whose cells are 1 / 2)    *)
(* and the key column "k" sits at position KPos of the layout.             *)
(* Every ordered pair of branches is one scenario (depth-2 state: the      *)
(* first branch is chosen in Init so that TLC's workers share the pairs).  *)
(* TLC checks the laws of the statement on the oracle and prints, for the  *)
(* harness, the expected result, the conflicting keys and the keys for     *)
(* which the statement allows two outcomes.                                *)
(***************************************************************************)
EXTENDS Merge, TLC, Json

CONSTANTS KPoss, ColOps, States1, States2, States3,
          ThirdOps    \* {}: pairs of branches; otherwise the column ops of a THIRD branch (N = 3)

VARIABLES kpos, x, y, z, phase
vars == <<kpos, x, y, z, phase>>

InsertAt(s, i, e) == SubSeq(s, 1, i - 1) \o <<e>> \o SubSeq(s, i, Len(s))

BaseCols == <<"A", "B">>
Base(kp) == [cols |-> InsertAt(BaseCols, kp, "k"),
             rows |-> [k \in {1, 2} |-> [c \in {"A", "B"} |-> IF c = "A" THEN 0 ELSE 3]]]

ColsAfter(op) ==
  CASE op = "none"  -> <<"A", "B">>
    [] op = "addC1" -> <<"A", "B", "C">>
    [] op = "addC2" -> <<"A", "B", "C">>
    [] op = "remB"  -> <<"A">>
    [] op = "remA"  -> <<"B">>
    [] op = "addC0" -> <<"C", "A", "B">>
    [] op = "swap"  -> <<"B", "A">>
    [] op = "renB"  -> <<"A", "B2">>

\* the value of column c in a row of state st (for a base key) under column op
CellOf(st, op, c) ==
  CASE c = "A"  -> (IF st \in {"A1", "A1B1"} THEN 1 ELSE IF st = "A2" THEN 2 ELSE IF st = "X" THEN 3 ELSE 0)
    [] c = "B"  -> (IF st \in {"B1", "A1B1"} THEN 1 ELSE IF st = "X" THEN 0 ELSE 3)
    [] c = "B2" -> (IF st \in {"B1", "A1B1"} THEN 1 ELSE IF st = "X" THEN 0 ELSE 3)
    [] c = "C"  -> (IF op \in {"addC1", "addC0"} THEN 1 ELSE 2)
NewRowCell(st, op, c) == IF c = "C" THEN (IF op \in {"addC1", "addC0"} THEN 1 ELSE 2) ELSE (IF st = "add1" THEN 1 ELSE 2)

Branch(kp, op, s1, s2, s3) ==
  LET cs == ColsAfter(op)
      vc == Range(cs)
      ks == (IF s1 = "removed" THEN {} ELSE {1}) \cup (IF s2 = "removed" THEN {} ELSE {2})
            \cup (IF s3 = "absent" THEN {} ELSE {3})
      st(k) == IF k = 1 THEN s1 ELSE IF k = 2 THEN s2 ELSE s3
  IN [cols |-> InsertAt(cs, IF kp > Len(cs) + 1 THEN Len(cs) + 1 ELSE kp, "k"),
      rows |-> [k \in ks |-> [c \in vc |-> IF k = 3 THEN NewRowCell(st(k), op, c) ELSE CellOf(st(k), op, c)]]]

Versions(kp) == {Branch(kp, op, s1, s2, s3) : op \in ColOps, s1 \in States1, s2 \in States2, s3 \in States3}

ExportV(v) == [cols |-> v.cols,
               rows |-> {<<k, {<<c, v.rows[k][c]>> : c \in DOMAIN v.rows[k]}>> : k \in DOMAIN v.rows}]
ExportR(r) == [cols |-> r.cols,
               rows |-> {<<k, {<<c, r.rows[k][c]>> : c \in r.cols}>> : k \in DOMAIN r.rows}]

Thirds(kp) == {Branch(kp, op, s1, s2, s3) : op \in ThirdOps, s1 \in States1, s2 \in States2, s3 \in States3}

Scn(b, bs) ==
  PrintT(<<"SCN", ToJson([base |-> ExportV(b), branches |-> [i \in 1..Len(bs) |-> ExportV(bs[i])],
                          result |-> ExportR(Result(b, bs)),
                          conflicts |-> {<<k, ConflictCols(b, bs, k)>> : k \in ConflictKeys(b, bs)},
                          ambiguous |-> AmbiguousKeys(b, bs)])>>)

Init == /\ kpos \in KPoss
        /\ x \in Versions(kpos)
        /\ y = x /\ z = x
        /\ phase = "pick"
Next == \/ /\ phase = "pick" /\ phase' = (IF ThirdOps = {} THEN "done" ELSE "pick3")
           /\ y' \in Versions(kpos)
           /\ UNCHANGED <<kpos, x, z>>
           /\ ThirdOps = {} => Scn(Base(kpos), <<x, y'>>)
        \/ /\ phase = "pick3" /\ phase' = "done3"
           /\ z' \in Thirds(kpos)
           /\ UNCHANGED <<kpos, x, y>>
           /\ Scn(Base(kpos), <<x, y, z'>>)
Spec == Init /\ [][Next]_vars

\* three branches: the outcome does not depend on the order in which they are listed either
LawOrder3(base, a, b, c) ==
  /\ ConflictKeys(base, <<a, b, c>>) = ConflictKeys(base, <<c, a, b>>)
  /\ Result(base, <<a, b, c>>) = Result(base, <<b, c, a>>)
  /\ Result(base, <<a, b, c>>) = Result(base, <<b, a, c>>)
\* a third branch that is the base changes nothing: merge(base; X, Y, base) = merge(base; X, Y)
LawNeutral3(base, a, b) ==
  /\ ConflictKeys(base, <<a, b, base>>) = ConflictKeys(base, <<a, b>>)
  /\ Result(base, <<a, b, base>>) = Result(base, <<a, b>>)

Laws == /\ phase = "pick" => LawIdentity(Base(kpos), x) /\ LawIdempotent(Base(kpos), x)
        /\ phase \in {"done", "pick3"} => LawOrder(Base(kpos), x, y) /\ LawNeutral3(Base(kpos), x, y)
        /\ phase = "done3" => LawOrder3(Base(kpos), x, y, z)
=============================================================================
