----------------------------- MODULE TracePrune -----------------------------
(***************************************************************************)
(* Use (C) of Prune: repositories built for real by the harness (seeded,   *)
(* 10-30 commits, tables that genuinely share 255-row blocks, refs of      *)
(* every kind, refs created and deleted again, absent tables = shallow     *)
(* commits, left-over objects) are pruned twice by the REAL code           *)
(* (prune.Prune, `wrgl prune`, `wrgl gc`); the projected object store      *)
(* before and after each run is recorded.  A trace is accepted iff every   *)
(* recorded result is one the statement (Prune.tla part 1: Must / MustNot) *)
(* admits, the repeated prune changes nothing, nothing crashed and every   *)
(* commit that still has its table could be re-read in full.               *)
(*                                                                         *)
(* Lines:  reset | repo {n, par, tab, blk, kv, refs, objs} | prune {objs,  *)
(* crashed, unus}.  A ref is <<kind, commit, state>>; state 1 = exists,    *)
(* 0 = deleted again, 2 = ref of an in-progress transaction older than the *)
(* transaction TTL (gc discards that transaction first, prune does not),   *)
(* 3 = ref of an in-progress transaction older than the DEFAULT TTL but    *)
(* younger than the TTL the repository / the user configured: a root.      *)
(*                                                                         *)
(* Named deviation (constant KnownDeviations, DESIGN.md 4): with "shallow" *)
(* a run that crashed / kept an unrelated table because a surviving commit *)
(* is shallow is consumed by DevCrash / DevKeep, which print a DEV line so *)
(* the driver reports it as a (known) finding, and validation goes on.     *)
(***************************************************************************)
EXTENDS Prune, TraceBase

VARIABLE l
tvars == <<vars, l>>

Ev == TLog[l]
Range(s) == {s[i] : i \in 1..Len(s)}

ObjsOf(o) == [c |-> Range(o.c), t |-> Range(o.t), ti |-> Range(o.ti),
              p |-> Range(o.p), b |-> Range(o.b), bi |-> Range(o.bi)]

RootsOf(e) == {r[2] : r \in {q \in Range(e.refs) : q[3] \in {1, 3} \/ (q[3] = 2 /\ e.mode # "gc")}}

RepoOf(e) == [n     |-> e.n,
              par   |-> [x \in 1..e.n |-> Range(e.par[x])],
              tab   |-> [x \in 1..e.n |-> e.tab[x]],
              blk   |-> [u \in 1..Len(e.blk) |-> Range(e.blk[u])],
              bix   |-> [u \in 1..Len(e.blk) |-> {y + 100 * e.kv[u] : y \in Range(e.blk[u])}],
              roots |-> RootsOf(e)]

NoRepo == [n |-> 0, par |-> <<>>, tab |-> <<>>, blk |-> <<>>, bix |-> <<>>, roots |-> {}]

Unused == /\ UNCHANGED <<s0, s1, pc, live, keepB, keepBI, crashed>>

(* run: 0 = nothing yet, 1 = repository built, 2 = st is the result of a prune *)
TReset == /\ Ev.op = "reset"
          /\ R' = NoRepo /\ st' = NoObjs /\ run' = 0
          /\ Unused

TRepo == /\ Ev.op = "repo"
         /\ R' = RepoOf(Ev) /\ st' = ObjsOf(Ev.objs) /\ run' = 1
         /\ Unused

Idem(after) == run = 2 => after = st        \* Prune o Prune = Prune

TPrune == /\ Ev.op = "prune" /\ run \in {1, 2}
          /\ LET after == ObjsOf(Ev.objs) IN
             /\ ~Ev.crashed
             /\ Ev.unus = ""
             /\ Len(Ev.unknown) = 0
             /\ Ok(R, st, after)
             /\ Idem(after)
             /\ st' = after /\ run' = 2
          /\ UNCHANGED R /\ Unused

Dev(kind) == PrintT(<<"SCN", ToJson([dev |-> kind, line |-> l])>>)

DevCrash == /\ "shallow" \in KnownDeviations
            /\ Ev.op = "prune" /\ run \in {1, 2}
            /\ Ev.crashed
            /\ AbsentLiveT(R, st) # {}
            /\ ObjsOf(Ev.objs) = st            \* it died before deleting anything
            /\ Dev("crash")
            /\ UNCHANGED <<R, st, run>> /\ Unused

DevKeep == /\ "shallow" \in KnownDeviations
           /\ Ev.op = "prune" /\ run \in {1, 2}
           /\ LET after == ObjsOf(Ev.objs) IN
              /\ ~Ev.crashed
              /\ Ev.unus = ""
              /\ Len(Ev.unknown) = 0
              /\ ~Ok(R, st, after)
              /\ (\E W \in SUBSET st.t : OkDev(R, st, after, W)) = TRUE   \* a value, not a branching
              /\ Idem(after)
              /\ Dev("keep")
              /\ st' = after /\ run' = 2
           /\ UNCHANGED R /\ Unused

TInit == /\ R = NoRepo /\ s0 = NoObjs /\ s1 = NoObjs /\ st = NoObjs
         /\ pc = "trace" /\ run = 0 /\ live = {} /\ keepB = {} /\ keepBI = {} /\ crashed = FALSE
         /\ l = 1
TNext == /\ l <= Len(TLog)
         /\ l' = l + 1
         /\ (TReset \/ TRepo \/ TPrune \/ DevCrash \/ DevKeep)
TSpec == TInit /\ [][TNext]_tvars

Constr == Mark(l)
=============================================================================
