------------------------------ MODULE CrashModel ------------------------------
(***************************************************************************)
(* Use (A) for C13: the design-level theorem.  An operation is a set of     *)
(* writes with a precedence relation holding only what safety needs; every  *)
(* linearization of that partial order is a behaviour, and a crash can      *)
(* happen between any two writes - so RepoConsistent is checked as an       *)
(* invariant of every reachable state.                                      *)
(*                                                                         *)
(* Universe: a new table T (blocks b1 b2, block indices i1 i2, table index, *)
(* profile), a new commit C on top of the existing commit C0 (table T0,     *)
(* complete), and the branch ref; for prune: the dead commits D1 <- D2 with *)
(* table TD (block b3 shared with nothing) next to the live C0.             *)
(* Order = "safe" is the precedence the property needs; "ingest-as-coded"   *)
(* (table before its table index) and "prune-as-coded" (commits deleted in  *)
(* hash order, i.e. any order) are the orders read off the code: TLC must   *)
(* find them violating the invariant (self-test, and the witness of the     *)
(* findings the trace validation reports on the real write sequences).      *)
(***************************************************************************)
EXTENDS Crash, TLC

CONSTANTS Op,      \* "commit" | "prune"
          Order    \* "safe" | "as-coded"

VARIABLES done, p, refs
vars == <<done, p, refs>>

\* ids: blocks 1 2 (new) 3 (dead) 9 (old); blkidx same ids; tables 1 (new) 2 (dead) 9 (old); commits 1 (new) 2 3 (dead, 3's parent is 2) 9 (old)
Meta == [tables  |-> [t \in {1, 2, 9} |-> IF t = 1 THEN [blocks |-> {1, 2}, blkidx |-> {1, 2}]
                                       ELSE IF t = 2 THEN [blocks |-> {3}, blkidx |-> {3}]
                                       ELSE [blocks |-> {9}, blkidx |-> {9}]],
         commits |-> [c \in {1, 2, 3, 9} |-> IF c = 1 THEN [table |-> 1, parents |-> {9}]
                                          ELSE IF c = 2 THEN [table |-> 2, parents |-> {}]
                                          ELSE IF c = 3 THEN [table |-> 2, parents |-> {2}]
                                          ELSE [table |-> 9, parents |-> {}]]]

W(kind, id, del) == <<kind, id, del>>
CommitWrites == {W("block", 1, FALSE), W("block", 2, FALSE), W("blkidx", 1, FALSE), W("blkidx", 2, FALSE),
                 W("tblidx", 1, FALSE), W("profile", 1, FALSE), W("table", 1, FALSE), W("commit", 1, FALSE), W("ref", 1, FALSE)}
PruneWrites  == {W("table", 2, TRUE), W("tblidx", 2, TRUE), W("profile", 2, TRUE), W("block", 3, TRUE), W("blkidx", 3, TRUE),
                 W("commit", 2, TRUE), W("commit", 3, TRUE)}
Writes == IF Op = "commit" THEN CommitWrites ELSE PruneWrites

\* a must precede b
SafeBefore(a, b) ==
  IF Op = "commit" THEN
       \/ a[1] \in {"block", "blkidx", "tblidx"} /\ b[1] = "table"
       \/ a[1] = "table" /\ b[1] = "commit"
       \/ a[1] = "commit" /\ b[1] = "ref"
  ELSE \/ a[1] = "table" /\ b[1] \in {"block", "blkidx", "tblidx"}      \* a block only after every table listing it
       \/ a = W("commit", 3, TRUE) /\ b = W("commit", 2, TRUE)           \* a commit only after its children
CodedBefore(a, b) ==
  IF Op = "commit" THEN
       \/ a[1] \in {"block", "blkidx"} /\ b[1] = "table"
       \/ a[1] = "table" /\ b[1] \in {"tblidx", "profile"}               \* ingest saves the table first
       \/ a[1] \in {"table", "tblidx", "profile"} /\ b[1] = "commit"
       \/ a[1] = "commit" /\ b[1] = "ref"
  ELSE \/ a[1] = "table" /\ b[1] \in {"tblidx", "profile", "block", "blkidx", "commit"}
       \/ a[1] = "tblidx" /\ b[1] = "profile"
       \/ a[1] \in {"block"} /\ b[1] \in {"blkidx", "commit"}
       \/ a[1] = "blkidx" /\ b[1] = "commit"                              \* commits last, in hash order = any order
Before(a, b) == IF Order = "safe" THEN SafeBefore(a, b) ELSE CodedBefore(a, b)

InitP == IF Op = "commit"
         THEN [blocks |-> {9}, blkidx |-> {9}, tables |-> {9}, tblidx |-> {9}, profiles |-> {9}, commits |-> {9}]
         ELSE [blocks |-> {3, 9}, blkidx |-> {3, 9}, tables |-> {2, 9}, tblidx |-> {2, 9}, profiles |-> {2, 9}, commits |-> {2, 3, 9}]
Init == done = {} /\ p = InitP /\ refs = [r \in {"heads/main"} |-> 9]

Write(w) == /\ w \in Writes \ done
            /\ \A a \in Writes : Before(a, w) => a \in done
            /\ done' = done \cup {w}
            /\ IF w[1] = "ref" THEN refs' = Put(refs, "heads/main", w[2]) /\ UNCHANGED p
               ELSE p' = Apply(p, w[1], w[2], w[3]) /\ UNCHANGED refs
Next == \E w \in Writes : Write(w)
Spec == Init /\ [][Next]_vars

Consistent == RepoConsistent(Meta, p, refs, {"heads/main"})
=============================================================================
