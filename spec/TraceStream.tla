---------------------------- MODULE TraceStream ----------------------------
(***************************************************************************)
(* Use (C) of Stream - a self-check of the HARNESS, not of wrgl: the       *)
(* scripted io.Reader of harness/internal/stream logs every call           *)
(* (requested, returned, eof) it answered while a real decoder was reading *)
(* from it.  A recorded log is accepted iff every answer                   *)
(*   - is allowed by the io.Reader contract (Stream!ReadResults), and      *)
(*   - is exactly the answer of the scenario's schedule                    *)
(*     (Stream!SchedResult: never across a cut, EOF with the last bytes    *)
(*     iff ewd),                                                           *)
(* and the final "end" line accounts for every delivered byte.  With that, *)
(* a decode that differs from the whole-buffer decode can only be the      *)
(* decoder's doing.  A rejection makes the check inconclusive (harness     *)
(* defect), never a verdict.                                               *)
(*                                                                         *)
(* Lines (every line has all fields):                                      *)
(*   {"op":"reset","total":T,"cuts":[..],"ewd":b,"req":0,"n":0,"eof":false}*)
(*   {"op":"read", ...,"req":r,"n":n,"eof":b}                              *)
(*   {"op":"end",  ...,"n":bytes delivered}                                *)
(***************************************************************************)
EXTENDS Stream, TraceBase

VARIABLES l, total, cuts, ewd
tvars == <<sp, pos, d, l, total, cuts, ewd>>

Ev == TLog[l]
ToSet(s) == {s[i] : i \in DOMAIN s}

TReset == /\ Ev.op = "reset"
          /\ Ev.total >= 0
          /\ ToSet(Ev.cuts) \subseteq 1..(Ev.total - 1)
          /\ total' = Ev.total /\ cuts' = ToSet(Ev.cuts) /\ ewd' = Ev.ewd /\ pos' = 0

TRead == /\ Ev.op = "read"
         /\ Ev.req >= 0
         /\ <<Ev.n, Ev.eof>> \in ReadResults(total, pos, Ev.req)
         /\ <<Ev.n, Ev.eof>> = SchedResult(total, cuts, ewd, pos, Ev.req)
         /\ pos' = pos + Ev.n
         /\ UNCHANGED <<total, cuts, ewd>>

TEnd == /\ Ev.op = "end"
        /\ Ev.n = pos
        /\ UNCHANGED <<pos, total, cuts, ewd>>

TInit == /\ sp = <<<<>>, 0>> /\ d = DecStart(<<>>, 0) /\ pos = 0
         /\ l = 1 /\ total = 0 /\ cuts = {} /\ ewd = FALSE
TNext == /\ l <= Len(TLog)
         /\ l' = l + 1
         /\ UNCHANGED <<sp, d>>
         /\ (TReset \/ TRead \/ TEnd)
TSpec == TInit /\ [][TNext]_tvars

Constr == Mark(l)
TInv == pos \in 0..total
=============================================================================
