---------------------------- MODULE NegotiateGen ----------------------------
(***************************************************************************)
(* Use (A)+(B) of Negotiate.                                               *)
(*                                                                         *)
(* Mode "enum": EVERY history with NMin..NC commits, commit i having <= 2  *)
(* parents among 1..i-1 (multiple roots, criss-cross merges), as initial   *)
(* states; the successors of a shape choose a clock (topological,          *)
(* reversed, all equal) and the commits the refs point at; their           *)
(* successors choose the want set and which commit, if any, lacks its      *)
(* table - so TLC's workers share the work and each scenario line is       *)
(* printed once.  A line carries, computed by the specification, what the  *)
(* clauses of the contract need (ancestor sets, reachable-from-refs,       *)
(* distance from the wants, the wants that must / may be refused, the work *)
(* bound; pw = PathWork only names the class of a work violation) and the  *)
(* negotiations to run on that history:                                    *)
(*   vs      the variants: sequences of rounds <<wants, haves, done>> -    *)
(*           one round with every have set over the commits and one        *)
(*           unknown hash, two rounds with the haves split between them,   *)
(*           two rounds with the wants split between them,                 *)
(*   ds      the depths to run each variant at,                            *)
(*   wc, dev the <<variant, depth>> pairs on which the code as written     *)
(*           (Part 3 of Negotiate) misses the table clause for some order  *)
(*           of the wants (model-level counterexamples, never a verdict).  *)
(* The invariant is use (A): the design of Negotiate meets the contract    *)
(* for every variant, depth, order of the haves (ascending / descending)   *)
(* and order of the wants.                                                 *)
(*                                                                         *)
(* Mode "ladder": histories of L levels of two commits, both having both   *)
(* commits of the level below as parents, under one tip (2L+1 commits; the *)
(* "cross" kind adds one root below the ladder); wants and haves chosen    *)
(* among tip, top pair, middle and bottom.  Exercises the work bound.      *)
(*                                                                         *)
(* SliceK, SliceM: only the lines whose content key is k modulo m (m = 1   *)
(* keeps everything) - used to sample the 5-commit universe.               *)
(***************************************************************************)
EXTENDS Negotiate, TLC, Json

CONSTANTS Mode,      \* "enum" | "ladder"
          NMin, NC,  \* enum: histories of NMin..NC commits
          RefMode,   \* "all": every non-empty set of commits; "some": the heads, and each single commit
          MaxW,      \* largest want set
          Rich,      \* TRUE: two-round variants with have sets of up to two hashes per round
          Depths,    \* the depths, e.g. {0, 1, 2}
          SliceK, SliceM,   \* the slice: k of m
          ClocksA,   \* the clocks under which use (A) is evaluated (and dev exported), e.g. {1, 2, 3}
          LMin, LMax, LStep   \* ladder: levels

VARIABLE s
vars == <<s>>

-----------------------------------------------------------------------------
(* histories                                                               *)

ParChoices(i) ==
       {<<>>}
  \cup {<<a>> : a \in 1..(i - 1)}
  \cup {<<x[1], x[2]>> : x \in {y \in (1..(i - 1)) \X (1..(i - 1)) : y[1] < y[2]}}

RECURSIVE ShapesUpTo(_)
ShapesUpTo(k) ==
  IF k = 0 THEN {<<>>} ELSE {Append(sh, c) : sh \in ShapesUpTo(k - 1), c \in ParChoices(k)}

Clock(n, ck) ==
  IF ck = 1 THEN [i \in 1..n |-> i]                \* topological
  ELSE IF ck = 2 THEN [i \in 1..n |-> n + 1 - i]   \* reversed: children older than parents
  ELSE [i \in 1..n |-> 1]                          \* all equal

HeadsOf(p) == {c \in 1..Len(p) : \A d \in 1..Len(p) : c \notin Range(p[d])}

RefChoices(p) ==
  IF RefMode = "all" THEN (SUBSET (1..Len(p))) \ {{}}
  ELSE {HeadsOf(p)} \cup {{c} : c \in 1..Len(p)}

(* ladder: levels 1..L bottom-up; level l holds commits base+2l-1, base+2l *)
Ladder(L, cross) ==
  LET base == IF cross THEN 1 ELSE 0
      n    == base + 2 * L + 1
  IN [c \in 1..n |->
        IF c <= base THEN <<>>
        ELSE IF c = n THEN <<n - 2, n - 1>>
        ELSE LET l == (c - base + 1) \div 2 IN
             IF l = 1 THEN (IF cross THEN <<1>> ELSE <<>>)
             ELSE <<base + 2 * l - 3, base + 2 * l - 2>>]

-----------------------------------------------------------------------------
(* negotiations to run on a history                                        *)

Unk(n) == n + 1
Small(S, k) == {T \in SUBSET S : Cardinality(T) \in 1..k}

Rd(w, h, d) == <<w, h, d>>          \* wants: sequence; haves: SET (the harness and Inv order it)

Variants(n, W) ==
  LET U  == 1..(n + 1)
      Ws == SetToSeq(W)
      k  == IF Rich THEN 2 ELSE 1
      one   == {<<Rd(Ws, H, d)>> : H \in SUBSET U, d \in BOOLEAN}
      two   == {<<Rd(Ws, H1, FALSE), Rd(<<>>, H2, d)>> :
                  H1 \in Small(U, k), H2 \in Small(U, k), d \in BOOLEAN}
      split == IF Cardinality(W) < 2 THEN {}
               ELSE {<<Rd(<<Head(Ws)>>, H1, FALSE), Rd(Tail(Ws), H2, d)>> :
                       H1 \in Small(U, 1) \cup {{}}, H2 \in Small(U, 1) \cup {{}}, d \in BOOLEAN}
  IN one \cup {v \in two : v[1][2] \cap v[2][2] = {}}
         \cup {v \in split : v[1][2] = {} \/ v[2][2] = {}}

(* when the wants are refused in the first round nothing else happens      *)
Trivial(W) == {<<Rd(SetToSeq(W), {}, TRUE)>>}

(* the order of the haves only matters when a round has two or more       *)
Orders(v) == IF \E i \in 1..Len(v) : Cardinality(v[i][2]) >= 2 THEN BOOLEAN ELSE {FALSE}

Rev(q) == [i \in 1..Len(q) |-> q[Len(q) + 1 - i]]
Input(g, full, refs, v, depth, desc) ==
  [g |-> g, full |-> full, refs |-> refs, depth |-> depth,
   rounds |-> [i \in 1..Len(v) |->
                 [w |-> v[i][1],
                  h |-> IF desc THEN Rev(SetToSeq(v[i][2])) ELSE SetToSeq(v[i][2]),
                  d |-> v[i][3]]]]

-----------------------------------------------------------------------------
(* state: st = 0 shape chosen; 1 clock and refs chosen; 2 complete         *)

G(x)    == [p |-> x.p, t |-> Clock(Len(x.p), x.ck)]
Full(x) == (1..Len(x.p)) \ {x.nf}

SumSeq(q) == LET RECURSIVE F(_)
                 F(i) == IF i = 0 THEN 0 ELSE q[i] + F(i - 1)
             IN F(Len(q))
Key(x) ==
  LET n == Len(x.p) IN
    SumSeq([i \in 1..n |-> i * (3 * Len(x.p[i]) + SumSeq(x.p[i]))])
  + 7 * x.ck + 11 * SumSeq(SetToSeq(x.refs)) + 13 * SumSeq(SetToSeq(x.W)) + 17 * x.nf
Kept(x) == Key(x) % SliceM = SliceK

Refused(x) ==
  LET A == AncMap(G(x)) IN \E w \in x.W : w \notin Reach(A, x.refs) \/ w \notin Full(x)

LadderVariants(x) ==
  LET n   == Len(x.p)
      mid == n \div 2
      Ws  == SetToSeq(x.W)
  IN {<<Rd(Ws, H, TRUE)>> : H \in {{}, {mid}, {mid, Unk(n)}}}
     \cup {<<Rd(Ws, {mid}, FALSE), Rd(<<>>, {1}, TRUE)>>, <<Rd(Ws, {}, FALSE)>>}

VariantsOf(x) == IF Refused(x) THEN Trivial(x.W)
                 ELSE IF Mode = "ladder" THEN LadderVariants(x)
                 ELSE Variants(Len(x.p), x.W)
DepthsOf(x)   == IF Refused(x) THEN {0} ELSE Depths

(* any enumeration of a finite set of tuples                               *)
RECURSIVE SetToSeq2(_)
SetToSeq2(S) == IF S = {} THEN <<>> ELSE LET e == CHOOSE e \in S : TRUE IN <<e>> \o SetToSeq2(S \ {e})

Export(x) ==
  LET g  == G(x)
      n  == Len(x.p)
      A  == AncMap(g)
      D  == DistMap(g, x.W)
      vs == SetToSeq2(VariantsOf(x))
      ds == SetToSeq(DepthsOf(x))
  IN [p |-> x.p, t |-> g.t, refs |-> x.refs, full |-> Full(x), w |-> x.W,
      anc |-> A, reach |-> Reach(A, x.refs), dist |-> [c \in 1..n |-> D[c]],
      must |-> {w \in x.W : w \notin Reach(A, x.refs)},
      may  |-> {w \in x.W : w \notin Reach(A, x.refs) \/ w \notin Full(x)},
      bound |-> Poly(n), vs |-> vs, ds |-> ds, fam |-> Mode,
      pw |-> PathWork(g, x.W),
      wc  |-> x.ck \in ClocksA,
      dev |-> {<<i, d>> \in (1..Len(vs)) \X DepthsOf(x) :
                 x.ck \in ClocksA /\ Cardinality(x.W) >= 2 /\ d > 0 /\
                 \E desc \in Orders(vs[i]) :
                    CodedMissesTablesWith(A, D, Input(g, Full(x), x.refs, vs[i], d, desc))}]

Blank(p) == [st |-> 0, p |-> p, ck |-> 0, refs |-> {}, W |-> {}, nf |-> 0]

(* the plain ladders run under the topological clock, the crossed ones     *)
(* with all times equal                                                    *)
LadderStates ==
  {[st |-> 1, p |-> Ladder(L, cross), ck |-> IF cross THEN 3 ELSE 1,
    refs |-> {2 * L + 1 + (IF cross THEN 1 ELSE 0)}, W |-> {}, nf |-> 0] :
     L \in {l \in LMin..LMax : (l - LMin) % LStep = 0}, cross \in BOOLEAN}

LadderWants(x) == LET n == Len(x.p) IN {{n}, {n, n - 1}, {n - 1, n - 2}}

Init == IF Mode = "enum" THEN s \in {Blank(p) : p \in UNION {ShapesUpTo(k) : k \in NMin..NC}}
        ELSE s \in LadderStates

Next ==
  \/ /\ s.st = 0
     /\ \E ck \in 1..3, R \in RefChoices(s.p) : s' = [s EXCEPT !.st = 1, !.ck = ck, !.refs = R]
  \/ /\ s.st = 1 /\ Mode = "enum"
     /\ \E W \in Small(1..Len(s.p), MaxW), nf \in 0..Len(s.p) :
          /\ nf = 0 \/ nf \in W        \* a missing table only matters on a want
          /\ s' = [s EXCEPT !.st = 2, !.W = W, !.nf = nf]
          /\ Kept(s')
          /\ PrintT(<<"SCN", ToJson(Export(s'))>>)
  \/ /\ s.st = 1 /\ Mode = "ladder"
     /\ \E W \in LadderWants(s) :
          /\ s' = [s EXCEPT !.st = 2, !.W = W]
          /\ PrintT(<<"SCN", ToJson(Export(s'))>>)

Spec == Init /\ [][Next]_vars

(* use (A)                                                                 *)
Inv ==
  (s.st = 2 /\ s.ck \in ClocksA) =>
    LET A == AncMap(G(s))
        D == DistMap(G(s), s.W)
    IN \A v \in VariantsOf(s), d \in DepthsOf(s) : \A desc \in Orders(v) :
         DesignOKWith(A, D, Input(G(s), Full(s), s.refs, v, d, desc))
=============================================================================
