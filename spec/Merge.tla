------------------------------- MODULE Merge -------------------------------
(***************************************************************************)
(* Three-way (N-way) merge of tables, property C05.                        *)
(*                                                                         *)
(* A version is  [cols |-> sequence of column names (layout; the key       *)
(* column "k" sits anywhere), rows |-> [key -> [col -> value]]]  where     *)
(* rows is a function on the set of present keys and every row is a        *)
(* function on the version's NON-KEY columns.  Column order is not part of *)
(* a version's value: results are compared by column name.                 *)
(*                                                                         *)
(* ORACLE (from the statement): one uniform cell-wise rule in which        *)
(* "absent" is a value.  V(v,k,c) is the cell if row and column exist in   *)
(* v, else Absent; the pseudo-cell P(v,k) carries row presence.  For every *)
(* key and column the merged value is the base value if no branch changed  *)
(* it, the changed value if exactly one distinct change was made, and a    *)
(* CONFLICT otherwise.  Row removal, row addition, column removal and      *)
(* column addition are all just changes of cells.                          *)
(***************************************************************************)
EXTENDS Integers, Sequences, FiniteSets

Absent  == -1        \* value of a cell that does not exist
Present == -2
Free    == -3        \* unconstrained cell of a result (see Result)

Range(s) == {s[i] : i \in 1..Len(s)}
ValCols(v) == Range(v.cols) \ {"k"}

V(v, k, c) == IF k \in DOMAIN v.rows /\ c \in ValCols(v) THEN v.rows[k][c] ELSE Absent
P(v, k)    == IF k \in DOMAIN v.rows THEN Present ELSE Absent

Keys(base, bs) == DOMAIN base.rows \cup UNION {DOMAIN bs[i].rows : i \in 1..Len(bs)}
Cols(base, bs) == ValCols(base) \cup UNION {ValCols(bs[i]) : i \in 1..Len(bs)}

\* the set of distinct changes made to one cell / to one row's presence
CellChanges(base, bs, k, c) == {V(bs[i], k, c) : i \in 1..Len(bs)} \ {V(base, k, c)}
PresChanges(base, bs, k)    == {P(bs[i], k) : i \in 1..Len(bs)} \ {P(base, k)}

\* columns of the result: base columns no branch removed, plus columns some branch added
ResCols(base, bs) ==
  {c \in Cols(base, bs) : \/ c \in ValCols(base) /\ \A i \in 1..Len(bs) : c \in ValCols(bs[i])
                          \/ c \notin ValCols(base)}

\* a key is conflicting if one of its cells, or its presence, received two different changes.
\* (A removed row makes every cell Absent in that branch, so "one branch removed the row,
\* another modified a cell" is two different changes of that cell.)
CellConflict(base, bs, k, c) == Cardinality(CellChanges(base, bs, k, c)) > 1
ConflictKeys(base, bs) ==
  {k \in Keys(base, bs) : \/ \E c \in Cols(base, bs) : CellConflict(base, bs, k, c)
                          \/ Cardinality(PresChanges(base, bs, k)) > 1}
ConflictCols(base, bs, k) == {c \in Cols(base, bs) : CellConflict(base, bs, k, c)}

MergedPresence(base, bs, k) ==
  LET ch == PresChanges(base, bs, k) IN IF ch = {} THEN P(base, k) ELSE CHOOSE z \in ch : TRUE

MergedCell(base, bs, k, c) ==
  LET ch == CellChanges(base, bs, k, c) IN IF ch = {} THEN V(base, k, c) ELSE CHOOSE z \in ch : TRUE

\* The statement is ambiguous where a ROW-level change meets a COLUMN-level change:
\*  (1) a base row removed by one branch while another branch that still has it changed its
\*      column set (added or removed a column): cell by cell there is one distinct change,
\*      yet "one removed a row another modified" can be read to apply;
\*  (2) a row ADDED by a branch carrying a value in a base column that another branch removed:
\*      the column is gone from the result, and reporting the row instead of silently dropping
\*      that value is at least as faithful to "never silently alters data".
\* For such keys both the cell-wise outcome and a reported conflict are accepted.
AmbiguousKeys(base, bs) ==
  {k \in Keys(base, bs) \ ConflictKeys(base, bs) :
     \/ /\ k \in DOMAIN base.rows
        /\ \E i \in 1..Len(bs) : k \notin DOMAIN bs[i].rows
        /\ \E i \in 1..Len(bs) : k \in DOMAIN bs[i].rows /\ ValCols(bs[i]) # ValCols(base)
     \/ /\ k \notin DOMAIN base.rows
        /\ \E c \in ValCols(base) : /\ \E i \in 1..Len(bs) : c \notin ValCols(bs[i])
                                     /\ \E j \in 1..Len(bs) : V(bs[j], k, c) # Absent}

\* A cell that comes out Absent inside a present row and a present column (a row added by a
\* branch that lacks a column another branch added) is unconstrained.
Result(base, bs) ==
  LET rc == ResCols(base, bs)
      ks == {k \in Keys(base, bs) : MergedPresence(base, bs, k) = Present /\ k \notin ConflictKeys(base, bs)}
  IN [cols |-> rc,
      rows |-> [k \in ks |-> [c \in rc |-> LET x == MergedCell(base, bs, k, c) IN IF x = Absent THEN Free ELSE x]]]

-----------------------------------------------------------------------------
(* laws the statement lists; checked by TLC over the enumerated universe *)

SameContent(a, b) == /\ ValCols(a) = ValCols(b) /\ DOMAIN a.rows = DOMAIN b.rows
                     /\ \A k \in DOMAIN a.rows : \A c \in ValCols(a) : a.rows[k][c] = b.rows[k][c]
AsVersion(r) == r   \* results carry cols as a set; compare through the predicates below

ResultIs(res, v) == /\ res.cols = ValCols(v) /\ DOMAIN res.rows = DOMAIN v.rows
                    /\ \A k \in DOMAIN v.rows : \A c \in ValCols(v) : res.rows[k][c] \in {v.rows[k][c], Free}

\* merge(base; X, base) = X    and    merge(base; X, X) = X
LawIdentity(base, x)   == ConflictKeys(base, <<x, base>>) = {} /\ ResultIs(Result(base, <<x, base>>), x)
LawIdempotent(base, x) == ConflictKeys(base, <<x, x>>) = {} /\ ResultIs(Result(base, <<x, x>>), x)
\* the outcome does not depend on the order in which the branches are listed
LawOrder(base, x, y) == /\ ConflictKeys(base, <<x, y>>) = ConflictKeys(base, <<y, x>>)
                        /\ Result(base, <<x, y>>) = Result(base, <<y, x>>)
-----------------------------------------------------------------------------
(* Tables WITHOUT a primary key: a row is its own key, so a version is a set of rows, every  *)
(* change is a removal or an addition of a whole row, and nothing can conflict:            *)
(* the merge is the base minus what some branch removed plus what some branch added.       *)
KeylessResult(baseRows, branchRows) ==
  (baseRows \ UNION {baseRows \ branchRows[i] : i \in 1..Len(branchRows)})
    \cup UNION {branchRows[i] \ baseRows : i \in 1..Len(branchRows)}
=============================================================================
