-------------------------------- MODULE Sync --------------------------------
(***************************************************************************)
(* Fetch, push and fast-forward merge between two repositories             *)
(* (properties C09, C10).                                                  *)
(*                                                                         *)
(* A repository is [refs: name -> commit, commits: set, tables: set]       *)
(* (tables = the commits whose table, with all its blocks, is present; a   *)
(* commit present without its table is a shallow commit).  `par` maps a    *)
(* commit to the set of its parents; ancestry is computed by the           *)
(* specification, never taken from the code.                               *)
(*                                                                         *)
(* The ref rules are written from the statements:                          *)
(*   an absent ref is created; an equal one is left alone; an existing tag *)
(*   is only replaced when forced; any other ref moves when the new value  *)
(*   descends from the old one (fast-forward) or when forced; otherwise    *)
(*   the update is rejected, the ref keeps its value, and the other refs   *)
(*   of the same operation are updated as if alone; every update that      *)
(*   happens is logged with the true old and new values.                   *)
(***************************************************************************)
EXTENDS Naturals, Sequences, FiniteSets

None == 0

RECURSIVE AncOf(_, _)
AncOf(par, c) == {c} \cup UNION {AncOf(par, p) : p \in par[c]}
IsAnc(par, a, b) == a \in AncOf(par, b)

StartsWith(n, p) == Len(p) <= Len(n) /\ SubSeq(n, 1, Len(p)) = p
IsTag(n) == StartsWith(n, "tags/")

Cur(refs, n) == IF n \in DOMAIN refs THEN refs[n] ELSE None
Put(f, k, v) == [x \in DOMAIN f \cup {k} |-> IF x = k THEN v ELSE f[x]]
Drop(f, k)   == [x \in DOMAIN f \ {k} |-> f[x]]

\* outcome of updating ref dst from old to new
Decide(par, old, new, dst, forced) ==
  IF old = None THEN "new"
  ELSE IF old = new THEN "same"
  ELSE IF IsTag(dst) THEN (IF forced THEN "forced" ELSE "rejected")
  ELSE IF IsAnc(par, old, new) THEN "ff"
  ELSE IF forced THEN "forced" ELSE "rejected"
Moves(outcome) == outcome \in {"new", "ff", "forced"}

\* shortest parent distance from a set of commits
RECURSIVE DistFrom(_, _, _, _)
DistFrom(par, frontier, c, d) ==
  IF c \in frontier THEN d
  ELSE IF frontier = {} \/ d > 12 THEN 99
  ELSE DistFrom(par, UNION {par[x] : x \in frontier}, c, d + 1)

-----------------------------------------------------------------------------
(* FETCH.  specs is a set of records [src, dst, force] (already expanded:   *)
(* one per ref), gforce the --force flag, depth the --depth flag.           *)

FetchItems(R, specs) == {s \in specs : s.src \in DOMAIN R.refs}
FetchOutcome(par, L, R, s, gforce) == Decide(par, Cur(L.refs, s.dst), R.refs[s.src], s.dst, gforce \/ s.force)

FetchWants(L, R, specs) == {R.refs[s.src] : s \in FetchItems(R, specs)} \ L.commits
FetchNewCommits(par, L, R, specs) == UNION {AncOf(par, w) : w \in FetchWants(L, R, specs)} \ L.commits
\* the tables that arrive: those of the new commits within depth of a want (all when depth = 0)
FetchNewTables(par, L, R, specs, depth) ==
  {c \in FetchNewCommits(par, L, R, specs) : depth = 0 \/ DistFrom(par, FetchWants(L, R, specs), c, 0) < depth}

\* tags of the remote that no spec covers are followed when their commit is (or becomes) present
\* IN FULL (a ref is never created on a commit whose table is missing)
FollowedTags(par, L, R, specs, depth) ==
  {n \in DOMAIN R.refs : /\ IsTag(n) /\ n \notin DOMAIN L.refs
                         /\ ~\E s \in specs : s.src = n
                         /\ R.refs[n] \in L.commits \cup FetchNewCommits(par, L, R, specs)
                         /\ R.refs[n] \in L.tables \cup FetchNewTables(par, L, R, specs, depth)}

FetchRefs(par, L, R, specs, gforce, depth) ==
  LET items == FetchItems(R, specs)
      moved == {s \in items : Moves(FetchOutcome(par, L, R, s, gforce))}
      tags  == FollowedTags(par, L, R, specs, depth)
  IN [n \in DOMAIN L.refs \cup {s.dst : s \in moved} \cup tags |->
        IF \E s \in moved : s.dst = n THEN R.refs[(CHOOSE s \in moved : s.dst = n).src]
        ELSE IF n \in tags /\ n \notin DOMAIN L.refs THEN R.refs[n]
        ELSE L.refs[n]]
FetchRejected(par, L, R, specs, gforce) ==
  {s.dst : s \in {s \in FetchItems(R, specs) : FetchOutcome(par, L, R, s, gforce) = "rejected"}}

-----------------------------------------------------------------------------
(* PUSH.  specs: [src (local ref, "" = delete), dst (remote ref), force].   *)

PushValue(L, s) == IF s.src = "" THEN None ELSE Cur(L.refs, s.src)
PushOutcome(par, L, R, s, gforce) ==
  LET old == Cur(R.refs, s.dst) new == PushValue(L, s) IN
  IF new = None THEN (IF old = None THEN "same" ELSE "deleted")
  ELSE Decide(par, old, new, s.dst, gforce \/ s.force)
PushRefs(par, L, R, specs, gforce) ==
  LET moved == {s \in specs : Moves(PushOutcome(par, L, R, s, gforce))}
      dels  == {s.dst : s \in {s \in specs : PushOutcome(par, L, R, s, gforce) = "deleted"}}
  IN [n \in (DOMAIN R.refs \cup {s.dst : s \in moved}) \ dels |->
        IF \E s \in moved : s.dst = n THEN PushValue(L, CHOOSE s \in moved : s.dst = n) ELSE R.refs[n]]
PushRejected(par, L, R, specs, gforce) ==
  {s.dst : s \in {s \in specs : PushOutcome(par, L, R, s, gforce) = "rejected"}}

-----------------------------------------------------------------------------
(* MERGE of branch `other` into branch `main` as far as refs are concerned  *)
(* (C10): a fast-forward moves the branch EXACTLY to the other commit;      *)
(* --ff-only rejects a merge that is not a fast-forward; --no-ff always     *)
(* creates a merge commit - also when `other` is already contained in       *)
(* `main`, which the statement does not forbid: the new commit descends     *)
(* from main (MergeCommit stands for "a new commit whose parents are main   *)
(* and other and whose table is that of the descendant of the two").        *)
MergeCommit == 98
MergeOutcome(par, a, b, mode) ==
  IF a = b THEN "up-to-date"
  ELSE IF IsAnc(par, b, a) THEN (IF mode = "noff" THEN "merge-commit" ELSE "up-to-date")
  ELSE IF IsAnc(par, a, b) THEN (IF mode = "noff" THEN "merge-commit" ELSE "ff")
  ELSE IF mode = "ffonly" THEN "rejected" ELSE "real-merge"
MergeRefs(par, refs, main, other, mode) ==
  LET o == MergeOutcome(par, refs[main], refs[other], mode) IN
  IF o = "ff" THEN Put(refs, main, refs[other])
  ELSE IF o = "merge-commit" THEN Put(refs, main, MergeCommit)
  ELSE refs

-----------------------------------------------------------------------------
(* What the statements demand of the repository that received (C09).        *)

\* every created or moved ref points at a commit whose whole ancestry is present, with
\* the tables of the commits within depth of it (all of them when depth = 0)
HistoryComplete(par, before, after, depth) ==
  \A n \in DOMAIN after.refs :
    (Cur(before.refs, n) # after.refs[n]) =>
      /\ AncOf(par, after.refs[n]) \subseteq after.commits
      /\ \A c \in AncOf(par, after.refs[n]) :
           (depth = 0 \/ DistFrom(par, {after.refs[n]}, c, 0) < depth) => c \in after.tables

\* nothing the receiver had is lost
Monotone(before, after) == before.commits \subseteq after.commits /\ before.tables \subseteq after.tables

\* C10 on one observed transition of a ref map: every ref that changed either was forced,
\* or moved forward along its own history, and no existing tag changed without force
RefsForward(par, before, after, forcedNames) ==
  \A n \in DOMAIN before \cap DOMAIN after :
    before[n] # after[n] => \/ n \in forcedNames
                            \/ ~IsTag(n) /\ IsAnc(par, before[n], after[n])

\* the log entries written by the operation are exactly the moves, with true old and new
LogFaithful(before, after, entries) ==
  /\ \A e \in entries : /\ e[1] \in DOMAIN after /\ after[e[1]] = e[3]
                        /\ Cur(before, e[1]) = e[2]
  /\ \A n \in DOMAIN after : Cur(before, n) # after[n] => \E e \in entries : e[1] = n
=============================================================================
