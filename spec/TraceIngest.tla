----------------------------- MODULE TraceIngest -----------------------------
(***************************************************************************)
(* Use (C) for C01/C02: each "ingest" line is one REAL ingest of a         *)
(* generated CSV at real scale (255-row blocks, any run size / delimiter / *)
(* worker count), projected to abstract ids:                               *)
(*   inkeys[i]  rank of input row i's key (byte order of the key tuple)    *)
(*   inids[i]   index of the first input row identical to row i            *)
(*   out        stored rows in table order as ids of identical input rows  *)
(*              (-1 = equals no input row: altered, truncated, invented)   *)
(* The line is accepted iff the stored rows are Lossless for the input     *)
(* (Ingest.tla's contract stated on ranks) and the table identifier is a   *)
(* function of the logical content and injective on it (C02): sumOf and    *)
(* cidOf remember every (content id, table sum) pair seen since "reset".   *)
(***************************************************************************)
EXTENDS Integers, Sequences, FiniteSets, TraceBase

VARIABLES l, sumOf, cidOf
vars == <<l, sumOf, cidOf>>
Ev == TLog[l]

Range(s) == {s[i] : i \in 1..Len(s)}
KeyOfId(e, id) == e.inkeys[id + 1]     \* ids are 0-based indices of input rows

Lossless(e) ==
  /\ \A i \in 1..Len(e.out) : e.out[i] >= 0 /\ e.out[i] < Len(e.inkeys)
  /\ \A i \in 1..(Len(e.out) - 1) : KeyOfId(e, e.out[i]) < KeyOfId(e, e.out[i + 1])
  /\ {KeyOfId(e, e.out[i]) : i \in 1..Len(e.out)} = Range(e.inkeys)
  /\ e.rows = Len(e.out)
  /\ e.unique => Range(e.out) = Range(e.inids)

\* a cell over the limit is refused with an error, never stored
Refused(e) == e.err # "" /\ e.sum = ""

Put(f, k, v) == [x \in DOMAIN f \cup {k} |-> IF x = k THEN v ELSE f[x]]

\* C02 speaks about inputs with unique keys (with duplicate keys the surviving row, hence
\* the table, may legitimately depend on the order of the file)
Functional(e) == (e.unique /\ e.cid \in DOMAIN sumOf) => sumOf[e.cid] = e.sum   \* identity is a function of content
Injective(e)  == (e.unique /\ e.sum \in DOMAIN cidOf) => cidOf[e.sum] = e.cid   \* different content, different identity

\* the clause that fails first, printed for the driver's signature ("ok" if none)
Broken(e) ==
  IF e.oversize THEN (IF Refused(e) THEN "ok" ELSE "oversize-not-refused")
  ELSE IF e.err # "" THEN "error"
  ELSE IF ~Lossless(e) THEN "lossless"
  ELSE IF ~Functional(e) THEN "identity-not-functional"
  ELSE IF ~Injective(e) THEN "identity-not-injective"
  ELSE "ok"

TIngest ==
  /\ Ev.op = "ingest"
  /\ \/ Broken(Ev) = "ok"
     \/ Broken(Ev) # "ok" /\ PrintT(<<"BROKEN", l, Broken(Ev)>>) /\ FALSE
  /\ IF Ev.oversize \/ ~Ev.unique THEN UNCHANGED <<sumOf, cidOf>>
     ELSE /\ sumOf' = Put(sumOf, Ev.cid, Ev.sum)
          /\ cidOf' = Put(cidOf, Ev.sum, Ev.cid)

\* re-committing through the command line: unchanged content is detected as "no change"
\* (no new commit), changed content creates a commit
TRecommit == /\ Ev.op = "recommit"
             /\ \/ Ev.err = "" /\ Ev.newcommit = ~Ev.samecontent
                \/ /\ ~(Ev.err = "" /\ Ev.newcommit = ~Ev.samecontent)
                   /\ PrintT(<<"BROKEN", l, IF Ev.err # "" THEN "cli-error" ELSE "recommit-" \o Ev.step>>)
                   /\ FALSE
             /\ UNCHANGED <<sumOf, cidOf>>

TReset == Ev.op = "reset" /\ sumOf' = <<>> /\ cidOf' = <<>>

Init == l = 1 /\ sumOf = <<>> /\ cidOf = <<>>
Next == /\ l <= Len(TLog)
        /\ l' = l + 1
        /\ (TReset \/ TIngest \/ TRecommit)
Spec == Init /\ [][Next]_vars
Constr == Mark(l)
=============================================================================
