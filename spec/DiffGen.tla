------------------------------ MODULE DiffGen ------------------------------
(***************************************************************************)
(* Uses (A) and (B) of Diff.  Every pair of tables over the keys 1..N with *)
(* content ids 0..2 is ONE initial state (there is no interleaving to      *)
(* explore: the diff is a function of its two inputs).                     *)
(*                                                                         *)
(* (A) the invariant DesignOK is the model-level theorem: for every pair   *)
(*     the events computed through the block windows equal the             *)
(*     set-theoretic diff, Diff(t,t) = {}, Diff(t2,t1) = Swap(Diff(t1,t2)),*)
(*     and every window is in bounds.                                      *)
(* (B) every pair is printed as one scenario line                          *)
(*        <<B, t1, t2, expected events {<<kind,key>>}, nopk>>              *)
(*     which the harness builds at real scale (every abstract key stands   *)
(*     for S = 255 / B real keys, so the real 255-row blocks are           *)
(*     isomorphic to the model's B-row blocks) and runs through the real   *)
(*     diff.  nopk = 1 when the pair is also a pair of no-PK tables (no    *)
(*     content id other than 1).                                           *)
(*                                                                         *)
(* The universe can be cut into slices that run as separate TLC processes: *)
(* only pairs with t1[1] \in Fix1 and t2[1] \in Fix2 are generated.        *)
(***************************************************************************)
EXTENDS Diff, TLC, Json

CONSTANTS N,      \* number of abstract keys
          B,      \* rows per model block; must divide 255
          Fix1,   \* allowed content ids of key 1 in t1 (slice; 0..2 = everything)
          Fix2    \* allowed content ids of key 1 in t2

ASSUME 255 % B = 0

VARIABLES t1, t2
vars == <<t1, t2>>

Tables == [1..N -> 0..2]

NoPK(t) == \A k \in DOMAIN t : t[k] \in {0, 1}

Scn == <<B, t1, t2, ExpectedKK(t1, t2), IF NoPK(t1) /\ NoPK(t2) THEN 1 ELSE 0>>

Init == /\ t1 \in Tables
        /\ t2 \in Tables
        /\ t1[1] \in Fix1
        /\ t2[1] \in Fix2
        /\ PrintT(<<"SCN", ToJson(Scn)>>)

Next == UNCHANGED vars

Spec == Init /\ [][Next]_vars

DesignOK == DesignCorrect(t1, t2, B)
=============================================================================
