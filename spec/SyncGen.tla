------------------------------- MODULE SyncGen -------------------------------
(***************************************************************************)
(* Use (A)+(B) of Sync: scenarios over a fixed history                      *)
(*      1 <- 2 <- 3 <- 4        (one side's line)                           *)
(*           2 <- 5 <- 6        (the other side's line, diverging at 2)     *)
(*      7                       (an unrelated root)                         *)
(* so that a ref pair can be equal, ahead, behind, diverged or unrelated.   *)
(* A scenario = the value of the branch and of a tag on either side, the    *)
(* refspecs with their force flags, the global force flag and the depth;    *)
(* TLC exports the receiver's expected ref map and the rejected refs, and   *)
(* checks on the model that the rules move refs only forward without force. *)
(***************************************************************************)
EXTENDS Sync, TLC, Json

CONSTANTS Ops, BranchSrc, BranchDst, TagSrc, TagDst, Depths, TagSpecs,
          TwinDst    \* values of a SECOND branch on the receiving side whose counterpart on the sending side
                     \* points at the very commit of the first (None: no second branch): two refs of one
                     \* operation that receive the same commit are still judged one by one

VARIABLES op, bs, bd, ts, td, f1, tspec, gforce, depth, phase, tw
vars == <<op, bs, bd, ts, td, f1, tspec, gforce, depth, phase, tw>>

Par == [c \in 1..7 |-> CASE c = 1 -> {} [] c = 2 -> {1} [] c = 3 -> {2} [] c = 4 -> {3}
                         [] c = 5 -> {2} [] c = 6 -> {5} [] c = 7 -> {}]
Closure(S) == UNION {AncOf(Par, c) : c \in S \ {None}}

\* sender side holds srcBranch / srcTag; receiver side holds dstBranch / dstTag
MkRefs(pairs) == [n \in {p[1] : p \in {q \in pairs : q[2] # None}} |-> (CHOOSE p \in pairs : p[1] = n)[2]]

\* fetch: remote (sender) heads/main, tags/v1  ->  local remotes/origin/main, tags/v1
\* push : local (sender) heads/main, tags/v1   ->  remote heads/main, tags/v1
Twin == tw # None
\* (the twin sorts AFTER main on both sides: "heads/main" < "heads/twin")
SenderRefs == MkRefs({<<"heads/main", bs>>, <<"tags/v1", ts>>, <<"heads/twin", IF Twin THEN bs ELSE None>>})
RecvRefs == IF op = "merge" THEN MkRefs({<<"heads/main", bd>>, <<"heads/other", bs>>})
            ELSE IF op = "fetch" THEN MkRefs({<<"remotes/origin/main", bd>>, <<"tags/v1", td>>, <<"heads/local", 1>>,
                                              <<"remotes/origin/twin", tw>>})
            ELSE MkRefs({<<"heads/main", bd>>, <<"tags/v1", td>>, <<"heads/other", 1>>, <<"heads/twin", tw>>})
Repo(refs) == [refs |-> refs, commits |-> Closure({refs[n] : n \in DOMAIN refs}),
               tables |-> Closure({refs[n] : n \in DOMAIN refs})]
Sender == Repo(SenderRefs)
Receiver == Repo(RecvRefs)

Specs ==
  {[src |-> "heads/main", dst |-> IF op = "fetch" THEN "remotes/origin/main" ELSE "heads/main", force |-> f1]}
  \* "cross": the tag on the receiving side is fed from the BRANCH of the sending side (what counts is what the
  \* destination is: an existing tag is not replaced without force, whatever the source is called)
  \cup (IF tspec = "none" THEN {}
        ELSE IF tspec = "cross" THEN {[src |-> "heads/main", dst |-> "tags/v1", force |-> FALSE]}
        \* "fold": a second refspec maps ANOTHER ref of the sending side (its tag) onto the destination of the first.
        \* Which of the two the destination gets is not fixed by any statement (Export.either lists both); that
        \* it ends on a commit whose history is complete (C09) is
        ELSE IF tspec = "fold" THEN {[src |-> "tags/v1", dst |-> "remotes/origin/main", force |-> FALSE]}
        ELSE {[src |-> "tags/v1", dst |-> "tags/v1", force |-> tspec = "force"]})
  \cup (IF Twin THEN {[src |-> "heads/twin", dst |-> IF op = "fetch" THEN "remotes/origin/twin" ELSE "heads/twin", force |-> FALSE]}
        ELSE {})

ExpectRefs == IF op = "merge" THEN MergeRefs(Par, RecvRefs, "heads/main", "heads/other", tspec)
              ELSE IF op = "fetch" THEN FetchRefs(Par, Receiver, Sender, Specs, gforce, depth)
              ELSE PushRefs(Par, Sender, Receiver, Specs, gforce)
ExpectRejected == IF op = "merge" THEN (IF MergeOutcome(Par, bd, bs, tspec) = "rejected" THEN {"heads/main"} ELSE {})
                  ELSE IF op = "fetch" THEN FetchRejected(Par, Receiver, Sender, Specs, gforce)
                  ELSE PushRejected(Par, Sender, Receiver, Specs, gforce)

Pairs(f) == {<<n, f[n]>> : n \in DOMAIN f}
Export == [op |-> op,
           par |-> {<<c, Par[c]>> : c \in 1..7},
           sender |-> Pairs(SenderRefs), receiver |-> Pairs(RecvRefs),
           specs |-> IF op = "merge" THEN {<<"heads/other", "heads/main", FALSE>>} ELSE {<<s.src, s.dst, s.force>> : s \in Specs},
           mode |-> tspec,
           gforce |-> gforce, depth |-> depth, twin |-> tw,
           either |-> IF tspec = "fold" THEN {<<"remotes/origin/main", {bs, ts}>>} ELSE {},
           refs |-> Pairs(ExpectRefs), rejected |-> ExpectRejected]

Init == /\ op \in Ops /\ bs \in BranchSrc /\ bd \in BranchDst /\ f1 \in BOOLEAN /\ gforce \in BOOLEAN
        /\ ts = None /\ td = None /\ tspec = "none" /\ depth = 0 /\ phase = "pick" /\ tw = None
MergeNext == /\ op = "merge" /\ phase = "pick" /\ phase' = "done"
             /\ bd # None /\ ~f1 /\ ~gforce
             /\ tspec' \in {"default", "ffonly", "noff"}
             /\ MergeOutcome(Par, bd, bs, tspec') # "real-merge"     \* a real merge needs the merge UI: covered by C05
             /\ UNCHANGED <<op, bs, bd, f1, gforce, ts, td, depth, tw>>
             /\ PrintT(<<"SCN", ToJson(Export')>>)
Next == MergeNext \/
        /\ op # "merge"
        /\ phase = "pick" /\ phase' = "done"
        /\ ts' \in TagSrc /\ td' \in TagDst /\ tspec' \in TagSpecs
        /\ depth' \in (IF op = "fetch" THEN Depths ELSE {0})
        /\ (op = "push" /\ ts' = None) => tspec' \in {"none", "cross"}   \* pushing a ref one does not have is a usage error
        \* (with "cross" the sending side has no tag of that name: two sources for one destination is not a case
        \*  the statement speaks about)
        /\ tspec' = "cross" => ts' = None
        /\ tspec' = "fold" => op = "fetch" /\ ts' # None /\ td' = None /\ bd = None /\ depth' = 0 /\ ts' # bs
        \* the second branch only where no tag is involved (keeps the universe small)
        /\ tw' \in (IF ts' = None /\ td' = None /\ tspec' = "none" THEN TwinDst ELSE {None})
        /\ UNCHANGED <<op, bs, bd, f1, gforce>>
        /\ PrintT(<<"SCN", ToJson(Export')>>)
Spec == Init /\ [][Next]_vars

\* model-level check of the rules: without any force, refs only move forward and tags never change
ForcedNames == {s.dst : s \in {s \in Specs : gforce \/ s.force}}
RulesForward == (phase = "done" /\ op # "merge") => RefsForward(Par, RecvRefs, [n \in DOMAIN ExpectRefs \cap DOMAIN RecvRefs |-> ExpectRefs[n]], ForcedNames)
RejectionIsLocal == phase = "done" => \A n \in ExpectRejected : Cur(ExpectRefs, n) = Cur(RecvRefs, n)
=============================================================================
