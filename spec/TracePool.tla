------------------------------ MODULE TracePool ------------------------------
(***************************************************************************)
(* Use (C) for C16: a REAL multi-worker ingest, recorded through the verif *)
(* hooks of pkg/ingest/inserter.go with one global sequence (events are    *)
(* appended under the recorder's lock, the enter/leave hooks sit inside    *)
(* the inserter's critical section), is accepted iff it is a behaviour of  *)
(* the worker pool of IngestPool.tla projected on what the hooks log:      *)
(*                                                                         *)
(*   take(off)        a worker received block off      (IngestPool!Take)   *)
(*   enter(tok)       a worker entered the publish critical section        *)
(*   leave(tok)       ... and left it            (IngestPool!LockP/Publish)*)
(*   published(off,n) the block was appended to the shared list            *)
(*   final            the caller returned         (IngestPool!Assemble /   *)
(*                                                 ReadErr)                *)
(*                                                                         *)
(* Worker identities and the channel contents are not logged; what is      *)
(* checked in every state is the projection of IngestPool's invariants:    *)
(* MutualExclusion (no enter while another token holds the section), no    *)
(* block taken or published twice, nothing published that was not taken,   *)
(* and at the end NoLoss (every block published, row count = sum of the    *)
(* published rows, table identical to the one-worker table) and            *)
(* ErrorReported (an injected store failure makes the call return an       *)
(* error; no error without a failure).                                     *)
(***************************************************************************)
EXTENDS Integers, Sequences, FiniteSets, TraceBase

VARIABLES l, holder, taken, published, count
vars == <<l, holder, taken, published, count>>
Ev == TLog[l]

Bad(what) == PrintT(<<"BROKEN", l, what>>) /\ FALSE

TReset == /\ Ev.op = "reset"
          /\ holder' = 0 /\ taken' = {} /\ published' = {} /\ count' = 0

TTake == /\ Ev.op = "take"
         /\ \/ Ev.off \notin taken
            \/ Ev.off \in taken /\ Bad("block-taken-twice")
         /\ taken' = taken \cup {Ev.off}
         /\ UNCHANGED <<holder, published, count>>

TEnter == /\ Ev.op = "enter"
          /\ \/ holder = 0
             \/ holder # 0 /\ Bad("mutual-exclusion")
          /\ holder' = Ev.tok
          /\ UNCHANGED <<taken, published, count>>

TLeave == /\ Ev.op = "leave"
          /\ \/ holder = Ev.tok
             \/ holder # Ev.tok /\ Bad("mutual-exclusion")
          /\ holder' = 0
          /\ UNCHANGED <<taken, published, count>>

TPublished == /\ Ev.op = "published"
              /\ \/ Ev.off \in taken /\ Ev.off \notin published
                 \/ ~(Ev.off \in taken /\ Ev.off \notin published) /\ Bad("block-published-twice-or-untaken")
              /\ published' = published \cup {Ev.off}
              /\ count' = count + Ev.rows
              /\ UNCHANGED <<holder, taken>>

FinalClause(e) ==
  IF e.fault /\ ~e.err THEN "failure-not-reported"
  ELSE IF e.err /\ ~e.fault THEN "error-without-failure"
  ELSE IF e.err THEN "ok"
  ELSE IF holder # 0 THEN "mutual-exclusion"
  ELSE IF published # taken THEN "block-lost"
  ELSE IF e.nblocks # Cardinality(published) THEN "block-lost"
  ELSE IF e.rows # count THEN "row-count"
  ELSE IF ~e.same THEN "differs-from-sequential"
  ELSE "ok"

TFinal == /\ Ev.op = "final"
          /\ \/ FinalClause(Ev) = "ok"
             \/ FinalClause(Ev) # "ok" /\ Bad(FinalClause(Ev))
          /\ UNCHANGED <<holder, taken, published, count>>

Init == l = 1 /\ holder = 0 /\ taken = {} /\ published = {} /\ count = 0
Next == /\ l <= Len(TLog)
        /\ l' = l + 1
        /\ (TReset \/ TTake \/ TEnter \/ TLeave \/ TPublished \/ TFinal)
Spec == Init /\ [][Next]_vars
Constr == Mark(l)
=============================================================================
