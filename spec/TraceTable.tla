----------------------------- MODULE TraceTable -----------------------------
(***************************************************************************)
(* Use (C) for C03: every line of the trace is the projection of one table *)
(* that some producer (ingest, merge, receive, doctor) really stored; the  *)
(* line is accepted iff Objects!TableWellFormed holds for it with B = 255. *)
(* On rejection the clause that failed is printed (BROKEN line).           *)
(***************************************************************************)
EXTENDS Objects, TraceBase

CONSTANT B
VARIABLE l
Ev == TLog[l]

\* a broken table is reported (BROKEN line, counted in TLC register 2) and the trace
\* continues, so one run judges every table
Judge(e) == \/ TableWellFormed(e, B)
            \/ /\ ~TableWellFormed(e, B)
               /\ PrintT(<<"BROKEN", l, FirstBroken(e, B)>>)
               /\ TLCSet(2, TLCGetOrDefault(2, 0) + 1)

Init == l = 1
Next == /\ l <= Len(TLog)
        /\ \/ Ev.op = "reset"
           \/ Ev.op = "tableobs" /\ Judge(Ev)
        /\ l' = l + 1
Spec == Init /\ [][Next]_l
Constr == Mark(l)
AllSound == Accepted /\ TLCGetOrDefault(2, 0) = 0
=============================================================================
