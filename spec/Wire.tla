-------------------------------- MODULE Wire --------------------------------
(***************************************************************************)
(* The on-disk / on-the-wire FORMAT of wrgl objects, as TLA+ operators     *)
(* over run-length bytes.  This module is the format definition: every     *)
(* Enc... operator says which bytes an abstract value is written as, every *)
(* Dec... operator is the total inverse (Ok(value) or Err for ANY byte     *)
(* string).  Engines: wire (C06: round trip + content addressing),         *)
(* C17 (hostile bytes; uses the total decoders and Segs... for structured  *)
(* mutation), C18 (stream chunking; uses Segs... for the field boundaries).*)
(*                                                                         *)
(* Conventions                                                             *)
(*  - Bytes: a sequence of runs <<byte, count>>, count >= 1, adjacent runs *)
(*    of different bytes (normal form; Cat keeps it, Normalize makes it).  *)
(*    A 70 000-byte cell is ONE run; all lengths are arithmetic.           *)
(*  - An abstract string / cell / hash sum IS a Bytes value.               *)
(*  - TLC integers are 32-bit: 32-bit fields >= 2^31 are saturated to      *)
(*    MaxInt by the decoders (U32At) and packfile lengths are Nums:        *)
(*    little-endian bit sequences without leading (high) zeros.            *)
(*  - Every object encoder is given as Segs<X>(v): the sequence of         *)
(*    segments <<tag, Bytes>> in stream order; Enc<X>(v) == Join(Segs<X>). *)
(*    Tags: "label" "nl" "count32" "len16" "data" "u32" "u16" "f64" "sum"  *)
(*    "time" "count8" "perm" "idx16" "end16" "hdr0" "hdrg".                *)
(*  - Fits<X>(v): v is representable (every 16-bit length <= 65535, ...).  *)
(*    The format has no encoding for a value that does not fit: a writer   *)
(*    must reject it (Checked<X> = "err").                                 *)
(***************************************************************************)
EXTENDS Integers, Sequences, FiniteSets

MaxInt == 2147483647
Abs(n) == IF n < 0 THEN -n ELSE n

(***************************************************************************)
(* 1. Run-length bytes                                                     *)
(***************************************************************************)
Run(b, n) == IF n <= 0 THEN <<>> ELSE << <<b, n>> >>
B1(b) == << <<b, 1>> >>

Cat(a, b) ==
  IF Len(a) = 0 THEN b
  ELSE IF Len(b) = 0 THEN a
  ELSE LET la == a[Len(a)]
           fb == b[1]
       IN IF la[1] = fb[1]
          THEN SubSeq(a, 1, Len(a) - 1) \o << <<la[1], la[2] + fb[2]>> >> \o SubSeq(b, 2, Len(b))
          ELSE a \o b

\* balanced folds (O(n log n) copying instead of O(n^2) for a 255-row block)
RECURSIVE CatRange(_, _, _)
CatRange(ss, lo, hi) == IF lo > hi THEN <<>> ELSE IF lo = hi THEN ss[lo]
                        ELSE Cat(CatRange(ss, lo, (lo + hi) \div 2), CatRange(ss, (lo + hi) \div 2 + 1, hi))
CatAll(ss) == CatRange(ss, 1, Len(ss))          \* ss: a sequence of Bytes

RECURSIVE ConcatRange(_, _, _)
ConcatRange(ss, lo, hi) == IF lo > hi THEN <<>> ELSE IF lo = hi THEN ss[lo]
                           ELSE ConcatRange(ss, lo, (lo + hi) \div 2) \o ConcatRange(ss, (lo + hi) \div 2 + 1, hi)
ConcatAll(ss) == ConcatRange(ss, 1, Len(ss))    \* ss: a sequence of sequences

RECURSIVE BLenFrom(_, _)
BLenFrom(bs, i) == IF i > Len(bs) THEN 0 ELSE bs[i][2] + BLenFrom(bs, i + 1)
BLen(bs) == BLenFrom(bs, 1)

\* any sequence of <<byte, count>> pairs (count >= 0) -> normal form
Normalize(raw) == CatAll([i \in 1..Len(raw) |-> Run(raw[i][1], raw[i][2])])
IsBytes(bs) == /\ \A i \in 1..Len(bs) : bs[i][1] \in 0..255 /\ bs[i][2] >= 1
               /\ \A i \in 1..Len(bs) - 1 : bs[i][1] # bs[i + 1][1]

\* explicit byte list; only for short strings (numbers, labels)
RECURSIVE Expand(_)
Expand(bs) == IF Len(bs) = 0 THEN <<>>
              ELSE [i \in 1..bs[1][2] |-> bs[1][1]] \o Expand(Tail(bs))
FromList(l) == CatAll([i \in 1..Len(l) |-> B1(l[i])])

\* lexicographic order on Bytes (bytes.Compare), used for block-index well-formedness
RECURSIVE BLess(_, _)
BLess(a, b) ==
  IF Len(b) = 0 THEN FALSE
  ELSE IF Len(a) = 0 THEN TRUE
  ELSE IF a[1][1] # b[1][1] THEN a[1][1] < b[1][1]
  ELSE LET m == IF a[1][2] < b[1][2] THEN a[1][2] ELSE b[1][2]
       IN BLess(Cat(Run(a[1][1], a[1][2] - m), Tail(a)), Cat(Run(b[1][1], b[1][2] - m), Tail(b)))

(***************************************************************************)
(* 2. Scalars: big-endian integers, ASCII labels, decimal digits           *)
(***************************************************************************)
\* BE16 is total: a length >= 65536 is written modulo 65536 (what a careless
\* 16-bit writer produces); Fits... is what forbids that.
BE16(n) == Cat(B1((n \div 256) % 256), B1(n % 256))
BE32(n) == CatAll(<< B1((n \div 16777216) % 256), B1((n \div 65536) % 256),
                     B1((n \div 256) % 256), B1(n % 256) >>)

Lower == "abcdefghijklmnopqrstuvwxyz"
Upper == "ABCDEFGHIJKLMNOPQRSTUVWXYZ"
Code(c) == IF \E i \in 1..26 : SubSeq(Lower, i, i) = c
           THEN 96 + CHOOSE i \in 1..26 : SubSeq(Lower, i, i) = c
           ELSE 64 + CHOOSE i \in 1..26 : SubSeq(Upper, i, i) = c
Ascii(s) == CatAll([i \in 1..Len(s) |-> B1(Code(SubSeq(s, i, i)))])   \* letters only

SP == B1(32)
NL == B1(10)

Pow10(k) == CASE k = 0 -> 1 [] k = 1 -> 10 [] k = 2 -> 100 [] k = 3 -> 1000 [] k = 4 -> 10000
              [] k = 5 -> 100000 [] k = 6 -> 1000000 [] k = 7 -> 10000000 [] k = 8 -> 100000000
              [] k = 9 -> 1000000000
\* n >= 0 as exactly w decimal digits (w <= 9, n < 10^w)
Dig(n, w) == CatAll([i \in 1..w |-> B1(48 + ((n \div Pow10(w - i)) % 10))])

(***************************************************************************)
(* 3. Segments                                                             *)
(***************************************************************************)
Seg(tag, bytes) == << <<tag, bytes>> >>
Join(segs) == CatAll([i \in 1..Len(segs) |-> segs[i][2]])

(***************************************************************************)
(* 4. Lists (pkg/objects/str_list.go, uint_list.go, float_list.go)         *)
(*    string:  len16 | bytes              (objline.WriteString, cells)     *)
(*    strlist: count32 | string*          uintlist: count32 | u32*         *)
(***************************************************************************)
FitsString(s) == BLen(s) <= 65535
SegsString16(s) == Seg("len16", BE16(BLen(s))) \o Seg("data", s)
EncString16(s) == Join(SegsString16(s))

FitsStrList(sl) == \A i \in 1..Len(sl) : FitsString(sl[i])
SegsStrList(sl) == Seg("count32", BE32(Len(sl))) \o ConcatAll([i \in 1..Len(sl) |-> SegsString16(sl[i])])
EncStrList(sl) == Join(SegsStrList(sl))

SegsUintList(ul) == Seg("count32", BE32(Len(ul))) \o ConcatAll([i \in 1..Len(ul) |-> Seg("u32", BE32(ul[i]))])
EncUintList(ul) == Join(SegsUintList(ul))

\* a float64 is its 8 IEEE-754 bytes, big-endian (structure only)
SegsFloatList(fl) == Seg("count32", BE32(Len(fl))) \o ConcatAll([i \in 1..Len(fl) |-> Seg("f64", fl[i])])

\* byte offset at which the data of the last cell starts (0 for an empty list)
RECURSIVE LastCellDataOffsetFrom(_, _)
LastCellDataOffsetFrom(sl, i) == IF i >= Len(sl) THEN 2 ELSE 2 + BLen(sl[i]) + LastCellDataOffsetFrom(sl, i + 1)
LastCellDataOffset(sl) == IF Len(sl) = 0 THEN 0 ELSE 4 + LastCellDataOffsetFrom(sl, 1)

(***************************************************************************)
(* 5. Labelled fields (pkg/encoding/objline/field.go):  label SP body NL   *)
(***************************************************************************)
SegsField(label, bodySegs) == Seg("label", Cat(label, SP)) \o bodySegs \o Seg("nl", NL)
EncField(label, body) == CatAll(<<label, SP, body, NL>>)

(***************************************************************************)
(* 6. Time (objline.EncodeTime / WriteTime): t = <<z, sec, off>>           *)
(*    z = 1: the zero time, 16 zero bytes (sec = off = 0)                  *)
(*    z = 0: the Unix seconds as 10 characters (zero padded, sign          *)
(*           included), SP, sign, hh, mm of the zone                       *)
(*           offset (off in minutes).  Nothing else of an instant is kept. *)
(*    (sec <= 9999999999 is implied by TLC's 32-bit integers.)             *)
(***************************************************************************)
ZeroTime == <<1, 0, 0>>
FitsTime(t) == \/ t = ZeroTime
               \/ t[1] = 0 /\ t[2] >= -999999999 /\ Abs(t[3]) <= 24 * 60 + 59
Pad10(sec) == IF sec >= 0 THEN Cat(B1(48 + sec \div 1000000000), Dig(sec % 1000000000, 9))
              ELSE Cat(B1(45), Dig(-sec, 9))
EncTime(t) == IF t[1] = 1 THEN Run(0, 16)
              ELSE CatAll(<< Pad10(t[2]), SP, B1(IF t[3] < 0 THEN 45 ELSE 43),
                             Dig(Abs(t[3]) \div 60, 2), Dig(Abs(t[3]) % 60, 2) >>)

(***************************************************************************)
(* 7. Commit (pkg/objects/commit.go)                                       *)
(*    c = [table, an, ae, time, msg, parents]; sums are 16-byte Bytes      *)
(***************************************************************************)
LTable == Ascii("table")
LAuthorName == Ascii("authorName")
LAuthorEmail == Ascii("authorEmail")
LTime == Ascii("time")
LMessage == Ascii("message")
LParent == Ascii("parent")

WFCommit(c) == BLen(c.table) = 16 /\ \A i \in 1..Len(c.parents) : BLen(c.parents[i]) = 16
FitsCommit(c) == FitsString(c.an) /\ FitsString(c.ae) /\ FitsString(c.msg) /\ FitsTime(c.time)
SegsCommit(c) ==
  SegsField(LTable, Seg("sum", c.table))
  \o SegsField(LAuthorName, SegsString16(c.an))
  \o SegsField(LAuthorEmail, SegsString16(c.ae))
  \o SegsField(LTime, Seg("time", EncTime(c.time)))
  \o SegsField(LMessage, SegsString16(c.msg))
  \o ConcatAll([i \in 1..Len(c.parents) |-> SegsField(LParent, Seg("sum", c.parents[i]))])
EncCommit(c) == Join(SegsCommit(c))

(***************************************************************************)
(* 8. Table (pkg/objects/table.go)                                         *)
(*    t = [cols, pk, rows, blocks, idx]: meta fields, then the block sums, *)
(*    then the block-index sums, 16 bytes each, ceil(rows/255) of each     *)
(***************************************************************************)
LColumns == Ascii("columns")
LPk == Ascii("pk")
LRows == Ascii("rows")
BlockSize == 255
NumBlocks(rows) == (rows + BlockSize - 1) \div BlockSize

WFTable(t) == /\ Len(t.blocks) = NumBlocks(t.rows) /\ Len(t.idx) = NumBlocks(t.rows)
              /\ \A i \in 1..Len(t.blocks) : BLen(t.blocks[i]) = 16 /\ BLen(t.idx[i]) = 16
FitsTable(t) == FitsStrList(t.cols)
SegsTable(t) ==
  SegsField(LColumns, SegsStrList(t.cols))
  \o SegsField(LPk, SegsUintList(t.pk))
  \o SegsField(LRows, Seg("u32", BE32(t.rows)))
  \o ConcatAll([i \in 1..Len(t.blocks) |-> Seg("sum", t.blocks[i])])
  \o ConcatAll([i \in 1..Len(t.idx) |-> Seg("sum", t.idx[i])])
EncTable(t) == Join(SegsTable(t))

(***************************************************************************)
(* 9. Block (pkg/objects/block.go): count32 | strlist*                     *)
(*    also the format of a table index (objects.SaveTableIndex)            *)
(***************************************************************************)
FitsBlock(blk) == \A i \in 1..Len(blk) : FitsStrList(blk[i])
SegsBlock(blk) == Seg("count32", BE32(Len(blk))) \o ConcatAll([i \in 1..Len(blk) |-> SegsStrList(blk[i])])
EncBlock(blk) == Join(SegsBlock(blk))

(***************************************************************************)
(* 10. Block index (pkg/objects/block_index.go) - structure:               *)
(*    count8 | perm (count bytes) | count * (pkSum 16 | rowSum 16)         *)
(*    x = [off, rows], rows[i] = <<pkSum, rowSum>> in block order;         *)
(*    off lists the row offsets (0-based) in ascending order of pkSum.     *)
(*    The sums are hashes (trusted primitive): abstract 16-byte strings.   *)
(***************************************************************************)
FitsBlockIndex(x) == Len(x.rows) <= 255 /\ Len(x.off) = Len(x.rows)
WFBlockIndex(x) ==
  LET n == Len(x.rows) IN
  /\ Len(x.off) = n
  /\ {x.off[i] : i \in 1..n} = 0..(n - 1)
  /\ \A i \in 1..n : BLen(x.rows[i][1]) = 16 /\ BLen(x.rows[i][2]) = 16
  /\ \A i \in 1..n - 1 : ~BLess(x.rows[x.off[i + 1] + 1][1], x.rows[x.off[i] + 1][1])
SegsBlockIndex(x) ==
  Seg("count8", B1(Len(x.rows) % 256))
  \o Seg("perm", FromList(x.off))
  \o ConcatAll([i \in 1..Len(x.rows) |-> Seg("sum", x.rows[i][1]) \o Seg("sum", x.rows[i][2])])
EncBlockIndex(x) == Join(SegsBlockIndex(x))
BlockIndexLen(n) == 1 + 33 * n
\* BlockIndex.Get: <<offset, rowSum>> of the row with that key sum, <<-1, <<>>>> if absent
Lookup(x, pk) == IF \E i \in 1..Len(x.rows) : x.rows[i][1] = pk
                 THEN LET i == CHOOSE i \in 1..Len(x.rows) : x.rows[i][1] = pk IN <<i - 1, x.rows[i][2]>>
                 ELSE <<-1, <<>>>>

(***************************************************************************)
(* 11. Table profile (pkg/objects/table_profile.go) - structure only       *)
(*    p = [version, rows, cols]                                            *)
(*    col = [name, na, fl, pct, minl, maxl, avgl, top]                     *)
(*      fl: 5 optional floats (min max mean median stdDeviation), each     *)
(*          <<>> (absent) or <<f64 Bytes>>                                 *)
(*      pct: <<present, list of f64>>   top: <<present, list of <<v, n>>>> *)
(*    per column: (idx16 = field number | field)* for the non-empty fields *)
(*    in field order, then idx16 = 0.                                      *)
(***************************************************************************)
LVersion == Ascii("version")
LFields == Ascii("fields")
LRowsCount == Ascii("rowsCount")
LColsCount == Ascii("colsCount")
ProfileFieldNames == << Ascii("name"), Ascii("naCount"), Ascii("min"), Ascii("max"), Ascii("mean"),
                        Ascii("median"), Ascii("stdDeviation"), Ascii("percentiles"), Ascii("minStrLen"),
                        Ascii("maxStrLen"), Ascii("avgStrLen"), Ascii("topValues") >>

SegsValueCounts(l) ==
  Seg("count32", BE32(Len(l)))
  \o ConcatAll([i \in 1..Len(l) |-> Seg("u32", BE32(l[i][2])) \o SegsString16(l[i][1])])
ProfField(j, segs) == Seg("idx16", BE16(j)) \o segs
SegsProfileCol(c) ==
  (IF Len(c.name) = 0 THEN <<>> ELSE ProfField(1, SegsString16(c.name)))
  \o (IF c.na = 0 THEN <<>> ELSE ProfField(2, Seg("u32", BE32(c.na))))
  \o ConcatAll([k \in 1..5 |-> IF Len(c.fl[k]) = 0 THEN <<>> ELSE ProfField(2 + k, Seg("f64", c.fl[k][1]))])
  \o (IF c.pct[1] = 0 THEN <<>> ELSE ProfField(8, SegsFloatList(c.pct[2])))
  \o (IF c.minl = 0 THEN <<>> ELSE ProfField(9, Seg("u16", BE16(c.minl))))
  \o (IF c.maxl = 0 THEN <<>> ELSE ProfField(10, Seg("u16", BE16(c.maxl))))
  \o (IF c.avgl = 0 THEN <<>> ELSE ProfField(11, Seg("u16", BE16(c.avgl))))
  \o (IF c.top[1] = 0 THEN <<>> ELSE ProfField(12, SegsValueCounts(c.top[2])))
  \o Seg("end16", BE16(0))
FitsProfileCol(c) == /\ FitsString(c.name)
                     /\ \A i \in 1..Len(c.top[2]) : FitsString(c.top[2][i][1])
                     /\ c.minl <= 65535 /\ c.maxl <= 65535 /\ c.avgl <= 65535
FitsProfile(p) == \A i \in 1..Len(p.cols) : FitsProfileCol(p.cols[i])
SegsProfile(p) ==
  SegsField(LVersion, Seg("u32", BE32(p.version)))
  \o SegsField(LFields, SegsStrList(ProfileFieldNames))
  \o SegsField(LRowsCount, Seg("u32", BE32(p.rows)))
  \o SegsField(LColsCount, Seg("u32", BE32(Len(p.cols))))
  \o SegsField(Ascii("columns"), ConcatAll([i \in 1..Len(p.cols) |-> SegsProfileCol(p.cols[i])]))
EncProfile(p) == Join(SegsProfile(p))

(***************************************************************************)
(* 12. Packfile object header (pkg/encoding/packfile/packfile.go)          *)
(*    byte 0: 1 | type(3 bits) | low 4 bits of the length                  *)
(*    then groups of 7 bits, least significant first, bit 7 = "more";      *)
(*    at least one group.  Lengths are Nums (LE bit sequences).            *)
(***************************************************************************)
RECURSIVE TrimBits(_)
TrimBits(b) == IF Len(b) > 0 /\ b[Len(b)] = 0 THEN TrimBits(SubSeq(b, 1, Len(b) - 1)) ELSE b
RECURSIVE NatBits(_)
NatBits(n) == IF n = 0 THEN <<>> ELSE <<n % 2>> \o NatBits(n \div 2)          \* n < 2^31
LimbsToBits(l) == TrimBits(ConcatAll([i \in 1..Len(l) |-> [j \in 1..16 |-> (l[i] \div (2 ^ (j - 1))) % 2]]))
BitAt(b, i) == IF i <= Len(b) THEN b[i] ELSE 0                                \* i is 1-based
BitsVal(b, from, w) == LET f[j \in 0..w] == IF j = 0 THEN 0 ELSE f[j - 1] + BitAt(b, from + j - 1) * (2 ^ (j - 1))
                       IN f[w]                                                \* w <= 16
BitsToLimbs(b) == [i \in 1..((Len(b) + 15) \div 16) |-> BitsVal(b, 16 * (i - 1) + 1, 16)]

HdrGroups(bits) == IF Len(bits) <= 11 THEN 1 ELSE (Len(bits) - 4 + 6) \div 7
\* header with g >= HdrGroups(bits) groups; g = HdrGroups is the canonical (shortest) one
SegsHdrG(type, bits, g) ==
  Seg("hdr0", B1(128 + 16 * type + BitsVal(bits, 1, 4)))
  \o ConcatAll([j \in 1..g |-> Seg("hdrg", B1((IF j < g THEN 128 ELSE 0) + BitsVal(bits, 4 + 7 * (j - 1) + 1, 7)))])
FitsHdr(type, bits) == type \in 0..7 /\ Len(bits) \in 1..64           \* length 0 is not demanded (no object is empty)
EncHdr(type, bits) == Join(SegsHdrG(type, bits, HdrGroups(bits)))
\* a writer may over-estimate the bit length by one and emit one redundant zero group
EncHdrPadded(type, bits) == Join(SegsHdrG(type, bits, HdrGroups(bits) + 1))
\* a packfile starts with the magic "PACK" and the 32-bit version 1, then header|object bytes repeated
PackVersion == 1
PackMagic == Cat(Ascii("PACK"), BE32(PackVersion))
ObjTypeCommit == 1
ObjTypeTable == 2
ObjTypeBlock == 3

(***************************************************************************)
(* 13. Storage keys (pkg/objects/persistence.go): key = prefix || hash of  *)
(*     the canonical bytes (hash = meow, seed 0: trusted primitive); blocks*)
(*     and block indices are stored s2-compressed, the rest raw; a profile *)
(*     (and a table index) is stored under its TABLE's sum.                *)
(***************************************************************************)
KeyPrefix(kind) == CASE kind = "commit" -> "com/" [] kind = "table" -> "tbl/" [] kind = "block" -> "blk/"
                     [] kind = "blkidx" -> "blkidx/" [] kind = "profile" -> "tblsum/" [] kind = "tblidx" -> "tblidx/"
StoredAs(kind) == IF kind \in {"block", "blkidx"} THEN "s2" ELSE "raw"

(***************************************************************************)
(* 14. Total decoders.  A cursor is <<run index, bytes consumed in it>>.   *)
(*     Every Dec...At(bs, c) returns [ok, v, cur]; Fail for malformed.     *)
(***************************************************************************)
Start == <<1, 0>>
AtEnd(bs, c) == c[1] > Len(bs)
Fail == [ok |-> FALSE, v |-> <<>>, cur |-> <<0, 0>>]
Ok(v, c) == [ok |-> TRUE, v |-> v, cur |-> c]

RECURSIVE TakeAcc(_, _, _, _)
TakeAcc(bs, c, n, acc) ==
  IF c[1] > Len(bs) THEN (IF n = 0 THEN Ok(acc, c) ELSE Fail)
  ELSE LET r == bs[c[1]]
           avail == r[2] - c[2]
       IN IF n < avail THEN Ok(Cat(acc, Run(r[1], n)), <<c[1], c[2] + n>>)
          ELSE TakeAcc(bs, <<c[1] + 1, 0>>, n - avail, Cat(acc, Run(r[1], avail)))
Take(bs, c, n) == IF n < 0 THEN Fail ELSE TakeAcc(bs, c, n, <<>>)

U8At(bs, c) == LET t == Take(bs, c, 1) IN IF ~t.ok THEN Fail ELSE Ok(t.v[1][1], t.cur)
U16At(bs, c) == LET t == Take(bs, c, 2) IN
                IF ~t.ok THEN Fail ELSE LET e == Expand(t.v) IN Ok(e[1] * 256 + e[2], t.cur)
U32At(bs, c) == LET t == Take(bs, c, 4) IN
                IF ~t.ok THEN Fail
                ELSE LET e == Expand(t.v) IN
                     Ok(IF e[1] >= 128 THEN MaxInt      \* saturated: TLC integers are 32-bit
                        ELSE ((e[1] * 256 + e[2]) * 256 + e[3]) * 256 + e[4], t.cur)
ExpectAt(bs, c, lit) == LET t == Take(bs, c, BLen(lit)) IN
                        IF t.ok /\ t.v = lit THEN Ok(<<>>, t.cur) ELSE Fail

DecString16At(bs, c) == LET l == U16At(bs, c) IN IF ~l.ok THEN Fail ELSE Take(bs, l.cur, l.v)

\* k items decoded by D(bs, c), collected in a sequence
RECURSIVE DecItems(_, _, _, _, _)
DecItems(D(_, _), bs, c, k, acc) ==
  IF k = 0 THEN Ok(acc, c)
  ELSE LET r == D(bs, c) IN IF ~r.ok THEN Fail ELSE DecItems(D, bs, r.cur, k - 1, Append(acc, r.v))
DecCounted32At(D(_, _), bs, c) == LET n == U32At(bs, c) IN IF ~n.ok THEN Fail ELSE DecItems(D, bs, n.cur, n.v, <<>>)

DecStrListAt(bs, c) == DecCounted32At(DecString16At, bs, c)
DecUintListAt(bs, c) == DecCounted32At(U32At, bs, c)
F64At(bs, c) == Take(bs, c, 8)
DecFloatListAt(bs, c) == DecCounted32At(F64At, bs, c)
Sum16At(bs, c) == Take(bs, c, 16)

DecFieldAt(D(_, _), label, bs, c) ==
  LET a == ExpectAt(bs, c, Cat(label, SP)) IN
  IF ~a.ok THEN Fail
  ELSE LET b == D(bs, a.cur) IN
       IF ~b.ok THEN Fail
       ELSE LET n == ExpectAt(bs, b.cur, NL) IN IF ~n.ok THEN Fail ELSE Ok(b.v, n.cur)

IsDigit(x) == x \in 48..57
DigitsVal(e, from, to) == LET f[j \in (from - 1)..to] == IF j = from - 1 THEN 0 ELSE f[j - 1] * 10 + (e[j] - 48) IN f[to]
DecTimeAt(bs, c) ==
  LET t == Take(bs, c, 16) IN
  IF ~t.ok THEN Fail
  ELSE IF t.v = Run(0, 16) THEN Ok(ZeroTime, t.cur)
  ELSE LET e == Expand(t.v)
           neg == e[1] = 45
           okSec == /\ (neg \/ IsDigit(e[1])) /\ \A i \in 2..10 : IsDigit(e[i])
                    /\ (~neg => e[1] <= 50)          \* beyond TLC's integers otherwise
           okZone == e[11] = 32 /\ e[12] \in {43, 45} /\ \A i \in 13..16 : IsDigit(e[i])
       IN IF ~(okSec /\ okZone) THEN Fail
          ELSE LET first == IF neg THEN 0 ELSE e[1] - 48
                   rest == DigitsVal(e, 2, 10)
                   hh == DigitsVal(e, 13, 14)
                   mm == DigitsVal(e, 15, 16)
               IN IF (first = 2 /\ rest > 147483647) \/ hh > 24 \/ mm > 59 THEN Fail
                  ELSE Ok(<<0, IF neg THEN -rest ELSE first * 1000000000 + rest,
                            (IF e[12] = 45 THEN -1 ELSE 1) * (hh * 60 + mm)>>, t.cur)

\* ---- commit
RECURSIVE DecParentsAt(_, _, _)
DecParentsAt(bs, c, acc) ==
  IF AtEnd(bs, c) THEN Ok(acc, c)
  ELSE LET p == DecFieldAt(Sum16At, LParent, bs, c) IN
       IF ~p.ok THEN Fail ELSE DecParentsAt(bs, p.cur, Append(acc, p.v))
DecCommitAt(bs, c) ==
  LET f1 == DecFieldAt(Sum16At, LTable, bs, c) IN IF ~f1.ok THEN Fail ELSE
  LET f2 == DecFieldAt(DecString16At, LAuthorName, bs, f1.cur) IN IF ~f2.ok THEN Fail ELSE
  LET f3 == DecFieldAt(DecString16At, LAuthorEmail, bs, f2.cur) IN IF ~f3.ok THEN Fail ELSE
  LET f4 == DecFieldAt(DecTimeAt, LTime, bs, f3.cur) IN IF ~f4.ok THEN Fail ELSE
  LET f5 == DecFieldAt(DecString16At, LMessage, bs, f4.cur) IN IF ~f5.ok THEN Fail ELSE
  LET ps == DecParentsAt(bs, f5.cur, <<>>) IN IF ~ps.ok THEN Fail ELSE
  Ok([table |-> f1.v, an |-> f2.v, ae |-> f3.v, time |-> f4.v, msg |-> f5.v, parents |-> ps.v], ps.cur)

\* ---- table
DecTableAt(bs, c) ==
  LET f1 == DecFieldAt(DecStrListAt, LColumns, bs, c) IN IF ~f1.ok THEN Fail ELSE
  LET f2 == DecFieldAt(DecUintListAt, LPk, bs, f1.cur) IN IF ~f2.ok THEN Fail ELSE
  LET f3 == DecFieldAt(U32At, LRows, bs, f2.cur) IN IF ~f3.ok THEN Fail ELSE
  LET nb == IF f3.v > MaxInt - BlockSize THEN MaxInt ELSE NumBlocks(f3.v)
      b1 == DecItems(Sum16At, bs, f3.cur, nb, <<>>) IN IF ~b1.ok THEN Fail ELSE
  LET b2 == DecItems(Sum16At, bs, b1.cur, nb, <<>>) IN IF ~b2.ok THEN Fail ELSE
  Ok([cols |-> f1.v, pk |-> f2.v, rows |-> f3.v, blocks |-> b1.v, idx |-> b2.v], b2.cur)

\* ---- block, block index
DecBlockAt(bs, c) == DecCounted32At(DecStrListAt, bs, c)
IdxRowAt(bs, c) == LET a == Sum16At(bs, c) IN IF ~a.ok THEN Fail
                   ELSE LET b == Sum16At(bs, a.cur) IN IF ~b.ok THEN Fail ELSE Ok(<<a.v, b.v>>, b.cur)
DecBlockIndexAt(bs, c) ==
  LET n == U8At(bs, c) IN IF ~n.ok THEN Fail ELSE
  LET p == Take(bs, n.cur, n.v) IN IF ~p.ok THEN Fail ELSE
  LET r == DecItems(IdxRowAt, bs, p.cur, n.v, <<>>) IN IF ~r.ok THEN Fail ELSE
  Ok([off |-> Expand(p.v), rows |-> r.v], r.cur)

\* ---- table profile
DecValueCountAt(bs, c) == LET n == U32At(bs, c) IN IF ~n.ok THEN Fail
                          ELSE LET s == DecString16At(bs, n.cur) IN IF ~s.ok THEN Fail ELSE Ok(<<s.v, n.v>>, s.cur)
DecValueCountsAt(bs, c) == DecCounted32At(DecValueCountAt, bs, c)
EmptyCol == [name |-> <<>>, na |-> 0, fl |-> <<<<>>, <<>>, <<>>, <<>>, <<>>>>, pct |-> <<0, <<>>>>,
             minl |-> 0, maxl |-> 0, avgl |-> 0, top |-> <<0, <<>>>>]
FieldNo(name) == IF \E j \in 1..12 : ProfileFieldNames[j] = name
                 THEN CHOOSE j \in 1..12 : ProfileFieldNames[j] = name ELSE 0
\* one field of a column: names is the "fields" list of the file (an index refers to it)
RECURSIVE DecColFieldsAt(_, _, _, _)
DecColFieldsAt(names, bs, c, col) ==
  LET j == U16At(bs, c) IN
  IF ~j.ok THEN Fail
  ELSE IF j.v = 0 THEN Ok(col, j.cur)
  ELSE IF j.v > Len(names) THEN Fail
  ELSE LET k == FieldNo(names[j.v]) IN
       CASE k = 0 -> Fail
         [] k = 1 -> LET r == DecString16At(bs, j.cur) IN IF ~r.ok THEN Fail
                     ELSE DecColFieldsAt(names, bs, r.cur, [col EXCEPT !.name = r.v])
         [] k = 2 -> LET r == U32At(bs, j.cur) IN IF ~r.ok THEN Fail
                     ELSE DecColFieldsAt(names, bs, r.cur, [col EXCEPT !.na = r.v])
         [] k \in 3..7 -> LET r == F64At(bs, j.cur) IN IF ~r.ok THEN Fail
                     ELSE DecColFieldsAt(names, bs, r.cur, [col EXCEPT !.fl[k - 2] = <<r.v>>])
         [] k = 8 -> LET r == DecFloatListAt(bs, j.cur) IN IF ~r.ok THEN Fail
                     ELSE DecColFieldsAt(names, bs, r.cur, [col EXCEPT !.pct = <<1, r.v>>])
         [] k = 9 -> LET r == U16At(bs, j.cur) IN IF ~r.ok THEN Fail
                     ELSE DecColFieldsAt(names, bs, r.cur, [col EXCEPT !.minl = r.v])
         [] k = 10 -> LET r == U16At(bs, j.cur) IN IF ~r.ok THEN Fail
                     ELSE DecColFieldsAt(names, bs, r.cur, [col EXCEPT !.maxl = r.v])
         [] k = 11 -> LET r == U16At(bs, j.cur) IN IF ~r.ok THEN Fail
                     ELSE DecColFieldsAt(names, bs, r.cur, [col EXCEPT !.avgl = r.v])
         [] k = 12 -> LET r == DecValueCountsAt(bs, j.cur) IN IF ~r.ok THEN Fail
                     ELSE DecColFieldsAt(names, bs, r.cur, [col EXCEPT !.top = <<1, r.v>>])
RECURSIVE DecColsAt(_, _, _, _, _)
DecColsAt(names, bs, c, k, acc) ==
  IF k = 0 THEN Ok(acc, c)
  ELSE LET r == DecColFieldsAt(names, bs, c, EmptyCol) IN
       IF ~r.ok THEN Fail ELSE DecColsAt(names, bs, r.cur, k - 1, Append(acc, r.v))
DecProfileAt(bs, c) ==
  LET f1 == DecFieldAt(U32At, LVersion, bs, c) IN IF ~f1.ok THEN Fail ELSE
  LET f2 == DecFieldAt(DecStrListAt, LFields, bs, f1.cur) IN IF ~f2.ok THEN Fail ELSE
  LET f3 == DecFieldAt(U32At, LRowsCount, bs, f2.cur) IN IF ~f3.ok THEN Fail ELSE
  LET f4 == DecFieldAt(U32At, LColsCount, bs, f3.cur) IN IF ~f4.ok THEN Fail ELSE
  LET a == ExpectAt(bs, f4.cur, Cat(Ascii("columns"), SP)) IN IF ~a.ok THEN Fail ELSE
  LET cs == DecColsAt(f2.v, bs, a.cur, f4.v, <<>>) IN IF ~cs.ok THEN Fail ELSE
  LET n == ExpectAt(bs, cs.cur, NL) IN IF ~n.ok THEN Fail ELSE
  Ok([version |-> f1.v, rows |-> f3.v, cols |-> cs.v], n.cur)

\* ---- packfile header: value <<type, Num>>
RECURSIVE DecHdrGroupsAt(_, _, _)
DecHdrGroupsAt(bs, c, bits) ==
  LET g == U8At(bs, c) IN
  IF ~g.ok THEN Fail
  ELSE LET nb == bits \o [j \in 1..7 |-> ((g.v % 128) \div (2 ^ (j - 1))) % 2] IN
       IF g.v >= 128 THEN (IF Len(nb) > 4 + 7 * 10 THEN Fail ELSE DecHdrGroupsAt(bs, g.cur, nb))
       ELSE Ok(TrimBits(nb), g.cur)
DecHdrAt(bs, c) ==
  LET b0 == U8At(bs, c) IN
  IF ~b0.ok THEN Fail
  ELSE LET r == DecHdrGroupsAt(bs, b0.cur, [j \in 1..4 |-> (b0.v \div (2 ^ (j - 1))) % 2]) IN
       IF ~r.ok \/ Len(r.v) > 64 THEN Fail ELSE Ok(<<(b0.v \div 16) % 8, r.v>>, r.cur)

\* ---- whole-buffer decoders: the entire input must be consumed
Whole(r, bs) == IF r.ok /\ AtEnd(bs, r.cur) THEN r ELSE Fail
DecString16(bs) == Whole(DecString16At(bs, Start), bs)
DecStrList(bs) == Whole(DecStrListAt(bs, Start), bs)
DecUintList(bs) == Whole(DecUintListAt(bs, Start), bs)
DecTime(bs) == Whole(DecTimeAt(bs, Start), bs)
DecCommit(bs) == Whole(DecCommitAt(bs, Start), bs)
DecTable(bs) == Whole(DecTableAt(bs, Start), bs)
DecBlock(bs) == Whole(DecBlockAt(bs, Start), bs)
DecBlockIndex(bs) == Whole(DecBlockIndexAt(bs, Start), bs)
DecProfile(bs) == Whole(DecProfileAt(bs, Start), bs)
DecHdr(bs) == Whole(DecHdrAt(bs, Start), bs)

(***************************************************************************)
(* 15. Dispatch by kind, checked encoders and the model-level theorems     *)
(*     value shapes: see the sections above; "hdr" value = <<type, Num>>   *)
(***************************************************************************)
Kinds == {"string", "strlist", "uintlist", "time", "commit", "table", "block", "blkidx", "profile", "hdr"}

Fits(kind, v) ==
  CASE kind = "string" -> FitsString(v)
    [] kind = "strlist" -> FitsStrList(v)
    [] kind = "uintlist" -> TRUE
    [] kind = "time" -> FitsTime(v)
    [] kind = "commit" -> FitsCommit(v)
    [] kind = "table" -> FitsTable(v)
    [] kind = "block" -> FitsBlock(v)
    [] kind = "blkidx" -> FitsBlockIndex(v)
    [] kind = "profile" -> FitsProfile(v)
    [] kind = "hdr" -> FitsHdr(v[1], v[2])
Segs(kind, v) ==
  CASE kind = "string" -> SegsString16(v)
    [] kind = "strlist" -> SegsStrList(v)
    [] kind = "uintlist" -> SegsUintList(v)
    [] kind = "time" -> Seg("time", EncTime(v))
    [] kind = "commit" -> SegsCommit(v)
    [] kind = "table" -> SegsTable(v)
    [] kind = "block" -> SegsBlock(v)
    [] kind = "blkidx" -> SegsBlockIndex(v)
    [] kind = "profile" -> SegsProfile(v)
    [] kind = "hdr" -> SegsHdrG(v[1], v[2], HdrGroups(v[2]))
\* the bytes a (possibly careless) writer would produce; meaningful only if Fits
Enc(kind, v) == Join(Segs(kind, v))
\* the format: bytes for a value that fits, "err" otherwise
Checked(kind, v) == IF Fits(kind, v) THEN Enc(kind, v) ELSE "err"
Dec(kind, bs) ==
  CASE kind = "string" -> DecString16(bs)
    [] kind = "strlist" -> DecStrList(bs)
    [] kind = "uintlist" -> DecUintList(bs)
    [] kind = "time" -> DecTime(bs)
    [] kind = "commit" -> DecCommit(bs)
    [] kind = "table" -> DecTable(bs)
    [] kind = "block" -> DecBlock(bs)
    [] kind = "blkidx" -> DecBlockIndex(bs)
    [] kind = "profile" -> DecProfile(bs)
    [] kind = "hdr" -> DecHdr(bs)

\* (TLC passes operator arguments lazily and re-evaluates them inside recursive operators;
\*  binding the encoding with a quantifier over a singleton set forces it to be computed once.)
\* Fits(v) => Dec(Enc(v)) = Ok(v)   (hence Enc is injective on fitting values)
RoundTripsVia(kind, v, bs) == LET r == Dec(kind, bs) IN r.ok /\ r.v = v
RoundTrips(kind, v) == \A bs \in {Enc(kind, v)} : RoundTripsVia(kind, v, bs)
\* ~Fits(v) => even the careless encoding does not denote v: v is outside the format
Unrepresentable(kind, v) == \A bs \in {Enc(kind, v)} : ~RoundTripsVia(kind, v, bs)
Theorem(kind, v) == \A bs \in {Enc(kind, v)} :
                      /\ IsBytes(bs)
                      /\ IF Fits(kind, v) THEN RoundTripsVia(kind, v, bs) ELSE ~RoundTripsVia(kind, v, bs)
\* the padded header denotes the same value
HdrTheorem(type, bits) == \A bs \in {EncHdrPadded(type, bits)} :
                            LET r == DecHdr(bs) IN FitsHdr(type, bits) => r.ok /\ r.v = <<type, bits>>
Injective(kind, U) == Cardinality({Enc(kind, v) : v \in U}) = Cardinality(U)
=============================================================================
