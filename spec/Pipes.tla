-------------------------------- MODULE Pipes --------------------------------
(***************************************************************************)
(* The goroutine / channel topology of a merge (pkg/merge/merger.go,       *)
(* pkg/merge/row_collector.go, pkg/diff/diff.go), property C16:            *)
(*                                                                         *)
(*   differ i (one per branch)  --d[i] (unbuffered)-->  mergeTables        *)
(*   mergeTables                --mc   (unbuffered)-->  collector          *)
(*   collector                  --out  (unbuffered)-->  caller             *)
(*   every stage reports a failure on ONE error channel of capacity N      *)
(*   (N = number of branches) and exits; the caller drains `out` and then  *)
(*   calls Error(), which CLOSES the error channel and reads it.           *)
(*                                                                         *)
(* An unbuffered send is modelled as a rendezvous: the sender offers       *)
(* (chan = <<v>>) and continues only after the receiver has taken the      *)
(* value.  Fault is the set of stages that fail: <<"differ", i>> while     *)
(* producing, <<"resolve",0>> in mergeTables, <<"save",0>> in the collector.*)
(*                                                                         *)
(* Checked: the caller always returns (under weak fairness), a single      *)
(* failure is always reported, nothing is ever sent on the closed error    *)
(* channel, and without failure the caller receives every merged item.     *)
(* Stages left blocked behind a failed stage are leaked goroutines, not a  *)
(* hang of the caller.                                                     *)
(***************************************************************************)
EXTENDS Naturals, Sequences, FiniteSets

CONSTANTS N,        \* differs
          K,        \* items each differ produces
          Fault     \* set of failing stages

D == 1..N
VARIABLES dpc, dn, d, dclosed,       \* differs: pc, items sent, channel slot, closed flag
          mpc, got, pending,          \* mergeTables: pc, items received, items still to resolve
          mc, mclosed,                \* merge channel
          cpc, hold,                  \* collector: pc, item in hand
          out, oclosed,               \* out channel
          upc, received,              \* caller
          errCh, errClosed, result, sentOnClosed
vars == <<dpc, dn, d, dclosed, mpc, got, pending, mc, mclosed, cpc, hold, out, oclosed, upc, received,
          errCh, errClosed, result, sentOnClosed>>

Init ==
  /\ dpc = [i \in D |-> "run"] /\ dn = [i \in D |-> 0] /\ d = [i \in D |-> <<>>] /\ dclosed = [i \in D |-> FALSE]
  /\ mpc = "hello" /\ got = 0 /\ pending = 0 /\ mc = <<>> /\ mclosed = FALSE
  /\ cpc = "recv" /\ hold = "" /\ out = <<>> /\ oclosed = FALSE
  /\ upc = "drain" /\ received = 0
  /\ errCh = <<>> /\ errClosed = FALSE /\ result = "none" /\ sentOnClosed = FALSE

\* sending on the error channel: blocks when full, panics when closed
CanReport == errClosed \/ Len(errCh) < N
Report(who) == IF errClosed THEN sentOnClosed' = TRUE /\ UNCHANGED errCh
               ELSE errCh' = Append(errCh, who) /\ UNCHANGED sentOnClosed

(* ------------------------------- differ i ------------------------------ *)
DOffer(i) == /\ dpc[i] = "run" /\ dn[i] < K /\ d[i] = <<>>
             /\ ~(<<"differ", i>> \in Fault /\ dn[i] = 1)
             /\ d' = [d EXCEPT ![i] = <<"row">>] /\ dn' = [dn EXCEPT ![i] = @ + 1]
             /\ UNCHANGED <<dpc, dclosed, mpc, got, pending, mc, mclosed, cpc, hold, out, oclosed, upc, received, errCh, errClosed, result, sentOnClosed>>
DFail(i)  == /\ dpc[i] = "run" /\ <<"differ", i>> \in Fault /\ dn[i] = 1 /\ d[i] = <<>> /\ CanReport
             /\ Report("differ") /\ dpc' = [dpc EXCEPT ![i] = "done"] /\ dclosed' = [dclosed EXCEPT ![i] = TRUE]
             /\ UNCHANGED <<dn, d, mpc, got, pending, mc, mclosed, cpc, hold, out, oclosed, upc, received, errClosed, result>>
DEnd(i)   == /\ dpc[i] = "run" /\ dn[i] = K /\ d[i] = <<>>
             /\ dpc' = [dpc EXCEPT ![i] = "done"] /\ dclosed' = [dclosed EXCEPT ![i] = TRUE]
             /\ UNCHANGED <<dn, d, mpc, got, pending, mc, mclosed, cpc, hold, out, oclosed, upc, received, errCh, errClosed, result, sentOnClosed>>

(* ------------------------------ mergeTables ---------------------------- *)
MHello   == /\ mpc = "hello" /\ mc = <<>> /\ mc' = <<"coldiff">> /\ mpc' = "hellowait"
            /\ UNCHANGED <<dpc, dn, d, dclosed, got, pending, mclosed, cpc, hold, out, oclosed, upc, received, errCh, errClosed, result, sentOnClosed>>
MHelloOk == /\ mpc = "hellowait" /\ mc = <<>> /\ mpc' = "select"
            /\ UNCHANGED <<dpc, dn, d, dclosed, got, pending, mc, mclosed, cpc, hold, out, oclosed, upc, received, errCh, errClosed, result, sentOnClosed>>
MRecv(i) == /\ mpc = "select" /\ d[i] # <<>>
            /\ d' = [d EXCEPT ![i] = <<>>] /\ got' = got + 1
            /\ UNCHANGED <<dpc, dn, dclosed, mpc, pending, mc, mclosed, cpc, hold, out, oclosed, upc, received, errCh, errClosed, result, sentOnClosed>>
MAllClosed == /\ mpc = "select" /\ \A i \in D : dclosed[i] /\ d[i] = <<>>
              /\ pending' = got /\ mpc' = "resolve"
              /\ UNCHANGED <<dpc, dn, d, dclosed, got, mc, mclosed, cpc, hold, out, oclosed, upc, received, errCh, errClosed, result, sentOnClosed>>
\* the failing resolve is the first one, or the second one when the collector's save fails too
\* (so that both failures can happen in one execution)
ResolveFailsNow == <<"resolve", 0>> \in Fault /\ pending = (IF <<"save", 0>> \in Fault THEN got - 1 ELSE got)
MResolve == /\ mpc = "resolve" /\ pending > 0 /\ ~ResolveFailsNow
            /\ mc = <<>> /\ mc' = <<"merge">> /\ pending' = pending - 1 /\ mpc' = "sendwait"
            /\ UNCHANGED <<dpc, dn, d, dclosed, got, mclosed, cpc, hold, out, oclosed, upc, received, errCh, errClosed, result, sentOnClosed>>
MSent    == /\ mpc = "sendwait" /\ mc = <<>> /\ mpc' = "resolve"
            /\ UNCHANGED <<dpc, dn, d, dclosed, got, pending, mc, mclosed, cpc, hold, out, oclosed, upc, received, errCh, errClosed, result, sentOnClosed>>
MFail    == /\ mpc = "resolve" /\ pending > 0 /\ ResolveFailsNow /\ CanReport
            /\ Report("resolve") /\ mpc' = "done" /\ mclosed' = TRUE
            /\ UNCHANGED <<dpc, dn, d, dclosed, got, pending, mc, cpc, hold, out, oclosed, upc, received, errClosed, result>>
MEnd     == /\ mpc = "resolve" /\ pending = 0 /\ mpc' = "done" /\ mclosed' = TRUE
            /\ UNCHANGED <<dpc, dn, d, dclosed, got, pending, mc, cpc, hold, out, oclosed, upc, received, errCh, errClosed, result, sentOnClosed>>

(* -------------------------------- collector ---------------------------- *)
CRecv == /\ cpc = "recv" /\ mc # <<>> /\ hold' = mc[1] /\ mc' = <<>> /\ cpc' = "handle"
         /\ UNCHANGED <<dpc, dn, d, dclosed, mpc, got, pending, mclosed, out, oclosed, upc, received, errCh, errClosed, result, sentOnClosed>>
CEnd  == /\ cpc = "recv" /\ mc = <<>> /\ mclosed /\ cpc' = "done" /\ oclosed' = TRUE
         /\ UNCHANGED <<dpc, dn, d, dclosed, mpc, got, pending, mc, mclosed, hold, out, upc, received, errCh, errClosed, result, sentOnClosed>>
\* every item is forwarded (a resolved row would be saved instead: the failing save is the fault)
CFwd  == /\ cpc = "handle" /\ ~(<<"save", 0>> \in Fault /\ hold = "merge") /\ out = <<>>
         /\ out' = <<hold>> /\ cpc' = "fwdwait"
         /\ UNCHANGED <<dpc, dn, d, dclosed, mpc, got, pending, mc, mclosed, hold, oclosed, upc, received, errCh, errClosed, result, sentOnClosed>>
CFwdOk == /\ cpc = "fwdwait" /\ out = <<>> /\ cpc' = "recv"
          /\ UNCHANGED <<dpc, dn, d, dclosed, mpc, got, pending, mc, mclosed, hold, out, oclosed, upc, received, errCh, errClosed, result, sentOnClosed>>
CFail == /\ cpc = "handle" /\ <<"save", 0>> \in Fault /\ hold = "merge" /\ CanReport
         /\ Report("save") /\ cpc' = "done" /\ oclosed' = TRUE
         /\ UNCHANGED <<dpc, dn, d, dclosed, mpc, got, pending, mc, mclosed, hold, out, upc, received, errClosed, result>>

(* --------------------------------- caller ------------------------------ *)
URecv  == /\ upc = "drain" /\ out # <<>> /\ out' = <<>> /\ received' = received + (IF out[1] = "merge" THEN 1 ELSE 0)
          /\ UNCHANGED <<dpc, dn, d, dclosed, mpc, got, pending, mc, mclosed, cpc, hold, oclosed, upc, errCh, errClosed, result, sentOnClosed>>
UEnd   == /\ upc = "drain" /\ out = <<>> /\ oclosed /\ upc' = "error"
          /\ UNCHANGED <<dpc, dn, d, dclosed, mpc, got, pending, mc, mclosed, cpc, hold, out, oclosed, received, errCh, errClosed, result, sentOnClosed>>
UError == /\ upc = "error" /\ errClosed' = TRUE
          /\ result' = (IF errCh # <<>> THEN "error" ELSE "ok")
          /\ upc' = "done"
          /\ UNCHANGED <<dpc, dn, d, dclosed, mpc, got, pending, mc, mclosed, cpc, hold, out, oclosed, received, errCh, sentOnClosed>>

Differ(i) == DOffer(i) \/ DFail(i) \/ DEnd(i)
Merge == MHello \/ MHelloOk \/ (\E i \in D : MRecv(i)) \/ MAllClosed \/ MResolve \/ MSent \/ MFail \/ MEnd
Collector == CRecv \/ CEnd \/ CFwd \/ CFwdOk \/ CFail
Caller == URecv \/ UEnd \/ UError
Next == (\E i \in D : Differ(i)) \/ Merge \/ Collector \/ Caller
FairSpec == Init /\ [][Next]_vars /\ (\A i \in D : WF_vars(Differ(i))) /\ WF_vars(Merge) /\ WF_vars(Collector) /\ WF_vars(Caller)

Terminates == <>(upc = "done")
NoSendOnClosed == ~sentOnClosed
Reported == (upc = "done" /\ errCh # <<>>) => result = "error"
Complete == (upc = "done" /\ Fault = {}) => result = "ok" /\ received = N * K

\* fault sets for configurations
F0 == {}
FDiffer1 == {<<"differ", 1>>}
FResolve == {<<"resolve", 0>>}
FSave == {<<"save", 0>>}
FSaveAndResolve == {<<"save", 0>>, <<"resolve", 0>>}     \* two failures: can send on the closed error channel
=============================================================================
