------------------------------ MODULE System2 ------------------------------
(***************************************************************************)
(* TWO repositories under the `wrgl` command line (growth of System.tla):  *)
(*   L  the local repository, driven through the command line;             *)
(*   R  the remote, served to L by the reference server; commits, branch   *)
(*      creations and deletions on R are made through the command line in  *)
(*      R's own directory.                                                 *)
(* One GLOBAL commit table (ids in creation order) so that ancestry is     *)
(* shared:  commits[i] = [content, parents].  Content is a table with the  *)
(* key column "k" and ONE value column "v", abstracted to a function       *)
(* Keys -> 0..NV (0 = the row is absent), which is enough for REAL three-  *)
(* way merges: the oracle is Merge!Result / Merge!ConflictKeys.            *)
(* Per repository: heads (ref name -> commit id; full names "heads/b" and, *)
(* on L, "remotes/origin/b"), present (ids whose objects are stored), logs *)
(* (ref name -> number of log entries).                                    *)
(*                                                                         *)
(* L is configured with remote.origin.fetch = refs/heads/*:refs/remotes/   *)
(* origin/* (NOT forced, so that --force matters) and with every branch    *)
(* tracking the branch of the same name (branch.b.remote/merge).           *)
(*                                                                         *)
(* Actions = commands (the ref rules are Sync.tla's operators):            *)
(*   commit      on L or R: an edit of one cell / row of the head's table  *)
(*   fetch       `wrgl fetch [--force]` (all branches)                     *)
(*   push        `wrgl push origin refs/heads/b:refs/heads/b [--force]`    *)
(*   pull        `wrgl pull b [--force] [--ff-only|--no-gui]`              *)
(*   merge       `wrgl merge heads/b OTHER [--ff-only|--no-ff|--no-gui]`   *)
(*   create/delete   `wrgl branch create|delete` on L or R                 *)
(*   prune       on L;   export  on L or R                                 *)
(* Growth (second round):                                                  *)
(*   reset       `wrgl reset b <commit sum>` on L: a move the user asks    *)
(*               for explicitly (counts as forced for RefsForward)         *)
(*   copy/move   `wrgl branch create NEW --copy|--move OLD` on L or R: the *)
(*               ref AND its log are copied / renamed                      *)
(*   pushall     `wrgl push --all [--force]`: every branch with an         *)
(*               upstream, in name order, one push each; the first branch  *)
(*               that does not exist locally ends the command with an error*)
(*   pullall     `wrgl pull --all [--force] [--ff-only]`: one pull per     *)
(*               branch in name order, the first failing pull ends it      *)
(*   merge/pull --no-commit: a clean merge is written to MERGE_<sums>.csv, *)
(*               no commit, no ref moves                                   *)
(*   merge --commit-csv F: a merge commit with the given table (parents:   *)
(*               the diverged commits), the way conflicts are resolved     *)
(*               without the interactive tool                              *)
(*   log / reflog  observers: `wrgl log b` lists exactly the ancestry of   *)
(*               the head, children before parents; `wrgl reflog ref` has  *)
(*               one line per log entry                                    *)
(*                                                                         *)
(* What the command line does with a non-fast-forward merge                *)
(* (cmd/wrgl/merge_cmd.go runMerge):                                       *)
(*   - no conflicting key: the merged table is committed (parents: the     *)
(*     branch head and the other commit) - no interaction needed;          *)
(*   - conflicting keys: the interactive merge tool is started.  That      *)
(*     cannot be driven without a terminal, so the action is NOT enabled   *)
(*     (kind "gui"); instead                                               *)
(*   - with --no-gui the command NEVER commits: it writes                  *)
(*     CONFLICTS_<sums>.csv (conflicting rows labelled, the resolved rest  *)
(*     unlabelled), leaves the branch where it is and exits 0.  Modelled   *)
(*     for clean and conflicting merges alike.                             *)
(* The merge base: the statement of C11 admits ANY common ancestor.  The   *)
(* model continues with the newest maximal one; the step also exports the  *)
(* outcome for every admissible base (`alts`) so that the harness can tell *)
(* "another admissible base was chosen" (the behaviour ends there, no      *)
(* verdict) from a wrong merge.                                            *)
(***************************************************************************)
EXTENDS Sync, Integers, TLC, Json

M == INSTANCE Merge

CONSTANTS Branches,     \* branch names, e.g. {"main", "dev"}
          NK, NV,       \* keys 1..NK, cell values 1..NV
          MaxCommits,   \* size bound of the commit table
          MaxPlain,     \* bound on the commits made by `wrgl commit` (the rest is left to merge commits)
          D,            \* behaviour length (simulation)
          KeepHist,     \* TRUE: record the behaviour (simulation); FALSE: exhaustive checking
          Edits         \* a commit changes one cell from x to (x + e) mod (NV + 1), e \in Edits

VARIABLES commits, lh, lp, ll, rh, rp, rl, synced, last, hist
vars == <<commits, lh, lp, ll, rh, rp, rl, synced, last, hist>>
\* exhaustive mode: log lengths, the recorded behaviour and the record of the last command do not influence
\* any action; what must hold right after a command is stated as a property of the step (StepProps)
View == <<commits, lh, lp, rh, rp, synced>>

Keys   == 1..NK
\* the branch names in lexicographic order: what `push --all` / `pull --all` iterate over
\* (TLC does not compare strings: the order of every name a configuration may use is written down)
KnownNames  == <<"dev", "main", "topic">>
BranchOrder == SelectSeq(KnownNames, LAMBDA b : b \in Branches)
ASSUME \A b \in Branches : \E i \in DOMAIN KnownNames : KnownNames[i] = b
H(b)   == "heads/" \o b
RT(b)  == "remotes/origin/" \o b
Full   == [k \in Keys |-> 1]
Empty  == [k \in Keys |-> 0]

ParOf(cs) == [c \in 1..Len(cs) |-> cs[c].parents]
Par       == ParOf(commits)
Rec(h, p) == [refs |-> h, commits |-> p, tables |-> p]      \* a repository as Sync.tla sees it
ValsOf(f) == {f[n] : n \in DOMAIN f}
ReachOf(par, h) == UNION {AncOf(par, c) : c \in ValsOf(h)}
Bump(g, names)  == [n \in DOMAIN g \cup names |-> IF n \in names THEN Cur(g, n) + 1 ELSE g[n]]
Changed(h1, h2) == {n \in DOMAIN h2 : Cur(h1, n) # h2[n]}
Pairs(f) == {<<n, f[n]>> : n \in DOMAIN f}

\* b stays "synced" while neither side's branch b moves; `add` = branches just pushed
SyncedAfter(h1, h2, add) ==
  {b \in synced : Cur(h1, H(b)) = Cur(lh, H(b)) /\ Cur(h2, H(b)) = Cur(rh, H(b))} \cup add

-----------------------------------------------------------------------------
(* the merge oracle: contents as versions of Merge.tla *)
Ver(c) == [cols |-> <<"k", "v">>,
           rows |-> [k \in {x \in Keys : c[x] # 0} |-> [col \in {"v"} |-> c[k]]]]
FromRes(res) == [k \in Keys |-> IF k \in DOMAIN res.rows THEN res.rows[k]["v"] ELSE 0]

CommonAnc(par, a, o) == AncOf(par, a) \cap AncOf(par, o)
BestBases(par, a, o) == LET ca == CommonAnc(par, a, o) IN {c \in ca : \A d \in ca : d = c \/ ~IsAnc(par, c, d)}
MaxOf(S) == CHOOSE x \in S : \A y \in S : y <= x
\* <<base, conflicting keys, merged content without the conflicting keys>>
Alt(cs, a, o, base) ==
  LET bv == Ver(cs[base].content)
      xs == <<Ver(cs[a].content), Ver(cs[o].content)>>
  IN <<base, M!ConflictKeys(bv, xs), FromRes(M!Result(bv, xs))>>
Alts(cs, a, o)     == {Alt(cs, a, o, c) : c \in CommonAnc(ParOf(cs), a, o)}
ModelAlt(cs, a, o) == Alt(cs, a, o, MaxOf(BestBases(ParOf(cs), a, o)))

\* The situation of branch head a and other commit o, computed once per pair:
\*   s: "identical" | "behind" (o is an ancestor of a) | "ahead" (a is an ancestor of o: fast-forward)
\*      | "no-base" | "clean" | "conflict" (diverged, judged over the model's base)
\*   alt: the model's <<base, conflicting keys, merged content>> for the diverged cases
NoAlt == <<0, {}, Empty>>
Sit(cs, a, o) ==
  LET par == ParOf(cs)
      out == MergeOutcome(par, a, o, "default")       \* Sync.tla's fast-forward rules
  IN IF out = "up-to-date" THEN [s |-> IF a = o THEN "identical" ELSE "behind", alt |-> NoAlt]
     ELSE IF out = "ff" THEN [s |-> "ahead", alt |-> NoAlt]
     ELSE IF CommonAnc(par, a, o) = {} THEN [s |-> "no-base", alt |-> NoAlt]
     ELSE LET m == ModelAlt(cs, a, o) IN [s |-> IF m[2] = {} THEN "clean" ELSE "conflict", alt |-> m]
\* what `wrgl merge` does in that situation under an option ("gui": the interactive tool, not driven)
KindOf(s, mode) ==
  CASE s = "identical" -> "identical"
    [] s = "behind"    -> IF mode = "noff" THEN "merge-commit" ELSE "self-ff"
    [] s = "ahead"     -> IF mode = "noff" THEN "merge-commit" ELSE "ff"
    [] s = "no-base"   -> "no-base"
    [] s = "clean"     -> CASE mode = "ffonly" -> "ffonly-rejected" [] mode = "nogui" -> "nogui-clean"
                            [] mode = "nocommit" -> "nocommit-clean" [] mode = "csv" -> "csv-commit" [] OTHER -> "real"
    [] s = "conflict"  -> CASE mode = "ffonly" -> "ffonly-rejected" [] mode = "nogui" -> "nogui-conflict"
                            [] mode = "csv" -> "csv-commit" [] OTHER -> "gui"
MergeKinds == {"identical", "self-ff", "ff", "merge-commit", "no-base", "ffonly-rejected",
               "nogui-clean", "nogui-conflict", "real", "nocommit-clean", "csv-commit"}
MergeModes == {"default", "ffonly", "noff", "nogui", "nocommit", "csv"}
NeedsCommit(kind) == kind \in {"merge-commit", "real", "csv-commit"}
\* the options under which a kind is driven (an option that does not matter for the kind is left out)
ModesFor(kind) == CASE kind = "ff" -> {"default", "ffonly"}
                    [] kind = "merge-commit" -> {"noff"}
                    [] kind = "ffonly-rejected" -> {"ffonly"}
                    [] kind \in {"nogui-clean", "nogui-conflict"} -> {"nogui"}
                    [] kind = "real" -> {"default", "noff"}
                    [] kind = "nocommit-clean" -> {"nocommit"}
                    [] kind = "csv-commit" -> {"csv"}
                    [] OTHER -> {"default"}

\* the merge stage on a repository state (cs, h, p, g): branch ref n, other commit o, the model's alt
MS(cs, h, p, g, n, o, kind, alt) ==
  LET a   == h[n]
      id  == Len(cs) + 1
      same == [cs |-> cs, h |-> h, p |-> p, g |-> g, ok |-> TRUE]
      With(content) == [cs |-> Append(cs, [content |-> content, parents |-> {a, o}]),
                        h |-> Put(h, n, id), p |-> p \cup {id}, g |-> Bump(g, {n}), ok |-> TRUE]
  IN CASE kind = "identical" -> same
       [] kind = "self-ff"   -> [same EXCEPT !.g = Bump(g, {n})]       \* "fast-forward" onto itself is logged
       [] kind = "ff"        -> [same EXCEPT !.h = Put(h, n, o), !.g = Bump(g, {n})]
       [] kind = "merge-commit" -> With(IF IsAnc(ParOf(cs), a, o) THEN cs[o].content ELSE cs[a].content)
       [] kind = "real"      -> With(alt[3])
       [] kind = "csv-commit" -> With(cs[a].content)            \* the file given: "ours" (the harness writes it)
       [] kind \in {"nogui-clean", "nogui-conflict", "nocommit-clean"} -> same
       [] kind \in {"no-base", "ffonly-rejected"}    -> [same EXCEPT !.ok = FALSE]
\* exported with the step: the ref merged, the model's base, and the outcome for EVERY admissible base
MX(cs, a, o, on, kind, alt) ==
  IF kind \in {"real", "nogui-clean", "nogui-conflict", "nocommit-clean"}
  THEN [other |-> on, base |-> alt[1], alts |-> Alts(cs, a, o)] ELSE [other |-> on, base |-> 0, alts |-> {}]

-----------------------------------------------------------------------------
(* the recorded behaviour *)
\* lp / rp: the commits the pinned code stores; lq / rq: the commits that MUST be stored (reachable from a
\* ref).  The harness demands lq <= observed <= lp: commits that no ref reaches (e.g. fetched for a rejected
\* update) may or may not be kept - no property speaks about them - until prune, where lp = lq.
Obs(cs, h1, p1, g1, h2, p2, g2, sy) ==
  [nc |-> Len(cs), lh |-> Pairs(h1), lp |-> p1, lq |-> ReachOf(ParOf(cs), h1), ll |-> Pairs(g1),
   rh |-> Pairs(h2), rp |-> p2, rq |-> ReachOf(ParOf(cs), h2), rl |-> Pairs(g2), sy |-> sy]

\* name: command; b: its branch ("" if none); force; f: a fetch stage ran without rejection
Step(name, b, force, f, op, x, ok, rej) ==
  /\ last' = [op |-> name, b |-> b, force |-> force, f |-> f, ok |-> ok, rej |-> rej,
              q |-> <<commits', lh', lp', rh', rp'>> = <<commits, lh, lp, rh, rp>>]
  /\ KeepHist => ~(last.q /\ last'.q)        \* simulation: no two steps in a row that change nothing
  /\ hist' = IF KeepHist
             THEN Append(hist, [op |-> op, x |-> x, ok |-> ok, rej |-> rej,
                                obs |-> Obs(commits', lh', lp', ll', rh', rp', rl', synced')])
             ELSE hist

Flag(f) == IF f THEN "force" ELSE ""

-----------------------------------------------------------------------------
(* COMMIT: an edit of the head's table (a new branch starts from the full table) *)
CommitOn(side, b, k, e) ==
  LET h   == IF side = "L" THEN lh ELSE rh
      old == IF H(b) \in DOMAIN h THEN commits[h[H(b)]].content ELSE Full
      v   == (old[k] + e) % (NV + 1)
      new == [old EXCEPT ![k] = v]
      id  == Len(commits) + 1
  IN /\ Len(commits) < MaxCommits
     /\ Cardinality({i \in 1..Len(commits) : Cardinality(commits[i].parents) < 2}) < MaxPlain
     /\ new # Empty
     /\ H(b) \notin DOMAIN h => (k = 1 /\ e = 1)          \* one way to start a branch from nothing
     /\ commits' = Append(commits, [content |-> new, parents |-> IF H(b) \in DOMAIN h THEN {h[H(b)]} ELSE {}])
     /\ IF side = "L"
        THEN lh' = Put(lh, H(b), id) /\ lp' = lp \cup {id} /\ ll' = Bump(ll, {H(b)}) /\ UNCHANGED <<rh, rp, rl>>
        ELSE rh' = Put(rh, H(b), id) /\ rp' = rp \cup {id} /\ rl' = Bump(rl, {H(b)}) /\ UNCHANGED <<lh, lp, ll>>
     /\ synced' = SyncedAfter(lh', rh', {})
     /\ Step("commit", b, FALSE, FALSE, <<"commit", side, b, "", "">>, new, TRUE, {})
CommitL == TRUE /\ \E b \in Branches, k \in Keys, e \in Edits : CommitOn("L", b, k, e)
CommitR == TRUE /\ \E b \in Branches, k \in Keys, e \in Edits : CommitOn("R", b, k, e)

-----------------------------------------------------------------------------
(* FETCH (all branches); the outcome is computed once per force flag *)
FetchSpecs  == {[src |-> H(b), dst |-> RT(b), force |-> FALSE] : b \in Branches}
FxOf(h0, p0, g0, force) ==
  LET Lr == Rec(h0, p0)
      Rr == Rec(rh, rp)
      h  == FetchRefs(Par, Lr, Rr, FetchSpecs, force, 0)
  IN [h |-> h, p |-> p0 \cup FetchNewCommits(Par, Lr, Rr, FetchSpecs),
      g |-> Bump(g0, Changed(h0, h)), rej |-> FetchRejected(Par, Lr, Rr, FetchSpecs, force)]
Fx(force) == FxOf(lh, lp, ll, force)

\* pick = "any" or the one outcome wanted (the split form of Next, used for -coverage)
FetchAny(pick) ==
  \E force \in BOOLEAN : \E fx \in {Fx(force)} :
    LET kind == IF fx.rej = {} THEN "clean" ELSE "rejected" IN
    /\ pick \in {"any", kind}
    /\ lh' = fx.h /\ lp' = fx.p /\ ll' = fx.g
    /\ UNCHANGED <<commits, rh, rp, rl>>
    /\ synced' = SyncedAfter(lh', rh', {})
    /\ Step("fetch", "", force, fx.rej = {}, <<"fetch", "L", "", Flag(force), kind>>, 0, fx.rej = {}, fx.rej)
FetchClean    == TRUE /\ FetchAny("clean")
FetchRejects  == TRUE /\ FetchAny("rejected")

-----------------------------------------------------------------------------
(* PUSH of one branch.  A rejected push is reported and exits 0. *)
PushAny(pick) ==
  \E b \in Branches, force \in BOOLEAN :
    /\ H(b) \in DOMAIN lh
    /\ LET spec == [src |-> H(b), dst |-> H(b), force |-> FALSE] IN
       \E out \in {PushOutcome(Par, Rec(lh, lp), Rec(rh, rp), spec, force)} :
          /\ pick \in {"any", out}
          /\ rh' = PushRefs(Par, Rec(lh, lp), Rec(rh, rp), {spec}, force)
          /\ rp' = IF Moves(out) THEN rp \cup AncOf(Par, lh[H(b)]) ELSE rp
          /\ rl' = IF Moves(out) THEN Bump(rl, {H(b)}) ELSE rl
          /\ UNCHANGED <<commits, lh, lp, ll>>
          /\ synced' = SyncedAfter(lh', rh', IF out = "rejected" THEN {} ELSE {b})
          /\ Step("push", b, force, FALSE, <<"push", "L", b, Flag(force), out>>, 0, TRUE,
                  IF out = "rejected" THEN {H(b)} ELSE {})
PushNew      == TRUE /\ PushAny("new")
PushSame     == TRUE /\ PushAny("same")
PushFF       == TRUE /\ PushAny("ff")
PushForced   == TRUE /\ PushAny("forced")
PushRejects  == TRUE /\ PushAny("rejected")

-----------------------------------------------------------------------------
(* MERGE on L: branch b with any other ref of L *)
MergeAny(pick) ==
  \E b \in Branches :
    /\ H(b) \in DOMAIN lh
    /\ \E on \in DOMAIN lh \ {H(b)} : \E sit \in {Sit(commits, lh[H(b)], lh[on])} : \E mode \in MergeModes :
         LET kind == KindOf(sit.s, mode) IN
         /\ pick \in {"any", kind}
         /\ kind # "gui" /\ mode \in ModesFor(kind)
         /\ NeedsCommit(kind) => Len(commits) < MaxCommits
         /\ \E r \in {MS(commits, lh, lp, ll, H(b), lh[on], kind, sit.alt)} :
              /\ commits' = r.cs /\ lh' = r.h /\ lp' = r.p /\ ll' = r.g
              /\ UNCHANGED <<rh, rp, rl>>
              /\ synced' = SyncedAfter(lh', rh', {})
              /\ Step("merge", b, FALSE, FALSE, <<"merge", "L", b, mode, kind>>,
                      MX(commits, lh[H(b)], lh[on], on, kind, sit.alt), r.ok, {})
MergeIdentical   == TRUE /\ MergeAny("identical")
MergeSelfFF      == TRUE /\ MergeAny("self-ff")
MergeFF          == TRUE /\ MergeAny("ff")
MergeNoFF        == TRUE /\ MergeAny("merge-commit")
MergeNoBase      == TRUE /\ MergeAny("no-base")
MergeFFOnlyRej   == TRUE /\ MergeAny("ffonly-rejected")
MergeNoGuiClean  == TRUE /\ MergeAny("nogui-clean")
MergeNoCommit    == TRUE /\ MergeAny("nocommit-clean")
MergeCsvCommit   == TRUE /\ MergeAny("csv-commit")
MergeNoGuiConfl  == TRUE /\ MergeAny("nogui-conflict")
MergeReal        == TRUE /\ MergeAny("real")

-----------------------------------------------------------------------------
(* PULL b = fetch (all branches), then merge b with its remote-tracking ref.            *)
(* A rejected fetch ends the command with an error (the refs that could move did move). *)
(* A branch that does not exist locally is created from the remote-tracking ref.        *)
PullModes == {"default", "ffonly", "nogui", "nocommit"}
PSit(fx, b) ==
  IF fx.rej # {} THEN [s |-> "fetch-rejected", alt |-> NoAlt]
  ELSE IF H(b) \notin DOMAIN fx.h THEN [s |-> IF RT(b) \in DOMAIN fx.h THEN "created" ELSE "nothing", alt |-> NoAlt]
  ELSE IF RT(b) \notin DOMAIN fx.h \/ fx.h[RT(b)] = fx.h[H(b)] THEN [s |-> "no-heads", alt |-> NoAlt]
  ELSE Sit(commits, fx.h[H(b)], fx.h[RT(b)])
PullAny(pick) ==
  \E force \in BOOLEAN : \E fx \in {Fx(force)} : \E b \in Branches : \E sit \in {PSit(fx, b)} : \E mode \in PullModes :
    LET early   == sit.s \in {"fetch-rejected", "created", "nothing", "no-heads"}
        kind    == IF early THEN sit.s ELSE KindOf(sit.s, mode)
        fetched == [cs |-> commits, h |-> fx.h, p |-> fx.p, g |-> fx.g, ok |-> TRUE]
    IN /\ pick \in {"any", kind}
       /\ kind # "gui" /\ mode \in ModesFor(kind)
       /\ NeedsCommit(kind) => Len(commits) < MaxCommits
       /\ \E r \in {CASE kind = "fetch-rejected" -> [fetched EXCEPT !.ok = FALSE]
                      [] kind = "created"  -> [fetched EXCEPT !.h = Put(fx.h, H(b), fx.h[RT(b)]), !.g = Bump(fx.g, {H(b)})]
                      [] kind = "nothing"  -> [fetched EXCEPT !.ok = FALSE]
                      [] kind = "no-heads" -> fetched
                      [] OTHER -> MS(commits, fx.h, fx.p, fx.g, H(b), fx.h[RT(b)], kind, sit.alt)} :
            /\ commits' = r.cs /\ lh' = r.h /\ lp' = r.p /\ ll' = r.g
            /\ UNCHANGED <<rh, rp, rl>>
            /\ synced' = SyncedAfter(lh', rh', {})
            /\ Step("pull", b, force, kind # "fetch-rejected", <<"pull", "L", b, <<Flag(force), mode>>, kind>>,
                    IF early THEN [other |-> RT(b), base |-> 0, alts |-> {}]
                    ELSE MX(commits, fx.h[H(b)], fx.h[RT(b)], RT(b), kind, sit.alt), r.ok, fx.rej)
PullFetchRej   == TRUE /\ PullAny("fetch-rejected")
PullCreated    == TRUE /\ PullAny("created")
PullNothing    == TRUE /\ PullAny("nothing")
PullNoHeads    == TRUE /\ PullAny("no-heads")
PullSelfFF     == TRUE /\ PullAny("self-ff")
PullFF         == TRUE /\ PullAny("ff")
PullNoBase     == TRUE /\ PullAny("no-base")
PullFFOnlyRej  == TRUE /\ PullAny("ffonly-rejected")
PullNoGuiClean == TRUE /\ PullAny("nogui-clean")
PullNoCommit   == TRUE /\ PullAny("nocommit-clean")
PullNoGuiConfl == TRUE /\ PullAny("nogui-conflict")
PullReal       == TRUE /\ PullAny("real")

-----------------------------------------------------------------------------
(* BRANCH create / delete on either side *)
BranchCreate(side, b, from, exists) ==
  LET h == IF side = "L" THEN lh ELSE rh IN
  /\ from \in DOMAIN h
  /\ (H(b) \in DOMAIN h) = exists
  /\ exists => from = H(b)
  /\ IF exists THEN UNCHANGED <<lh, ll, rh, rl>>
     ELSE IF side = "L" THEN lh' = Put(lh, H(b), lh[from]) /\ ll' = Bump(ll, {H(b)}) /\ UNCHANGED <<rh, rl>>
     ELSE rh' = Put(rh, H(b), rh[from]) /\ rl' = Bump(rl, {H(b)}) /\ UNCHANGED <<lh, ll>>
  /\ UNCHANGED <<commits, lp, rp>>
  /\ synced' = SyncedAfter(lh', rh', {})
  /\ Step("create", b, FALSE, FALSE, <<"create", side, b, from, IF exists THEN "exists" ELSE "created">>, 0, ~exists, {})
CreateOk      == TRUE /\ \E side \in {"L", "R"}, b \in Branches : \E from \in DOMAIN lh \cup DOMAIN rh : BranchCreate(side, b, from, FALSE)
CreateRefused == TRUE /\ \E side \in {"L", "R"}, b \in Branches : \E from \in DOMAIN lh \cup DOMAIN rh : BranchCreate(side, b, from, TRUE)

BranchDelete(side, b, exists) ==
  LET h == IF side = "L" THEN lh ELSE rh IN
  /\ (H(b) \in DOMAIN h) = exists
  /\ IF ~exists THEN UNCHANGED <<lh, ll, rh, rl>>
     ELSE IF side = "L" THEN lh' = Drop(lh, H(b)) /\ ll' = Drop(ll, H(b)) /\ UNCHANGED <<rh, rl>>
     ELSE rh' = Drop(rh, H(b)) /\ rl' = Drop(rl, H(b)) /\ UNCHANGED <<lh, ll>>
  /\ UNCHANGED <<commits, lp, rp>>
  /\ synced' = SyncedAfter(lh', rh', {})
  /\ Step("delete", b, FALSE, FALSE, <<"delete", side, b, "", IF exists THEN "deleted" ELSE "missing">>, 0, exists, {})
DeleteOk      == TRUE /\ \E side \in {"L", "R"}, b \in Branches : BranchDelete(side, b, TRUE)
DeleteRefused == TRUE /\ \E side \in {"L", "R"}, b \in Branches : BranchDelete(side, b, FALSE)

-----------------------------------------------------------------------------
(* PRUNE on L (walks from every ref, remote-tracking refs included); EXPORT on either side *)
Prune ==
  /\ lp' = ReachOf(Par, lh)
  /\ UNCHANGED <<commits, lh, ll, rh, rp, rl, synced>>
  /\ Step("prune", "", FALSE, FALSE, <<"prune", "L", "", "", IF lp' = lp THEN "nothing" ELSE "removed">>, 0, TRUE, {})
PruneRemoves == TRUE /\ Prune /\ lp' # lp
PruneNothing == TRUE /\ Prune /\ lp' = lp

Export(side) ==
  LET h == IF side = "L" THEN lh ELSE rh IN
  \E n \in DOMAIN h :
    /\ UNCHANGED <<commits, lh, lp, ll, rh, rp, rl, synced>>
    /\ Step("export", "", FALSE, FALSE, <<"export", side, n, "", "">>, commits[h[n]].content, TRUE, {})
ExportL == TRUE /\ Export("L")
ExportR == TRUE /\ Export("R")

-----------------------------------------------------------------------------
(* PULL --all: one pull per branch with an upstream (all of them), in name order; the first  *)
(* pull that fails ends the command.  Only outcomes that need no new commit and no           *)
(* interactive tool are driven through --all (single pulls drive the others).                *)
PullAllKinds == {"fetch-rejected", "created", "nothing", "no-heads", "identical", "self-ff", "ff", "no-base",
                 "ffonly-rejected"}
PullOne(h0, p0, g0, b, force, mode) ==
  LET fx      == FxOf(h0, p0, g0, force)
      sit     == PSit(fx, b)
      early   == sit.s \in {"fetch-rejected", "created", "nothing", "no-heads"}
      kind    == IF early THEN sit.s ELSE KindOf(sit.s, mode)
      fetched == [cs |-> commits, h |-> fx.h, p |-> fx.p, g |-> fx.g, ok |-> TRUE]
  IN [kind |-> kind, rej |-> fx.rej,
      r |-> IF kind \notin PullAllKinds THEN fetched
            ELSE CASE kind = "fetch-rejected" -> [fetched EXCEPT !.ok = FALSE]
                   [] kind = "created"  -> [fetched EXCEPT !.h = Put(fx.h, H(b), fx.h[RT(b)]), !.g = Bump(fx.g, {H(b)})]
                   [] kind = "nothing"  -> [fetched EXCEPT !.ok = FALSE]
                   [] kind = "no-heads" -> fetched
                   [] OTHER -> MS(commits, fx.h, fx.p, fx.g, H(b), fx.h[RT(b)], kind, sit.alt)]
RECURSIVE PullSeq(_, _, _, _, _, _)
PullSeq(st, i, force, mode, rej, kinds) ==
  IF i > Len(BranchOrder) THEN [h |-> st.h, p |-> st.p, g |-> st.g, ok |-> TRUE, rej |-> rej, kinds |-> kinds]
  ELSE LET one == PullOne(st.h, st.p, st.g, BranchOrder[i], force, mode) IN
       IF one.kind \notin PullAllKinds
       THEN [h |-> st.h, p |-> st.p, g |-> st.g, ok |-> FALSE, rej |-> rej, kinds |-> Append(kinds, "undriven")]
       ELSE IF ~one.r.ok
       THEN [h |-> one.r.h, p |-> one.r.p, g |-> one.r.g, ok |-> FALSE, rej |-> rej \cup one.rej, kinds |-> Append(kinds, one.kind)]
       ELSE PullSeq([h |-> one.r.h, p |-> one.r.p, g |-> one.r.g], i + 1, force, mode, rej \cup one.rej, Append(kinds, one.kind))
SeqVals(q) == {q[i] : i \in DOMAIN q}
PullAll(pick) ==
  \E force \in BOOLEAN, mode \in {"default", "ffonly"} :
    \E r \in {PullSeq([h |-> lh, p |-> lp, g |-> ll], 1, force, mode, {}, <<>>)} :
      LET kind == IF r.ok THEN "ok" ELSE "stops" IN
      /\ "undriven" \notin SeqVals(r.kinds)
      /\ pick \in {"any", kind}
      /\ lh' = r.h /\ lp' = r.p /\ ll' = r.g
      /\ UNCHANGED <<commits, rh, rp, rl>>
      /\ synced' = SyncedAfter(lh', rh', {})
      /\ Step("pullall", "", force, r.ok, <<"pullall", "L", "", <<Flag(force), mode>>, kind>>, r.kinds, r.ok, r.rej)
PullAllOk    == TRUE /\ PullAll("ok")
PullAllStops == TRUE /\ PullAll("stops")

(* PUSH --all: `push REMOTE refs/heads/b:refs/heads/b` for every branch with an upstream in   *)
(* name order; a branch that does not exist locally is an error that ends the command (the    *)
(* earlier ones stay pushed); a rejected push is reported and the command goes on.            *)
RECURSIVE PushSeq(_, _, _, _, _)
PushSeq(st, i, force, rej, outs) ==
  IF i > Len(BranchOrder) THEN [h |-> st.h, p |-> st.p, g |-> st.g, ok |-> TRUE, rej |-> rej, outs |-> outs]
  ELSE LET b == BranchOrder[i] IN
       IF H(b) \notin DOMAIN lh
       THEN [h |-> st.h, p |-> st.p, g |-> st.g, ok |-> FALSE, rej |-> rej, outs |-> Append(outs, "missing")]
       ELSE LET spec == [src |-> H(b), dst |-> H(b), force |-> FALSE]
                out  == PushOutcome(Par, Rec(lh, lp), Rec(st.h, st.p), spec, force)
            IN PushSeq([h |-> PushRefs(Par, Rec(lh, lp), Rec(st.h, st.p), {spec}, force),
                        p |-> IF Moves(out) THEN st.p \cup AncOf(Par, lh[H(b)]) ELSE st.p,
                        g |-> IF Moves(out) THEN Bump(st.g, {H(b)}) ELSE st.g],
                       i + 1, force, IF out = "rejected" THEN rej \cup {H(b)} ELSE rej, Append(outs, out))
PushedOk(outs) == {BranchOrder[i] : i \in {j \in DOMAIN outs : outs[j] \notin {"rejected", "missing"}}}
PushAll(pick) ==
  \E force \in BOOLEAN :
    \E r \in {PushSeq([h |-> rh, p |-> rp, g |-> rl], 1, force, {}, <<>>)} :
      LET kind == IF ~r.ok THEN "stops" ELSE IF r.rej # {} THEN "rejected" ELSE "ok" IN
      /\ pick \in {"any", kind}
      /\ rh' = r.h /\ rp' = r.p /\ rl' = r.g
      /\ UNCHANGED <<commits, lh, lp, ll>>
      /\ synced' = SyncedAfter(lh', rh', PushedOk(r.outs))
      /\ Step("pushall", "", force, FALSE, <<"pushall", "L", "", Flag(force), kind>>, r.outs, r.ok, r.rej)
PushAllOk      == TRUE /\ PushAll("ok")
PushAllRejects == TRUE /\ PushAll("rejected")
PushAllStops   == TRUE /\ PushAll("stops")

-----------------------------------------------------------------------------
(* RESET on L: the branch is put on any commit the repository holds *)
ResetL ==
  TRUE /\ \E b \in Branches, c \in lp :
    /\ H(b) \in DOMAIN lh /\ lh[H(b)] # c
    /\ lh' = Put(lh, H(b), c) /\ ll' = Bump(ll, {H(b)})
    /\ UNCHANGED <<commits, lp, rh, rp, rl>>
    /\ synced' = SyncedAfter(lh', rh', {})
    /\ Step("reset", b, TRUE, FALSE, <<"reset", "L", b, ToString(c), "moved">>, c, TRUE, {})

(* BRANCH --copy / --move on either side: the ref and its log *)
CopyMove(side, mv, new, old, kind) ==
  LET h == IF side = "L" THEN lh ELSE rh
      g == IF side = "L" THEN ll ELSE rl
      k == IF H(new) \in DOMAIN h THEN "exists" ELSE IF H(old) \notin DOMAIN h THEN "missing" ELSE "done"
      h2 == IF mv THEN Drop(Put(h, H(new), h[H(old)]), H(old)) ELSE Put(h, H(new), h[H(old)])
      g2 == IF mv THEN Drop(Put(g, H(new), Cur(g, H(old))), H(old)) ELSE Put(g, H(new), Cur(g, H(old)))
  IN /\ new # old /\ k = kind
     /\ IF k # "done" THEN UNCHANGED <<lh, ll, rh, rl>>
        ELSE IF side = "L" THEN lh' = h2 /\ ll' = g2 /\ UNCHANGED <<rh, rl>>
        ELSE rh' = h2 /\ rl' = g2 /\ UNCHANGED <<lh, ll>>
     /\ UNCHANGED <<commits, lp, rp>>
     /\ synced' = SyncedAfter(lh', rh', {})
     /\ Step(IF mv THEN "move" ELSE "copy", new, FALSE, FALSE, <<IF mv THEN "move" ELSE "copy", side, new, old, k>>, 0, k = "done", {})
CopyOk      == TRUE /\ \E side \in {"L", "R"}, new \in Branches, old \in Branches : CopyMove(side, FALSE, new, old, "done")
CopyRefused == TRUE /\ \E side \in {"L", "R"}, new \in Branches, old \in Branches, k \in {"exists", "missing"} : CopyMove(side, FALSE, new, old, k)
MoveOk      == TRUE /\ \E side \in {"L", "R"}, new \in Branches, old \in Branches : CopyMove(side, TRUE, new, old, "done")
MoveRefused == TRUE /\ \E side \in {"L", "R"}, new \in Branches, old \in Branches, k \in {"exists", "missing"} : CopyMove(side, TRUE, new, old, k)

(* OBSERVERS: `wrgl log b` (first-parent chain from the head: x = the head), `wrgl reflog REF` (x = entries) *)
Observe(name, side) ==
  LET h == IF side = "L" THEN lh ELSE rh
      g == IF side = "L" THEN ll ELSE rl IN
  \E n \in IF name = "log" THEN {m \in DOMAIN h : \E b \in Branches : m = H(b)} ELSE DOMAIN h :
    /\ KeepHist           \* observers change nothing: they only matter in recorded behaviours
    /\ UNCHANGED <<commits, lh, lp, ll, rh, rp, rl, synced>>
    /\ Step(name, "", FALSE, FALSE, <<name, side, n, "", "">>, IF name = "log" THEN h[n] ELSE Cur(g, n), TRUE, {})
LogL    == TRUE /\ Observe("log", "L")
LogR    == TRUE /\ Observe("log", "R")
ReflogL == TRUE /\ Observe("reflog", "L")
ReflogR == TRUE /\ Observe("reflog", "R")

-----------------------------------------------------------------------------
(* Initially L is a fresh clone of R, which holds one commit (the full table) on main:   *)
(* `wrgl commit main` on R, `wrgl pull main` on L.                                        *)
Init ==
  /\ commits = <<[content |-> Full, parents |-> {}]>>
  /\ lh = (H("main") :> 1) @@ (RT("main") :> 1) /\ lp = {1}
  /\ ll = (H("main") :> 1) @@ (RT("main") :> 1)
  /\ rh = (H("main") :> 1) /\ rp = {1} /\ rl = (H("main") :> 1)
  /\ synced = {}
  /\ last = [op |-> "init", b |-> "", force |-> FALSE, f |-> TRUE, ok |-> TRUE, rej |-> {}, q |-> FALSE]
  /\ hist = IF KeepHist
            THEN <<[op |-> <<"init", "", "", "", "">>, x |-> 0, ok |-> TRUE, rej |-> {},
                    obs |-> Obs(commits, lh, lp, ll, rh, rp, rl, synced)]>>
            ELSE <<>>

CommitList(cs) == [i \in 1..Len(cs) |-> <<cs[i].content, cs[i].parents>>]

\* one action per outcome (used with -coverage: an outcome never taken shows as a count of 0) ...
ActsSplit ==
  \/ CommitL \/ CommitR
  \/ FetchClean \/ FetchRejects
  \/ PushNew \/ PushSame \/ PushFF \/ PushForced \/ PushRejects
  \/ MergeIdentical \/ MergeSelfFF \/ MergeFF \/ MergeNoFF \/ MergeNoBase \/ MergeFFOnlyRej
  \/ MergeNoGuiClean \/ MergeNoGuiConfl \/ MergeReal \/ MergeNoCommit \/ MergeCsvCommit
  \/ PullFetchRej \/ PullCreated \/ PullNothing \/ PullNoHeads \/ PullSelfFF \/ PullFF \/ PullNoBase
  \/ PullFFOnlyRej \/ PullNoGuiClean \/ PullNoGuiConfl \/ PullReal \/ PullNoCommit
  \/ PullAllOk \/ PullAllStops \/ PushAllOk \/ PushAllRejects \/ PushAllStops
  \/ ResetL \/ CopyOk \/ CopyRefused \/ MoveOk \/ MoveRefused \/ LogL \/ LogR \/ ReflogL \/ ReflogR
  \/ CreateOk \/ CreateRefused \/ DeleteOk \/ DeleteRefused
  \/ PruneRemoves \/ PruneNothing \/ ExportL \/ ExportR
\* ... and the same transitions with every outcome computed once per command
ActsFast ==
  \/ CommitL \/ CommitR \/ FetchAny("any") \/ PushAny("any") \/ MergeAny("any") \/ PullAny("any")
  \/ CreateOk \/ CreateRefused \/ DeleteOk \/ DeleteRefused
  \/ Prune \/ ExportL \/ ExportR
  \/ PullAll("any") \/ PushAll("any") \/ ResetL \/ CopyOk \/ CopyRefused \/ MoveOk \/ MoveRefused
  \/ LogL \/ LogR \/ ReflogL \/ ReflogR
\* Simulation: TLC evaluates (and checks) every successor before it picks one, so the behaviour is
\* printed by a closing step taken FROM the chosen final state: one line per generated behaviour.
Close == /\ Len(hist) = D
         /\ PrintT(<<"SCN", ToJson([c |-> CommitList(commits), h |-> hist, b |-> BranchOrder])>>)
         /\ hist' = Append(hist, [op |-> <<"end", "", "", "", "">>])
         /\ UNCHANGED <<commits, lh, lp, ll, rh, rp, rl, synced, last>>
Next == IF KeepHist /\ Len(hist) >= D THEN Close ELSE ActsFast
Spec == Init /\ [][Next]_vars
\* exhaustive mode with -coverage 1: the same transitions, one TLC action per outcome
SpecSplit == Init /\ [][ActsSplit]_vars

-----------------------------------------------------------------------------
(* INVARIANTS (exhaustive mode) *)
TypeOK ==
  /\ \A i \in 1..Len(commits) : commits[i].content \in [Keys -> 0..NV] /\ commits[i].parents \subseteq 1..(i - 1)
  /\ ValsOf(lh) \cup ValsOf(rh) \cup lp \cup rp \subseteq 1..Len(commits)
  /\ DOMAIN rh \subseteq {H(b) : b \in Branches}
  /\ DOMAIN lh \subseteq {H(b) : b \in Branches} \cup {RT(b) : b \in Branches}
\* heads point at present commits with their whole ancestry present (on both sides)
HeadsClosed   == ReachOf(Par, lh) \subseteq lp /\ ReachOf(Par, rh) \subseteq rp
PresentClosed == \A c \in lp \cup rp : (c \in lp => AncOf(Par, c) \subseteq lp) /\ (c \in rp => AncOf(Par, c) \subseteq rp)
\* after L pushed b and neither side's b has moved since, export b gives the same rows on both sides
Convergence == \A b \in synced : /\ H(b) \in DOMAIN lh /\ H(b) \in DOMAIN rh
                                  /\ commits[lh[H(b)]].content = commits[rh[H(b)]].content
Inv == TypeOK /\ HeadsClosed /\ PresentClosed /\ Convergence

(* ACTION PROPERTIES *)
AllRT == {RT(b) : b \in Branches}
ForcedL == IF last'.force /\ last'.op \in {"fetch", "pull", "pullall"} THEN AllRT
           ELSE IF last'.op = "reset" THEN {H(last'.b)} ELSE {}
ForcedR == IF last'.force /\ last'.op = "push" THEN {H(last'.b)}
           ELSE IF last'.force /\ last'.op = "pushall" THEN {H(b) : b \in Branches} ELSE {}
\* a ref never moves backwards (or sideways) without force: Sync!RefsForward on every step
ForwardStep  == /\ RefsForward(ParOf(commits'), lh, lh', ForcedL)
                /\ RefsForward(ParOf(commits'), rh, rh', ForcedR)
\* a rejected update leaves the ref where it was
RejectedStep == \A n \in last'.rej : IF last'.op = "push" THEN Cur(rh', n) = Cur(rh, n) ELSE Cur(lh', n) = Cur(lh, n)
\* every created or moved ref has its full history (Sync!HistoryComplete), nothing the receiver had is lost
CompleteStep == /\ HistoryComplete(ParOf(commits'), Rec(lh, lp), Rec(lh', lp'), 0)
                /\ HistoryComplete(ParOf(commits'), Rec(rh, rp), Rec(rh', rp'), 0)
                /\ last'.op # "prune" => Monotone(Rec(lh, lp), Rec(lh', lp'))
                /\ Monotone(Rec(rh, rp), Rec(rh', rp'))
\* prune keeps exactly what is reachable from a ref; no step ever removes a reachable commit
PruneStep    == /\ last'.op = "prune" => lp' = ReachOf(Par, lh) /\ lh' = lh
                /\ ReachOf(ParOf(commits'), lh') \cap lp \subseteq lp'
                /\ ReachOf(ParOf(commits'), rh') \cap rp \subseteq rp'
\* right after a fetch (or the fetch stage of a pull) without rejection every remote-tracking ref equals the remote head
AfterFetch == (last'.op \in {"fetch", "pull"} /\ last'.f) =>
                \A b \in Branches : H(b) \in DOMAIN rh' => RT(b) \in DOMAIN lh' /\ lh'[RT(b)] = rh'[H(b)]
\* after `push b` succeeded R's b is L's b and R holds the whole ancestry
AfterPush == (last'.op = "push" /\ last'.rej = {}) =>
                /\ H(last'.b) \in DOMAIN rh' /\ rh'[H(last'.b)] = lh'[H(last'.b)]
                /\ AncOf(ParOf(commits'), rh'[H(last'.b)]) \subseteq rp'
StepProps == [][ForwardStep /\ RejectedStep /\ CompleteStep /\ PruneStep /\ AfterFetch /\ AfterPush]_vars
=============================================================================
