---------------------------- MODULE TransferGen ----------------------------
(***************************************************************************)
(* Use (A)+(B) of Transfer.  Every scenario is ONE initial state.          *)
(*                                                                         *)
(* Family "send": a commit DAG with MinN..N commits (parents among earlier *)
(*   commits, at most two), each commit naming one of three fixed tables   *)
(*   that share blocks (T1 = {b1,b2}, T2 = {b2,b3}, T3 = {b4}); commits    *)
(*   1..k are at the destination already, k+1..n are sent (every split);   *)
(*   tables-to-send any subset of the sent commits' tables; the shared     *)
(*   ("common") commits any subset of 1..k whose tables the destination    *)
(*   has; the destination pre-populated with every subset of tables and    *)
(*   blocks closed under "table => its blocks" (D0Mode "all"; "few" = the  *)
(*   closure alone or every block; "bare" = the closure alone; TtsMode     *)
(*   "ends" = no table or every table); the packfile limit in Maxes        *)
(*   (objects).                                                            *)
(*   The SCN line carries the statement's Final / Upper stores (it is      *)
(*   printed once per scenario, not once per limit: Final does not depend  *)
(*   on the limit, which invariant AtDone checks of the design).           *)
(* Family "adv": the receiver alone is fed every permutation of the        *)
(*   objects a complete send would consist of (at most AdvMaxObjs), one    *)
(*   table optionally replaced by its corrupted variant; the SCN line      *)
(*   carries the accepted prefix, the rejected object and the final store  *)
(*   (RecvSeq).                                                            *)
(* With SPECIFICATION Spec the design of Transfer.tla is run from every    *)
(* initial state and checked (OrderAccepted, NoOrphanAccept, DstSound,     *)
(* DstGrows, AtDone / AdvDone); with SpecPrint the scenarios are only      *)
(* printed.                                                                *)
(***************************************************************************)
EXTENDS Transfer, TLC, Json

CONSTANTS N, MinN, Family, D0Mode, TtsMode, Maxes, AdvMaxObjs,
          Shard, NShards     \* this TLC process enumerates the scenarios with code = Shard (mod NShards)

Tables == 1..3
Blocks == 1..4
Blk    == <<{1, 2}, {2, 3}, {4}>>
RB     == [blk |-> Blk]                 \* enough of R for BlocksOf

Parents(y) == {P \in SUBSET (1..(y-1)) : Cardinality(P) <= 2}
SumTab(n, tab) == LET F[k \in 0..n] == IF k = 0 THEN 0 ELSE F[k-1] + tab[k] IN F[n]
MinOf(S) == CHOOSE m \in S : \A o \in S : m <= o

SrcFull(n) == [c |-> 1..n, t |-> Tables, ti |-> Tables, p |-> Tables, b |-> Blocks, bi |-> Blocks, x |-> {}]

BlockSets(T) == CASE D0Mode = "all"  -> {X \in SUBSET Blocks : BlocksOf(RB, T) \subseteq X}
                  [] D0Mode = "few"  -> {BlocksOf(RB, T), Blocks}
                  [] D0Mode = "bare" -> {BlocksOf(RB, T)}
D0s(k) == UNION {{[c |-> 1..k, t |-> T, ti |-> T, p |-> T, b |-> Bs, bi |-> BlocksOf(RB, T), x |-> {}]
                   : Bs \in BlockSets(T)} : T \in SUBSET Tables}

TtsSets(TS) == IF TtsMode = "all" THEN SUBSET TS ELSE {{}, TS}

P(d) == [c |-> d.c, t |-> d.t, ti |-> d.ti, p |-> d.p, b |-> d.b, bi |-> d.bi]

Dags(n) == {par \in [1..n -> SUBSET (1..n)] : \A y \in 1..n : par[y] \in Parents(y)}
Tabs(n, k) == {tab \in [1..n -> Tables] : (SumTab(n, tab) + k) % NShards = Shard}

SendScn(r, k, tts, common, d) ==
  LET SS == (k+1)..r.n IN
  [fam |-> "send", par |-> r.par, tab |-> r.tab, k |-> k, tts |-> tts, com |-> common, d0 |-> P(d),
   fin |-> P(Final(r, SrcFull(r.n), d, SS, tts)),
   up  |-> P(Upper(r, SrcFull(r.n), d, SS))]

InitSend ==
  \E n \in MinN..N :
    \E par \in Dags(n) :
      \E k \in 0..(n-1) :
        \E tab \in Tabs(n, k) :
          \E tts \in TtsSets({tab[c] : c \in (k+1)..n}) :
            \E d \in D0s(k) :
              \E common \in SUBSET {c \in 1..k : tab[c] \in d.t} :
                \E mx \in Maxes :
                  LET r == [n |-> n, par |-> par, tab |-> tab, blk |-> Blk]
                      S == [i \in 1..(n-k) |-> k + i] IN
                  /\ Pre(r, SrcFull(n), d, S, tts, common)
                  /\ Start(r, SrcFull(n), d, S, tts, common, mx)
                  /\ IF mx # MinOf(Maxes) THEN TRUE
                     ELSE PrintT(<<"SCN", ToJson(SendScn(r, k, tts, common, d))>>)

ObjsOfSend(r, k) ==
  LET TS == {r.tab[c] : c \in (k+1)..r.n} IN
  {<<"b", j>> : j \in BlocksOf(r, TS)} \cup {<<"t", u>> : u \in TS} \cup {<<"c", c>> : c \in (k+1)..r.n}

AdvScn(r, k, d, order) ==
  LET res == RecvSeq(r, d, order) IN
  [fam |-> "adv", par |-> r.par, tab |-> r.tab, k |-> k, d0 |-> P(d), ord |-> order,
   acc |-> res.acc,
   rej |-> IF res.stop THEN order[res.acc + 1] ELSE NoObj,
   fin |-> P(res.d)]

InitAdv ==
  \E n \in MinN..N :
    \E par \in Dags(n) :
      \E k \in 0..(n-1) :
        \E tab \in Tabs(n, k) :
          LET r == [n |-> n, par |-> par, tab |-> tab, blk |-> Blk]
              base == ObjsOfSend(r, k) IN
          /\ Cardinality(base) <= AdvMaxObjs
          /\ \E d \in D0s(k) :
               \E bad \in {0} \cup {r.tab[c] : c \in (k+1)..n} :
                 LET objs == IF bad = 0 THEN base ELSE (base \ {<<"t", bad>>}) \cup {<<"xt", bad>>} IN
                 \E order \in Orders(objs) :
                   /\ TablesComplete(r, d)
                   /\ StartAdv(r, SrcFull(n), d, order)
                   /\ PrintT(<<"SCN", ToJson(AdvScn(r, k, d, order))>>)

Init == IF Family = "send" THEN InitSend ELSE InitAdv

Spec == Init /\ [][Next]_vars                 \* the design is run from every scenario

Stay == FALSE /\ UNCHANGED vars
SpecPrint == Init /\ [][Stay]_vars            \* the scenarios are only printed

(* adversarial streams: `sent` holds the whole order from the start *)
AdvDone == AdvPost(sent)
=============================================================================
