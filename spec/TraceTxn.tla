----------------------------- MODULE TraceTxn -----------------------------
(***************************************************************************)
(* Use (C) of Txn: seeded random histories executed by the harness on the  *)
(* REAL code - several transactions staging overlapping branches,          *)
(* interleaved with plain commits on the same branches, CommitTx / Discard *)
(* with a failure or crash injected at a random store operation, re-runs,  *)
(* double commits, discards of committed transactions - are accepted iff   *)
(* they are behaviours of Txn.tla.  Every line carries the projection of   *)
(* the WHOLE real repository after the operation:                          *)
(*   heads    per branch the history of the head, newest first, each       *)
(*            commit as <<table, transaction that made it (0 = none)>>     *)
(*   logs     per branch, oldest first, <<old, new, txid>>, a commit named *)
(*            <<table, transaction, length of its history>>                *)
(*   status   per transaction "absent" | "inprogress" | "committed"        *)
(*   staged   <<transaction, branch, table>> of every staged ref           *)
(*   ncommits number of commit objects in the object store                 *)
(*   objs     the name of every commit object (so also of those that no    *)
(*            branch reaches: written, then the run was stopped)           *)
(* A CommitTx / Discard line is accepted iff some final configuration of   *)
(* Txn!ExecAny (failure at SOME store operation when one was injected,     *)
(* branches in any order) has the logged result and exactly this           *)
(* projection; the specification's state then continues from it.           *)
(*                                                                         *)
(* Named deviations (constant KnownDeviations, DESIGN.md 4): a line that   *)
(* only the deviating semantics of Txn.tla explains is consumed too, with  *)
(* a DEV line for the driver, and validation continues past it.            *)
(***************************************************************************)
EXTENDS Txn, TraceBase

VARIABLE l
tvars == <<st, run, budget, l>>

Ev == TLog[l]
Range(s) == {s[i] : i \in 1..Len(s)}

TBrs == <<"a", "b", "c", "d">>
TNB == 4
TNT == 6
BrIx(b) == CHOOSE i \in 1..TNB : TBrs[i] = b

RECURSIVE Chain(_, _)
Chain(s, id) ==
  IF id = None THEN <<>>
  ELSE <<<<s.commits[id].tbl, s.commits[id].tx>>>> \o Chain(s, s.commits[id].par)

Name(s, id) == IF id = None THEN <<0, 0, 0>>
               ELSE <<s.commits[id].tbl, s.commits[id].tx, Len(Chain(s, id))>>

Same(s, e) ==
  /\ e.heads = [i \in 1..TNB |-> Chain(s, HeadOf(s, TBrs[i]))]
  /\ e.logs = [i \in 1..TNB |->
                 LET lg == LogOf(s.logs, TBrs[i]) IN
                 [j \in 1..Len(lg) |-> <<Name(s, lg[j][1]), Name(s, lg[j][2]), lg[j][3]>>]]
  /\ e.status = [t \in 1..TNT |-> StatusOf(s, t)]
  /\ Range(e.staged) = {<<k[1], BrIx(k[2]), s.commits[s.staged[k]].tbl>> : k \in DOMAIN s.staged}
  /\ e.ncommits = NCommits(s.commits)
  /\ Range(e.objs) = {Name(s, i) : i \in DOMAIN s.commits}

Quiet == UNCHANGED <<run, budget>>

TReset == /\ Ev.op = "reset"
          /\ st' = EmptyState
          /\ Quiet

TPlain == /\ Ev.op = "plain"
          /\ st' = PlainCommit(st, TBrs[Ev.b], Ev.tbl)
          /\ Same(st', Ev)
          /\ Quiet

TStart == /\ Ev.op = "start"
          /\ st' = StartTx(st, Ev.tx)
          /\ Same(st', Ev)
          /\ Quiet

TStage == /\ Ev.op = "stage"
          /\ st' = Stage(st, Ev.tx, TBrs[Ev.b], Ev.tbl)
          /\ Same(st', Ev)
          /\ Quiet

(* `wrgl reapply TX`: Txn!Reapply, refused (nothing changes) unless the transaction is committed *)
TReapply == /\ Ev.op = "reapply"
            /\ st' = Reapply(st, Ev.tx)
            /\ Ev.res = (IF ReapplyOk(st, Ev.tx) THEN "ok" ELSE "err")
            /\ Same(st', Ev)
            /\ Quiet

IsRun == Ev.op \in {"txcommit", "txdiscard"}
RunOp == [kind |-> IF Ev.op = "txcommit" THEN "commit" ELSE "discard",
          tx |-> Ev.tx, k |-> IF Ev.fired THEN Ev.k ELSE 0, how |-> Ev.how]
Fits(dev) == {c \in ExecAny(st, RunOp, dev) : c.run.res = Ev.res /\ Same(c.s, Ev)}

TRun == /\ IsRun
        /\ LET m == Fits({}) IN
           /\ m # {}
           /\ st' = (CHOOSE c \in m : TRUE).s
        /\ Quiet

Dev(kind) == PrintT(<<"SCN", ToJson([dev |-> kind, line |-> l])>>)

TRunDev == /\ IsRun
           /\ KnownDeviations # {}
           /\ Fits({}) = {}
           /\ LET m == UNION {Fits(D) : D \in (SUBSET KnownDeviations) \ {{}}} IN
              /\ m # {}
              /\ Dev(IF StatusOf(st, Ev.tx) = "committed" THEN "commit-twice" ELSE "rerun-dup")
              /\ st' = (CHOOSE c \in m : TRUE).s
           /\ Quiet

TInit == st = EmptyState /\ run = NoRun /\ budget = [faults |-> 0, plain |-> 0] /\ l = 1
TNext == /\ l <= Len(TLog)
         /\ l' = l + 1
         /\ (TReset \/ TPlain \/ TStart \/ TStage \/ TReapply \/ TRun \/ TRunDev)
TSpec == TInit /\ [][TNext]_tvars

Constr == Mark(l)
=============================================================================
