------------------------------ MODULE TxnGen ------------------------------
(***************************************************************************)
(* Use (B) of Txn: every scenario of the bounded universe is one initial   *)
(* state; its single successor computes, with the operators of Txn.tla,    *)
(* the SET of observation sequences the specification allows and prints    *)
(* the scenario as one JSON line ("SCN").                                  *)
(*                                                                         *)
(* A scenario: 1..MaxBr branches, each existing already or not, all staged *)
(* in one transaction; then MinLen..MaxLen operations, each CommitTx or    *)
(* Discard (so: re-run after a failure, commit again, discard after        *)
(* commit, discard then commit, ...), MinFail..MaxFail of them with an     *)
(* injected failure ("err") or crash ("crashed") at the k-th store         *)
(* operation of that operation, for every k.                               *)
(*                                                                         *)
(* After every operation the harness observes, per branch, what the        *)
(* statement speaks of (all relative to the state before the first         *)
(* operation):                                                             *)
(*   depth  0 = the branch is where it was, 1 = it is at a new commit that *)
(*          carries the staged data on top of where it was, 2, 3.. = at a  *)
(*          stack of that many such commits (duplicates), -1 = elsewhere   *)
(*   nlog   entries of the branch's log carrying the transaction           *)
(*   nobj   commit objects made for this branch by the transaction         *)
(* and the call's result ("ok", "err", or "crashed": it never returned),   *)
(* the transaction's status and (after a successful discard only: "none",  *)
(* otherwise "any") whether staged refs are left.                          *)
(*                                                                         *)
(* Exported sets of observation sequences:                                 *)
(*   allowed  the statement-level oracle (Txn!ExecAny: a failure stops the *)
(*            run at SOME store operation, order of branches free)         *)
(*   tight    what the step structure of Txn.tla predicts for exactly the  *)
(*            failure index given (informational: class label only)        *)
(*   dct, drd, dboth   sequences possible only with the named deviations   *)
(*            {"commit-twice"}, {"rerun-dup"}, both (minus allowed): lets  *)
(*            the harness name a deviation of the real code precisely      *)
(***************************************************************************)
EXTENDS Txn, TLC, Json

CONSTANTS MaxBr, MinLen, MaxLen, MinFail, MaxFail

VARIABLES scn, done
gvars == <<st, run, budget, scn, done>>

Brs == <<"a", "b", "c", "d">>
T == 1
Kinds == {"commit", "discard"}
Hows == {"err", "crashed"}
MaxK(kind, n) == IF kind = "commit" THEN 2 * n + 1 ELSE n + 1

Op(kind, k, how) == [kind |-> kind, tx |-> T, k |-> k, how |-> how]

Faults(n, base, F) ==
  {f \in [F -> (1..(2 * n + 1)) \X Hows] : \A p \in F : f[p][1] <= MaxK(base[p], n)}

OpSeqs(n) ==
  UNION { UNION { UNION {
    { [p \in 1..len |-> IF p \in F THEN Op(base[p], f[p][1], f[p][2]) ELSE Op(base[p], 0, "-")]
      : f \in Faults(n, base, F) }
    : F \in {X \in SUBSET (1..len) : Cardinality(X) >= MinFail /\ Cardinality(X) <= MaxFail} }
    : base \in [1..len -> Kinds] }
    : len \in MinLen..MaxLen }

Scenarios ==
  UNION { {[ex |-> ex, ops |-> ops] : ex \in [1..n -> BOOLEAN], ops \in OpSeqs(n)} : n \in 1..MaxBr }

(* the repository before the first operation *)
RECURSIVE Bases(_, _, _)
Bases(s, ex, i) ==
  IF i > Len(ex) THEN s
  ELSE Bases(IF ex[i] THEN PlainCommit(s, Brs[i], i) ELSE s, ex, i + 1)
RECURSIVE StageAll(_, _, _)
StageAll(s, n, i) == IF i > n THEN s ELSE StageAll(Stage(s, T, Brs[i], 10 + i), n, i + 1)
Setup(ex) == StageAll(StartTx(Bases(EmptyState, ex, 1), T), Len(ex), 1)

-----------------------------------------------------------------------------
(* observation *)

RECURSIVE Depth(_, _, _, _, _)
Depth(s, id, old, src, d) ==
  IF id = old THEN d
  ELSE IF id = None THEN -1
  ELSE LET c == s.commits[id] IN
       IF c.tx # T \/ c.src # src THEN -1 ELSE Depth(s, c.par, old, src, d + 1)

NObj(s, src) == Cardinality({i \in DOMAIN s.commits : s.commits[i].tx = T /\ s.commits[i].src = src})

Obs(f, op, s0, n) ==
  <<f.run.res,
    IF StatusOf(f.s, T) = "absent" THEN "gone" ELSE StatusOf(f.s, T),
    IF op.kind = "discard" /\ f.run.res = "ok" THEN "none" ELSE "any">>
  \o [i \in 1..n |->
        LET b == Brs[i]  src == s0.staged[<<T, b>>] IN
        <<Depth(f.s, HeadOf(f.s, b), HeadOf(s0, b), src, 0),
          Cardinality(TxEntries(f.s, T, b)),
          NObj(f.s, src)>>]

(* all observation sequences of ops from s *)
RECURSIVE Seqs(_, _, _, _, _, _)
Seqs(s, ops, dev, tight, s0, n) ==
  IF ops = <<>> THEN {<<>>}
  ELSE LET op == ops[1]
           fin == IF tight THEN Exec(s, op, dev) ELSE ExecAny(s, op, dev)
       IN UNION { {<<Obs(f, op, s0, n)>> \o rest : rest \in Seqs(f.s, Tail(ops), dev, tight, s0, n)}
                  : f \in fin }

(* The deviations change nothing before the second CommitTx of a scenario  *)
(* (the first one finds the transaction in progress and nothing logged),   *)
(* so their sets are only computed for scenarios that have one.            *)
TwoCommits(ops) == Cardinality({p \in 1..Len(ops) : ops[p].kind = "commit"}) >= 2

Export(sc) ==
  LET s0 == Setup(sc.ex)
      n == Len(sc.ex)
      allowed == Seqs(s0, sc.ops, {}, FALSE, s0, n)
      DevSeqs(dev) == IF TwoCommits(sc.ops) THEN Seqs(s0, sc.ops, dev, FALSE, s0, n) \ allowed ELSE {}
  IN [ex |-> sc.ex,
      ops |-> [p \in 1..Len(sc.ops) |-> <<sc.ops[p].kind, sc.ops[p].k, sc.ops[p].how>>],
      allowed |-> allowed,
      tight |-> Seqs(s0, sc.ops, {}, TRUE, s0, n),
      dct |-> DevSeqs({"commit-twice"}),
      drd |-> DevSeqs({"rerun-dup"}),
      dboth |-> DevSeqs({"commit-twice", "rerun-dup"})]

-----------------------------------------------------------------------------
Init == /\ scn \in Scenarios
        /\ done = FALSE
        /\ st = Setup(scn.ex) /\ run = NoRun /\ budget = [faults |-> 0, plain |-> 0]

Next == /\ ~done
        /\ done' = TRUE
        /\ PrintT(<<"SCN", ToJson(Export(scn))>>)
        /\ UNCHANGED <<st, run, budget, scn>>

Spec == Init /\ [][Next]_gvars

(* every scenario starts from a state the statement calls "none moved",    *)
(* and the oracle is never empty                                           *)
SetupSane == /\ NoneMoved(st, T, StagedOf(st, T))
             /\ AllOrNone(st, T, {})
=============================================================================
