----------------------------- MODULE IngestGen -----------------------------
(***************************************************************************)
(* Use (A)+(B) of Ingest.  Every scenario is one state of depth 2: an input *)
(* row sequence, a key shape, a run size and a padding amount.  TLC checks  *)
(* on it that the design (sort/spill/merge/dedupe/cut) meets the contract,  *)
(* and prints the contract's expectation for the harness:                   *)
(*   exp[i] = the set of rows allowed at position i of the stored table     *)
(*   padAt  = number of expected rows that sort before the padding rows     *)
(* Cell values: 0 is the EMPTY string, 2 a non-empty one; padding rows have  *)
(* key cells that sort strictly between (value 1), so `pad` rows placed      *)
(* after the first padAt rows push the following rows across a real          *)
(* 255-row block boundary.                                                   *)
(***************************************************************************)
EXTENDS Ingest, TLC, Json

CONSTANTS N,        \* maximal number of input rows
          Shapes, Runs, Pads,
          Rems      \* sets of removed (non-key) columns, for the sorter's outputs (C19): subsets of
                    \* {"f0", "f1", "v"} = the filler column before the key columns, the one
                    \* between them, and the payload column after them; {{}} for ingest

VARIABLES input, shape, run, pad, rem, phase
vars == <<input, shape, run, pad, rem, phase>>

Rows == {<<a, b, p>> : a \in {0, 2}, b \in {0, 2}, p \in {0, 1}}
Inputs == UNION {[1..n -> Rows] : n \in 0..N}

PadAt(in, sh) == Cardinality({k \in KeysOf(in, sh) : k[1] = 0})

\* the configuration is chosen in Init and the input in the first step, so that
\* TLC's workers share the scenarios (initial states are computed sequentially)
Init == /\ input = <<>>
        /\ shape \in Shapes
        /\ run \in Runs
        /\ pad \in Pads
        /\ ~(run = 1 /\ pad > 0)   \* every row its own spill file: only without padding
        /\ rem \in Rems
        /\ shape = "n" => rem = {}  \* without a key every column is key material: nothing is removed
        /\ phase = "pick"
Next == /\ phase = "pick"
        /\ phase' = "done"
        /\ input' \in Inputs
        /\ UNCHANGED <<shape, run, pad, rem>>
        /\ PrintT(<<"SCN", ToJson([in |-> input', sh |-> shape, run |-> run, pad |-> pad, rem |-> rem,
                                    exp |-> Expected(input', shape), padAt |-> PadAt(input', shape)])>>)
Spec == Init /\ [][Next]_vars

Conforms == DesignConforms(input, run, shape)
RunIndep == RunIndependent(input, shape, Runs)
=============================================================================
