------------------------------ MODULE PruneGen ------------------------------
(***************************************************************************)
(* Use (A)+(B) of Prune.  Every scenario is ONE initial state:             *)
(*   a commit DAG with MinN..N commits (parents among earlier commits, at  *)
(*   most two), each commit naming one of four fixed tables that share     *)
(*   blocks (T1 = {b1,b2}, T2 = {b2,b3}, T3 = {b4}, T4 = T1's blocks under *)
(*   another primary key: same blocks, other block indices), every subset of the *)
(*   commits carrying a ref (the kind - head, tag, remote-tracking,        *)
(*   transaction - rotates), every subset of the tables absent from the    *)
(*   store (commits naming them are shallow).                              *)
(* Init prints the scenario with the statement's Must / MustNot sets       *)
(* ("SCN" line, replayed on the real prune.Prune by the harness); Next is  *)
(* the design of Prune.tla run twice, checked against Post, NeverCrash and *)
(* LiveUntouched.                                                          *)
(***************************************************************************)
EXTENDS Prune, TLC, Json

CONSTANTS N, MinN, NTables,
          TwinOnly,          \* TRUE: only scenarios in which some commit names T4, with at most T1 or T4 absent
                             \* (the dimension T4 adds; the rest is enumerated by the three-table configuration)
          Shard, NShards     \* this TLC process enumerates the scenarios whose absent set has
                             \* code = Shard (mod NShards); 0, 1 = everything

Tables    == 1..NTables
Blk       == <<{1, 2}, {2, 3}, {4}, {1, 2}>>
KV        == <<0, 0, 0, 1>>          \* key variant of a table: its block indices are named block + 100 * variant
Bix       == [u \in 1..4 |-> {y + 100 * KV[u] : y \in Blk[u]}]
NoProfile == {2}            \* table 2 never had a profile ("wherever those existed before")

Parents(x) == {P \in SUBSET (1..(x-1)) : Cardinality(P) <= 2}

Store0(n, abs) ==
  LET pt == Tables \ abs
      pb == UNION {Blk[u] : u \in pt} IN
  [c |-> 1..n, t |-> pt, ti |-> pt, p |-> pt \ NoProfile, b |-> pb, bi |-> UNION {Bix[u] : u \in pt}]

RefKinds == <<"head", "tag", "remote", "txn">>
SumTab(n, tab) == LET F[k \in 0..n] == IF k = 0 THEN 0 ELSE F[k-1] + tab[k] IN F[n]
AbsCode(abs) == (IF 1 \in abs THEN 1 ELSE 0) + (IF 2 \in abs THEN 2 ELSE 0) + (IF 3 \in abs THEN 4 ELSE 0)
                + (IF 4 \in abs THEN 8 ELSE 0)
KindOf(x, n, tab) == RefKinds[((x + SumTab(n, tab)) % 4) + 1]

Scn(r, s, abs) ==
  [par    |-> r.par,
   tab    |-> r.tab,
   refs   |-> {<<x, KindOf(x, r.n, r.tab)>> : x \in r.roots},
   abs    |-> abs,
   before |-> s,
   must   |-> Must(r, s),
   mnot   |-> MustNot(r, s),
   ss     |-> AbsentLiveT(r, s)]       \* feature class: shallow survivors

Init ==
  \E n \in MinN..N :
    \E par \in [1..n -> SUBSET (1..n)] :
      /\ \A x \in 1..n : par[x] \in Parents(x)
      /\ \E tab \in [1..n -> Tables] :
           /\ TwinOnly => \E x \in 1..n : tab[x] = 4
           /\ \E roots \in SUBSET (1..n) :
             \E abs \in {a \in SUBSET Tables : /\ AbsCode(a) % NShards = Shard
                                                /\ TwinOnly => a \in {{}, {1}, {4}}} :
               LET r == [n |-> n, par |-> par, tab |-> tab, blk |-> Blk, bix |-> Bix, roots |-> roots]
                   s == Store0(n, abs) IN
               /\ Start(r, s)
               /\ PrintT(<<"SCN", ToJson(Scn(r, s, abs))>>)

Spec == Init /\ [][Next]_vars
=============================================================================
