--------------------------- MODULE MergeKeylessGen ---------------------------
(***************************************************************************)
(* Merge of tables that have no primary key (C05: "or all having none").   *)
(* Base = {row 1, row 2}; every branch is a subset of the rows 1..4; every *)
(* ordered pair (and a sample of triples) of branches is one scenario with *)
(* the expected result set Merge!KeylessResult.  TLC checks the laws.      *)
(***************************************************************************)
EXTENDS Merge, TLC, Json

CONSTANT Triples    \* TRUE: also three branches

VARIABLES x, y, z, phase
vars == <<x, y, z, phase>>

Rows == 1..4
BaseRows == {1, 2}
Versions == SUBSET Rows

Init == x \in Versions /\ y = {} /\ z = {} /\ phase = "pick"
Next == /\ phase = "pick" /\ phase' = "done"
        /\ y' \in Versions
        /\ z' \in (IF Triples THEN {BaseRows, {1}, {2, 3}, {1, 2, 4}} ELSE {BaseRows})
        /\ UNCHANGED x
        /\ LET bs == IF Triples THEN <<x, y', z'>> ELSE <<x, y'>> IN
             PrintT(<<"SCN", ToJson([keyless |-> TRUE, base |-> BaseRows, branches |-> bs,
                                     result |-> KeylessResult(BaseRows, bs)])>>)
Spec == Init /\ [][Next]_vars

Laws == /\ KeylessResult(BaseRows, <<x, BaseRows>>) = x
        /\ KeylessResult(BaseRows, <<x, x>>) = x
        /\ phase = "done" => KeylessResult(BaseRows, <<x, y>>) = KeylessResult(BaseRows, <<y, x>>)
=============================================================================
