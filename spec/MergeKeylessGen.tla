--------------------------- MODULE MergeKeylessGen ---------------------------
(***************************************************************************)
(* Merge of tables that have no primary key (C05: "or all having none").   *)
(* Base = {row 1, row 2}; every branch is a subset of the rows 1..4; every *)
(* ordered pair (and a sample of triples) of branches is one scenario with *)
(* the expected result set Merge!KeylessResult.  TLC checks the laws.      *)
(***************************************************************************)
EXTENDS Merge, TLC, Json

CONSTANT Triples    \* TRUE: also three branches

VARIABLES x, y, z, phase,
          drop   \* the branch y has dropped the last column (every one of its rows is then another row)
vars == <<x, y, z, phase, drop>>

Rows == 1..4
BaseRows == {1, 2}
Versions == SUBSET Rows

(* When a branch has other COLUMNS, no row of it is a row of the base (a row is all of its cells).  The      *)
(* statement's rule then gives: the base rows are removed by that branch, its rows are added, and the result *)
(* has the columns no branch removed - which is the set of PROJECTED rows of KeylessResult over the row      *)
(* numbers (row n projects to row n; distinct rows stay distinct: the first cell differs).  An implementation *)
(* that cannot match such rows may REFUSE the merge; what it must not do is answer with other rows.          *)
Init == x \in Versions /\ y = {} /\ z = {} /\ phase = "pick" /\ drop = FALSE
Next == /\ phase = "pick" /\ phase' = "done"
        /\ y' \in Versions
        /\ drop' \in BOOLEAN
        /\ z' \in (IF Triples THEN {BaseRows, {1}, {2, 3}, {1, 2, 4}} ELSE {BaseRows})
        /\ UNCHANGED x
        /\ LET bs == IF Triples THEN <<x, y', z'>> ELSE <<x, y'>> IN
             PrintT(<<"SCN", ToJson([keyless |-> TRUE, base |-> BaseRows, branches |-> bs, drop |-> drop',
                                     mayrefuse |-> drop',
                                     result |-> KeylessResult(BaseRows, bs),
                                     \* with a dropped column the rule can also be read "every row of y is a new row":
                                     \* then y's rows stay although another branch removed their base rows
                                     alt |-> IF drop' THEN KeylessResult(BaseRows, bs) \cup y' ELSE KeylessResult(BaseRows, bs)])>>)
Spec == Init /\ [][Next]_vars

Laws == /\ KeylessResult(BaseRows, <<x, BaseRows>>) = x
        /\ KeylessResult(BaseRows, <<x, x>>) = x
        /\ phase = "done" => KeylessResult(BaseRows, <<x, y>>) = KeylessResult(BaseRows, <<y, x>>)
=============================================================================
