------------------------------- MODULE Refs -------------------------------
(***************************************************************************)
(* The ref store of wrgl (pkg/ref.Store as implemented by pkg/ref/sql)     *)
(* seen as what property C15 says it is: a map from exact names to values  *)
(* with one append-only log per name.                                      *)
(*                                                                         *)
(* A name is a string (TLC treats strings as sequences of characters for   *)
(* Len, SubSeq and \o); a prefix is a string too and "starts with" is the  *)
(* literal, case-sensitive relation - no character has a wildcard meaning. *)
(* Values are small naturals (the harness maps them to 16-byte sums);      *)
(* None = 0 stands for "no value".                                         *)
(*                                                                         *)
(* Every operation is an operator  Op(args, refs, logs) -> [refs, logs,    *)
(* ret] so that the same definition is used by the scenario generator      *)
(* (RefsGen), the trace validator (TraceRefs), the transaction module      *)
(* (Txn) and the system model (System).                                    *)
(***************************************************************************)
EXTENDS Naturals, Sequences, FiniteSets

None == 0

(* partial functions *)
Put(f, k, v)  == [x \in DOMAIN f \cup {k} |-> IF x = k THEN v ELSE f[x]]
Drop(f, k)    == [x \in DOMAIN f \ {k} |-> f[x]]
Cur(refs, n)  == IF n \in DOMAIN refs THEN refs[n] ELSE None
LogOf(logs, n) == IF n \in DOMAIN logs THEN logs[n] ELSE <<>>

StartsWith(n, p) == Len(p) <= Len(n) /\ SubSeq(n, 1, Len(p)) = p

(* names selected by a list of prefixes (none = everything) minus those    *)
(* starting with one of the not-prefixes                                   *)
Match(refs, ps, nps) ==
  {n \in DOMAIN refs : /\ (ps = {} \/ \E p \in ps : StartsWith(n, p))
                        /\ \A q \in nps : ~StartsWith(n, q)}

St(r, l, ret) == [refs |-> r, logs |-> l, ret |-> ret]
Ok  == [ok |-> TRUE]
Err == [ok |-> FALSE]

-----------------------------------------------------------------------------
(* primitive operations *)

Set(refs, logs, n, v) == St(Put(refs, n, v), logs, Ok)

(* a log entry is <<old, new, meta>>; its old value is the value held just before;   *)
(* meta stands for everything else an entry records (author, action, message, the     *)
(* transaction that wrote it): rename and copy carry it along unchanged.  The         *)
(* generators write two kinds: MetaOf(v) = 1 "by a transaction", 0 plain.             *)
MetaOf(v) == v % 2
SetWithLog(refs, logs, n, v, meta) ==
  St(Put(refs, n, v),
     Put(logs, n, Append(LogOf(logs, n), <<Cur(refs, n), v, meta>>)),
     Ok)

Get(refs, logs, n) ==
  St(refs, logs, IF n \in DOMAIN refs THEN [ok |-> TRUE, val |-> refs[n]] ELSE Err)

(* deleting a name drops its log; deleting an absent name changes nothing  *)
(* (whether that is reported as an error is not part of the statement)     *)
Delete(refs, logs, n) ==
  St(Drop(refs, n), Drop(logs, n), [ok |-> TRUE, free |-> TRUE])  \* free: error-ness not compared

Rename(refs, logs, a, b) ==
  IF a \notin DOMAIN refs \/ b \in DOMAIN refs \/ a = b THEN St(refs, logs, Err)
  ELSE St(Put(Drop(refs, a), b, refs[a]),
          IF a \in DOMAIN logs THEN Put(Drop(logs, a), b, logs[a]) ELSE Drop(logs, b),
          Ok)

Copy(refs, logs, a, b) ==
  IF a \notin DOMAIN refs \/ b \in DOMAIN refs THEN St(refs, logs, Err)
  ELSE St(Put(refs, b, refs[a]),
          IF a \in DOMAIN logs THEN Put(logs, b, logs[a]) ELSE Drop(logs, b),
          Ok)

Filter(refs, logs, ps, nps) ==
  St(refs, logs, [ok |-> TRUE, names |-> Match(refs, ps, nps),
                  vals |-> {<<n, refs[n]>> : n \in Match(refs, ps, nps)}])

(* newest first *)
Reverse(s) == [i \in 1..Len(s) |-> s[Len(s) + 1 - i]]
LogRead(refs, logs, n) ==
  St(refs, logs,
     IF LogOf(logs, n) = <<>> THEN Err
     ELSE [ok |-> TRUE, log |-> Reverse(logs[n])])

-----------------------------------------------------------------------------
(* derived bulk operations of pkg/ref/refs.go *)

RemotePrefix(r) == "remotes/" \o r \o "/"

DeleteAllRemote(refs, logs, r) ==
  LET dead == Match(refs, {RemotePrefix(r)}, {}) IN
  St([n \in DOMAIN refs \ dead |-> refs[n]], [n \in DOMAIN logs \ dead |-> logs[n]], Ok)

ListRemote(refs, logs, r) ==
  LET p == RemotePrefix(r) IN
  St(refs, logs,
     [ok |-> TRUE,
      vals |-> {<<SubSeq(n, Len(p) + 1, Len(n)), refs[n]>> : n \in Match(refs, {p}, {})}])

Retarget(n, r1, r2) == RemotePrefix(r2) \o SubSeq(n, Len(RemotePrefix(r1)) + 1, Len(n))

(* defined when no target name exists (otherwise the real operation stops  *)
(* half-way with an error, which the statement does not describe)          *)
RenameAllRemoteEnabled(refs, r1, r2) ==
  /\ r1 # r2
  /\ \A n \in Match(refs, {RemotePrefix(r1)}, {}) : Retarget(n, r1, r2) \notin DOMAIN refs
  \* the renamed names must not themselves fall under the old prefix
  /\ ~StartsWith(RemotePrefix(r2), RemotePrefix(r1))

RenameAllRemote(refs, logs, r1, r2) ==
  LET mv == Match(refs, {RemotePrefix(r1)}, {})
      tgt == {Retarget(n, r1, r2) : n \in mv}
      src(m) == CHOOSE n \in mv : Retarget(n, r1, r2) = m
      mvl == mv \cap DOMAIN logs
      tgtl == {Retarget(n, r1, r2) : n \in mvl}
  IN St([m \in (DOMAIN refs \ mv) \cup tgt |-> IF m \in tgt THEN refs[src(m)] ELSE refs[m]],
        [m \in ((DOMAIN logs \ mv) \ tgt) \cup tgtl |-> IF m \in tgtl THEN logs[src(m)] ELSE logs[m]],
        Ok)

-----------------------------------------------------------------------------
(* properties of a state *)

(* each entry's old value is the previous entry's new value *)
LogChained(logs) ==
  \A n \in DOMAIN logs : \A i \in 2..Len(logs[n]) : logs[n][i][1] = logs[n][i-1][2]

(* the newest entry of a log names the current value, unless the ref was   *)
(* last written by an unlogged Set (tracked by the caller)                 *)
LogHeadCurrent(refs, logs, n) ==
  n \in DOMAIN logs /\ logs[n] # <<>> => logs[n][Len(logs[n])][2] = Cur(refs, n)

LogsOnlyForRefs(refs, logs) == DOMAIN logs \subseteq DOMAIN refs
=============================================================================
