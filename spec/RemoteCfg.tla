----------------------------- MODULE RemoteCfg -----------------------------
(***************************************************************************)
(* The part of wrgl that CONFIGURES synchronisation and moves refs in      *)
(* bulk: the `wrgl remote` commands (add, remove, rename, set-url,         *)
(* set-branches, show, get-url) and the `wrgl config` commands (set, add,  *)
(* unset [--all], replace-all, rename-section, get; value patterns) as far *)
(* as the sections remote.* and branch.* are concerned.                    *)
(*                                                                         *)
(* A state is  [cfg, refs, logs]:                                          *)
(*   cfg.remote  name -> [url, fetch, push, mirror]   (fetch / push are    *)
(*               sequences of refspec STRINGS, as in the file)             *)
(*   cfg.branch  branch -> [remote, merge]            (empty = unset)      *)
(*   refs, logs  the ref store of Refs.tla (exact names, per-name logs)    *)
(*                                                                         *)
(* Every command is an operator  Cmd(st, args) -> sequence of ALLOWED      *)
(* outcomes  [ok, st, out]:  ok is "T" (succeeds), "F" (refuses) or "*"    *)
(* (the documentation is silent: either); where the documentation leaves   *)
(* the effect open there are several outcomes.  Dev(op, st) lists, with a  *)
(* name, the outcomes of the PINNED code that deviate from this (known     *)
(* findings): the harness recognises a deviation as known only when the    *)
(* real code did exactly that.                                             *)
(*                                                                         *)
(* Refspecs are records [force, neg, tag, src, dst] with the pair          *)
(* Str / Parse;  Parse(Str(r)) = r over the refspec universe is checked    *)
(* by TLC (RemoteCfgGen, RoundTrip).                                       *)
(***************************************************************************)
EXTENDS Refs, Integers

-----------------------------------------------------------------------------
(* strings (TLC: strings are sequences of characters for Len, SubSeq, \o)   *)

Cut(s, n)   == SubSeq(s, n + 1, Len(s))                 \* s without its first n characters
Front(s)    == SubSeq(s, 1, Len(s) - 1)                 \* s without its last character
LastCh(s)   == SubSeq(s, Len(s), Len(s))
IndexOf(s, c) ==                                        \* first position of character c, 0 = none
  LET I == {i \in 1..Len(s) : SubSeq(s, i, i) = c}
  IN IF I = {} THEN 0 ELSE CHOOSE i \in I : \A j \in I : i <= j
Contains(s, t) == \E i \in 1..(Len(s) - Len(t) + 1) : SubSeq(s, i, i + Len(t) - 1) = t
Range(s)    == {s[i] : i \in 1..Len(s)}
Keep(s, Test(_)) == SelectSeq(s, Test)
BagOf(s)    == [x \in Range(s) |-> Cardinality({i \in 1..Len(s) : s[i] = x})]

-----------------------------------------------------------------------------
(* refspecs: pkg/conf/refspec.go                                           *)
(*   ['+'] ['^'] ( "tag " NAME  |  SRC [ ':' DST ] )                       *)
(* a '*' may only be the last character of SRC / DST; a negative refspec   *)
(* has no DST; otherwise SRC is a glob iff DST is.                         *)

RS(f, n, t, s, d) == [force |-> f, neg |-> n, tag |-> t, src |-> s, dst |-> d]
ParseErr == RS(FALSE, FALSE, "!", "!", "!")

Str(r) == (IF r.force THEN "+" ELSE "") \o (IF r.neg THEN "^" ELSE "") \o
          (IF r.tag # "" THEN "tag " \o r.tag
           ELSE r.src \o (IF r.dst # "" THEN ":" \o r.dst ELSE ""))

StarOK(s) == LET i == IndexOf(s, "*") IN i = 0 \/ i = Len(s)
IsGlob(s) == s # "" /\ LastCh(s) = "*"

WellFormed(r) ==
  IF r.tag # "" THEN r.src = "" /\ r.dst = ""
  ELSE /\ ~(r.src = "" /\ r.dst = "")
       /\ StarOK(r.src) /\ StarOK(r.dst)
       /\ r.neg => r.dst = ""
       /\ ~r.neg => (IsGlob(r.src) <=> IsGlob(r.dst))

Parse(s) ==
  IF s = "" THEN ParseErr
  ELSE LET f  == StartsWith(s, "+")
           s1 == IF f THEN Cut(s, 1) ELSE s
           n  == StartsWith(s1, "^")
           s2 == IF n THEN Cut(s1, 1) ELSE s1
       IN IF StartsWith(s2, "tag ") THEN RS(f, n, Cut(s2, 4), "", "")
          ELSE LET i == IndexOf(s2, ":")
                   r == RS(f, n, "", IF i = 0 THEN s2 ELSE SubSeq(s2, 1, i - 1),
                                     IF i = 0 THEN "" ELSE Cut(s2, i))
               IN IF WellFormed(r) THEN r ELSE ParseErr

(* the pinned parser: after '+' it still looks at the FIRST character for   *)
(* '^', and a tag name is taken from the fifth character of the whole text  *)
ParseAsCoded(s) ==
  IF s = "" THEN ParseErr
  ELSE LET f  == StartsWith(s, "+")
           n  == StartsWith(s, "^")
           off == (IF f THEN 1 ELSE 0) + (IF n THEN 1 ELSE 0)
           s2 == Cut(s, off)
       IN IF StartsWith(s2, "tag ") THEN RS(f, n, Cut(s, 4), "", "")
          ELSE LET i == IndexOf(s2, ":")
                   r == RS(f, n, "", IF i = 0 THEN s2 ELSE SubSeq(s2, 1, i - 1),
                                     IF i = 0 THEN "" ELSE Cut(s2, i))
               IN IF WellFormed(r) THEN r ELSE ParseErr

(* ... and it looks at four characters after the flags whether or not the    *)
(* text has them: a shorter text is a panic (slice bounds), not a refspec    *)
ShortTextPanics(s) ==
  Len(s) < (IF StartsWith(s, "+") THEN 1 ELSE 0) + (IF StartsWith(s, "^") THEN 1 ELSE 0) + 4

SrcOf(r) == IF r.tag # "" THEN "refs/tags/" \o r.tag ELSE r.src
DstOf(r) == IF r.tag # "" THEN "refs/tags/" \o r.tag ELSE r.dst

GlobMatch(pat, name) ==            \* pat ends with '*'
  Len(name) > Len(pat) - 1 /\ StartsWith(name, Front(pat))

SrcMatch(r, name) == IF IsGlob(SrcOf(r)) THEN GlobMatch(SrcOf(r), name) ELSE SrcOf(r) = name

DstMatch(r, name) ==
  /\ DstOf(r) # "" /\ name # ""
  /\ IF IsGlob(DstOf(r)) THEN GlobMatch(DstOf(r), name) ELSE DstOf(r) = name

(* where a fetch of remote ref  name  under refspec r is stored ("" = not)  *)
DstFor(r, name) ==
  IF DstOf(r) = "" \/ name = "" \/ r.neg THEN ""
  ELSE IF ~IsGlob(SrcOf(r)) THEN (IF SrcOf(r) = name THEN DstOf(r) ELSE "")
  ELSE IF StartsWith(name, Front(SrcOf(r))) THEN Front(DstOf(r)) \o Cut(name, Len(SrcOf(r)) - 1)
  ELSE ""

(* pinned code: a refspec read from text in the "tag" form keeps star       *)
(* index 0 for source and destination, so it matches every name            *)
DstForAsCoded(r, name)   == IF r.tag # "" /\ name # "" THEN name ELSE DstFor(r, name)
DstMatchAsCoded(r, name) == IF r.tag # "" /\ name # "" THEN TRUE ELSE DstMatch(r, name)
(* pinned code: DstForRef slices the name at the star index without a      *)
(* length check - a name shorter than the glob's fixed part is a panic     *)
DstForPanics(r, name) ==
  /\ r.tag = "" /\ DstOf(r) # "" /\ name # ""
  /\ IsGlob(SrcOf(r)) /\ Len(name) < Len(SrcOf(r)) - 1

-----------------------------------------------------------------------------
(* configuration                                                           *)

RemoteRec(u, f, p, m) == [url |-> u, fetch |-> f, push |-> p, mirror |-> m]
BranchRec(r, m)       == [remote |-> r, merge |-> m]
NoBranch              == BranchRec("", "")
EmptyCfg              == [remote |-> <<>>, branch |-> <<>>]
EmptyState            == [cfg |-> EmptyCfg, refs |-> <<>>, logs |-> <<>>]

Remotes(st)   == DOMAIN st.cfg.remote
BranchOf(c, b) == IF b \in DOMAIN c.branch THEN c.branch[b] ELSE NoBranch
(* a branch section whose settings are all unset is no section             *)
NormB(br) == [b \in {x \in DOMAIN br : br[x] # NoBranch} |-> br[b]]

RemRefPrefix(n) == "refs/remotes/" \o n \o "/"
HeadSpec(n, b)  == "+refs/heads/" \o b \o ":" \o RemRefPrefix(n) \o b

(* the names a fetch of remote n would write for remote ref src            *)
FetchMap(c, n, src) == {DstFor(Parse(s), src) : s \in Range(c.remote[n].fetch)} \ {""}
FetchMapAsCoded(c, n, src) == {DstForAsCoded(Parse(s), src) : s \in Range(c.remote[n].fetch)} \ {""}
FetchMapPanics(c, n, src) == \E s \in Range(c.remote[n].fetch) : DstForPanics(Parse(s), src)
Tracked(c, n, name) == \E s \in Range(c.remote[n].fetch) : DstMatch(Parse(s), name)
TrackedAsCoded(c, n, name) == \E s \in Range(c.remote[n].fetch) : DstMatchAsCoded(Parse(s), name)

(* a fetch refspec whose destination lies under refs/remotes/o/ follows a  *)
(* rename of the remote                                                    *)
RewriteDst(s, o, n) ==
  LET r == Parse(s) IN
  IF r # ParseErr /\ r.tag = "" /\ StartsWith(r.dst, RemRefPrefix(o))
  THEN Str([r EXCEPT !.dst = RemRefPrefix(n) \o Cut(r.dst, Len(RemRefPrefix(o)))])
  ELSE s

-----------------------------------------------------------------------------
(* outcomes                                                                *)

NoOut == [a |-> <<>>, b |-> <<>>, c |-> {}]     \* a: ordered lines, b: lines in any order, c: set
Alt(ok, s, out) == [ok |-> ok, st |-> s, out |-> out]
Yes(s)    == <<Alt("T", s, NoOut)>>
No(s)     == <<Alt("F", s, NoOut)>>
Either(s) == <<Alt("*", s, NoOut)>>

WithCfgRemote(st, n, rec) == [st EXCEPT !.cfg.remote = Put(@, n, rec)]
WithBranch(st, b, rec)    == [st EXCEPT !.cfg.branch = NormB(Put(@, b, rec))]

-----------------------------------------------------------------------------
(* wrgl remote ...                                                         *)

TrimSlash(u) == IF u # "" /\ LastCh(u) = "/" THEN Front(u) ELSE u

AddFetch(n, track, mode) ==
  IF mode = "mfetch" THEN <<"+refs/*:refs/*">>
  ELSE (IF track = <<>> THEN <<HeadSpec(n, "*")>> ELSE [i \in 1..Len(track) |-> HeadSpec(n, track[i])])
       \o (IF mode = "tags" THEN <<"tag *">> ELSE <<>>)

(* remote add NAME URL [-t b]... [--tags] [--mirror=fetch|push]; whether an *)
(* existing remote is replaced or the command refuses is not documented     *)
RemoteAdd(st, n, url, track, mode) ==
  LET s2 == WithCfgRemote(st, n, RemoteRec(TrimSlash(url), AddFetch(n, track, mode), <<>>, mode = "mpush"))
  IN IF n \in Remotes(st) THEN <<Alt("F", st, NoOut), Alt("T", s2, NoOut)>> ELSE Yes(s2)

(* "All remote-tracking branches and configuration settings for the remote  *)
(* are removed": the refs under remotes/NAME/ with their logs, the section, *)
(* and the upstream settings of the branches that point at it               *)
ClearUpstream(br, n) ==
  NormB([b \in DOMAIN br |-> IF br[b].remote = n THEN NoBranch ELSE br[b]])

RemoteRemove(st, n) ==
  LET d == DeleteAllRemote(st.refs, st.logs, n) IN
  IF n \in Remotes(st)
  THEN Yes([cfg |-> [remote |-> Drop(st.cfg.remote, n), branch |-> ClearUpstream(st.cfg.branch, n)],
            refs |-> d.refs, logs |-> d.logs])
  ELSE <<Alt("F", st, NoOut), Alt("T", [st EXCEPT !.refs = d.refs, !.logs = d.logs], NoOut)>>

RemoteRemoveAsCoded(st, n) ==       \* the branches keep pointing at the removed remote
  LET d == DeleteAllRemote(st.refs, st.logs, n) IN
  Alt("T", [cfg |-> [st.cfg EXCEPT !.remote = Drop(@, n)], refs |-> d.refs, logs |-> d.logs], NoOut)

(* "All remote-tracking branches and configuration settings for the remote  *)
(* are updated": exactly the refs under remotes/OLD/ move to remotes/NEW/   *)
(* with their logs, the section moves, fetch destinations under             *)
(* refs/remotes/OLD/ and branch.<b>.remote follow.  Refuses when OLD is not *)
(* configured or NEW is.  (Defined when RenameAllRemoteEnabled.)            *)
FollowUpstream(br, o, n) ==
  [b \in DOMAIN br |-> IF br[b].remote = o THEN [br[b] EXCEPT !.remote = n] ELSE br[b]]

RemoteRename(st, o, n) ==
  IF o = n THEN Either(st)
  ELSE IF o \notin Remotes(st) \/ n \in Remotes(st) THEN No(st)
  ELSE LET m   == RenameAllRemote(st.refs, st.logs, o, n)
           old == st.cfg.remote[o]
           new == [old EXCEPT !.fetch = [i \in 1..Len(old.fetch) |-> RewriteDst(old.fetch[i], o, n)]]
       IN Yes([cfg |-> [remote |-> Put(Drop(st.cfg.remote, o), n, new),
                        branch |-> FollowUpstream(st.cfg.branch, o, n)],
               refs |-> m.refs, logs |-> m.logs])

(* pinned code: the section is moved verbatim (also over an existing NEW),  *)
(* branches keep the old name                                              *)
RemoteRenameAsCoded(st, o, n) ==
  LET m == RenameAllRemote(st.refs, st.logs, o, n) IN
  Alt("T", [cfg |-> [st.cfg EXCEPT !.remote = Put(Drop(@, o), n, st.cfg.remote[o])],
            refs |-> m.refs, logs |-> m.logs], NoOut)

(* remote set-branches NAME BRANCH [--add]                                 *)
SetBranches(st, n, b, add) ==
  IF n \notin Remotes(st) THEN No(st)
  ELSE Yes(WithCfgRemote(st, n, [st.cfg.remote[n] EXCEPT
             !.fetch = IF add THEN Append(@, HeadSpec(n, b)) ELSE <<HeadSpec(n, b)>>]))

SetUrl(st, n, url) ==
  IF n \notin Remotes(st) THEN No(st)
  ELSE Yes(WithCfgRemote(st, n, [st.cfg.remote[n] EXCEPT !.url = TrimSlash(url)]))

GetUrl(st, n) ==
  IF n \notin Remotes(st) THEN No(st)
  ELSE <<Alt("T", st, [NoOut EXCEPT !.a = <<st.cfg.remote[n].url>>])>>

RemoteBranches(st, n) ==
  {Cut(x, Len(RemotePrefix(n))) : x \in Match(st.refs, {RemotePrefix(n)}, {})}

ShowOut(st, n, T(_, _, _)) ==
  [a |-> <<st.cfg.remote[n].url>> \o st.cfg.remote[n].push,
   b |-> st.cfg.remote[n].fetch,
   c |-> {<<b, IF T(st.cfg, n, RemRefPrefix(n) \o b) THEN "tracked" ELSE "">> : b \in RemoteBranches(st, n)}]

Show(st, n) ==
  IF n \notin Remotes(st) THEN No(st) ELSE <<Alt("T", st, ShowOut(st, n, Tracked))>>

-----------------------------------------------------------------------------
(* direct writes to the ref store (what a fetch does)                      *)

MkRef(st, name, v) ==
  LET s == SetWithLog(st.refs, st.logs, name, v, 0) IN Yes([st EXCEPT !.refs = s.refs, !.logs = s.logs])

-----------------------------------------------------------------------------
(* wrgl config ...   a key is <<section, name, field>>                     *)

IsMulti(k)  == k[1] = "remote" /\ k[3] \in {"fetch", "push"}
IsSingle(k) == \/ k[1] = "remote" /\ k[3] \in {"url", "mirror"}
               \/ k[1] = "branch" /\ k[3] \in {"remote", "merge"}

SectionExists(c, k) == IF k[1] = "remote" THEN k[2] \in DOMAIN c.remote ELSE k[2] \in DOMAIN c.branch
RemOf(c, n) == IF n \in DOMAIN c.remote THEN c.remote[n] ELSE RemoteRec("", <<>>, <<>>, FALSE)

(* values of a key as a sequence of strings (unset = empty)                 *)
Values(c, k) ==
  IF k[1] = "remote" THEN
    LET r == RemOf(c, k[2]) IN
    CASE k[3] = "url"    -> IF r.url = "" THEN <<>> ELSE <<r.url>>
      [] k[3] = "mirror" -> IF r.mirror THEN <<"true">> ELSE <<>>
      [] k[3] = "fetch"  -> r.fetch
      [] k[3] = "push"   -> r.push
  ELSE LET b == BranchOf(c, k[2]) IN
    CASE k[3] = "remote" -> IF b.remote = "" THEN <<>> ELSE <<b.remote>>
      [] k[3] = "merge"  -> IF b.merge = "" THEN <<>> ELSE <<b.merge>>

(* writes the sequence vs (one element at most for single-valued keys)      *)
WithValues(st, k, vs) ==
  IF k[1] = "remote" THEN
    LET r == RemOf(st.cfg, k[2]) IN
    WithCfgRemote(st, k[2],
      CASE k[3] = "url"    -> [r EXCEPT !.url = IF vs = <<>> THEN "" ELSE vs[1]]
        [] k[3] = "mirror" -> [r EXCEPT !.mirror = (vs = <<"true">>)]
        [] k[3] = "fetch"  -> [r EXCEPT !.fetch = vs]
        [] k[3] = "push"   -> [r EXCEPT !.push = vs])
  ELSE LET b == BranchOf(st.cfg, k[2]) IN
    WithBranch(st, k[2],
      CASE k[3] = "remote" -> [b EXCEPT !.remote = IF vs = <<>> THEN "" ELSE vs[1]]
        [] k[3] = "merge"  -> [b EXCEPT !.merge = IF vs = <<>> THEN "" ELSE vs[1]])

ValidValue(k, v) ==
  CASE IsMulti(k)       -> Parse(v) # ParseErr
    [] k[3] = "mirror"  -> v \in {"true", "false"}
    [] OTHER            -> TRUE

(* a value pattern is "" (none), "fix:<text>" (--fixed-value: the whole     *)
(* value), "sub:<text>" (a regular expression without metacharacters:       *)
(* occurs anywhere) or "pre:<text>" (the expression ^<text>)                *)
PatKind(p) == SubSeq(p, 1, 3)
PatText(p) == Cut(p, 4)
Hit(p, v) == CASE PatKind(p) = "fix" -> v = PatText(p)
               [] PatKind(p) = "sub" -> Contains(v, PatText(p))
               [] PatKind(p) = "pre" -> StartsWith(v, PatText(p))
PatRegex(p) == CASE PatKind(p) = "pre" -> "^" \o PatText(p) [] OTHER -> PatText(p)

(* config set NAME VALUE: single-valued fields only                        *)
CfgSet(st, k, v) ==
  IF IsMulti(k) \/ ~ValidValue(k, v) THEN No(st)
  ELSE Yes(WithValues(st, k, IF k[3] = "mirror" /\ v = "false" THEN <<>> ELSE <<v>>))

(* config add NAME VALUE: appends to a multi-valued field                  *)
CfgAdd(st, k, v) ==
  IF ~IsMulti(k) \/ ~ValidValue(k, v) THEN No(st)
  ELSE Yes(WithValues(st, k, Append(Values(st.cfg, k), v)))

(* config unset NAME [VALUE_PATTERN] [--all]                               *)
CfgUnset(st, k, p, all) ==
  LET vs == Values(st.cfg, k) IN
  IF p = "" THEN
    IF vs = <<>> THEN Either(st)                       \* nothing to remove: error or not is open
    ELSE IF Len(vs) > 1 /\ ~all THEN No(st)
    ELSE Yes(WithValues(st, k, <<>>))
  ELSE
    IF ~IsMulti(k) THEN No(st)
    ELSE IF vs = <<>> THEN Either(st)
    ELSE LET hits == {i \in 1..Len(vs) : Hit(p, vs[i])}
             NotHit(v) == ~Hit(p, v)
         IN IF Cardinality(hits) > 1 /\ ~all THEN No(st)
            ELSE Yes(WithValues(st, k, Keep(vs, NotHit)))

(* config replace-all NAME VALUE [VALUE_PATTERN]: without a pattern one     *)
(* value remains; with a pattern the matching values go and VALUE is added  *)
CfgReplaceAll(st, k, v, p) ==
  IF ~IsMulti(k) THEN
    IF p # "" \/ ~ValidValue(k, v) THEN No(st)
    ELSE <<Alt("F", st, NoOut), CfgSet(st, k, v)[1]>>   \* single-valued: refuse or behave as set
  ELSE IF ~ValidValue(k, v) THEN No(st)
  ELSE IF p = "" THEN Yes(WithValues(st, k, <<v>>))
  ELSE LET NotHit(x) == ~Hit(p, x)
       IN Yes(WithValues(st, k, Append(Keep(Values(st.cfg, k), NotHit), v)))

(* config rename-section remote.OLD remote.NEW (or branch.): moves the      *)
(* section of the FILE only - refs, refspecs and upstream settings stay.    *)
(* (Defined when NEW does not exist and differs from OLD.)                  *)
CfgRenameSection(st, sect, o, n) ==
  LET f == IF sect = "remote" THEN st.cfg.remote ELSE st.cfg.branch IN
  IF o \notin DOMAIN f
  THEN (IF sect = "remote" THEN No(st)
        ELSE Either(st))       \* a branch section without upstream settings may exist in the file: moving it shows nothing
  ELSE IF sect = "remote" THEN Yes([st EXCEPT !.cfg.remote = Put(Drop(@, o), n, f[o])])
  ELSE Yes([st EXCEPT !.cfg.branch = Put(Drop(@, o), n, f[o])])

(* config get NAME [VALUE_PATTERN]                                          *)
CfgGet(st, k, p) ==
  LET vs == Values(st.cfg, k)
      IsHit(v) == Hit(p, v)
      sel == IF p = "" THEN vs ELSE Keep(vs, IsHit)
  IN IF vs = <<>> THEN No(st)
     ELSE IF p # "" /\ ~IsMulti(k) THEN No(st)
     ELSE <<Alt("T", st, IF k[3] = "fetch" THEN [NoOut EXCEPT !.b = sel] ELSE [NoOut EXCEPT !.a = sel])>>

-----------------------------------------------------------------------------
(* an operation is a 6-tuple of strings <<name, a, b, c, d, e>>            *)

TrackSeq(t) == CASE t = ""         -> <<>>
                 [] t = "main"     -> <<"main">>
                 [] t = "main,a/b" -> <<"main", "a/b">>
                 [] t = "a/b"      -> <<"a/b">>
ValOf(s) == CASE s = "1" -> 1 [] s = "2" -> 2 [] s = "3" -> 3

Do(o, st) ==
  CASE o[1] = "add"      -> RemoteAdd(st, o[2], o[3], TrackSeq(o[4]), o[5])
    [] o[1] = "rm"       -> RemoteRemove(st, o[2])
    [] o[1] = "rename"   -> RemoteRename(st, o[2], o[3])
    [] o[1] = "setbr"    -> SetBranches(st, o[2], o[3], o[4] = "add")
    [] o[1] = "seturl"   -> SetUrl(st, o[2], o[3])
    [] o[1] = "geturl"   -> GetUrl(st, o[2])
    [] o[1] = "show"     -> Show(st, o[2])
    [] o[1] = "mkref"    -> MkRef(st, o[2], ValOf(o[3]))
    [] o[1] = "cset"     -> CfgSet(st, <<o[2], o[3], o[4]>>, o[5])
    [] o[1] = "cadd"     -> CfgAdd(st, <<o[2], o[3], o[4]>>, o[5])
    [] o[1] = "cunset"   -> CfgUnset(st, <<o[2], o[3], o[4]>>, o[5], o[6] = "all")
    [] o[1] = "creplace" -> CfgReplaceAll(st, <<o[2], o[3], o[4]>>, o[5], o[6])
    [] o[1] = "crensec"  -> CfgRenameSection(st, o[2], o[3], o[4])
    [] o[1] = "cget"     -> CfgGet(st, <<o[2], o[3], o[4]>>, o[5])

(* operations whose effect the documentation does not determine are left    *)
(* out of generated behaviours (and of recorded ones)                       *)
NoTargetClash(st, o, n) ==
  \A x \in Match(st.refs, {RemotePrefix(o)}, {}) : Retarget(x, o, n) \notin DOMAIN st.refs

Defined(o, st) ==
  /\ o[1] = "rename" =>
       /\ ~StartsWith(RemotePrefix(o[3]), RemotePrefix(o[2]))
       /\ (o[2] # o[3] /\ o[2] \in Remotes(st)) => NoTargetClash(st, o[2], o[3])
  /\ o[1] = "crensec" =>
       /\ o[3] # o[4]
       /\ o[4] \notin (IF o[2] = "remote" THEN DOMAIN st.cfg.remote ELSE DOMAIN st.cfg.branch)

(* the situation an operation meets (part of a violation's signature)       *)
Class(o, st) ==
  CASE o[1] = "rename" ->
         (IF o[2] = o[3] THEN "same"
          ELSE IF o[2] \notin Remotes(st) THEN "old-missing"
          ELSE IF o[3] \in Remotes(st) THEN "new-exists" ELSE "ok")
    [] o[1] \in {"rm", "setbr", "seturl", "geturl", "show"} ->
         (IF o[2] \in Remotes(st) THEN "ok" ELSE "missing")
    [] o[1] = "add" -> (IF o[2] \in Remotes(st) THEN "exists" ELSE "ok")
    [] o[1] = "mkref" -> "ok"
    [] o[1] \in {"cset", "cadd", "creplace"} ->
         (IF ~ValidValue(<<o[2], o[3], o[4]>>, o[5]) THEN (IF o[5] = "" THEN "empty-value" ELSE "bad-value")
          ELSE IF IsMulti(<<o[2], o[3], o[4]>>) THEN "multi" ELSE "single")
    [] o[1] \in {"cunset", "cget"} ->
         (IF Values(st.cfg, <<o[2], o[3], o[4]>>) = <<>> THEN "unset"
          ELSE IF IsMulti(<<o[2], o[3], o[4]>>) THEN "multi" ELSE "single")
    [] o[1] = "crensec" -> (IF SectionExists(st.cfg, <<o[2], o[3], "">>) THEN "ok" ELSE "missing")

(* named outcomes of the pinned code that deviate from Do (known findings)  *)
Dev(o, st) ==
  CASE o[1] = "rename" /\ o[2] # o[3] /\ o[2] \in Remotes(st) ->
         LET a == RemoteRenameAsCoded(st, o[2], o[3])
         IN IF \E i \in 1..Len(Do(o, st)) : Do(o, st)[i].st = a.st /\ Do(o, st)[i].ok = "T" THEN <<>>
            ELSE <<<<IF o[3] \in Remotes(st) THEN "onto-existing" ELSE "config-not-followed", a>>>>
    [] o[1] = "rm" /\ o[2] \in Remotes(st) ->
         LET a == RemoteRemoveAsCoded(st, o[2])
         IN IF Do(o, st)[1].st = a.st THEN <<>> ELSE <<<<"upstream-kept", a>>>>
    [] o[1] = "show" /\ o[2] \in Remotes(st) ->
         LET a == Alt("T", st, ShowOut(st, o[2], TrackedAsCoded))
         IN IF Do(o, st)[1].out = a.out THEN <<>> ELSE <<<<"tagspec-matches-all", a>>>>
    [] OTHER -> <<>>

-----------------------------------------------------------------------------
(* what every step must satisfy (checked by TLC on every generated          *)
(* transition, RemoteCfgGen!Next)                                           *)

Under(st, n) == Match(st.refs, {RemotePrefix(n)}, {})
SameRef(s, t, x) == /\ (x \in DOMAIN s.refs) = (x \in DOMAIN t.refs)
                    /\ Cur(s.refs, x) = Cur(t.refs, x)
                    /\ LogOf(s.logs, x) = LogOf(t.logs, x)
AllNames(s, t) == DOMAIN s.refs \cup DOMAIN t.refs \cup DOMAIN s.logs \cup DOMAIN t.logs

(* refs under remotes/X/ of a remote X that is not configured               *)
Orphans(st) == {x \in DOMAIN st.refs : StartsWith(x, "remotes/") /\
                   ~\E n \in Remotes(st) : StartsWith(x, RemotePrefix(n))}

FetchSrcs == {"refs/heads/main", "refs/heads/a/b", "refs/tags/v1"}

RenameMovesExactly(s, t, o, n) ==
  /\ \A x \in AllNames(s, t) :
       ~StartsWith(x, RemotePrefix(o)) /\ ~StartsWith(x, RemotePrefix(n)) => SameRef(s, t, x)
  /\ Under(t, o) = {}
  \* (refs created directly under remotes/NEW/ before NEW was a remote stay as they are)
  /\ \A x \in Under(s, n) : SameRef(s, t, x)
  /\ Under(t, n) = Under(s, n) \cup {Retarget(x, o, n) : x \in Under(s, o)}
  /\ \A x \in Under(s, o) : /\ t.refs[Retarget(x, o, n)] = s.refs[x]
                            /\ LogOf(t.logs, Retarget(x, o, n)) = LogOf(s.logs, x)
  /\ DOMAIN t.logs \subseteq DOMAIN t.refs
  \* fetch destinations follow the remote's name
  /\ \A src \in FetchSrcs :
       FetchMap(t.cfg, n, src) =
         {IF StartsWith(d, RemRefPrefix(o)) THEN RemRefPrefix(n) \o Cut(d, Len(RemRefPrefix(o))) ELSE d :
            d \in FetchMap(s.cfg, o, src)}
  /\ \A b \in DOMAIN s.cfg.branch : s.cfg.branch[b].remote = o => t.cfg.branch[b].remote = n
  /\ \A x \in DOMAIN s.cfg.remote \ {o} : x \in DOMAIN t.cfg.remote /\ t.cfg.remote[x] = s.cfg.remote[x]
  /\ DOMAIN t.cfg.remote = (DOMAIN s.cfg.remote \ {o}) \cup {n}

RemoveDeletesExactly(s, t, n) ==
  /\ \A x \in AllNames(s, t) : ~StartsWith(x, RemotePrefix(n)) => SameRef(s, t, x)
  /\ Under(t, n) = {}
  /\ \A x \in DOMAIN t.logs : ~StartsWith(x, RemotePrefix(n))
  /\ \A x \in DOMAIN s.cfg.remote \ {n} : x \in DOMAIN t.cfg.remote /\ t.cfg.remote[x] = s.cfg.remote[x]
  /\ n \notin DOMAIN t.cfg.remote
  /\ \A b \in DOMAIN t.cfg.branch : t.cfg.branch[b].remote # n

(* the sections an operation may write                                      *)
MayTouchRemote(o) ==
  CASE o[1] \in {"add", "rm", "setbr", "seturl"} -> {o[2]}
    [] o[1] = "rename" -> {o[2], o[3]}
    [] o[1] \in {"cset", "cadd", "cunset", "creplace"} -> IF o[2] = "remote" THEN {o[3]} ELSE {}
    [] o[1] = "crensec" -> IF o[2] = "remote" THEN {o[3], o[4]} ELSE {}
    [] OTHER -> {}
MayTouchBranch(o, s) ==
  CASE o[1] \in {"rm", "rename"} -> {b \in DOMAIN s.cfg.branch : s.cfg.branch[b].remote = o[2]}
    [] o[1] \in {"cset", "cunset"} -> IF o[2] = "branch" THEN {o[3]} ELSE {}
    [] o[1] = "crensec" -> IF o[2] = "branch" THEN {o[3], o[4]} ELSE {}
    [] OTHER -> {}

StepOK(o, s, a) ==
  LET t == a.st IN
  /\ a.ok = "F" => t = s
  \* config values of other sections are never changed
  /\ \A x \in (DOMAIN s.cfg.remote \cup DOMAIN t.cfg.remote) \ MayTouchRemote(o) :
       x \in DOMAIN s.cfg.remote /\ x \in DOMAIN t.cfg.remote /\ s.cfg.remote[x] = t.cfg.remote[x]
  /\ \A b \in (DOMAIN s.cfg.branch \cup DOMAIN t.cfg.branch) \ MayTouchBranch(o, s) :
       BranchOf(s.cfg, b) = BranchOf(t.cfg, b)
  \* only rename, remove and direct writes touch the ref store
  /\ o[1] \notin {"rename", "rm", "mkref"} => t.refs = s.refs /\ t.logs = s.logs
  /\ (o[1] = "rename" /\ a.ok = "T" /\ t # s) => RenameMovesExactly(s, t, o[2], o[3])
  /\ (o[1] = "rm" /\ a.ok = "T" /\ o[2] \in Remotes(s)) => RemoveDeletesExactly(s, t, o[2])
  \* the remote commands never leave a remote-tracking ref without its remote
  /\ o[1] \in {"add", "rm", "rename", "setbr", "seturl", "show", "geturl"} => Orphans(t) \subseteq Orphans(s)
  /\ LogChained(t.logs) /\ LogsOnlyForRefs(t.refs, t.logs)
=============================================================================
