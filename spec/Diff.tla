-------------------------------- MODULE Diff --------------------------------
(***************************************************************************)
(* The row-level diff of wrgl (pkg/diff: DiffTables / diffRows /           *)
(* iterateAndMatch / findOverlappingBlocks) for property C04.              *)
(*                                                                         *)
(* A table over the keys 1..N (numbered in key order) is a function        *)
(*      t \in [1..N -> Nat]       0 = key absent, v > 0 = content id v.    *)
(* Its rows are stored in key order and cut into blocks of B rows; the     *)
(* table index is the first key of every block.  Block numbers, row        *)
(* positions and offsets are 0-based as in the code.                       *)
(*                                                                         *)
(* Two definitions of the diff are given:                                  *)
(*   Expected(t1,t2)  what the statement of C04 says (set theory only);    *)
(*   Events(t1,t2,B)  what the design computes: two passes over the blocks *)
(*                    of one table, each block looking its keys up only in *)
(*                    a *window* of blocks of the other table, the window  *)
(*                    being searched in the table indices as structured in *)
(*                    findOverlappingBlocks (with the prevEnd carry-over). *)
(* The model-level theorem (checked by TLC in DiffGen, use A) is           *)
(*   Events = Expected, Events(t,t) = {}, Events(t2,t1) = Swap(Events(t1,t2))*)
(* for every pair of tables; the binding (uses B and C) compares the REAL  *)
(* diff.DiffTables with Expected.                                          *)
(*                                                                         *)
(* No-PK tables (equal columns, no primary key) are the tables whose       *)
(* content ids are all 1: the whole row is the key, so two rows with the   *)
(* same key are identical and "modified" cannot occur.                     *)
(*                                                                         *)
(* An event is <<kind, key, off, oldOff>>: kind "add" (key only in t1),    *)
(* "rem" (only in t2), "mod" (in both, content differs); off / oldOff is   *)
(* the offset of the key's row in t1 / t2, NoOff where there is none.      *)
(***************************************************************************)
EXTENDS Integers, Sequences, FiniteSets

NoOff == -1

Min2(a, b) == IF a <= b THEN a ELSE b

-----------------------------------------------------------------------------
(* tables, rows, blocks, table index *)

Keys(t)  == {k \in DOMAIN t : t[k] # 0}

(* offset of k's row: the number of present keys before it *)
Pos(t, k) == Cardinality({j \in Keys(t) : j < k})

(* the rows in storage order: the present keys ascending *)
RECURSIVE RowsFrom(_, _, _)
RowsFrom(t, k, n) ==
  IF k > n THEN <<>>
  ELSE IF t[k] # 0 THEN <<k>> \o RowsFrom(t, k + 1, n) ELSE RowsFrom(t, k + 1, n)
Rows(t) == RowsFrom(t, 1, Len(t))

(* the stored form of a table: rows, number of rows, number of blocks and  *)
(* the table index = first key of every block (a function on 0..nb-1)      *)
Lay(t, B) ==
  LET rows == Rows(t)
      n    == Len(rows)
      nb   == (n + B - 1) \div B
  IN [rows |-> rows, n |-> n, nb |-> nb, idx |-> [b \in 0..(nb - 1) |-> rows[b * B + 1]]]

BlockLen(L, B, b) == Min2(B, L.n - b * B)
(* row i (0-based) of block b *)
BlockRow(L, B, b, i) == L.rows[b * B + i + 1]
(* position of k inside block b, -1 if it is not there: the block-index lookup *)
InBlock(L, B, b, k) ==
  LET at == {i \in 0..(BlockLen(L, B, b) - 1) : BlockRow(L, B, b, i) = k}
  IN IF at = {} THEN -1 ELSE CHOOSE i \in at : TRUE

-----------------------------------------------------------------------------
(* the window search, transcribed from findOverlappingBlocks               *)
(*   i1, i2   table indices of the iterated / the other table              *)
(*   n1, n2   their numbers of blocks                                      *)
(*   off      block of the iterated table                                  *)
(*   prevEnd  end of the window of block off-1 (0 for the first block)     *)
(* result <<start, end>>: blocks start..end-1 of the other table           *)

RECURSIVE FirstGE(_, _, _, _)
FirstGE(idx, n, j, key) ==
  IF j >= n THEN -1 ELSE IF idx[j] >= key THEN j ELSE FirstGE(idx, n, j + 1, key)

Window(i1, i2, n1, n2, off, prevEnd) ==
  LET pe    == IF prevEnd = 0 THEN 1 ELSE prevEnd
      j     == FirstGE(i2, n2, pe - 1, i1[off])
      start == IF j = -1 THEN -1
               ELSE IF i2[j] > i1[off] THEN (IF j = 0 THEN 0 ELSE j - 1)
               ELSE j
  IN IF n2 = 0 THEN <<0, 0>>                 \* empty other table: empty window (the intended design)
     ELSE IF start = -1 THEN <<n2 - 1, n2>>
     ELSE LET e == IF off < n1 - 1 THEN FirstGE(i2, n2, start, i1[off + 1]) ELSE -1
          IN <<start, IF e = -1 THEN n2 ELSE e>>

(* the windows of blocks off..n1-1, each search starting from its predecessor's end *)
RECURSIVE WindowsFrom(_, _, _, _, _, _)
WindowsFrom(i1, i2, n1, n2, off, prevEnd) ==
  IF off >= n1 THEN <<>>
  ELSE LET w == Window(i1, i2, n1, n2, off, prevEnd)
       IN <<w>> \o WindowsFrom(i1, i2, n1, n2, off + 1, w[2])

(* Windows(La,Lb)[off+1] = window of block off of table a inside table b *)
Windows(La, Lb) == WindowsFrom(La.idx, Lb.idx, La.nb, Lb.nb, 0, 0)

(* getBlockIndices re-uses the block indices loaded for the previous       *)
(* window as prevSl[start-prevStart:] whenever prevEnd > start: that slice *)
(* expression is in bounds iff prevStart <= start.  Also every window lies *)
(* inside the other table.                                                 *)
WindowsSafe(ta, tb, B) ==
  LET Lb == Lay(tb, B)
      ws == Windows(Lay(ta, B), Lb)
  IN \A o \in 1..Len(ws) :
       LET ps == IF o = 1 THEN 0 ELSE ws[o - 1][1]
           pe == IF o = 1 THEN 0 ELSE ws[o - 1][2]
       IN /\ 0 <= ws[o][1] /\ ws[o][1] <= ws[o][2] /\ ws[o][2] <= Lb.nb
          /\ pe > ws[o][1] => ps <= ws[o][1]

-----------------------------------------------------------------------------
(* one pass (iterateAndMatch): every row of table a, block by block, is    *)
(* looked up in the blocks of its block's window in table b.  The result   *)
(* is the set of callbacks <<key, offset in a, offset in b or NoOff>>.     *)

Lookup(Lb, B, w, k) ==
  LET hits == {j \in w[1]..(w[2] - 1) : InBlock(Lb, B, j, k) # -1}
  IN IF hits = {} THEN NoOff
     ELSE LET j == CHOOSE x \in hits : \A y \in hits : x <= y     \* first block that has it
          IN j * B + InBlock(Lb, B, j, k)

Pass(La, Lb, B) ==
  LET ws == Windows(La, Lb)
  IN UNION { { <<BlockRow(La, B, b, i), b * B + i, Lookup(Lb, B, ws[b + 1], BlockRow(La, B, b, i))>>
               : i \in 0..(BlockLen(La, B, b) - 1) }
             : b \in 0..(La.nb - 1) }

(* diffRows: pass 1 (t1 against t2) emits added and modified rows, pass 2  *)
(* (t2 against t1) emits removed rows                                      *)
Events(t1, t2, B) ==
  LET L1 == Lay(t1, B)
      L2 == Lay(t2, B)
      P1 == Pass(L1, L2, B)
      P2 == Pass(L2, L1, B)
  IN      { <<"add", c[1], c[2], NoOff>> : c \in {c \in P1 : c[3] = NoOff} }
     \cup { <<"mod", c[1], c[2], c[3]>>  : c \in {c \in P1 : c[3] # NoOff /\ t1[c[1]] # t2[c[1]]} }
     \cup { <<"rem", c[1], NoOff, c[2]>> : c \in {c \in P2 : c[3] = NoOff} }

-----------------------------------------------------------------------------
(* the statement of C04 *)

Added(t1, t2)    == {k \in Keys(t1) : k \notin Keys(t2)}
Removed(t1, t2)  == {k \in Keys(t2) : k \notin Keys(t1)}
Modified(t1, t2) == {k \in Keys(t1) \cap Keys(t2) : t1[k] # t2[k]}

(* kind and key only: what the binding compares (offsets are checked by    *)
(* reading the addressed rows back, see OffsetsRight)                      *)
ExpectedKK(t1, t2) ==
       {<<"add", k>> : k \in Added(t1, t2)}
  \cup {<<"mod", k>> : k \in Modified(t1, t2)}
  \cup {<<"rem", k>> : k \in Removed(t1, t2)}

Expected(t1, t2) ==
       {<<"add", k, Pos(t1, k), NoOff>>      : k \in Added(t1, t2)}
  \cup {<<"mod", k, Pos(t1, k), Pos(t2, k)>> : k \in Modified(t1, t2)}
  \cup {<<"rem", k, NoOff, Pos(t2, k)>>      : k \in Removed(t1, t2)}

KK(E) == {<<e[1], e[2]>> : e \in E}

SwapKind(kd) == IF kd = "add" THEN "rem" ELSE IF kd = "rem" THEN "add" ELSE kd
Swap(E) == {<<SwapKind(e[1]), e[2], e[4], e[3]>> : e \in E}

(* an observed event list evs of <<kind, key, keyAtOff, keyAtOldOff>>      *)
(* (keyAtOff = the key of the row found at the event's offset in t1, 0 if  *)
(* the offset addresses no row; likewise keyAtOldOff in t2): every event's *)
(* offsets address the right rows                                          *)
OffsetsRight(evs) ==
  \A i \in 1..Len(evs) :
    /\ evs[i][1] \in {"add", "mod"} => evs[i][3] = evs[i][2]
    /\ evs[i][1] \in {"mod", "rem"} => evs[i][4] = evs[i][2]

(* an observed event list is a correct diff: exactly the expected kinds    *)
(* and keys, no key twice, right offsets                                   *)
CorrectDiff(t1, t2, evs) ==
  LET S == {<<evs[i][1], evs[i][2]>> : i \in 1..Len(evs)}
  IN /\ S = ExpectedKK(t1, t2)
     /\ Cardinality(S) = Len(evs)
     /\ OffsetsRight(evs)

(* model-level theorem for one pair *)
DesignCorrect(t1, t2, B) ==
  LET E == Events(t1, t2, B) IN
  /\ E = Expected(t1, t2)
  /\ Events(t1, t1, B) = {}
  /\ Events(t2, t2, B) = {}
  /\ Events(t2, t1, B) = Swap(E)
  /\ WindowsSafe(t1, t2, B) /\ WindowsSafe(t2, t1, B)
=============================================================================
