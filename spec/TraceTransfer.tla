--------------------------- MODULE TraceTransfer ---------------------------
(***************************************************************************)
(* Use (C) of Transfer: sessions executed by the REAL code (ObjectSender   *)
(* .WriteObjects -> packfile bytes -> PackfileReader -> ObjectReceiver     *)
(* .Receive into a pre-populated destination; or a packfile crafted with   *)
(* packfile.Writer in an adversarial order) are recorded and judged here.  *)
(*                                                                         *)
(* Lines: reset | scn {n, par, tab, blk, send, tts, common, src, dst, max, *)
(* crafted} | pack {pack, objs:[[kind,id,bytes]...], done} | recv {kind,   *)
(* id, ok} | final {dst, equal, problem, foreign}.                         *)
(*                                                                         *)
(* A trace is accepted iff                                                 *)
(*   - every packfile the real sender wrote lists its objects in an order  *)
(*     that keeps every receiver action enabled (OrderOK on the tracked    *)
(*     destination; demanded when the session satisfies Pre), and only     *)
(*     objects of the source;                                              *)
(*   - the receiver dealt with exactly the objects of the packfile, in     *)
(*     order, and persisted an object iff the specification enables the    *)
(*     action (Acceptable): a commit never while a parent is missing, a    *)
(*     table never while a block is missing or an index sum mismatches;    *)
(*   - the projected real destination afterwards IS the destination the    *)
(*     specification tracked (after a rejection: RejectedClean - nothing   *)
(*     of the rejected object is stored), commits / tables / blocks equal  *)
(*     the source's byte for byte, every received table could be re-read   *)
(*     (rebuilt indices, profile, empty diff against the original);        *)
(*   - a completed send left everything the statement demands (Final).     *)
(*                                                                         *)
(* Named deviation (constant KnownDeviations, DESIGN.md 4): "tableFirst" - *)
(* a final store that differs from the tracked one exactly by the rejected *)
(* table object (RejectedAsCoded) is consumed by TFinalDev, which prints a *)
(* DEV line so that the driver reports it as a (known) finding.            *)
(* Packfiles that were not closed where the design closes them (ClosePack: *)
(* size >= max) are reported as NOTE lines: the statement quantifies over  *)
(* the splitting, it does not prescribe it, so this is never a verdict.    *)
(***************************************************************************)
EXTENDS Transfer, TraceBase

VARIABLES l, pre, crafted
tvars == <<vars, l, pre, crafted>>

Ev == TLog[l]

ObjsOf(o) == [c |-> Range(o.c), t |-> Range(o.t), ti |-> Range(o.ti), p |-> Range(o.p),
              b |-> Range(o.b), bi |-> Range(o.bi), x |-> Range(o.x)]

RepoOf(e) == [n   |-> e.n,
              par |-> [y \in 1..e.n |-> Range(e.par[y])],
              tab |-> [y \in 1..e.n |-> e.tab[y]],
              blk |-> [u \in 1..Len(e.blk) |-> Range(e.blk[u])]]

NoRepo == [n |-> 0, par |-> <<>>, tab |-> <<>>, blk |-> <<>>]

Unused == UNCHANGED <<objq, cur, pack>>

TReset == /\ Ev.op = "reset"
          /\ pc' = "idle"
          /\ UNCHANGED <<R, max, src, d0, dst, toSend, tablesToSend, commonTables, commonBlocks, npacks, sent, wire,
                         senderDone, rejected, pre, crafted>>
          /\ Unused

TScn == /\ Ev.op = "scn" /\ pc = "idle"
        /\ LET r == RepoOf(Ev)
               s == ObjsOf(Ev.src)
               d == ObjsOf(Ev.dst)
               common == Range(Ev.common) IN
           /\ R' = r /\ src' = s /\ d0' = d /\ dst' = d /\ max' = Ev.max
           /\ toSend' = Ev.send /\ tablesToSend' = Range(Ev.tts)
           /\ commonTables' = {r.tab[c] : c \in common}
           /\ commonBlocks' = BlocksOf(r, {r.tab[c] : c \in common} \cap s.t)
           /\ pre' = Pre(r, s, d, Ev.send, Range(Ev.tts), common)
        /\ crafted' = Ev.crafted
        /\ npacks' = 0 /\ sent' = <<>> /\ wire' = <<>> /\ senderDone' = FALSE /\ rejected' = NoObj
        /\ pc' = "run"
        /\ Unused

Note(kind) == PrintT(<<"SCN", ToJson([note |-> kind, line |-> l])>>)
Dev(kind)  == PrintT(<<"SCN", ToJson([dev |-> kind, line |-> l])>>)

(* the design closes a packfile as soon as its size reaches the limit, or when nothing is left *)
ClosedAsDesigned(e) ==
  LET m  == Len(e.objs)
      mx == IF e.max = 0 THEN 2000000000 ELSE e.max
      Sum[k \in 0..m] == IF k = 0 THEN 0 ELSE Sum[k-1] + e.objs[k][3] IN
  /\ m = 0 \/ Sum[m-1] < mx
  /\ e.done \/ Sum[m] >= mx

TPack == /\ Ev.op = "pack" /\ pc = "run"
         /\ wire = <<>> /\ rejected = NoObj /\ ~senderDone
         /\ Ev.pack = npacks + 1 /\ Ev.err = ""
         /\ LET objs == [i \in 1..Len(Ev.objs) |-> <<Ev.objs[i][1], Ev.objs[i][2]>>] IN
            /\ \A i \in 1..Len(objs) : objs[i][1] \in {"b", "t", "xt", "c"}       \* nothing unidentifiable
            /\ ~crafted => \A i \in 1..Len(objs) : InStore(src, objs[i])
            /\ (pre /\ ~crafted) => OrderOK(R, dst, objs)
            /\ wire' = objs /\ sent' = sent \o objs
         /\ IF crafted \/ ClosedAsDesigned(Ev) THEN TRUE ELSE Note("closing")
         /\ npacks' = npacks + 1 /\ senderDone' = Ev.done
         /\ UNCHANGED <<R, max, src, d0, dst, toSend, tablesToSend, commonTables, commonBlocks, rejected, pc, pre, crafted>>
         /\ Unused

TRecv == /\ Ev.op = "recv" /\ pc = "run"
         /\ wire # <<>> /\ rejected = NoObj
         /\ LET o == Head(wire) IN
            /\ Ev.kind = o[1] /\ Ev.id = o[2]
            /\ Ev.ok = Acceptable(R, dst, o)
            /\ IF Ev.ok THEN /\ dst' = Apply(R, dst, o) /\ wire' = Tail(wire) /\ UNCHANGED rejected
                        ELSE /\ rejected' = o /\ UNCHANGED <<dst, wire>>
         /\ UNCHANGED <<R, max, src, d0, toSend, tablesToSend, commonTables, commonBlocks, npacks, sent, senderDone, pc,
                        pre, crafted>>
         /\ Unused

Healthy(e) == e.equal /\ e.problem = "" /\ Len(e.foreign) = 0

TFinal == /\ Ev.op = "final" /\ pc = "run"
          /\ Healthy(Ev)
          /\ LET real == ObjsOf(Ev.dst) IN
             IF rejected = NoObj
             THEN /\ wire = <<>>
                  /\ real = dst
                  /\ (pre /\ ~crafted) =>
                       /\ senderDone
                       /\ Sub(Final(R, src, d0, Range(toSend), tablesToSend), dst)
                       /\ Sub(dst, Upper(R, src, d0, Range(toSend)))
             ELSE RejectedClean(R, dst, rejected, real)
          /\ pc' = "idle"
          /\ UNCHANGED <<R, max, src, d0, dst, toSend, tablesToSend, commonTables, commonBlocks, npacks, sent, wire,
                         senderDone, rejected, pre, crafted>>
          /\ Unused

TFinalDev == /\ "tableFirst" \in KnownDeviations
             /\ Ev.op = "final" /\ pc = "run"
             /\ Healthy(Ev)
             /\ rejected # NoObj
             /\ RejectedAsCoded(R, dst, rejected, ObjsOf(Ev.dst))
             /\ Dev(IF rejected[1] = "t" THEN "missing-block" ELSE "index-mismatch")
             /\ pc' = "idle"
             /\ UNCHANGED <<R, max, src, d0, dst, toSend, tablesToSend, commonTables, commonBlocks, npacks, sent, wire,
                            senderDone, rejected, pre, crafted>>
             /\ Unused

TInit == /\ R = NoRepo /\ max = 0 /\ src = NoObjs /\ d0 = NoObjs /\ dst = NoObjs
         /\ toSend = <<>> /\ tablesToSend = {} /\ commonTables = {} /\ commonBlocks = {}
         /\ objq = <<>> /\ cur = 0 /\ pack = NoPack /\ npacks = 0 /\ sent = <<>> /\ wire = <<>>
         /\ senderDone = FALSE /\ rejected = NoObj /\ pc = "idle"
         /\ pre = FALSE /\ crafted = FALSE
         /\ l = 1
TNext == /\ l <= Len(TLog)
         /\ l' = l + 1
         /\ (TReset \/ TScn \/ TPack \/ TRecv \/ TFinal \/ TFinalDev)
TSpec == TInit /\ [][TNext]_tvars

Constr == Mark(l)
=============================================================================
