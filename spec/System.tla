------------------------------- MODULE System -------------------------------
(***************************************************************************)
(* One repository under the command line (growth of the specification      *)
(* beyond the listed properties; it composes what the property modules     *)
(* state separately).  State:                                              *)
(*   heads    branch -> commit id                                          *)
(*   commits  commit id -> [content, parents]  (content = abstract table   *)
(*            content, i.e. a set of CSV rows; ids are given in creation   *)
(*            order)                                                       *)
(*   present  commit ids whose objects are in the store (prune removes)    *)
(*   logs     branch -> sequence of <<old, new, action>>                   *)
(* Operations = `wrgl` commands:                                           *)
(*   commit BRANCH FILE MSG   always a new commit on top of the head       *)
(*   branch create B FROM     fails if B exists                            *)
(*   branch delete B          fails if B does not exist                    *)
(*   reset B COMMIT           B := any present commit                      *)
(*   merge B OTHER            fast-forward cases only (Sync!MergeOutcome)  *)
(*   prune                    present := commits reachable from the heads  *)
(*   export B                 the rows of the head's content, sorted       *)
(* Invariants: heads point at present commits; present is closed under     *)
(* parents after every operation; logs are faithful (Refs!LogChained for   *)
(* branches, which are only ever written with a log).                      *)
(***************************************************************************)
EXTENDS Sync, TLC, Json

CONSTANTS Branches, Contents, MaxCommits, D

VARIABLES heads, commits, present, logs, hist
vars == <<heads, commits, present, logs, hist>>

NextId == Len(commits) + 1
ParentsOf(c) == commits[c].parents
ParMap == [c \in 1..Len(commits) |-> commits[c].parents]
Reach(S) == UNION {AncOf(ParMap, c) : c \in S}
HeadSet == {heads[b] : b \in DOMAIN heads}
LogOf(b) == IF b \in DOMAIN logs THEN logs[b] ELSE <<>>
Logged(b, new, act) == Put(logs, b, Append(LogOf(b), <<Cur(heads, b), new, act>>))

\* what the harness compares after every step: per branch the head's content and the
\* contents along its ancestry, the number of present commits, and the branch's log length
Chain(c) == {<<a, commits[a].content, commits[a].parents>> : a \in AncOf(ParMap, c)}
Obs(h, cs, pr, lg) ==
  [heads |-> {<<b, h[b], cs[h[b]].content>> : b \in DOMAIN h},
   present |-> pr,
   commits |-> {<<c, cs[c].content, cs[c].parents>> : c \in 1..Len(cs)},
   loglens |-> {<<b, Len(lg[b])>> : b \in DOMAIN lg},
   \* the whole log of every branch, oldest first, as <<old, new>> commit ids (0 = none)
   logs |-> {<<b, [i \in 1..Len(lg[b]) |-> <<lg[b][i][1], lg[b][i][2]>>]>> : b \in DOMAIN lg}]

Step(op, ok) == hist' = Append(hist, [op |-> op, ok |-> ok, obs |-> Obs(heads', commits', present', logs')])

Commit(b, k) ==
  /\ Len(commits) < MaxCommits
  /\ commits' = Append(commits, [content |-> k, parents |-> IF b \in DOMAIN heads THEN {heads[b]} ELSE {}])
  /\ heads' = Put(heads, b, NextId)
  /\ present' = present \cup {NextId}
  /\ logs' = Logged(b, NextId, "commit")
  /\ Step(<<"commit", b, k>>, TRUE)

BranchCreate(b, from) ==
  /\ from \in DOMAIN heads
  /\ IF b \in DOMAIN heads
     THEN UNCHANGED <<heads, commits, present, logs>> /\ Step(<<"create", b, from>>, FALSE)
     ELSE /\ heads' = Put(heads, b, heads[from]) /\ logs' = Logged(b, heads[from], "branch")
          /\ UNCHANGED <<commits, present>> /\ Step(<<"create", b, from>>, TRUE)

BranchDelete(b) ==
  IF b \in DOMAIN heads
  THEN /\ heads' = Drop(heads, b) /\ logs' = Drop(logs, b) /\ UNCHANGED <<commits, present>> /\ Step(<<"delete", b, 0>>, TRUE)
  ELSE UNCHANGED <<heads, commits, present, logs>> /\ Step(<<"delete", b, 0>>, FALSE)

Reset(b, c) ==
  /\ c \in present
  /\ heads' = Put(heads, b, c) /\ logs' = Logged(b, c, "reset")
  /\ UNCHANGED <<commits, present>> /\ Step(<<"reset", b, c>>, TRUE)

Merge(b, o) ==
  /\ b \in DOMAIN heads /\ o \in DOMAIN heads /\ b # o
  /\ LET out == MergeOutcome(ParMap, heads[b], heads[o], "default") IN
       /\ out \in {"ff", "up-to-date"}
       /\ IF out = "ff" THEN heads' = Put(heads, b, heads[o]) /\ logs' = Logged(b, heads[o], "merge")
          ELSE IF heads[b] = heads[o] THEN UNCHANGED <<heads, logs>>
          ELSE heads' = heads /\ logs' = Logged(b, heads[b], "merge")   \* "fast-forward" onto itself is logged
       /\ UNCHANGED <<commits, present>> /\ Step(<<"merge", b, o>>, TRUE)

Prune ==
  /\ present' = Reach(HeadSet)
  /\ UNCHANGED <<heads, commits, logs>> /\ Step(<<"prune", "", 0>>, TRUE)

Export(b) ==
  /\ b \in DOMAIN heads
  /\ UNCHANGED <<heads, commits, present, logs>> /\ Step(<<"export", b, commits[heads[b]].content>>, TRUE)

Init == heads = <<>> /\ commits = <<>> /\ present = {} /\ logs = <<>> /\ hist = <<>>

Next ==
  /\ Len(hist) < D
  /\ \/ \E b \in Branches, k \in Contents : Commit(b, k)
     \/ \E b \in Branches, f \in Branches : BranchCreate(b, f)
     \/ \E b \in Branches : BranchDelete(b)
     \/ \E b \in Branches, c \in 1..MaxCommits : Reset(b, c)
     \/ \E b \in Branches, o \in Branches : Merge(b, o)
     \/ Prune
     \/ \E b \in Branches : Export(b)
  /\ Len(hist') = D => PrintT(<<"SCN", ToJson(hist')>>)
Spec == Init /\ [][Next]_vars

HeadsPresent == HeadSet \subseteq present
PresentClosedAfterPrune == TRUE
LogsFaithful == \A b \in DOMAIN logs : /\ b \in DOMAIN heads
                                        /\ \A i \in 2..Len(logs[b]) : logs[b][i][1] = logs[b][i-1][2]
                                        /\ logs[b] # <<>> => logs[b][Len(logs[b])][2] = heads[b]
ParentsPresent == \A c \in Reach(HeadSet) : c \in present
Inv == HeadsPresent /\ LogsFaithful /\ ParentsPresent
=============================================================================
