------------------------------- MODULE Prune -------------------------------
(***************************************************************************)
(* Pruning (pkg/prune.Prune, `wrgl prune`, second half of `wrgl gc`) as    *)
(* what property C12 says it is.                                           *)
(*                                                                         *)
(* An object store is a record of six presence sets                        *)
(*     c  commits      t  tables        ti table indices                   *)
(*     p  profiles     b  blocks        bi block indices                   *)
(* over small naturals.  ti/p are named after their table (functions of    *)
(* that object in the real store).  A block index is NOT a function of its *)
(* block: it is computed from the block's rows AND the table's primary     *)
(* key, so two tables that list the same block under different keys have   *)
(* two block indices for it (bix below; a table listing blocks under the   *)
(* key most tables use names its block indices after the blocks).          *)
(*                                                                         *)
(* A repository description R is a record                                  *)
(*     n      commits are 1..n                                             *)
(*     par    [1..n -> SUBSET 1..n]   parents (earlier commits)            *)
(*     tab    [1..n -> table]         the table a commit names             *)
(*     blk    [table -> SUBSET block] blocks a table object lists          *)
(*     bix    [table -> SUBSET bidx]  block indices a table object lists   *)
(*     roots  SUBSET 1..n             commits some ref points at; refs of  *)
(*                                    every kind count alike: heads, tags, *)
(*                                    remote-tracking refs and refs of     *)
(*                                    open transactions                    *)
(* A commit whose table is not in the store is a shallow commit.           *)
(*                                                                         *)
(* Part 1 is the statement: Must / MustNot are the objects that have to    *)
(* exist / have to be gone after a prune of store S; everything else may   *)
(* stay or go.  Part 2 is the design, one action per phase of the code.    *)
(* Part 3 names the deviation of the pinned tree (DESIGN.md 8 #11).        *)
(***************************************************************************)
EXTENDS Naturals, FiniteSets

ObjKinds == {"c", "t", "ti", "p", "b", "bi"}
NoObjs   == [c |-> {}, t |-> {}, ti |-> {}, p |-> {}, b |-> {}, bi |-> {}]
Sub(A, B)  == \A k \in ObjKinds : A[k] \subseteq B[k]
Disj(A, B) == \A k \in ObjKinds : A[k] \cap B[k] = {}
Size(A)    == Cardinality(A.c) + Cardinality(A.t) + Cardinality(A.ti) + Cardinality(A.p)
              + Cardinality(A.b) + Cardinality(A.bi)

-----------------------------------------------------------------------------
(* Part 1 - the statement *)

(* commits reachable from any ref through stored commits *)
Reach(R, S) ==
  LET F[k \in 0..R.n] ==
        IF k = 0 THEN R.roots \cap S.c
        ELSE LET prev == F[k-1] IN          \* evaluated once per level
             prev \cup (UNION {R.par[x] : x \in prev} \cap S.c)
  IN F[R.n]

Dead(R, S)     == S.c \ Reach(R, S)
LiveTabs(R, S) == {R.tab[x] : x \in Reach(R, S)}
(* tables of reachable commits that exist; and those that do not (shallow) *)
LiveT(R, S)       == LiveTabs(R, S) \cap S.t
AbsentLiveT(R, S) == LiveTabs(R, S) \ S.t
(* stored tables that only removed commits name (at least one does) *)
DeadT(R, S) == {u \in S.t \ LiveTabs(R, S) : \E x \in Dead(R, S) : R.tab[x] = u}
LiveB(R, S) == UNION {R.blk[u] : u \in LiveT(R, S)}
LiveBI(R, S) == UNION {R.bix[u] : u \in LiveT(R, S)}
(* stored blocks listed by a removed table and by no stored table that may stay *)
DeadB(R, S) == {y \in S.b \ LiveB(R, S) :
                  /\ \E u \in DeadT(R, S) : y \in R.blk[u]
                  /\ \A u \in S.t : y \in R.blk[u] => u \in DeadT(R, S)}

(* reachable commits and everything that existed for them *)
Must(R, S) ==
  [c  |-> Reach(R, S),
   t  |-> LiveT(R, S),
   ti |-> LiveT(R, S) \cap S.ti,
   p  |-> LiveT(R, S) \cap S.p,
   b  |-> LiveB(R, S) \cap S.b,
   bi |-> LiveBI(R, S) \cap S.bi]

(* unreachable commits, tables only they referenced, blocks only those referenced *)
MustNot(R, S) ==
  [c |-> Dead(R, S), t |-> DeadT(R, S), ti |-> {}, p |-> {}, b |-> DeadB(R, S), bi |-> {}]

(* S2 is an admissible result of pruning S *)
Ok(R, S, S2) == Sub(Must(R, S), S2) /\ Disj(MustNot(R, S), S2)

-----------------------------------------------------------------------------
(* Part 3 (used by part 2) - the deviation of the pinned tree                *)
(* "shallow": the slot of a surviving commit's table is looked up by binary  *)
(* search without an equality test.  For an absent table the search lands    *)
(* past the end (crash) or on an unrelated stored table, which is then kept  *)
(* with its blocks.  W is the set of tables kept that way.                   *)

OkDev(R, S, S2, W) ==
  /\ W \subseteq S.t
  /\ Cardinality(W) <= Cardinality(AbsentLiveT(R, S))
  /\ Sub(Must(R, S), S2)
  /\ Disj([MustNot(R, S) EXCEPT !.t = @ \ W, !.b = @ \ UNION {R.blk[u] : u \in W}], S2)

-----------------------------------------------------------------------------
(* Part 2 - the design, phase by phase as pkg/prune/prune.go does it *)

CONSTANT KnownDeviations      \* {} in every model-checking configuration

VARIABLES R,        \* repository description (never changes)
          s0,       \* store before the first prune
          s1,       \* store after the first prune (NoObjs until then)
          st,       \* the store
          pc, run,  \* phase; 1 = first prune, 2 = the repeated one
          live,     \* marked commits
          keepB, keepBI,
          crashed
vars == <<R, s0, s1, st, pc, run, live, keepB, keepBI, crashed>>

Start(r, s) ==
  /\ R = r /\ s0 = s /\ s1 = NoObjs /\ st = s
  /\ pc = "mark" /\ run = 1 /\ live = {} /\ keepB = {} /\ keepBI = {} /\ crashed = FALSE

(* Mark: walk from all refs; nothing to remove -> nothing else is touched *)
(* (named MarkCommits because TraceBase owns the name Mark)               *)
MarkCommits ==
  /\ pc = "mark"
  /\ live' = Reach(R, st)
  /\ pc' = IF st.c \subseteq Reach(R, st) THEN "done" ELSE "sweepTables"
  /\ UNCHANGED <<R, s0, s1, st, run, keepB, keepBI, crashed>>

DropTables(keep) ==
  LET gone == st.t \ keep IN
  st' = [st EXCEPT !.t = keep, !.ti = @ \ gone, !.p = @ \ gone]

(* a table is kept iff it is the table of a surviving commit AND present *)
SweepTables ==
  /\ pc = "sweepTables"
  /\ DropTables({R.tab[x] : x \in live} \cap st.t)
  /\ pc' = "markBlocks"
  /\ UNCHANGED <<R, s0, s1, run, live, keepB, keepBI, crashed>>

(* the pinned tree: every absent table of a survivor lands somewhere *)
SweepTablesAsCoded ==
  /\ "shallow" \in KnownDeviations
  /\ pc = "sweepTables"
  /\ LET lt == {R.tab[x] : x \in live} IN
     /\ lt \ st.t # {}
     /\ \E f \in [lt \ st.t -> st.t \cup {0}] :
          IF \E a \in DOMAIN f : f[a] = 0
          THEN /\ crashed' = TRUE /\ pc' = "crashed" /\ UNCHANGED st
          ELSE /\ DropTables((lt \cap st.t) \cup {f[a] : a \in DOMAIN f})
               /\ pc' = "markBlocks" /\ UNCHANGED crashed
  /\ UNCHANGED <<R, s0, s1, run, live, keepB, keepBI>>

(* blocks and block indices of the kept tables (those that exist) *)
MarkBlocks ==
  /\ pc = "markBlocks"
  /\ keepB'  = UNION {R.blk[u] : u \in st.t} \cap st.b
  /\ keepBI' = UNION {R.bix[u] : u \in st.t} \cap st.bi
  /\ pc' = "sweepBlocks"
  /\ UNCHANGED <<R, s0, s1, st, run, live, crashed>>

SweepBlocks ==
  /\ pc = "sweepBlocks"
  /\ st' = [st EXCEPT !.b = keepB]
  /\ pc' = "sweepBlockIndices"
  /\ UNCHANGED <<R, s0, s1, run, live, keepB, keepBI, crashed>>

SweepBlockIndices ==
  /\ pc = "sweepBlockIndices"
  /\ st' = [st EXCEPT !.bi = keepBI]
  /\ pc' = "sweepCommits"
  /\ UNCHANGED <<R, s0, s1, run, live, keepB, keepBI, crashed>>

(* commits last *)
SweepCommits ==
  /\ pc = "sweepCommits"
  /\ st' = [st EXCEPT !.c = @ \cap live]
  /\ pc' = "done"
  /\ UNCHANGED <<R, s0, s1, run, live, keepB, keepBI, crashed>>

Again ==
  /\ pc = "done" /\ run = 1
  /\ s1' = st /\ run' = 2 /\ pc' = "mark"
  /\ live' = {} /\ keepB' = {} /\ keepBI' = {}
  /\ UNCHANGED <<R, s0, st, crashed>>

Next == MarkCommits \/ SweepTables \/ SweepTablesAsCoded \/ MarkBlocks \/ SweepBlocks
        \/ SweepBlockIndices \/ SweepCommits \/ Again

-----------------------------------------------------------------------------
(* what is checked of the design (use A) *)

Post ==
  pc = "done" =>
    IF run = 1 THEN Ok(R, s0, st)
    ELSE /\ Ok(R, s1, st)          \* the statement, on the pruned repository
         /\ st = s1                \* Prune o Prune = Prune
         /\ Ok(R, s0, st)
NeverCrash == ~crashed /\ pc # "crashed"
(* not even in between does a live object disappear, and nothing is created *)
LiveUntouched == Sub(Must(R, s0), st) /\ Sub(st, s0)
=============================================================================
