-------------------------------- MODULE Txn --------------------------------
(***************************************************************************)
(* Transactions of wrgl (pkg/transaction over pkg/ref.Store and            *)
(* pkg/objects.Store) as property C14 speaks of them: commits staged for   *)
(* several branches land on all of the branches or on none.                *)
(*                                                                         *)
(* State (one record s, so that the scenario generator TxnGen, the trace   *)
(* validator TraceTxn and the model-checking configuration below all use   *)
(* the same operators):                                                    *)
(*   refs    branch -> commit id          (heads; the Refs.tla map)        *)
(*   logs    branch -> Seq(<<old, new, txid>>)   (txid 0 = no transaction) *)
(*   staged  <<tx, branch>> -> commit id  (the refs txs/<id>/<branch>)     *)
(*   status  tx -> "inprogress" | "committed"    (absent = no row)         *)
(*   commits id -> [tbl, par, tx, src]    the commit objects;              *)
(*           objects are content addressed: a commit                       *)
(*           made by a transaction is determined by the staged commit it   *)
(*           copies (src), its parent and the transaction, so writing the  *)
(*           same one again adds nothing; every other commit is unique     *)
(*           (src = its own id).                                           *)
(*   tried   transactions on which a commit run was ever started (history) *)
(*                                                                         *)
(* Step structure.  Every step of a run is ONE store operation (a ref      *)
(* store call or an object store write), the unit at which a failure or a  *)
(* crash is injected:                                                      *)
(*   CommitTx(tx)  =  Begin; for each staged branch b, in ANY order (the   *)
(*                    code iterates a map): NewCommit(b); MoveBranch(b);   *)
(*                    then MarkCommitted                                   *)
(*   Discard(tx)   =  Begin; DeleteStagedRef(b) for each b; DeleteTxRow    *)
(*   Fail / Crash  =  the next store operation is not performed and the    *)
(*                    run ends ("err": the caller sees an error,           *)
(*                    "crashed": the caller sees nothing)                  *)
(*   Rerun         =  CommitTx(tx) again                                   *)
(* The intended design (what the statement asks for): Begin refuses a      *)
(* committed transaction; a re-run skips the branches whose log already    *)
(* carries the transaction.  What the pinned code does instead is kept as  *)
(* NAMED DEVIATIONS, enabled only through the constant KnownDeviations     *)
(* ({} in every model-checking configuration):                             *)
(*   "commit-twice"  Begin does not look at the status                     *)
(*   "rerun-dup"     the loop does not skip branches already moved         *)
(***************************************************************************)
EXTENDS Refs, Integers

CONSTANTS KnownDeviations,   \* subset of {"commit-twice", "rerun-dup"}
          MCBranches,        \* configuration (A): set of branch names
          MCTxs,             \*                    set of transaction ids (positive integers)
          MCFaults,          \*                    number of injected failures/crashes
          MCPlain            \*                    number of interleaved plain commits

VARIABLES st,       \* the repository state (record above)
          run,      \* the run in flight / the result of the last one
          budget    \* configuration (A) only: failures and plain commits still allowed
vars == <<st, run, budget>>

-----------------------------------------------------------------------------
(* state *)

EmptyState == [refs |-> <<>>, logs |-> <<>>, staged |-> <<>>, status |-> <<>>,
               commits |-> <<>>, tried |-> {}]

StatusOf(s, tx) == IF tx \in DOMAIN s.status THEN s.status[tx] ELSE "absent"
StagedOf(s, tx) == {k[2] : k \in {q \in DOMAIN s.staged : q[1] = tx}}
HeadOf(s, b)    == Cur(s.refs, b)
TxEntries(s, tx, b) == {i \in 1..Len(LogOf(s.logs, b)) : LogOf(s.logs, b)[i][3] = tx}
Logged(s, tx, b)    == TxEntries(s, tx, b) # {}

(* content addressed store of commit objects: returns <<commits', id>>.   *)
(* Ids are chosen so that the state does not depend on the order in which  *)
(* a run treats the branches: commits made outside runs are numbered 1, 2, *)
(* ...; the k-th commit object derived from the staged commit src is       *)
(* TxBase * src + k.                                                       *)
TxBase == 1000
NCommits(cs) == Cardinality(DOMAIN cs)
FindCommit(cs, c) == {i \in DOMAIN cs : cs[i] = c}
AddCommit(cs, c)  ==
  IF FindCommit(cs, c) # {} THEN <<cs, CHOOSE i \in FindCommit(cs, c) : TRUE>>
  ELSE LET id == TxBase * c.src + 1 + Cardinality({i \in DOMAIN cs : cs[i].tx # 0 /\ cs[i].src = c.src})
       IN <<Put(cs, id, c), id>>
(* a commit that nothing else equals (plain commits, staged commits) *)
FreshCommit(cs, tbl, par) ==
  LET id == 1 + Cardinality({i \in DOMAIN cs : i < TxBase}) IN
  <<Put(cs, id, [tbl |-> tbl, par |-> par, tx |-> 0, src |-> id]), id>>

-----------------------------------------------------------------------------
(* operations outside a run (never failure-injected) *)

StartTx(s, tx) == [s EXCEPT !.status = Put(s.status, tx, "inprogress")]

(* `wrgl commit --txid`: a commit object on top of the current head, named *)
(* by the staged ref only                                                  *)
Stage(s, tx, b, tbl) ==
  LET r == FreshCommit(s.commits, tbl, HeadOf(s, b)) IN
  [s EXCEPT !.commits = r[1], !.staged = Put(s.staged, <<tx, b>>, r[2])]

PlainCommit(s, b, tbl) ==
  LET r == FreshCommit(s.commits, tbl, HeadOf(s, b))
      w == SetWithLog(s.refs, s.logs, b, r[2], 0)
  IN [s EXCEPT !.commits = r[1], !.refs = w.refs, !.logs = w.logs]

(* `wrgl reapply TX` (transaction.Reapply, never failure-injected here): every  *)
(* branch that the committed transaction moved gets a NEW commit carrying  *)
(* the table of the commit the transaction put there, on top of whatever   *)
(* the branch has now - unless the branch still points at that very        *)
(* commit.  History is not altered: the old head stays an ancestor.  The   *)
(* new commit belongs to no transaction (message "reapply [tx/..]", log    *)
(* entry without a transaction id).  Refused unless tx is committed.       *)
LastTxEntry(s, tx, b) ==
  LogOf(s.logs, b)[CHOOSE i \in TxEntries(s, tx, b) : \A k \in TxEntries(s, tx, b) : k <= i]
RECURSIVE ReapplyOver(_, _, _)
ReapplyOver(s, tx, B) ==
  IF B = {} THEN s
  ELSE LET b   == CHOOSE x \in B : TRUE
           new == LastTxEntry(s, tx, b)[2]
           s1  == IF HeadOf(s, b) = new THEN s ELSE PlainCommit(s, b, s.commits[new].tbl)
       IN ReapplyOver(s1, tx, B \ {b})
ReapplyOk(s, tx) == StatusOf(s, tx) = "committed"
Reapply(s, tx) == IF ReapplyOk(s, tx) THEN ReapplyOver(s, tx, {b \in DOMAIN s.logs : Logged(s, tx, b)}) ELSE s

-----------------------------------------------------------------------------
(* the store operations of a run *)

(* object store write: the staged commit re-parented on the current head *)
NewCommitObj(s, tx, b) ==
  LET src == s.staged[<<tx, b>>]
      r == AddCommit(s.commits, [tbl |-> s.commits[src].tbl, par |-> HeadOf(s, b), tx |-> tx, src |-> src])
  IN <<[s EXCEPT !.commits = r[1]], r[2]>>

(* ref store SetWithLog with the transaction id in the log entry *)
MoveBranchTo(s, tx, b, id) ==
  LET w == SetWithLog(s.refs, s.logs, b, id, tx) IN [s EXCEPT !.refs = w.refs, !.logs = w.logs]

MarkCommittedRow(s, tx) == [s EXCEPT !.status = Put(s.status, tx, "committed")]
DeleteStagedRef(s, tx, b) == [s EXCEPT !.staged = Drop(s.staged, <<tx, b>>)]
DeleteTxRow(s, tx) == [s EXCEPT !.status = Drop(s.status, tx)]

-----------------------------------------------------------------------------
(* runs: a configuration is [s, run]                                       *)
(* run = [kind, tx, todo, pb, pend, n, res]: todo = branches still to do,  *)
(* pb/pend = branch whose new commit object (pend) is written but whose    *)
(* ref is not moved yet, n = store operations performed so far, res =      *)
(* "running" | "ok" | "err" | "crashed" | "idle"                           *)

NewRun(kind, tx, todo, res) ==
  [kind |-> kind, tx |-> tx, todo |-> todo, pb |-> "", pend |-> 0, n |-> 0, res |-> res]
NoRun == NewRun("none", 0, {}, "idle")
Cfg(s, r) == [s |-> s, run |-> r]
Running(r) == r.res = "running"

Restrict(f, D) == [x \in D |-> f[x]]

(* Begin reads the transaction row and the staged refs (no store write).   *)
(* A set: refusing to discard a committed transaction may or may not have  *)
(* removed staged refs of it first - the statement does not say.           *)
Begin(s, kind, tx, dev) ==
  LET stat == StatusOf(s, tx)
      B == StagedOf(s, tx)
  IN
  IF kind = "commit" THEN
    IF stat = "absent" \/ (stat = "committed" /\ "commit-twice" \notin dev)
    THEN {Cfg(s, NewRun(kind, tx, {}, "err"))}
    ELSE {Cfg([s EXCEPT !.tried = @ \cup {tx}],
              NewRun(kind, tx, {b \in B : "rerun-dup" \in dev \/ ~Logged(s, tx, b)}, "running"))}
  ELSE
    IF stat = "absent" THEN {Cfg(s, NewRun(kind, tx, {}, "err"))}
    ELSE IF stat = "committed"
    THEN {Cfg([s EXCEPT !.staged = Restrict(@, DOMAIN @ \ {<<tx, b>> : b \in gone})],
              NewRun(kind, tx, {}, "err")) : gone \in SUBSET B}
    ELSE {Cfg(s, NewRun(kind, tx, B, "running"))}

(* enabling conditions and effects of the five kinds of step *)
EnNewCommit(c, b)  == Running(c.run) /\ c.run.kind = "commit" /\ c.run.pend = 0 /\ b \in c.run.todo
EnMoveBranch(c)    == Running(c.run) /\ c.run.kind = "commit" /\ c.run.pend # 0
EnMarkCommitted(c) == Running(c.run) /\ c.run.kind = "commit" /\ c.run.pend = 0 /\ c.run.todo = {}
EnDeleteStaged(c, b) == Running(c.run) /\ c.run.kind = "discard" /\ b \in c.run.todo
EnDeleteTxRow(c)   == Running(c.run) /\ c.run.kind = "discard" /\ c.run.todo = {}

StepNewCommit(c, b) ==
  LET nc == NewCommitObj(c.s, c.run.tx, b) IN
  Cfg(nc[1], [c.run EXCEPT !.pb = b, !.pend = nc[2], !.n = @ + 1])
StepMoveBranch(c) ==
  Cfg(MoveBranchTo(c.s, c.run.tx, c.run.pb, c.run.pend),
      [c.run EXCEPT !.todo = @ \ {c.run.pb}, !.pb = "", !.pend = 0, !.n = @ + 1])
StepMarkCommitted(c) ==
  Cfg(MarkCommittedRow(c.s, c.run.tx), [c.run EXCEPT !.n = @ + 1, !.res = "ok"])
StepDeleteStaged(c, b) ==
  Cfg(DeleteStagedRef(c.s, c.run.tx, b), [c.run EXCEPT !.todo = @ \ {b}, !.n = @ + 1])
StepDeleteTxRow(c) ==
  Cfg(DeleteTxRow(c.s, c.run.tx), [c.run EXCEPT !.n = @ + 1, !.res = "ok"])

(* every configuration the next store operation of a running run can lead to *)
Steps(c) ==
       {StepNewCommit(c, b) : b \in {x \in c.run.todo : EnNewCommit(c, x)}}
  \cup (IF EnMoveBranch(c) THEN {StepMoveBranch(c)} ELSE {})
  \cup (IF EnMarkCommitted(c) THEN {StepMarkCommitted(c)} ELSE {})
  \cup {StepDeleteStaged(c, b) : b \in {x \in c.run.todo : EnDeleteStaged(c, x)}}
  \cup (IF EnDeleteTxRow(c) THEN {StepDeleteTxRow(c)} ELSE {})

(* the next store operation fails / the process dies before it *)
Stop(c, how) == Cfg(c.s, [c.run EXCEPT !.res = how])

(* all final configurations of a run whose k-th store operation (k = 0:    *)
(* none) is replaced by Stop                                               *)
RECURSIVE RunAll(_, _, _)
RunAll(c, k, how) ==
  IF ~Running(c.run) THEN {c}
  ELSE IF c.run.n + 1 = k THEN {Stop(c, how)}
  ELSE UNION {RunAll(d, k, how) : d \in Steps(c)}

(* an operation is [kind, tx, k, how] *)
Exec(s, op, dev) == UNION {RunAll(c, op.k, op.how) : c \in Begin(s, op.kind, op.tx, dev)}

(* The statement quantifies over "a failure at any point", not over the    *)
(* code's own numbering of its store operations: when a failure was        *)
(* injected somewhere in a run, every final configuration of a run stopped *)
(* at SOME store operation (or not at all, if the run had fewer of them)   *)
(* is a behaviour.  An operation that Begin refuses may have touched a      *)
(* store before refusing (the statement does not forbid it), so with an    *)
(* injected failure it may also end as that failure, nothing changed.      *)
RECURSIVE RunStoppedAnywhere(_, _)
RunStoppedAnywhere(c, how) ==
  IF ~Running(c.run) THEN {c}
  ELSE {Stop(c, how)} \cup UNION {RunStoppedAnywhere(d, how) : d \in Steps(c)}

ExecAny(s, op, dev) ==
  IF op.k = 0 THEN Exec(s, op, dev)
  ELSE LET begun == Begin(s, op.kind, op.tx, dev) IN
       UNION {RunStoppedAnywhere(c, op.how) : c \in begun}
       \cup {Stop(c, op.how) : c \in {d \in begun : ~Running(d.run)}}

-----------------------------------------------------------------------------
(* the statement, as predicates of a state *)

(* commits made for tx on the history of branch b *)
RECURSIVE ChainCount(_, _, _)
ChainCount(s, id, tx) ==
  IF id = None THEN 0
  ELSE (IF s.commits[id].tx = tx THEN 1 ELSE 0) + ChainCount(s, s.commits[id].par, tx)

(* b was moved by tx exactly once, to a new commit carrying the staged     *)
(* data on top of what the branch had                                      *)
MovedOnce(s, tx, b) ==
  /\ Cardinality(TxEntries(s, tx, b)) = 1
  /\ LET e == LogOf(s.logs, b)[CHOOSE i \in TxEntries(s, tx, b) : TRUE]
         c == s.commits[e[2]]
     IN /\ c.tx = tx /\ c.par = e[1]
        /\ <<tx, b>> \in DOMAIN s.staged => (c.src = s.staged[<<tx, b>>] /\ c.tbl = s.commits[c.src].tbl)
  /\ ChainCount(s, HeadOf(s, b), tx) = 1

NoneMoved(s, tx, B) == \A b \in B : ~Logged(s, tx, b)
Complete(s, tx, B)  == StatusOf(s, tx) = "committed" /\ \A b \in B : MovedOnce(s, tx, b)
NoDuplicates(s, tx, B) == \A b \in B : Logged(s, tx, b) => MovedOnce(s, tx, b)

RerunOp(tx) == [kind |-> "commit", tx |-> tx, k |-> 0, how |-> "-"]
Completable(s, tx, B, dev) ==
  /\ StatusOf(s, tx) = "inprogress"
  /\ \A f \in Exec(s, RerunOp(tx), dev) : f.run.res = "ok" /\ Complete(f.s, tx, B)

(* "either all ..., or every branch where it was, or completable by        *)
(* re-running it to exactly the all-branches outcome without duplicates"   *)
AllOrNone(s, tx, dev) ==
  LET B == StagedOf(s, tx) IN
  /\ NoDuplicates(s, tx, B)
  /\ StatusOf(s, tx) = "committed" => Complete(s, tx, B)
  /\ StatusOf(s, tx) = "inprogress" => (NoneMoved(s, tx, B) \/ Completable(s, tx, B, dev))

-----------------------------------------------------------------------------
(* configuration (A): the action system over the same steps *)

cfg == Cfg(st, run)
Become(c) == st' = c.s /\ run' = c.run
Idle == ~Running(run)

(* some branches exist already *)
RECURSIVE WithBases(_, _)
WithBases(s, bs) ==
  IF bs = {} THEN s
  ELSE LET b == CHOOSE x \in bs : TRUE IN
       WithBases(PlainCommit(s, b, 100 + NCommits(s.commits)), bs \ {b})

MCInit ==
  /\ \E E \in SUBSET MCBranches :
       st = [WithBases(EmptyState, E) EXCEPT !.status = [t \in MCTxs |-> "inprogress"]]
  /\ run = NoRun
  /\ budget = [faults |-> MCFaults, plain |-> MCPlain]

AStage(tx, b) ==
  /\ Idle /\ StatusOf(st, tx) = "inprogress" /\ tx \notin st.tried /\ <<tx, b>> \notin DOMAIN st.staged
  /\ st' = Stage(st, tx, b, 100 + NCommits(st.commits))
  /\ UNCHANGED <<run, budget>>

APlain(b) ==
  /\ Idle /\ budget.plain > 0
  /\ st' = PlainCommit(st, b, 100 + NCommits(st.commits))
  /\ budget' = [budget EXCEPT !.plain = @ - 1]
  /\ UNCHANGED run

(* `wrgl reapply` of a committed transaction (counted as a plain commit) *)
AReapply(tx) ==
  /\ Idle /\ budget.plain > 0 /\ ReapplyOk(st, tx)
  /\ st' = Reapply(st, tx)
  /\ budget' = [budget EXCEPT !.plain = @ - 1]
  /\ UNCHANGED run

(* CommitTx / Discard / Rerun start here *)
ABegin(kind, tx) ==
  /\ Idle
  /\ \E c \in Begin(st, kind, tx, KnownDeviations) : Become(c)
  /\ UNCHANGED budget

ANewCommit(b)    == EnNewCommit(cfg, b) /\ Become(StepNewCommit(cfg, b)) /\ UNCHANGED budget
AMoveBranch      == EnMoveBranch(cfg) /\ Become(StepMoveBranch(cfg)) /\ UNCHANGED budget
AMarkCommitted   == EnMarkCommitted(cfg) /\ Become(StepMarkCommitted(cfg)) /\ UNCHANGED budget
ADeleteStaged(b) == EnDeleteStaged(cfg, b) /\ Become(StepDeleteStaged(cfg, b)) /\ UNCHANGED budget
ADeleteTxRow     == EnDeleteTxRow(cfg) /\ Become(StepDeleteTxRow(cfg)) /\ UNCHANGED budget

(* a running run always has a next store operation: Fail(i) and Crash are  *)
(* possible at every one of them                                           *)
AFail  == Running(run) /\ budget.faults > 0 /\ Become(Stop(cfg, "err"))
          /\ budget' = [budget EXCEPT !.faults = @ - 1]
ACrash == Running(run) /\ budget.faults > 0 /\ Become(Stop(cfg, "crashed"))
          /\ budget' = [budget EXCEPT !.faults = @ - 1]

MCNext ==
  \/ \E tx \in MCTxs, b \in MCBranches : AStage(tx, b)
  \/ \E b \in MCBranches : APlain(b)
  \/ \E tx \in MCTxs : AReapply(tx)
  \/ \E kind \in {"commit", "discard"}, tx \in MCTxs : ABegin(kind, tx)
  \/ \E b \in MCBranches : ANewCommit(b) \/ ADeleteStaged(b)
  \/ AMoveBranch \/ AMarkCommitted \/ ADeleteTxRow
  \/ AFail \/ ACrash

MCSpec == MCInit /\ [][MCNext]_vars

(* invariants of configuration (A) *)

(* whenever no run is in flight - after success, refusal, failure or crash *)
TerminalOutcomes == Idle => \A tx \in MCTxs : AllOrNone(st, tx, KnownDeviations)
(* also in the middle of a run nothing is ever duplicated *)
NeverDuplicates == \A tx \in MCTxs : NoDuplicates(st, tx, MCBranches)
(* every ref and staged ref names a stored commit; logs are chained *)
TypeOK == /\ run.res \in {"idle", "running", "ok", "err", "crashed"}
          /\ \A b \in DOMAIN st.refs : st.refs[b] \in DOMAIN st.commits
          /\ \A k \in DOMAIN st.staged : st.staged[k] \in DOMAIN st.commits
          /\ LogChained(st.logs)

(* action properties *)
DiscardKeepsHeads ==
  [][(run'.kind = "discard" /\ run' # run) => (st'.refs = st.refs /\ st'.logs = st.logs)]_vars

(* no step ever rewrites history: what a branch pointed at stays among the ancestors of what it points at *)
RECURSIVE AncSelf(_, _)
AncSelf(s, id) == IF id = None THEN {} ELSE {id} \cup AncSelf(s, s.commits[id].par)
HistoryKept ==
  [][\A b \in MCBranches : HeadOf(st, b) # None => HeadOf(st, b) \in AncSelf(st', HeadOf(st', b))]_vars
(* a reapplied transaction's data is on every branch it had moved, nothing else moved, and the transaction *)
(* itself (status, staged refs, its own log entries) is as before                                        *)
ReapplyLaw ==
  Idle => \A tx \in MCTxs : ReapplyOk(st, tx) =>
    LET s2 == Reapply(st, tx) IN
    /\ \A b \in MCBranches :
         IF Logged(st, tx, b)
         THEN /\ s2.commits[HeadOf(s2, b)].tbl = st.commits[LastTxEntry(st, tx, b)[2]].tbl
              /\ HeadOf(st, b) \in AncSelf(s2, HeadOf(s2, b))
              /\ Len(LogOf(s2.logs, b)) \in {Len(LogOf(st.logs, b)), Len(LogOf(st.logs, b)) + 1}
         ELSE HeadOf(s2, b) = HeadOf(st, b) /\ LogOf(s2.logs, b) = LogOf(st.logs, b)
    /\ s2.status = st.status /\ s2.staged = st.staged
    /\ \A b \in MCBranches : TxEntries(s2, tx, b) = TxEntries(st, tx, b)

StartsRun == ~Running(run) /\ run' # run /\ run'.kind \in {"commit", "discard"}
CommittedRefuses ==
  [][(StartsRun /\ StatusOf(st, run'.tx) = "committed")
       => (/\ run'.res = "err"
           /\ st'.refs = st.refs /\ st'.logs = st.logs /\ st'.status = st.status
           /\ st'.commits = st.commits)]_vars
=============================================================================
