------------------------------- MODULE Graph -------------------------------
(***************************************************************************)
(* The commit graph of wrgl as property C11 talks about it.                *)
(*                                                                         *)
(* A graph g is a record [p, t]:                                           *)
(*   g.p[c]  the sequence of parents of commit c (commits are 1..Len(g.p); *)
(*           a commit is created after its parents, so every parent of c   *)
(*           is < c - content addressing makes anything else impossible),  *)
(*   g.t[c]  the commit time of c in whole seconds.  Nothing relates times *)
(*           to topology: clocks may be equal, reversed or skewed.         *)
(*                                                                         *)
(* Part 1 is the CONTRACT (what the statement of C11 demands): ancestry by *)
(* reachability, and the set of merge bases a correct implementation may   *)
(* answer.  It never looks at g.t.                                         *)
(* Part 2 is the DESIGN of pkg/ref/commits_queue.go: the time-ordered      *)
(* frontier with a seen set, the walk, the ancestor test by exhaustion;    *)
(* ModelOK says that this design meets the contract (checked by TLC for    *)
(* every graph of the generator, use A).                                   *)
(* Part 3 is a TRANSCRIPTION of the lock-step algorithm of                 *)
(* ref.SeekCommonAncestor (pkg/ref/utils.go).  It is NOT part of the       *)
(* contract: TLC uses it to exhibit where the coded algorithm leaves the   *)
(* contract (GraphGen exports those tuples as named scenarios that are     *)
(* replayed on the real code) and TraceGraph uses it as the named          *)
(* deviation "SeekAsCoded" so that validation continues past a recorded    *)
(* finding.  A model-level counterexample is never a violation by itself.  *)
(***************************************************************************)
EXTENDS Naturals, Sequences, FiniteSets

Nil == 0                                   \* "no commit" / "not found"

Range(s)   == {s[i] : i \in 1..Len(s)}
NoDup(s)   == \A i, j \in 1..Len(s) : i # j => s[i] # s[j]
Commits(g) == 1..Len(g.p)
Par(g, c)  == Range(g.p[c])

WellFormed(g) ==
  /\ Len(g.t) = Len(g.p)
  /\ \A c \in Commits(g) : Par(g, c) \subseteq 1..(c - 1)

-----------------------------------------------------------------------------
(* Part 1 - the contract                                                   *)

(* Anc[c] = c together with everything reachable from c through parent     *)
(* links (reflexive-transitive).  Built parents-first so that a history    *)
(* with many merges costs one union per commit.                            *)
AncStep(A, c, ps) == Append(A, {c} \cup UNION {A[p] : p \in ps})

RECURSIVE AncUpTo(_, _)
AncUpTo(g, k) == IF k = 0 THEN <<>> ELSE AncStep(AncUpTo(g, k - 1), k, Par(g, k))
AncMap(g) == AncUpTo(g, Len(g.p))

IsAnc(A, a, b) == a \in A[b]               \* "a is an ancestor of b"

(* what a history walk started at the commits `from` must visit, each once *)
WalkSet(A, from) == UNION {A[c] : c \in from}
WalkOK(A, from, seq) == NoDup(seq) /\ Range(seq) = WalkSet(A, from)

(* merge base of a set of commits (order and repetition of the inputs do   *)
(* not matter in the statement, so a tuple is judged by its range)         *)
CommonAnc(A, cs)    == {a \in DOMAIN A : \A c \in cs : a \in A[c]}
InputBases(A, cs)   == {c \in cs : \A d \in cs : c \in A[d]}
AllowedBases(A, cs) == IF InputBases(A, cs) # {} THEN InputBases(A, cs) ELSE CommonAnc(A, cs)
                       \* {} => the implementation must report "not found"

SeekOK(A, tuple, res) ==
  IF res = Nil THEN AllowedBases(A, Range(tuple)) = {}
  ELSE res \in AllowedBases(A, Range(tuple))

(* mismatch kind and feature class of a merge-base answer: the violation   *)
(* signature is  graph/seek/<kind>/<heads>                                 *)
SeekKind(A, tuple, res) ==
  LET cs == Range(tuple) IN
  IF SeekOK(A, tuple, res) THEN "ok"
  ELSE IF res = Nil THEN "missing-but-exists"
  ELSE IF res \notin DOMAIN A THEN "foreign"
  ELSE IF CommonAnc(A, cs) = {} THEN "found-but-none"
  ELSE IF res \in CommonAnc(A, cs) THEN "not-input-base"
  ELSE "not-common-ancestor"

Heads(tuple) ==
  LET k == Cardinality(Range(tuple)) IN
  IF k = 1 THEN "heads=1" ELSE IF k = 2 THEN "heads=2" ELSE "heads=3+"

SeekSig(A, tuple, res) == "graph/seek/" \o SeekKind(A, tuple, res) \o "/" \o Heads(tuple)

(* feature class of the timestamps relative to the topology (only used to  *)
(* name violations, never to decide them)                                  *)
Edges(g) == {e \in Commits(g) \X Commits(g) : e[2] \in Par(g, e[1])}     \* <<child, parent>>
ClockClass(g) ==
  IF \E e \in Edges(g) : g.t[e[1]] < g.t[e[2]] THEN "skew"
  ELSE IF \E e \in Edges(g) : g.t[e[1]] = g.t[e[2]] THEN "tie"
  ELSE IF Edges(g) = {} THEN "none" ELSE "mono"

IsAncSig(g, A, a, b, ok) ==
  "graph/isanc/" \o (IF ok THEN "false-positive" ELSE "false-negative") \o "/clock=" \o ClockClass(g)

WalkKind(A, from, seq) ==
  IF \E i \in 1..Len(seq) : seq[i] \notin WalkSet(A, from) THEN "foreign"
  ELSE IF ~NoDup(seq) THEN "duplicate" ELSE "missing"
WalkSig(g, A, from, seq) == "graph/walk/" \o WalkKind(A, from, seq) \o "/clock=" \o ClockClass(g)

-----------------------------------------------------------------------------
(* Part 2 - the design: CommitsQueue                                       *)
(* A queue is [q, seen]: q the frontier, newest first; seen every commit   *)
(* ever inserted.                                                          *)

QEmpty == [q |-> <<>>, seen |-> {}]

(* Insert places a commit BEFORE the entries of equal time (sort.Search    *)
(* for the first entry that is not newer)                                  *)
Pos(g, q, c) ==
  CHOOSE i \in 1..(Len(q) + 1) :
    /\ \A k \in 1..(i - 1) : g.t[q[k]] > g.t[c]
    /\ i <= Len(q) => g.t[q[i]] <= g.t[c]

InsertAt(s, i, x) == SubSeq(s, 1, i - 1) \o <<x>> \o SubSeq(s, i, Len(s))

QInsert(g, Q, c) ==
  IF c \in Q.seen THEN Q
  ELSE [q |-> InsertAt(Q.q, Pos(g, Q.q, c), c), seen |-> Q.seen \cup {c}]

RECURSIVE QInsertAll(_, _, _)
QInsertAll(g, Q, cs) ==
  IF cs = <<>> THEN Q ELSE QInsertAll(g, QInsert(g, Q, Head(cs)), Tail(cs))

(* NewCommitsQueue / Reset: duplicates dropped, newest first (the order    *)
(* among equal times is whatever sort.Sort gives; nothing depends on it)   *)
QNew(g, starts) == QInsertAll(g, QEmpty, starts)

(* PopInsertParents: [c |-> popped commit or Nil at the end, Q |-> queue]  *)
QPopIP(g, Q) ==
  IF Q.q = <<>> THEN [c |-> Nil, Q |-> Q]
  ELSE [c |-> Head(Q.q),
        Q |-> QInsertAll(g, [q |-> Tail(Q.q), seen |-> Q.seen], g.p[Head(Q.q)])]

RECURSIVE WalkFrom(_, _, _)
WalkFrom(g, Q, acc) ==
  IF Q.q = <<>> THEN acc
  ELSE LET r == QPopIP(g, Q) IN WalkFrom(g, r.Q, Append(acc, r.c))

Walk(g, starts) == WalkFrom(g, QNew(g, starts), <<>>)

(* ref.IsAncestorOf(a, b): pop from b's frontier until a shows up or the   *)
(* frontier is exhausted                                                   *)
IsAncByWalk(g, a, b) == a \in Range(Walk(g, <<b>>))

(* use (A): the design meets the contract on g, whatever the times         *)
ModelOK(g) ==
  LET A == AncMap(g) IN
  /\ WellFormed(g)
  /\ \A c \in Commits(g) : WalkOK(A, {c}, Walk(g, <<c>>))
  /\ \A c, d \in Commits(g) : c < d => WalkOK(A, {c, d}, Walk(g, <<c, d>>))
  /\ \A a, b \in Commits(g) : IsAncByWalk(g, a, b) = IsAnc(A, a, b)
  /\ \A cs \in SUBSET Commits(g) :
       /\ AllowedBases(A, cs) \subseteq CommonAnc(A, cs)
       /\ Cardinality(InputBases(A, cs)) <= 1
       /\ (AllowedBases(A, cs) = {}) = (CommonAnc(A, cs) = {})

-----------------------------------------------------------------------------
(* Part 3 - ref.SeekCommonAncestor as coded (named deviation SeekAsCoded)  *)
(* One frontier per input, advanced in lock step; bases[i] is the commit   *)
(* popped last from frontier i (initially input i).  Before every step an  *)
(* input j is eliminated when its frontier has seen another input's        *)
(* current position; the walk ends when one position is left.              *)

RemoveAt(s, j) == SubSeq(s, 1, j - 1) \o SubSeq(s, j + 1, Len(s))

(* inner loop  for j := len(bases)-1 .. 0  of the code, 1-based; returns   *)
(* <<state, i>> because removing an entry below i shifts i                 *)
RECURSIVE ElimJ(_, _, _)
ElimJ(st, i, j) ==
  IF j = 0 THEN <<st, i>>
  ELSE IF i = j THEN ElimJ(st, i, j - 1)
  ELSE IF st.b[i] # Nil /\ st.b[i] \in st.qs[j].seen
       THEN ElimJ([b |-> RemoveAt(st.b, j), qs |-> RemoveAt(st.qs, j)],
                  IF i > j THEN i - 1 ELSE i, j - 1)
       ELSE ElimJ(st, i, j - 1)

RECURSIVE ElimI(_, _)
ElimI(st, i) ==
  IF i = 0 THEN st
  ELSE LET r == ElimJ(st, i, Len(st.b)) IN ElimI(r[1], r[2] - 1)

RECURSIVE SeekLoop(_, _)
SeekLoop(g, st0) ==
  LET st == ElimI(st0, Len(st0.b)) IN
  IF Len(st.b) = 1 THEN st.b[1]
  ELSE LET r == [k \in 1..Len(st.qs) |-> QPopIP(g, st.qs[k])] IN
       IF \A k \in 1..Len(st.qs) : r[k].c = Nil THEN Nil
       ELSE SeekLoop(g, [b  |-> [k \in 1..Len(st.qs) |-> r[k].c],
                         qs |-> [k \in 1..Len(st.qs) |-> r[k].Q]])

SeekAsCoded(g, tuple) ==
  SeekLoop(g, [b  |-> tuple,
               qs |-> [k \in 1..Len(tuple) |-> QNew(g, <<tuple[k]>>)]])
=============================================================================
