---------------------------- MODULE HashSetGen ----------------------------
(***************************************************************************)
(* Uses (A) and (B) of HashSet.                                            *)
(*                                                                         *)
(* Universe: six hashes whose first bytes are 00,00,7F,7F,FF,FF (shared    *)
(* buckets, both extremes; with MaxByte = 2 the model writes them 0,1,2 -  *)
(* scenarios do not depend on it, they carry only allowed answers); batch  *)
(* sizes BS.  An operation is a number:     *)
(* 1..6 = Add(hash), 7 = Flush, 8 = Reopen.  Has is not an operation: it   *)
(* is asked for every universe member after every step.                    *)
(*                                                                         *)
(* (B) Export = TRUE, no VIEW: the path is part of the state, so every     *)
(* operation sequence of length D is one behaviour; at its last step one   *)
(* scenario line is printed:                                               *)
(*     <<batchSize, FB, << <<op, answers, fileCheck>>, ... >> >>           *)
(* answers is a string with one character per universe member saying what  *)
(* Has may answer after the step: "T" must be true, "F" must be false,     *)
(* "?" either.  fileCheck = 1 after Flush/Reopen: the file projection must *)
(* then be sorted, have a consistent fan-out, contain every "T" hash and   *)
(* no "F" hash.                                                            *)
(*                                                                         *)
(* (A) Export = FALSE with VIEW View: the design's state graph (path       *)
(* hidden) is explored to depth D and the invariants are checked; run for  *)
(* DupAppend = TRUE (as coded) and FALSE (the other reading the statement  *)
(* allows).                                                                *)
(***************************************************************************)
EXTENDS HashSet, Json

CONSTANTS D,          \* number of operations per behaviour
          BS,         \* set of batch sizes
          DupAppend,  \* a hash repeated inside the unflushed batch is appended again
          Export      \* print scenarios

VARIABLES s, g, bs, path
vars == <<s, g, bs, path>>
View == <<s, g, bs>>

RealFB == <<0, 0, 127, 127, 255, 255>>          \* what the harness uses
FB == IF MaxByte = 255 THEN RealFB ELSE <<0, 0, 1, 1, 2, 2>>
U  == DOMAIN FB
Ops == 1..8

Do(o) == IF o \in U THEN Add(s, FB, bs, o, DupAppend)
         ELSE IF o = 7 THEN Flush(s, FB) ELSE Reopen(s)
GDo(o) == IF o \in U THEN GAdd(g, o)
          ELSE IF o = 7 THEN GFlush(g) ELSE GReopen(g)

Mark1(gg, h) == IF Allowed(gg, h) = {TRUE} THEN "T" ELSE IF Allowed(gg, h) = {FALSE} THEN "F" ELSE "?"
Answers(gg) == Mark1(gg, 1) \o Mark1(gg, 2) \o Mark1(gg, 3) \o Mark1(gg, 4) \o Mark1(gg, 5) \o Mark1(gg, 6)

Init == /\ s = Empty /\ g = G0 /\ path = <<>>
        /\ bs \in BS

Next ==
  /\ Len(path) < D
  /\ \E o \in Ops :
       /\ s' = Do(o)
       /\ g' = GDo(o)
       /\ bs' = bs
       /\ path' = IF Export THEN Append(path, <<o, Answers(g'), IF o \in {7, 8} THEN 1 ELSE 0>>)
                  ELSE Append(path, 0)
       /\ (Export /\ Len(path') = D) => PrintT(<<"SCN", ToJson(<<bs, RealFB, path'>>)>>)

Spec == Init /\ [][Next]_vars

Inv == /\ DesignSorted(s)
       /\ DesignFanoutConsistent(s, FB)
       /\ DesignMemory(s)
       /\ DesignHasExact(s, FB, U)
       /\ DesignAllowed(s, g, FB, U)
       /\ DesignFlushedExact(s, g)
       /\ DesignReopenSame(s, FB, U)
       /\ g.sure \subseteq g.added /\ g.lost \subseteq g.added
=============================================================================
