----------------------------- MODULE TraceBase -----------------------------
(***************************************************************************)
(* Shared machinery of every trace specification (use C): the recorded     *)
(* NDJSON file named by the environment variable TRACE is TLog; l is the   *)
(* next line to consume.  The highest line reached is kept in TLC register *)
(* 1 (updated from a CONSTRAINT, so it needs -workers 1); the POSTCONDITION*)
(* prints REJECTED_AT_LINE <n> unless every line was consumed.             *)
(***************************************************************************)
EXTENDS Naturals, Sequences, TLC, TLCExt, Json, IOUtils

TLog == ndJsonDeserialize(IOEnv.TRACE)

Max2(a, b) == IF a >= b THEN a ELSE b
Mark(l) == TLCSet(1, Max2(TLCGetOrDefault(1, 0), l))

Accepted ==
  LET hw == TLCGetOrDefault(1, 0) IN
  IF hw >= Len(TLog) + 1 /\ TLCGet("stats").diameter >= 0 THEN TRUE
  ELSE /\ PrintT(<<"REJECTED_AT_LINE", hw>>)
       /\ FALSE
=============================================================================
