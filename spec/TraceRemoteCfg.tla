--------------------------- MODULE TraceRemoteCfg ---------------------------
(***************************************************************************)
(* Use (C) of RemoteCfg: seeded, longer sequences of `wrgl remote` /       *)
(* `wrgl config` command lines (and direct ref writes) executed by the     *)
(* harness on the REAL command line are accepted iff they are behaviours   *)
(* of RemoteCfg.  Every line carries the operation, what the command line  *)
(* answered (ok "T"/"F", crash, projected output) and the projection of    *)
(* the WHOLE repository after it:                                          *)
(*   obs.r     <<name, url, fetch, push, "true"|"false">> per remote       *)
(*   obs.b     <<branch, remote, merge>> per branch with upstream settings *)
(*   obs.refs  <<name, value>>;  obs.logs <<name, <<old, new>>...>>        *)
(*   obs.fm    <<remote, src, destinations>>: where a fetch would store    *)
(*             src, asked from the real refspec code; obs.fmp: it panicked *)
(*   obs.other the user section of the file (must never change)            *)
(* A line is accepted iff SOME allowed outcome of RemoteCfg!Do has the     *)
(* logged answer and exactly this projection (fetch lists as bags); the    *)
(* specification continues from that outcome.  A line that only a NAMED    *)
(* deviating outcome of the pinned code explains (RemoteCfg!Dev, or the    *)
(* as-coded fetch map) is consumed too, with a DEV line carrying the       *)
(* deviation's signature for the driver - which decides whether it is a    *)
(* recorded finding - and validation continues from what the real code     *)
(* did.  Anything else: BROKEN <line> <signature>, trace rejected.         *)
(* Operations whose effect RemoteCfg leaves open (~Defined) are followed.  *)
(***************************************************************************)
EXTENDS RemoteCfg, TraceBase

VARIABLES st, l
vars == <<st, l>>
Ev == TLog[l]

Identity == "verif@example.invalid|Verif"

Pick(S, k) == CHOOSE t \in S : t[1] = k
FromObs(o) ==
  LET R == Range(o.r)  B == Range(o.b)  F == Range(o.refs)  L == Range(o.logs) IN
  [cfg  |-> [remote |-> [n \in {t[1] : t \in R} |->
                           LET t == Pick(R, n) IN RemoteRec(t[2], t[3], t[4], t[5] = "true")],
             branch |-> [b \in {t[1] : t \in B} |-> LET t == Pick(B, b) IN BranchRec(t[2], t[3])]],
   refs |-> [n \in {t[1] : t \in F} |-> Pick(F, n)[2]],
   logs |-> [n \in {t[1] : t \in L} |->
               LET g == Pick(L, n)[2] IN [i \in 1..Len(g) |-> <<g[i][1], g[i][2], 0>>]]]

FetchBags(s) == [n \in DOMAIN s.cfg.remote |-> BagOf(s.cfg.remote[n].fetch)]
NoFetch(s)   == [n \in DOMAIN s.cfg.remote |-> [s.cfg.remote[n] EXCEPT !.fetch = <<>>]]

(* the parts in which event e differs from outcome a, in a fixed order      *)
Parts(a, e) ==
  LET o == FromObs(e.obs) IN
  (IF e.crash = "T" THEN <<"crash">> ELSE <<>>)
  \o (IF o.refs = a.st.refs /\ o.logs = a.st.logs THEN <<>> ELSE <<"refs">>)
  \o (IF DOMAIN o.cfg.remote = DOMAIN a.st.cfg.remote /\ FetchBags(o) # FetchBags(a.st) THEN <<"fetch">> ELSE <<>>)
  \o (IF /\ DOMAIN o.cfg.remote = DOMAIN a.st.cfg.remote
         /\ NoFetch(o) = NoFetch(a.st)
         /\ o.cfg.branch = a.st.cfg.branch
         /\ e.obs.other = Identity
      THEN <<>> ELSE <<"config">>)
  \o (IF a.ok = "*" \/ a.ok = e.ok THEN <<>> ELSE <<"ok">>)
  \o (IF a.ok = "F" \/ e.ok = "F" THEN <<>>
      ELSE IF e.out.a = a.out.a /\ BagOf(e.out.b) = BagOf(a.out.b) /\ Range(e.out.c) = a.out.c THEN <<>>
      ELSE <<"out">>)

Sig(o, s, part) == "remotecfg/" \o o[1] \o "/" \o Class(o, s) \o "/" \o part

(* the derived fetch map of the state the real code is in                   *)
FMOf(s, F(_, _, _)) ==
  {t \in {<<n, src, F(s.cfg, n, src)>> : n \in Remotes(s), src \in FetchSrcs} : t[3] # {}}
FmClause(s, e) ==
  LET P == Range(e.obs.fmp)
      Keep2(F) == {t \in F : <<t[1], t[2]>> \notin P}
      O == {<<t[1], t[2], Range(t[3])>> : t \in Range(e.obs.fm)}
  IN IF \E p \in P : ~(p[1] \in Remotes(s) /\ FetchMapPanics(s.cfg, p[1], p[2])) THEN "remotecfg/fetchmap/panic"
     ELSE IF Keep2(O) = Keep2(FMOf(s, FetchMap)) THEN (IF P = {} THEN "ok" ELSE "remotecfg/fetchmap/glob-short-name-panic")
     ELSE IF Keep2(O) = Keep2(FMOf(s, FetchMapAsCoded)) THEN "remotecfg/fetchmap/tagspec-matches-all"
     ELSE "remotecfg/fetchmap/wrong"
FmKnown == {"remotecfg/fetchmap/glob-short-name-panic", "remotecfg/fetchmap/tagspec-matches-all"}

DevLine(sig) == PrintT(<<"SCN", ToJson([dev |-> sig, line |-> l])>>)
Bad(sig)     == PrintT(<<"BROKEN", l, sig>>) /\ FALSE

(* the fetch map is judged on the state reached; a known as-coded map is a DEV line *)
FmJudged(s) ==
  LET c == FmClause(s, Ev) IN
  \/ c = "ok"
  \/ c \in FmKnown /\ DevLine(c)
  \/ c \notin FmKnown /\ c # "ok" /\ Bad(c)

TReset == /\ Ev.op[1] = "reset"
          /\ st' = EmptyState

TOp ==
  /\ Ev.op[1] # "reset"
  /\ LET o == Ev.op IN
     IF ~Defined(o, st) THEN st' = FromObs(Ev.obs)
     ELSE
       LET alts == Do(o, st)
           hits == {i \in 1..Len(alts) : Parts(alts[i], Ev) = <<>>}
           devs == Dev(o, st)
           dhit == {i \in 1..Len(devs) : Parts(devs[i][2], Ev) = <<>>}
           d1   == Parts(alts[1], Ev)
       IN IF hits # {} THEN
               /\ st' = alts[CHOOSE i \in hits : TRUE].st
               /\ FmJudged(st')
          ELSE IF dhit # {} THEN
               LET k == CHOOSE i \in dhit : TRUE IN
               /\ \A j \in 1..Len(d1) : DevLine(Sig(o, st, d1[j]) \o "/" \o devs[k][1])
               /\ st' = devs[k][2].st
               /\ FmJudged(st')
          ELSE Bad(Sig(o, st, d1[1]))

Init == st = EmptyState /\ l = 1
Next == /\ l <= Len(TLog)
        /\ l' = l + 1
        /\ (TReset \/ TOp)
Spec == Init /\ [][Next]_vars

Constr == Mark(l)
Inv == LogsOnlyForRefs(st.refs, st.logs)
=============================================================================
