---------------------------- MODULE RemoteCfgGen ----------------------------
(***************************************************************************)
(* Use (B) of RemoteCfg: a transition cover of the model, exported as one  *)
(* JSON scenario ("SCN") per generated transition.                         *)
(*                                                                         *)
(* Behaviours start from a few prepared repositories (Prefixes: remotes    *)
(* whose names provoke prefix / SQL-wildcard / case confusion - origin,    *)
(* origin2, or_gin, Origin, o% - each with remote-tracking refs, upstream  *)
(* settings and multi-valued push lists) and continue with up to D         *)
(* operations.  Under VIEW View the path is hidden, so every (abstract     *)
(* state, operation) pair is printed once.  A scenario line is             *)
(*   [pre  |-> operations that prepare the repository,                     *)
(*    steps |-> << <<operation, class, allowed outcomes, known deviating   *)
(*                   outcomes of the pinned code>> (as JSON text), ... >>] *)
(* with, per outcome, <<ok, state, output>>: the harness compares after    *)
(* EVERY step.  An operation with several allowed outcomes ends its        *)
(* behaviour (the real code decides which one applies).                    *)
(*                                                                         *)
(* Mode "rs": one initial state per refspec of the refspec universe        *)
(* (Parse(Str(r)) = r is asserted) and per malformed text; the line        *)
(* carries the record, the string and the matching table.                  *)
(*                                                                         *)
(* Every generated transition is checked against RemoteCfg!StepOK (use A). *)
(***************************************************************************)
EXTENDS RemoteCfg, TLC, Json

CONSTANTS D,        \* operations after the prepared prefix
          Small,    \* TRUE: reduced alphabet (quick tier)
          Mode,     \* "beh" | "rs"
          LogCap    \* maximal length of one ref log

VARIABLES st, path, pre, dead
vars == <<st, path, pre, dead>>
View == <<st, dead>>

-----------------------------------------------------------------------------
RN == {"origin", "origin2", "or_gin", "Origin", "o%"}
BR == {"main", "a/b"}
U1 == "https://h/a"
U2 == "https://h/b/"
U3 == "https://h/c"

Op(a, b, c, d, e, f) == <<a, b, c, d, e, f>>
RemRef(n, b) == "remotes/" \o n \o "/" \o b

(* prepared repositories                                                   *)
Prefixes == <<
  \* 1: nothing
  <<>>,
  \* 2: four confusable remotes, each with refs; upstream settings
  << Op("add", "origin", U1, "", "", ""), Op("add", "origin2", U1, "", "", ""),
     Op("add", "or_gin", U1, "main", "", ""), Op("add", "Origin", U1, "", "", ""),
     Op("mkref", RemRef("origin", "main"), "1", "", "", ""), Op("mkref", RemRef("origin2", "main"), "2", "", "", ""),
     Op("mkref", RemRef("or_gin", "main"), "1", "", "", ""), Op("mkref", RemRef("Origin", "main"), "2", "", "", ""),
     Op("mkref", RemRef("origin", "a/b"), "2", "", "", ""), Op("mkref", RemRef("origin", "main"), "3", "", "", ""),
     Op("mkref", "heads/main", "1", "", "", ""),
     Op("cset", "branch", "main", "remote", "origin", ""), Op("cset", "branch", "main", "merge", "refs/heads/main", ""),
     Op("cset", "branch", "a/b", "remote", "origin2", "") >>,
  \* 3: a remote whose name is a LIKE pattern matching the others; a ref of a remote that is not configured
  << Op("add", "o%", U1, "", "", ""), Op("add", "origin", U1, "main,a/b", "", ""),
     Op("mkref", RemRef("o%", "main"), "1", "", "", ""), Op("mkref", RemRef("origin", "main"), "2", "", "", ""),
     Op("mkref", RemRef("origin2", "main"), "1", "", "", ""), Op("mkref", RemRef("origin", "a/b"), "1", "", "", ""),
     Op("cset", "branch", "main", "remote", "o%", "") >>,
  \* 4: multi-valued keys
  << Op("add", "origin", U1, "main,a/b", "", ""),
     Op("cadd", "remote", "origin", "push", "refs/heads/main", ""),
     Op("cadd", "remote", "origin", "push", "refs/heads/a/b:refs/heads/main", ""),
     Op("cadd", "remote", "origin", "push", "refs/tags/v1", ""),
     Op("add", "origin2", U1, "", "tags", ""),
     Op("cset", "branch", "main", "remote", "origin", ""),
     Op("mkref", RemRef("origin", "main"), "1", "", "", ""), Op("mkref", RemRef("origin2", "main"), "2", "", "", ""),
     Op("add", "Origin", U1, "main", "", "") >>      \* a remote without refs: renaming onto it meets no ref clash
>>

-----------------------------------------------------------------------------
(* operation alphabet                                                      *)

AddVariants == {<<"", "">>, <<"main", "">>, <<"main,a/b", "">>, <<"", "tags">>, <<"", "mfetch">>, <<"", "mpush">>}
Pats  == {"", "sub:refs/heads", "fix:refs/heads/main", "pre:refs/tags"}
Alls  == {"", "all"}

Ops ==
  LET AddN  == IF Small THEN {"origin2", "o%"} ELSE RN
      SetN  == IF Small THEN {"origin", "or_gin"} ELSE RN
      UrlN  == IF Small THEN {"origin", "Origin"} ELSE RN
      GetN  == IF Small THEN {"origin", "o%"} ELSE RN
      ShowN == IF Small THEN {"origin", "origin2", "or_gin"} ELSE RN
      RefN  == IF Small THEN {"origin", "origin2", "or_gin", "o%"} ELSE RN
      RefB  == IF Small THEN {"main"} ELSE BR
      RefV  == IF Small THEN {"2"} ELSE {"1", "2"}
      UpN   == IF Small THEN {"origin", "origin2"} ELSE {"origin", "origin2", "or_gin"}
      CfgN  == IF Small THEN {"origin", "new"} ELSE {"origin", "origin2", "new"}
      AddV  == IF Small THEN {"refs/heads/main", "tag v1"}
               ELSE {"refs/heads/main", "refs/tags/v1", "tag v1"}
      UnsK  == IF Small THEN {<<"remote", "origin", "push">>, <<"remote", "origin", "fetch">>, <<"branch", "main", "remote">>}
               ELSE {<<"remote", "origin", "push">>, <<"remote", "origin", "fetch">>, <<"remote", "origin2", "fetch">>,
                     <<"remote", "origin", "url">>, <<"remote", "origin", "mirror">>, <<"remote", "zz", "url">>,
                     <<"branch", "main", "remote">>, <<"branch", "a/b", "merge">>}
      UnsP  == IF Small THEN {"", "sub:refs/heads", "fix:refs/heads/main"} ELSE Pats
      RepK  == IF Small THEN {<<"remote", "origin", "push">>}
               ELSE {<<"remote", "origin", "push">>, <<"remote", "origin", "fetch">>, <<"remote", "new", "push">>}
      RepV  == IF Small THEN {"refs/tags/v2"} ELSE {"refs/heads/main", "refs/tags/v2"}
      RepP  == IF Small THEN {"", "sub:refs/heads"} ELSE {"", "sub:refs/heads", "fix:refs/tags/v1"}
      SecN  == IF Small THEN {"origin", "origin2", "new"} ELSE {"origin", "origin2", "or_gin", "new"}
      GetK  == IF Small THEN {<<"remote", "origin", "push">>, <<"remote", "origin", "fetch">>, <<"branch", "main", "remote">>}
               ELSE {<<"remote", "origin", "url">>, <<"remote", "origin", "fetch">>, <<"remote", "origin", "push">>,
                     <<"remote", "origin", "mirror">>, <<"remote", "origin2", "fetch">>, <<"branch", "main", "remote">>,
                     <<"branch", "a/b", "merge">>, <<"remote", "zz", "url">>}
  IN   {Op("add", n, U1, v[1], v[2], "") : n \in AddN, v \in AddVariants}
  \cup {Op("add", "origin2", U2, "", "", "")}
  \cup {Op("rm", n, "", "", "", "") : n \in RN}
  \cup {Op("rename", o, n, "", "", "") : o \in RN, n \in RN}
  \cup {Op("setbr", n, b, a, "", "") : n \in SetN, b \in BR, a \in {"", "add"}}
  \cup {Op("seturl", n, u, "", "", "") : n \in UrlN, u \in (IF Small THEN {U2} ELSE {U2, U3})}
  \cup {Op("geturl", n, "", "", "", "") : n \in GetN}
  \cup {Op("show", n, "", "", "", "") : n \in ShowN}
  \cup {Op("mkref", RemRef(n, b), v, "", "", "") : n \in RefN, b \in RefB, v \in RefV}
  \cup {Op("mkref", "heads/main", "2", "", "", "")}
  \* config set
  \cup {Op("cset", "remote", n, "url", U3, "") : n \in CfgN}
  \cup {Op("cset", "remote", "origin", "mirror", v, "") : v \in (IF Small THEN {"true"} ELSE {"true", "false", "yes"})}
  \cup {Op("cset", "remote", "origin", "fetch", "refs/heads/main", "")}
  \cup {Op("cset", "branch", b, "remote", n, "") : b \in (IF Small THEN {"main"} ELSE BR), n \in UpN}
  \cup {Op("cset", "branch", "a/b", "merge", "refs/heads/a/b", "")}
  \* config add
  \cup {Op("cadd", "remote", n, f, v, "") : n \in CfgN, f \in {"fetch", "push"}, v \in AddV}
  \cup {Op("cadd", "remote", "origin", "fetch", "+refs/heads/a/b/*:refs/remotes/origin/a/b/*", "")}
  \cup {Op("cadd", "remote", "origin", "push", v, "") : v \in {"refs/heads/*", ""}}
  \cup {Op("cadd", "remote", "origin", "url", U3, "")}
  \* config unset
  \cup {Op("cunset", k[1], k[2], k[3], p, a) : k \in UnsK, p \in UnsP, a \in Alls}
  \* config replace-all
  \cup {Op("creplace", k[1], k[2], k[3], v, p) : k \in RepK, v \in RepV, p \in RepP}
  \cup {Op("creplace", "remote", "origin", "url", U3, "")}
  \cup {Op("creplace", "remote", "origin", "push", "refs/h*ads/x", "")}
  \* config rename-section
  \cup {Op("crensec", "remote", o, n, "", "") : o \in SecN, n \in SecN}
  \cup {Op("crensec", "branch", o, n, "", "") : o \in BR, n \in {"main", "a/b", "dev"}}
  \* config get
  \cup {Op("cget", k[1], k[2], k[3], p, "") : k \in GetK, p \in {"", "sub:refs/heads"}}

Enabled(o, s) ==
  /\ Defined(o, s)
  /\ o[1] = "mkref" => Len(LogOf(s.logs, o[2])) < LogCap

-----------------------------------------------------------------------------
(* export                                                                  *)

FMOf(s, F(_, _, _)) ==
  {t \in {<<n, src, F(s.cfg, n, src)>> : n \in Remotes(s), src \in FetchSrcs} : t[3] # {}}

ExportSt(s) ==
  LET fm  == FMOf(s, FetchMap)
      fmd == FMOf(s, FetchMapAsCoded)
  IN [r    |-> {<<n, s.cfg.remote[n].url, s.cfg.remote[n].fetch, s.cfg.remote[n].push,
                  IF s.cfg.remote[n].mirror THEN "true" ELSE "false">> : n \in Remotes(s)},
      b    |-> {<<b, s.cfg.branch[b].remote, s.cfg.branch[b].merge>> : b \in DOMAIN s.cfg.branch},
      refs |-> {<<n, s.refs[n]>> : n \in DOMAIN s.refs},
      logs |-> {<<n, [i \in 1..Len(s.logs[n]) |-> <<s.logs[n][i][1], s.logs[n][i][2]>>]>> : n \in DOMAIN s.logs},
      fm   |-> fm,
      fmd  |-> IF fmd = fm THEN {} ELSE fmd,       \* as the pinned code computes it, when different
      fmp  |-> {<<n, src>> \in Remotes(s) \X FetchSrcs : FetchMapPanics(s.cfg, n, src)}]

ExportAlt(a)   == <<a.ok, ExportSt(a.st), a.out>>
ExportAlts(as) == [i \in 1..Len(as) |-> ExportAlt(as[i])]
ExportDevs(ds) == [i \in 1..Len(ds) |-> <<ds[i][1], ExportAlt(ds[i][2])>>]
(* a step is kept as JSON text: the path variable then holds strings only     *)
Step(o, s)     == ToJson(<<o, Class(o, s), ExportAlts(Do(o, s)), ExportDevs(Dev(o, s))>>)

RECURSIVE Run(_, _, _)
Run(ops, s, acc) ==
  IF ops = <<>> THEN [st |-> s, steps |-> acc]
  ELSE LET o == Head(ops) IN
       IF ~(Defined(o, s) /\ Len(Do(o, s)) = 1)
       THEN Assert(FALSE, <<"prefix operation is not determined", o>>)
       ELSE Run(Tail(ops), Do(o, s)[1].st, Append(acc, Step(o, s)))

-----------------------------------------------------------------------------
(* refspec universe                                                        *)

Srcs == {"", "refs/heads/main", "refs/heads/*", "refs/heads/a/b", "refs/heads/a/b/*", "main~4", "main^", "refs/*", "dev"}
Dsts == {"", "refs/remotes/origin/main", "refs/remotes/origin/*", "refs/remotes/or_gin/a/b/*", "refs/heads/main", "refs/*"}
Tags == {"v1", "v1.0.*", "*"}
RSUniverse ==
  {r \in {RS(f, n, "", s, d) : f \in BOOLEAN, n \in BOOLEAN, s \in Srcs, d \in Dsts} : WellFormed(r)}
  \cup {RS(f, FALSE, t, "", "") : f \in BOOLEAN, t \in Tags}
BadTexts == {"refs/heads/*", "refs/h*ads/x:refs/y", "^refs/heads/main:refs/x", "refs/heads/*:refs/x",
             "refs/x:refs/heads/*", "a*b", "refs/heads/**:refs/x/**", "x*y:refs/z"}
MatchNames == {"refs/heads/main", "refs/heads/a/b", "refs/heads/a", "refs/tags/v1", "refs/tags/v1.0.3",
               "refs/remotes/origin/main", "refs/remotes/origin2/main", "refs/remotes/or_gin/a/b/c", "refs/x"}

B2S(b) == IF b THEN "T" ELSE "F"
RecOut(r) == <<B2S(r.force), B2S(r.neg), r.tag, SrcOf(r), DstOf(r)>>
Row(r, name) == <<name, B2S(SrcMatch(r, name)), B2S(DstMatch(r, name)), DstFor(r, name)>>
(* the pinned code on a refspec READ FROM TEXT                             *)
RowAsCoded(r, name) ==
  <<name, B2S(IF r.tag # "" THEN name # "" ELSE SrcMatch(r, name)), B2S(DstMatchAsCoded(r, name)),
    IF DstForPanics(r, name) THEN "PANIC" ELSE DstForAsCoded(r, name)>>

RSLine(s) ==
  LET r == Parse(s)
      c == ParseAsCoded(s)
  IN [rs |-> s,
      kind |-> IF ShortTextPanics(s) THEN "short"
               ELSE IF r = ParseErr THEN "malformed"
               ELSE IF r.tag # "" THEN (IF r.force THEN "tag-forced" ELSE "tag")
               ELSE IF r.force /\ r.neg THEN "force-negate"
               ELSE IF IsGlob(r.src) THEN "glob" ELSE "plain",
      ok |-> B2S(r # ParseErr),
      rec |-> RecOut(r),
      rows |-> {Row(r, n) : n \in MatchNames},
      cok |-> IF ShortTextPanics(s) THEN "PANIC" ELSE B2S(c # ParseErr),
      crec |-> RecOut(c),
      crows |-> {RowAsCoded(c, n) : n \in MatchNames}]

RSTexts == {Str(r) : r \in RSUniverse} \cup BadTexts

-----------------------------------------------------------------------------
Init ==
  \/ /\ Mode = "beh"
     /\ pre \in 1..Len(Prefixes)
     /\ LET run == Run(Prefixes[pre], EmptyState, <<>>) IN
          /\ st = run.st
          /\ PrintT(<<"SCN", ToJson([pre |-> <<>>, steps |-> run.steps])>>)
     /\ path = <<>> /\ dead = FALSE
  \/ /\ Mode = "rs"
     /\ \E s \in RSTexts :
          /\ path = <<s>>
          /\ PrintT(<<"SCN", ToJson(RSLine(s))>>)
     /\ st = EmptyState /\ pre = 0 /\ dead = TRUE

RoundTrip == \A r \in RSUniverse : Parse(Str(r)) = r
BadRejected == \A s \in BadTexts : Parse(s) = ParseErr
ASSUME RoundTrip /\ BadRejected

Next ==
  /\ Mode = "beh"
  /\ ~dead
  /\ Len(path) < D
  /\ \E o \in Ops :
       /\ Enabled(o, st)
       /\ LET alts == Do(o, st) IN
            /\ Assert(\A i \in 1..Len(alts) : StepOK(o, st, alts[i]), <<"StepOK fails", o>>)
            /\ st' = alts[Len(alts)].st
            /\ dead' = (Len(alts) > 1)
            /\ path' = Append(path, Step(o, st))
            /\ pre' = pre
            /\ PrintT(<<"SCN", ToJson([pre |-> Prefixes[pre], steps |-> path'])>>)

Spec == Init /\ [][Next]_vars

Inv == /\ LogsOnlyForRefs(st.refs, st.logs)
       /\ LogChained(st.logs)
=============================================================================
