----------------------------- MODULE Negotiate -----------------------------
(***************************************************************************)
(* Negotiation of wrgl as property C08 talks about it: the side that owns  *)
(* the objects is told, over one or several rounds, which commits the      *)
(* other side wants and which commits it has; it acknowledges the haves it *)
(* recognises and finally chooses the commits and tables to send           *)
(* (apiutils.ClosedSetsFinder: Process rounds, CommitsToSend, TablesToSend)*)
(*                                                                         *)
(* The INPUT of one negotiation is a record                                *)
(*   g       the history [p, t] of module Graph (commits 1..N, parents     *)
(*           before children, times unrelated to topology),                *)
(*   full    the commits whose table object is present,                    *)
(*   refs    the commits some ref points at,                               *)
(*   rounds  a sequence of [w, h, d]: wants and haves of the round as      *)
(*           sequences of hashes (a number outside 1..N is a hash nobody   *)
(*           knows), d the "done" flag,                                    *)
(*   depth   0 = every table, k > 0 = tables of the commits fewer than k   *)
(*           parent steps away from a want.                                *)
(* The OUTPUT is a record                                                  *)
(*   err     the round whose Process refused the wants (0 = none; after a  *)
(*           refusal there are no further rounds and no result),           *)
(*   acks    per completed round the acknowledged haves,                   *)
(*   list    CommitsToSend (0 = an entry that is no commit of g),          *)
(*   tabs    the commits whose table is in TablesToSend (0 = foreign),     *)
(*   gets    the number of object-store reads of the whole negotiation.    *)
(*                                                                         *)
(* Part 1 is the CONTRACT - exactly the clauses of the statement of C08.   *)
(* It never looks at g.t and accepts every parent-first order of the list  *)
(* and every repetition in it.                                             *)
(* Part 2 is the DESIGN, structured as the code structures it              *)
(* (EnsureReachable, FindCommons over the time-ordered frontier shared     *)
(* between the two, EnqueueWants walking from each want and stopping at    *)
(* commons, DeferWant); DesignOK says that it meets the contract for every *)
(* order in which the pending wants may be taken (the code iterates a      *)
(* map).  TLC checks it for every input of the generator (use A).          *)
(* Part 3 holds the two points where the code as written leaves that       *)
(* design (named deviations).  They are not part of the contract.          *)
(***************************************************************************)
EXTENDS Graph

-----------------------------------------------------------------------------
(* Part 1 - the contract                                                   *)

N(in)        == Len(in.g.p)
KnownC(in)   == Commits(in.g)
AncOf(A, S)  == UNION {A[c] : c \in S \cap DOMAIN A}

WantsOf(rounds) == UNION {Range(rounds[i].w) : i \in 1..Len(rounds)}

Reach(A, refs) == AncOf(A, refs)                 \* reachable from some ref

(* "wants not reachable from any ref are refused".  The statement is       *)
(* silent about a want that is reachable but whose table is absent (a      *)
(* shallow commit): refusing it as well is allowed, nothing else is.       *)
MustRefuse(A, in, ws) == \E w \in ws : w \notin Reach(A, in.refs)
MayRefuse(A, in, ws)  == \E w \in ws : w \notin Reach(A, in.refs) \/ w \notin in.full

RefuseOK(A, in, out) ==
  /\ out.err \in 0..Len(in.rounds)
  /\ out.err # 0 => MayRefuse(A, in, Range(in.rounds[out.err].w))
  /\ \A i \in 1..Len(in.rounds) :
       MustRefuse(A, in, Range(in.rounds[i].w)) => (out.err # 0 /\ out.err <= i)

(* the rest speaks about a negotiation that was not refused                *)
Acked(out)   == UNION {Range(out.acks[i]) : i \in 1..Len(out.acks)}
Have(A, out) == AncOf(A, Acked(out))             \* what the other side is taken to have
Sent(out)    == Range(out.list)

(* only haves of the same round that are commits of the history may be     *)
(* acknowledged (which of them, and how many, the statement leaves open)   *)
AcksOK(in, out) ==
  /\ Len(out.acks) = Len(in.rounds)
  /\ \A i \in 1..Len(out.acks) : Range(out.acks[i]) \subseteq Range(in.rounds[i].h) \cap KnownC(in)

(* In the clauses below  W = the wants of all rounds, S = Sent(out),       *)
(* H = Have(A, out), D = DistMap(in.g, W); they are passed in so that TLC  *)
(* computes them once per output.                                          *)
Closed(A, in, W, S, H) == \A w \in W \cap KnownC(in) : A[w] \subseteq S \cup H

(* every entry: each parent is common or appears earlier in the list.      *)
(* (Lemma used by the recorders, which log first occurrences only: the     *)
(* clause holds for a list iff it holds for the list of first occurrences, *)
(* because the first occurrence of a commit is the one with the fewest     *)
(* predecessors.)                                                          *)
ParentFirst(in, list, H) ==
  \A i \in 1..Len(list) :
    list[i] \in KnownC(in) =>
      \A p \in Par(in.g, list[i]) : p \in H \/ \E j \in 1..(i - 1) : list[j] = p

NoExtra(A, W, S) == S \subseteq AncOf(A, W)

(* Dist[c]: length of the shortest parent path from some want to c;        *)
(* N+1 = not an ancestor of any want.  Children have larger numbers than   *)
(* their parents, so the map is filled from the youngest commit down.      *)
Min2(a, b) == IF a <= b THEN a ELSE b
SetMin(S, dflt) == IF S = {} THEN dflt ELSE CHOOSE x \in S : \A y \in S : x <= y

RECURSIVE DistDown(_, _, _, _)
DistDown(g, W, k, D) ==      \* D: function on (k+1)..n already filled
  IF k = 0 THEN D
  ELSE LET n    == Len(g.p)
           viaC == {D[d] + 1 : d \in {d \in (k + 1)..n : k \in Par(g, d) /\ D[d] <= n}}
           v    == IF k \in W THEN 0 ELSE SetMin(viaC, n + 1)
       IN DistDown(g, W, k - 1, [c \in k..n |-> IF c = k THEN v ELSE D[c]])
DistMap(g, W) == DistDown(g, W, Len(g.p), <<>>)

InDepth(D, depth, c) == depth = 0 \/ D[c] < depth

(* "tables are selected for exactly the commits within the requested depth *)
(* (all of them when depth is 0)".  For a commit that is listed although   *)
(* the other side has it (an ancestor of an acknowledged common) the       *)
(* statement does not say along which paths the depth is measured - the    *)
(* shortest path in the whole history may run through commons, where no    *)
(* sender walks - so for those either choice is accepted; for every other  *)
(* listed commit all parent paths from the wants avoid the commons and the *)
(* selection is fixed.                                                     *)
TablesUpper(in, tabs, S, D) ==
  tabs \subseteq {c \in S \cap KnownC(in) : InDepth(D, in.depth, c)}
TablesMissing(in, tabs, S, H, D) ==
  {c \in (S \cap KnownC(in)) \ H : InDepth(D, in.depth, c)} \ tabs
TablesOK(in, tabs, S, H, D) == TablesUpper(in, tabs, S, D) /\ TablesMissing(in, tabs, S, H, D) = {}

(* "terminates in time polynomial in the history size", decided as a bound *)
(* on the object-store reads of the whole negotiation                      *)
Poly(n)         == 8 * n * n + 64 * n
WorkOK(in, out) == out.gets <= Poly(N(in))

(* A = AncMap(in.g) and D = DistMap(in.g, wants) are passed in: they are   *)
(* the same for every negotiation over one history and one want set        *)
ResultOK(A, D, in, out) ==
  LET W == WantsOf(in.rounds)
      S == Sent(out)
      H == Have(A, out)
  IN /\ AcksOK(in, out) /\ Closed(A, in, W, S, H) /\ ParentFirst(in, out.list, H)
     /\ NoExtra(A, W, S) /\ TablesOK(in, out.tabs, S, H, D)

ContractOKWith(A, D, in, out) ==
  /\ WorkOK(in, out)
  /\ RefuseOK(A, in, out)
  /\ out.err = 0 => ResultOK(A, D, in, out)
ContractOK(in, out) ==
  ContractOKWith(AncMap(in.g), DistMap(in.g, WantsOf(in.rounds)), in, out)

(* Violation signatures  negotiate/<clause>/<kind>[/<feature class>], one  *)
(* per clause an output misses.  Feature classes are facts of the          *)
(* scenario: for a missing table, whether a commit whose table is missing  *)
(* is an ancestor of two or more wants; for the work bound, whether the    *)
(* history has so many parent paths below the wants that walks which       *)
(* follow every path (Part 3) can account for half the bound.              *)
SharedByWants(A, in, c) ==
  Cardinality({w \in WantsOf(in.rounds) \cap KnownC(in) : c \in A[w]}) >= 2

WorkClass(in, pathWork) ==
  IF (Len(in.rounds) + 1) * pathWork > Poly(N(in)) \div 2 THEN "path-explosion" ELSE "other"
WorkSig(in, pathWork) == "negotiate/work/exponential/" \o WorkClass(in, pathWork)

ResultSigs(A, D, in, out) ==
  LET W == WantsOf(in.rounds)
      S == Sent(out)
      H == Have(A, out)
      M == TablesMissing(in, out.tabs, S, H, D)
  IN (IF AcksOK(in, out) THEN {} ELSE {"negotiate/acks/foreign"})
     \cup (IF Closed(A, in, W, S, H) THEN {} ELSE {"negotiate/closed/missing-ancestor"})
     \cup (IF ParentFirst(in, out.list, H) THEN {} ELSE {"negotiate/order/child-before-parent"})
     \cup (IF NoExtra(A, W, S) THEN {} ELSE {"negotiate/extra/unreachable-from-wants"})
     \cup (IF TablesUpper(in, out.tabs, S, D) THEN {} ELSE {"negotiate/tables/extra/beyond-depth"})
     \cup (IF M = {} THEN {}
           ELSE IF \E c \in M : SharedByWants(A, in, c) THEN {"negotiate/tables/missing/shared-by-wants"}
           ELSE {"negotiate/tables/missing/single-want"})

(* pathWork: the fetches of walks from the wants that follow every parent  *)
(* path (PathWork in Part 3); only names the class of a work violation     *)
AllSigs(A, D, in, out, pathWork) ==
       (IF WorkOK(in, out) THEN {} ELSE {WorkSig(in, pathWork)})
  \cup (IF RefuseOK(A, in, out) THEN {}
        ELSE IF out.err = 0 THEN {"negotiate/refuse/missing"} ELSE {"negotiate/refuse/spurious"})
  \cup (IF out.err = 0 THEN ResultSigs(A, D, in, out) ELSE {})

-----------------------------------------------------------------------------
(* Part 2 - the design                                                     *)
(* The state of a finder: commons (acknowledged so far), wants (pending),  *)
(* lists (one per want whose closed set is settled, in the order settled), *)
(* tabs (commits whose table is selected), acks (per round), err.          *)

SetToSeq(S) ==                                  \* ascending
  LET RECURSIVE F(_)
      F(T) == IF T = {} THEN <<>> ELSE LET m == SetMin(T, 0) IN <<m>> \o F(T \ {m})
  IN F(S)

(* CommitsQueue.PopUntil on the frontier queue of Graph: pop, inserting    *)
(* parents, until x is popped or the frontier is exhausted                 *)
RECURSIVE PopUntil(_, _, _)
PopUntil(g, Q, x) ==
  LET r == QPopIP(g, Q) IN
  IF r.c = Nil THEN [found |-> FALSE, Q |-> r.Q]
  ELSE IF r.c = x THEN [found |-> TRUE, Q |-> r.Q]
  ELSE PopUntil(g, r.Q, x)

(* ensureWantsAreReachable: a want is confirmed when the frontier started  *)
(* at the refs has seen it (or reaches it now) and its table is present;   *)
(* an exhausted frontier ends the loop                                     *)
RECURSIVE EnsureReachable(_, _, _, _, _)
EnsureReachable(g, full, Q, ws, conf) ==
  IF ws = <<>> THEN [Q |-> Q, conf |-> conf]
  ELSE LET w   == Head(ws)
           add == IF w \in full THEN conf \cup {w} ELSE conf
       IN IF w \in Q.seen THEN EnsureReachable(g, full, Q, Tail(ws), add)
          ELSE LET r == PopUntil(g, Q, w) IN
               IF r.found THEN EnsureReachable(g, full, r.Q, Tail(ws), add)
               ELSE [Q |-> r.Q, conf |-> conf]

(* findCommons on the SAME frontier: a have is acknowledged when the       *)
(* frontier has seen it or reaches it; haves that are ancestors of a have  *)
(* acknowledged earlier in the round are passed over; an exhausted         *)
(* frontier ends the loop.  (The inner walk that collects the ancestors    *)
(* of a new common, with its seen set, is the ancestor set A[h].)          *)
RECURSIVE FindCommons(_, _, _, _, _, _)
FindCommons(g, A, Q, hs, coms, anc) ==
  IF hs = <<>> THEN [Q |-> Q, coms |-> coms]
  ELSE LET h == Head(hs) IN
       IF h \in anc THEN FindCommons(g, A, Q, Tail(hs), coms, anc)
       ELSE IF h \in Q.seen THEN FindCommons(g, A, Q, Tail(hs), Append(coms, h), anc \cup A[h])
       ELSE LET r == PopUntil(g, Q, h) IN
            IF r.found THEN FindCommons(g, A, r.Q, Tail(hs), Append(coms, h), anc \cup A[h])
            ELSE [Q |-> r.Q, coms |-> coms]

(* The walk from one want, breadth first with a visited set, level by      *)
(* level (front = the commits first reached at distance d).  It never      *)
(* enters a common.  A commit already handled for an earlier want of the   *)
(* same pass (seen) is not listed again; the walk passes through it only   *)
(* while it is within depth (its table is then selected for this want),    *)
(* unless asCoded - then it always stops there (Part 3).                   *)
(* Result: vis (everything reached), new (to be listed), tabs.             *)
RECURSIVE Levels(_, _, _, _, _, _, _, _)
Levels(g, commons, seen, depth, asCoded, front, d, acc) ==
  IF front = {} THEN acc
  ELSE LET fresh == front \ acc.vis
           exp   == {c \in fresh \ commons :
                       c \notin seen \/ (~asCoded /\ depth > 0 /\ d < depth)}
           nxt   == UNION {Par(g, c) : c \in exp}
       IN Levels(g, commons, seen, depth, asCoded, nxt, d + 1,
                 [vis  |-> acc.vis \cup fresh,
                  new  |-> acc.new \cup (exp \ seen),
                  tabs |-> acc.tabs \cup {c \in exp : depth = 0 \/ d < depth}])

WalkWant(g, commons, seen, depth, asCoded, w) ==
  Levels(g, commons, seen, depth, asCoded, {w}, 0, [vis |-> {}, new |-> {}, tabs |-> {}])

(* Emission of the commits to list for one want: depth-first post-order    *)
(* from the want over the new commits, parents in the order stored, so     *)
(* every commit comes after all its new parents                            *)
RECURSIVE Post(_, _, _, _), PostAll(_, _, _, _)
Post(g, S, acc, c) ==
  IF c \notin S \/ c \in Range(acc) THEN acc
  ELSE Append(PostAll(g, S, acc, g.p[c]), c)
PostAll(g, S, acc, ps) ==
  IF ps = <<>> THEN acc ELSE PostAll(g, S, Post(g, S, acc, Head(ps)), Tail(ps))

(* enqueueWants: the pending wants in the order `order`; a want whose walk *)
(* reaches a root while commons exist, in a round that is not the last, is *)
(* deferred whole (DeferWant): more haves may still cut its walk short     *)
RECURSIVE EnqueueWants(_, _, _, _, _, _, _, _)
EnqueueWants(g, S, order, mayDefer, depth, asCoded, seen, deferred) ==
  IF order = <<>> THEN [S EXCEPT !.wants = deferred]
  ELSE LET w == Head(order)
           r == WalkWant(g, S.commons, seen, depth, asCoded, w)
           defer == mayDefer /\ S.commons # {} /\ \E c \in r.new : g.p[c] = <<>>
       IN IF defer
          THEN EnqueueWants(g, S, Tail(order), mayDefer, depth, asCoded, seen, deferred \cup {w})
          ELSE EnqueueWants(g, [S EXCEPT !.lists = Append(@, Post(g, r.new, <<>>, w)),
                                         !.tabs  = @ \cup r.tabs],
                            Tail(order), mayDefer, depth, asCoded, seen \cup r.vis, deferred)

(* the order in which a pass takes the pending wants: by rank in prio, a   *)
(* permutation of the hashes (stands for the iteration order of the map)   *)
RECURSIVE ByPrio(_, _)
ByPrio(prio, S) ==
  IF prio = <<>> THEN <<>>
  ELSE (IF Head(prio) \in S THEN <<Head(prio)>> ELSE <<>>) \o ByPrio(Tail(prio), S)

FinderInit == [commons |-> {}, wants |-> {}, lists |-> <<>>, tabs |-> {}, acks |-> <<>>, err |-> 0]

(* one Process call (round number i)                                       *)
ProcessRound(in, A, S, i, prio, asCoded) ==
  LET g   == in.g
      rd  == in.rounds[i]
      Q0  == QNew(g, SetToSeq(in.refs))
      er  == IF rd.w = <<>> THEN [Q |-> Q0, conf |-> {}]
             ELSE EnsureReachable(g, in.full, Q0, rd.w, {})
  IN IF ~(Range(rd.w) \subseteq er.conf) THEN [S EXCEPT !.err = i]
     ELSE LET fc == FindCommons(g, A, er.Q, rd.h, <<>>, {})
              S1 == [S EXCEPT !.wants   = @ \cup Range(rd.w),
                              !.commons = @ \cup Range(fc.coms),
                              !.acks    = Append(@, fc.coms)]
          IN EnqueueWants(g, S1, ByPrio(prio, S1.wants), ~rd.d, in.depth, asCoded, {}, {})

RECURSIVE RunRounds(_, _, _, _, _, _)
RunRounds(in, A, S, i, prio, asCoded) ==
  IF i > Len(in.rounds) \/ S.err # 0 THEN S
  ELSE RunRounds(in, A, ProcessRound(in, A, S, i, prio, asCoded), i + 1, prio, asCoded)

RECURSIVE Concat(_)
Concat(ss) == IF ss = <<>> THEN <<>> ELSE Head(ss) \o Concat(Tail(ss))

(* the whole negotiation: rounds, then CommitsToSend / TablesToSend, which *)
(* settle whatever is still pending, without deferring                     *)
DesignOut(in, A, prio, asCoded) ==
  LET S == RunRounds(in, A, FinderInit, 1, prio, asCoded)
      F == IF S.err # 0 THEN S
           ELSE EnqueueWants(in.g, S, ByPrio(prio, S.wants), FALSE, in.depth, asCoded, {}, {})
  IN [err |-> F.err, acks |-> F.acks, list |-> Concat(F.lists), tabs |-> F.tabs, gets |-> 0]

RECURSIVE Perms(_)
Perms(S) == IF S = {} THEN {<<>>} ELSE UNION {{<<x>> \o r : r \in Perms(S \ {x})} : x \in S}

(* the orders of the wants worth distinguishing: every order for up to     *)
(* three wants, otherwise ascending and descending                         *)
Prios(W) ==
  IF Cardinality(W) <= 3 THEN Perms(W)
  ELSE {SetToSeq(W), [i \in 1..Cardinality(W) |-> SetToSeq(W)[Cardinality(W) + 1 - i]]}

(* use (A): the design meets the contract on this input                    *)
DesignOKWith(A, D, in) ==
  \A prio \in Prios(WantsOf(in.rounds)) : ContractOKWith(A, D, in, DesignOut(in, A, prio, FALSE))
DesignOK(in) == DesignOKWith(AncMap(in.g), DistMap(in.g, WantsOf(in.rounds)), in)

-----------------------------------------------------------------------------
(* Part 3 - the code as written (named deviations)                         *)
(* TablesAsCoded: a commit handled for an earlier want is skipped for a    *)
(*   later one even when it is within depth of the later one (asCoded in   *)
(*   Levels); CodedMissesTables says that for some order of the wants the  *)
(*   selection then misses the contract.                                   *)
(* WorkAsCoded: the walk from a want has no visited set: a commit is       *)
(*   fetched once per parent path that reaches it from the want without    *)
(*   entering a stop.  CodedVisits counts those fetches for one want (the  *)
(*   list holds as many entries); on a ladder of diamonds it doubles per   *)
(*   level.                                                                *)

CodedMissesTablesWith(A, D, in) ==
  \E prio \in Prios(WantsOf(in.rounds)) :
    LET out == DesignOut(in, A, prio, TRUE) IN
    out.err = 0 /\ ~TablesOK(in, out.tabs, Sent(out), Have(A, out), D)

Mult(s, x) == Cardinality({i \in 1..Len(s) : s[i] = x})
SatAdd(a, b) == Min2(a + b, 100000000)          \* counts saturate (TLC integers are 32 bit)

RECURSIVE PathsDown(_, _, _, _, _)
PathsDown(g, stop, w, k, P) ==      \* P: function on (k+1)..n already filled
  IF k = 0 THEN P
  ELSE LET n == Len(g.p)
           RECURSIVE Sum(_)
           Sum(ds) == IF ds = {} THEN 0
                      ELSE LET d == CHOOSE x \in ds : TRUE
                           IN SatAdd(Min2(P[d] * Mult(g.p[d], k), 100000000), Sum(ds \ {d}))
           v == IF k \in stop THEN 0
                ELSE SatAdd(IF k = w THEN 1 ELSE 0, Sum({d \in (k + 1)..n : k \in Par(g, d)}))
       IN PathsDown(g, stop, w, k - 1, [c \in k..n |-> IF c = k THEN v ELSE P[c]])

CodedVisits(g, stop, w) ==     \* saturating
  LET P == PathsDown(g, stop, w, Len(g.p), <<>>)
      RECURSIVE Tot(_)
      Tot(k) == IF k = 0 THEN 0 ELSE SatAdd(P[k], Tot(k - 1))
  IN Tot(Len(g.p))

(* fetches of one walk per want with no stop at all (saturating)           *)
PathWork(g, W) ==
  LET RECURSIVE F(_)
      F(T) == IF T = {} THEN 0
              ELSE LET w == CHOOSE x \in T : TRUE IN SatAdd(CodedVisits(g, {}, w), F(T \ {w}))
  IN F(W \cap Commits(g))
=============================================================================
