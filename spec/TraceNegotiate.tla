--------------------------- MODULE TraceNegotiate ---------------------------
(***************************************************************************)
(* Use (C) of Negotiate: a trace recorded from the REAL code               *)
(*   reset | commit c ps t full | refs tips |                              *)
(*   process round depth wants haves done acks err | result depth commits  *)
(*   len tables gets cut err                                               *)
(* is accepted iff every negotiation in it satisfies the contract of       *)
(* Negotiate for the history, refs and tables logged so far.  Ancestor     *)
(* sets, reachability from the refs, distances from the wants and the work *)
(* bound are computed here, by the specification; the harness only reports *)
(* what it asked the real code and what the real code answered.            *)
(*                                                                         *)
(* A process event is judged on its own (refusal, acknowledgements); the   *)
(* result event on the whole negotiation.  `commits` holds the first       *)
(* occurrence of every entry of CommitsToSend in list order (see the lemma *)
(* at ParentFirst), `len` its raw length.  cut = the real computation was  *)
(* cut off at twice the work bound, there is no result to judge.           *)
(*                                                                         *)
(* KnownDeviations  signatures of recorded findings: an event that misses  *)
(*   the contract only in these ways is consumed, the signatures are       *)
(*   printed ("SCN" line) so that the driver can report KNOWN-FINDING, and *)
(*   validation goes on.  {} = pure contract.                              *)
(* Classify  TRUE: labelling pass over a trace that validation rejected:   *)
(*   every event is consumed and every miss printed with its signatures.   *)
(***************************************************************************)
EXTENDS Negotiate, TraceBase

CONSTANTS KnownDeviations, Classify

VARIABLES g, anc, full, refs,
          rounds,   \* the rounds of the negotiation in progress
          acks,     \* their acknowledgements
          l
vars == <<g, anc, full, refs, rounds, acks, l>>

Ev == TLog[l]
Report(sigs) == PrintT(<<"SCN", ToJson([line |-> l, sigs |-> sigs])>>)

Judge(sigs) ==
  IF sigs = {} THEN TRUE
  ELSE IF Classify THEN Report(sigs)
  ELSE sigs \subseteq KnownDeviations /\ Report(sigs)

TReset == /\ Ev.op = "reset"
          /\ g' = [p |-> <<>>, t |-> <<>>] /\ anc' = <<>> /\ full' = {} /\ refs' = {}
          /\ rounds' = <<>> /\ acks' = <<>>

TCommit == /\ Ev.op = "commit"
           /\ Ev.c = Len(g.p) + 1
           /\ NoDup(Ev.ps) /\ Range(Ev.ps) \subseteq Commits(g)
           /\ g' = [p |-> Append(g.p, Ev.ps), t |-> Append(g.t, Ev.t)]
           /\ anc' = AncStep(anc, Ev.c, Range(Ev.ps))
           /\ full' = IF Ev.full THEN full \cup {Ev.c} ELSE full
           /\ rounds' = <<>> /\ acks' = <<>>
           /\ UNCHANGED refs

TRefs == /\ Ev.op = "refs"
         /\ Range(Ev.tips) \subseteq Commits(g)
         /\ refs' = Range(Ev.tips)
         /\ rounds' = <<>> /\ acks' = <<>>
         /\ UNCHANGED <<g, anc, full>>

In(rs, depth) == [g |-> g, full |-> full, refs |-> refs, rounds |-> rs, depth |-> depth]

(* one Process call: round 1 opens a negotiation                           *)
TProcess ==
  /\ Ev.op = "process"
  /\ LET rs0 == IF Ev.round = 1 THEN <<>> ELSE rounds
         as0 == IF Ev.round = 1 THEN <<>> ELSE acks
         rs  == Append(rs0, [w |-> Ev.wants, h |-> Ev.haves, d |-> Ev.done])
         as  == IF Ev.err = 0 THEN Append(as0, Ev.acks) ELSE as0
         in  == In(rs, Ev.depth)
         out == [err |-> IF Ev.err = 1 THEN Ev.round ELSE 0, acks |-> as, list |-> <<>>, tabs |-> {}, gets |-> 0]
     IN /\ Ev.round = Len(rs0) + 1
        /\ Len(as0) = Len(rs0)                       \* no call after a failed one
        /\ Judge(   (IF Ev.err = 2 THEN {"negotiate/error/unexpected"} ELSE {})
                 \cup (IF RefuseOK(anc, in, out) THEN {}
                       ELSE IF Ev.err = 1 THEN {"negotiate/refuse/spurious"} ELSE {"negotiate/refuse/missing"})
                 \cup (IF Ev.err # 0 \/ AcksOK(in, out) THEN {} ELSE {"negotiate/acks/foreign"}))
        /\ rounds' = rs /\ acks' = as
  /\ UNCHANGED <<g, anc, full, refs>>

(* CommitsToSend / TablesToSend of the negotiation in progress             *)
TResult ==
  /\ Ev.op = "result"
  /\ rounds # <<>>
  /\ LET in  == In(rounds, Ev.depth)
         W   == WantsOf(rounds)
         pw  == PathWork(g, W)
     IN IF Ev.cut
        THEN /\ Ev.gets > Poly(Len(g.p))
             /\ Judge({WorkSig(in, pw)})
        ELSE /\ Len(acks) = Len(rounds)
             /\ Judge(   (IF Ev.err # 0 THEN {"negotiate/error/unexpected"} ELSE {})
                      \cup AllSigs(anc, DistMap(g, W), in,
                                   [err |-> 0, acks |-> acks, list |-> Ev.commits,
                                    tabs |-> Range(Ev.tables), gets |-> Ev.gets], pw))
  /\ rounds' = <<>> /\ acks' = <<>>
  /\ UNCHANGED <<g, anc, full, refs>>

Init == /\ g = [p |-> <<>>, t |-> <<>>] /\ anc = <<>> /\ full = {} /\ refs = {}
        /\ rounds = <<>> /\ acks = <<>> /\ l = 1
Next == /\ l <= Len(TLog)
        /\ l' = l + 1
        /\ (TReset \/ TCommit \/ TRefs \/ TProcess \/ TResult)
Spec == Init /\ [][Next]_vars

Constr == Mark(l)
Inv == Len(anc) = Len(g.p) /\ Len(g.t) = Len(g.p) /\ Len(acks) <= Len(rounds)
=============================================================================
